(* Byte strings for the wire models (C03): big-endian 32-bit sizes, equality,
   N-indexed take/drop, and the compact chunk notation in which the Go harness
   writes byte strings into cases files (explicit [Init.Byte.byte] constructors
   are the only literals Coq parses at an acceptable speed; long fillers are
   regenerated from a seed instead of being written out). *)
From Coq Require Import List NArith Bool Lia.
From Coq Require Import Init.Byte.
From Coq Require Strings.Byte.
Import ListNotations.
Local Open Scope N_scope.

Definition bytes := list byte.

Definition N_of_byte (b : byte) : N := Strings.Byte.to_N b.

(* total conversion; callers pass [n mod 256] *)
Definition byte_of_N (n : N) : byte :=
  match Strings.Byte.of_N n with Some b => b | None => x00 end.

Lemma N_of_byte_of_N n : n < 256 -> N_of_byte (byte_of_N n) = n.
Proof.
  intros Hn. unfold N_of_byte, byte_of_N.
  destruct (Strings.Byte.of_N n) as [b|] eqn:E.
  - now apply Strings.Byte.to_of_N.
  - apply Strings.Byte.of_N_None_iff in E. lia.
Qed.

Lemma byte_of_N_of_byte b : byte_of_N (N_of_byte b) = b.
Proof. unfold N_of_byte, byte_of_N. now rewrite Strings.Byte.of_to_N. Qed.

Lemma N_of_byte_lt b : N_of_byte b < 256.
Proof. unfold N_of_byte. pose proof (Strings.Byte.to_N_bounded b). lia. Qed.

(* ---- lengths as N --------------------------------------------------- *)

Definition lenN {A} (l : list A) : N := N.of_nat (length l).

Lemma lenN_app {A} (a b : list A) : lenN (a ++ b) = lenN a + lenN b.
Proof. unfold lenN. rewrite app_length. lia. Qed.

Lemma lenN_nil {A} : lenN (@nil A) = 0.
Proof. reflexivity. Qed.

Lemma lenN_cons {A} (x : A) l : lenN (x :: l) = 1 + lenN l.
Proof. unfold lenN. cbn [length]. lia. Qed.

(* [takeN n l] / [dropN n l]: the first n elements / the rest, n : N *)
Fixpoint takeN {A} (n : N) (l : list A) : list A :=
  match l with
  | [] => []
  | x :: r => if n =? 0 then [] else x :: takeN (N.pred n) r
  end.

Fixpoint dropN {A} (n : N) (l : list A) : list A :=
  match l with
  | [] => []
  | x :: r => if n =? 0 then l else dropN (N.pred n) r
  end.

Lemma takeN_dropN {A} n (l : list A) : takeN n l ++ dropN n l = l.
Proof.
  revert n; induction l as [|x r IH]; intros n; cbn [takeN dropN]; [reflexivity|].
  destruct (n =? 0); [reflexivity|]. cbn [app]. now rewrite IH.
Qed.

Lemma takeN_0 {A} (l : list A) : takeN 0 l = [].
Proof. destruct l; reflexivity. Qed.

Lemma dropN_0 {A} (l : list A) : dropN 0 l = l.
Proof. destruct l; reflexivity. Qed.

Lemma takeN_all {A} n (l : list A) : lenN l <= n -> takeN n l = l.
Proof.
  revert n; induction l as [|x r IH]; intros n H; cbn [takeN]; [reflexivity|].
  rewrite lenN_cons in H. destruct (n =? 0) eqn:E; [apply N.eqb_eq in E; lia|].
  rewrite IH; [reflexivity|lia].
Qed.

Lemma dropN_all {A} n (l : list A) : lenN l <= n -> dropN n l = [].
Proof.
  revert n; induction l as [|x r IH]; intros n H; cbn [dropN]; [reflexivity|].
  rewrite lenN_cons in H. destruct (n =? 0) eqn:E; [apply N.eqb_eq in E; lia|].
  apply IH. lia.
Qed.

Lemma lenN_takeN {A} n (l : list A) : lenN (takeN n l) = N.min n (lenN l).
Proof.
  revert n; induction l as [|x r IH]; intros n; cbn [takeN].
  - rewrite lenN_nil. lia.
  - destruct (n =? 0) eqn:E.
    + apply N.eqb_eq in E. subst. rewrite lenN_nil. lia.
    + apply N.eqb_neq in E. rewrite !lenN_cons, IH. lia.
Qed.

Lemma lenN_dropN {A} n (l : list A) : lenN (dropN n l) = lenN l - n.
Proof.
  revert n; induction l as [|x r IH]; intros n; cbn [dropN].
  - rewrite lenN_nil. lia.
  - destruct (n =? 0) eqn:E.
    + apply N.eqb_eq in E. subst. lia.
    + apply N.eqb_neq in E. rewrite lenN_cons, IH. lia.
Qed.

Lemma takeN_app_exact {A} (a b : list A) : takeN (lenN a) (a ++ b) = a.
Proof.
  induction a as [|x r IH]; cbn [app].
  - rewrite lenN_nil. apply takeN_0.
  - cbn [takeN]. rewrite lenN_cons.
    destruct (1 + lenN r =? 0) eqn:E; [apply N.eqb_eq in E; lia|].
    replace (N.pred (1 + lenN r)) with (lenN r) by lia. now rewrite IH.
Qed.

Lemma dropN_app_exact {A} (a b : list A) : dropN (lenN a) (a ++ b) = b.
Proof.
  induction a as [|x r IH]; cbn [app].
  - rewrite lenN_nil. apply dropN_0.
  - cbn [dropN]. rewrite lenN_cons.
    destruct (1 + lenN r =? 0) eqn:E; [apply N.eqb_eq in E; lia|].
    replace (N.pred (1 + lenN r)) with (lenN r) by lia. exact IH.
Qed.

(* taking n from a ++ b when n reaches into b *)
Lemma takeN_app_ge {A} n (a b : list A) :
  lenN a <= n -> takeN n (a ++ b) = a ++ takeN (n - lenN a) b.
Proof.
  revert n; induction a as [|x r IH]; intros n H; cbn [app].
  - rewrite lenN_nil, N.sub_0_r. reflexivity.
  - rewrite lenN_cons in *. cbn [takeN].
    destruct (n =? 0) eqn:E; [apply N.eqb_eq in E; lia|].
    rewrite IH by lia. replace (N.pred n - lenN r) with (n - (1 + lenN r)) by lia. reflexivity.
Qed.

Lemma dropN_app_ge {A} n (a b : list A) :
  lenN a <= n -> dropN n (a ++ b) = dropN (n - lenN a) b.
Proof.
  revert n; induction a as [|x r IH]; intros n H; cbn [app].
  - rewrite lenN_nil, N.sub_0_r. reflexivity.
  - rewrite lenN_cons in *. cbn [dropN].
    destruct (n =? 0) eqn:E; [apply N.eqb_eq in E; lia|].
    rewrite IH by lia. f_equal. lia.
Qed.

Lemma takeN_app_lt {A} n (a b : list A) :
  n <= lenN a -> takeN n (a ++ b) = takeN n a.
Proof.
  revert n; induction a as [|x r IH]; intros n H; cbn [app].
  - rewrite lenN_nil in H. replace n with 0 by lia. now rewrite !takeN_0.
  - rewrite lenN_cons in H. cbn [takeN].
    destruct (n =? 0) eqn:E; [reflexivity|]. apply N.eqb_neq in E.
    rewrite IH by lia. reflexivity.
Qed.

Lemma dropN_app_lt {A} n (a b : list A) :
  n <= lenN a -> dropN n (a ++ b) = dropN n a ++ b.
Proof.
  revert n; induction a as [|x r IH]; intros n H; cbn [app].
  - rewrite lenN_nil in H. replace n with 0 by lia. now rewrite !dropN_0.
  - rewrite lenN_cons in H. cbn [dropN].
    destruct (n =? 0) eqn:E; [reflexivity|]. apply N.eqb_neq in E.
    apply IH. lia.
Qed.

(* ---- big-endian uint32 ----------------------------------------------- *)

(* binary.Write(w, binary.BigEndian, uint32(n)) *)
Definition be32 (n : N) : bytes :=
  [byte_of_N ((n / 16777216) mod 256); byte_of_N ((n / 65536) mod 256);
   byte_of_N ((n / 256) mod 256); byte_of_N (n mod 256)].

(* binary.BigEndian.Uint32 of the bytes read (any length: base-256 numeral) *)
Definition de32 (h : bytes) : N :=
  fold_left (fun a b => a * 256 + N_of_byte b) h 0.

Lemma lenN_be32 n : lenN (be32 n) = 4.
Proof. reflexivity. Qed.

Lemma de32_be32 n : n < 4294967296 -> de32 (be32 n) = n.
Proof.
  intros Hn. unfold de32, be32. cbn [fold_left].
  rewrite !N_of_byte_of_N by (apply N.mod_lt; lia).
  pose proof (N.div_mod n 256 ltac:(lia)) as H0.
  pose proof (N.div_mod (n / 256) 256 ltac:(lia)) as H1.
  pose proof (N.div_mod (n / 256 / 256) 256 ltac:(lia)) as H2.
  rewrite N.div_div in H1, H2 by lia. rewrite N.div_div in H2 by lia.
  change (256 * 256) with 65536 in *. change (65536 * 256) with 16777216 in *.
  assert (n / 16777216 < 256) as H3.
  { apply N.div_lt_upper_bound; lia. }
  rewrite (N.mod_small (n / 16777216) 256) by lia.
  pose proof (N.mod_lt n 256 ltac:(lia)).
  pose proof (N.mod_lt (n / 256) 256 ltac:(lia)).
  pose proof (N.mod_lt (n / 65536) 256 ltac:(lia)).
  lia.
Qed.

(* ---- equality --------------------------------------------------------- *)

Fixpoint bytes_eqb (a b : bytes) : bool :=
  match a, b with
  | [], [] => true
  | x :: a', y :: b' => Strings.Byte.eqb x y && bytes_eqb a' b'
  | _, _ => false
  end.

Lemma bytes_eqb_eq a b : bytes_eqb a b = true <-> a = b.
Proof.
  revert b; induction a as [|x a IH]; intros [|y b]; cbn [bytes_eqb]; try (split; congruence).
  rewrite andb_true_iff, IH. split.
  - intros [H1 H2]. apply Strings.Byte.byte_dec_bl in H1. congruence.
  - intros H. injection H as -> ->. split; [now apply Strings.Byte.byte_dec_lb|reflexivity].
Qed.

Lemma bytes_eqb_refl a : bytes_eqb a a = true.
Proof. now apply bytes_eqb_eq. Qed.

Fixpoint list_eqb {A} (e : A -> A -> bool) (a b : list A) : bool :=
  match a, b with
  | [], [] => true
  | x :: a', y :: b' => e x y && list_eqb e a' b'
  | _, _ => false
  end.

Lemma list_eqb_eq {A} (e : A -> A -> bool) :
  (forall x y, e x y = true <-> x = y) -> forall a b, list_eqb e a b = true <-> a = b.
Proof.
  intros He. induction a as [|x a IH]; intros [|y b]; cbn [list_eqb]; try (split; congruence).
  rewrite andb_true_iff, He, IH. split; [intros [-> ->]; reflexivity|].
  intros H; injection H as -> ->; split; reflexivity.
Qed.

(* ---- the chunk notation of cases files ---------------------------------- *)

(* deterministic filler: 16-bit linear congruential generator (cheap under
   vm_compute: no division), the high byte of the state per step;
   the Go harness (harness/cmd/c03/bytes.go, lcgFill) computes the same bytes *)
Fixpoint lcg_fill (n : nat) (s : N) : bytes :=
  match n with
  | O => []
  | S k => let s' := N.land (141 * s + 28411) 65535 in
           byte_of_N (N.shiftr s' 8) :: lcg_fill k s'
  end.

Inductive chunk :=
| L (b : bytes)              (* literal *)
| G (seed len : N)           (* len bytes of lcg_fill from seed *)
| R (b : byte) (len : N)     (* len copies of b *)
| P (k : nat).               (* the k-th byte string of the case's pool *)

Fixpoint repeatN {A} (x : A) (n : nat) (acc : list A) : list A :=
  match n with O => acc | S k => repeatN x k (x :: acc) end.

Definition expand1 (pool : list bytes) (c : chunk) : bytes :=
  match c with
  | L b => b
  | G s n => lcg_fill (N.to_nat n) s
  | R b n => repeatN b (N.to_nat n) []
  | P k => match nth_error pool k with Some b => b | None => [] end
  end.

Definition expand (pool : list bytes) (cs : list chunk) : bytes :=
  concat (map (expand1 pool) cs).
