(* Byte strings for the identifier models (C13, C18): bytes are [list ascii];
   lower-case hex printing (Go: hex.EncodeToString) and its partial inverse,
   little-endian uint32, boolean equality.  Executable definitions only; the
   lemmas about them are in Base/C13BytesProofs.v. *)
From Coq Require Import List Arith Bool Ascii String NArith.
Import ListNotations.
Local Open Scope char_scope.

Definition bytes := list ascii.

(* a Coq string literal as bytes *)
Definition bs (s : string) : bytes := list_ascii_of_string s.

(* one hex digit for the nibble b0 + 2 b1 + 4 b2 + 8 b3 *)
Definition hexdigit (b0 b1 b2 b3 : bool) : ascii :=
  match b3, b2, b1, b0 with
  | false, false, false, false => "0"
  | false, false, false, true  => "1"
  | false, false, true,  false => "2"
  | false, false, true,  true  => "3"
  | false, true,  false, false => "4"
  | false, true,  false, true  => "5"
  | false, true,  true,  false => "6"
  | false, true,  true,  true  => "7"
  | true,  false, false, false => "8"
  | true,  false, false, true  => "9"
  | true,  false, true,  false => "a"
  | true,  false, true,  true  => "b"
  | true,  true,  false, false => "c"
  | true,  true,  false, true  => "d"
  | true,  true,  true,  false => "e"
  | true,  true,  true,  true  => "f"
  end.

Definition unhexdigit (c : ascii) : option (bool * bool * bool * bool) :=
  match c with
  | "0" => Some (false, false, false, false)
  | "1" => Some (true,  false, false, false)
  | "2" => Some (false, true,  false, false)
  | "3" => Some (true,  true,  false, false)
  | "4" => Some (false, false, true,  false)
  | "5" => Some (true,  false, true,  false)
  | "6" => Some (false, true,  true,  false)
  | "7" => Some (true,  true,  true,  false)
  | "8" => Some (false, false, false, true)
  | "9" => Some (true,  false, false, true)
  | "a" => Some (false, true,  false, true)
  | "b" => Some (true,  true,  false, true)
  | "c" => Some (false, false, true,  true)
  | "d" => Some (true,  false, true,  true)
  | "e" => Some (false, true,  true,  true)
  | "f" => Some (true,  true,  true,  true)
  | _ => None
  end.

(* high nibble first, as Go prints it *)
Definition hex_hi (a : ascii) : ascii :=
  match a with Ascii _ _ _ _ b4 b5 b6 b7 => hexdigit b4 b5 b6 b7 end.
Definition hex_lo (a : ascii) : ascii :=
  match a with Ascii b0 b1 b2 b3 _ _ _ _ => hexdigit b0 b1 b2 b3 end.

Fixpoint hex (l : bytes) : bytes :=
  match l with
  | [] => []
  | a :: r => hex_hi a :: hex_lo a :: hex r
  end.

Fixpoint unhex (l : bytes) : option bytes :=
  match l with
  | [] => Some []
  | [_] => None
  | h :: l0 :: r =>
      match unhexdigit h, unhexdigit l0, unhex r with
      | Some (b4, b5, b6, b7), Some (b0, b1, b2, b3), Some r' =>
          Some (Ascii b0 b1 b2 b3 b4 b5 b6 b7 :: r')
      | _, _, _ => None
      end
  end.

Definition unhex_s (s : string) : option bytes := unhex (bs s).

Fixpoint bytes_eqb (a b : bytes) : bool :=
  match a, b with
  | [], [] => true
  | x :: a', y :: b' => Ascii.eqb x y && bytes_eqb a' b'
  | _, _ => false
  end.

(* binary.LittleEndian.PutUint32(buf, uint32(n)) *)
Definition le32 (n : nat) : bytes :=
  let v := N.of_nat n in
  [ ascii_of_N (v mod 256);
    ascii_of_N ((v / 256) mod 256);
    ascii_of_N ((v / 65536) mod 256);
    ascii_of_N ((v / 16777216) mod 256) ].
