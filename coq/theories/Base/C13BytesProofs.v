(* Lemmas about Base/C13Bytes.v: hex printing is injective and has a left
   inverse, concatenations of equal-length blocks are injective, le32 is
   injective below 2^32, bytes_eqb decides equality. *)
From Coq Require Import List Arith Bool Ascii NArith Lia.
Import ListNotations.
From Onet Require Import Base.C13Bytes.

Lemma unhexdigit_hexdigit : forall b0 b1 b2 b3,
  unhexdigit (hexdigit b0 b1 b2 b3) = Some (b0, b1, b2, b3).
Proof. intros [] [] [] []; reflexivity. Qed.

Lemma hexdigit_inj : forall a0 a1 a2 a3 b0 b1 b2 b3,
  hexdigit a0 a1 a2 a3 = hexdigit b0 b1 b2 b3 ->
  a0 = b0 /\ a1 = b1 /\ a2 = b2 /\ a3 = b3.
Proof.
  intros a0 a1 a2 a3 b0 b1 b2 b3 H.
  apply (f_equal unhexdigit) in H. rewrite !unhexdigit_hexdigit in H.
  inversion H; auto.
Qed.

Lemma hex_byte_inj : forall a b, hex_hi a = hex_hi b -> hex_lo a = hex_lo b -> a = b.
Proof.
  intros [a0 a1 a2 a3 a4 a5 a6 a7] [b0 b1 b2 b3 b4 b5 b6 b7] Hh Hl. simpl in Hh, Hl.
  apply hexdigit_inj in Hh. apply hexdigit_inj in Hl.
  destruct Hh as (? & ? & ? & ?), Hl as (? & ? & ? & ?). subst. reflexivity.
Qed.

Lemma hex_inj : forall a b, hex a = hex b -> a = b.
Proof.
  induction a as [|x a IH]; intros [|y b] H; simpl in H; try discriminate; auto.
  inversion H as [[Hh Hl Hr]]. f_equal; [apply hex_byte_inj; assumption | apply IH; assumption].
Qed.

Lemma hex_length : forall a, length (hex a) = 2 * length a.
Proof. induction a as [|x a IH]; simpl; [reflexivity | rewrite IH; lia]. Qed.

Lemma hex_app : forall a b, hex (a ++ b) = hex a ++ hex b.
Proof. induction a as [|x a IH]; intros b; simpl; [reflexivity | rewrite IH; reflexivity]. Qed.

Lemma unhex_hex : forall a, unhex (hex a) = Some a.
Proof.
  induction a as [|x a IH]; [reflexivity|].
  destruct x as [b0 b1 b2 b3 b4 b5 b6 b7].
  cbn [hex unhex hex_hi hex_lo]. rewrite !unhexdigit_hexdigit, IH. reflexivity.
Qed.

(* ---- boolean equality ---- *)
Lemma bytes_eqb_eq : forall a b, bytes_eqb a b = true <-> a = b.
Proof.
  induction a as [|x a IH]; intros [|y b]; simpl; split; intros H; try discriminate; auto.
  - apply andb_true_iff in H as [H1 H2]. apply Ascii.eqb_eq in H1. apply IH in H2. subst; reflexivity.
  - inversion H; subst. apply andb_true_iff; split; [apply Ascii.eqb_refl | apply IH; reflexivity].
Qed.

Lemma bytes_eqb_refl : forall a, bytes_eqb a a = true.
Proof. intros a; apply bytes_eqb_eq; reflexivity. Qed.

Lemma bytes_eqb_neq : forall a b, bytes_eqb a b = false <-> a <> b.
Proof.
  intros a b. split.
  - intros H E. apply bytes_eqb_eq in E. congruence.
  - intros H. destruct (bytes_eqb a b) eqn:E; [apply bytes_eqb_eq in E; contradiction | reflexivity].
Qed.

Lemma bytes_eq_dec : forall a b : bytes, {a = b} + {a <> b}.
Proof. apply list_eq_dec, ascii_dec. Qed.

(* ---- concatenation of blocks of known length ---- *)
Lemma app_inj_len {A} : forall (a a' b b' : list A),
  length a = length a' -> a ++ b = a' ++ b' -> a = a' /\ b = b'.
Proof.
  induction a as [|x a IH]; intros [|y a'] b b' HL H; simpl in *; try discriminate; auto.
  inversion H; subst. destruct (IH a' b b') as [E1 E2]; [lia | assumption | subst; auto].
Qed.

Lemma flat_map_fixed_inj {A} (f : A -> bytes) (L : nat) :
  0 < L ->
  forall a b : list A,
    Forall (fun x => length (f x) = L) a -> Forall (fun x => length (f x) = L) b ->
    flat_map f a = flat_map f b -> map f a = map f b.
Proof.
  intros HL. induction a as [|x a IH]; intros [|y b] Ha Hb H; simpl in *; auto.
  - inversion Hb as [|? ? Hy _]; subst. destruct (f y); simpl in *; [lia | discriminate].
  - inversion Ha as [|? ? Hx _]; subst. destruct (f x); simpl in *; [lia | discriminate].
  - inversion Ha as [|? ? Hx Ha']; inversion Hb as [|? ? Hy Hb']; subst.
    apply app_inj_len in H as [E1 E2]; [|congruence].
    rewrite E1. f_equal. apply IH; assumption.
Qed.

(* ---- le32 ---- *)
Lemma le32_length : forall n, length (le32 n) = 4.
Proof. reflexivity. Qed.

Lemma N_of_ascii_of_N_small : forall x, (x < 256)%N -> N_of_ascii (ascii_of_N x) = x.
Proof. intros x H. apply N_ascii_embedding. assumption. Qed.

Lemma le32_inj : forall n m,
  (N.of_nat n < 4294967296)%N -> (N.of_nat m < 4294967296)%N -> le32 n = le32 m -> n = m.
Proof.
  intros n m Hn Hm H. unfold le32 in H.
  set (v := N.of_nat n) in *. set (w := N.of_nat m) in *.
  inversion H as [[H0 H1 H2 H3]]. clear H.
  assert (B : forall x, (x mod 256 < 256)%N) by (intros; apply N.mod_lt; discriminate).
  apply (f_equal N_of_ascii) in H0, H1, H2, H3.
  rewrite !N_of_ascii_of_N_small in H0, H1, H2, H3 by apply B.
  assert (Hv : v = w).
  { assert (D : forall x, (x < 4294967296)%N ->
       x = (x mod 256 + 256 * ((x / 256) mod 256) + 65536 * ((x / 65536) mod 256)
            + 16777216 * ((x / 16777216) mod 256))%N).
    { intros x Hx.
      pose proof (N.div_mod x 256 ltac:(discriminate)) as E0.
      pose proof (N.div_mod (x / 256) 256 ltac:(discriminate)) as E1.
      pose proof (N.div_mod (x / 256 / 256) 256 ltac:(discriminate)) as E2.
      rewrite N.div_div in E1, E2 by discriminate.
      rewrite N.div_div in E2 by discriminate.
      change (256 * 256)%N with 65536%N in *. change (65536 * 256)%N with 16777216%N in *.
      assert (S3 : (x / 16777216 < 256)%N).
      { apply N.div_lt_upper_bound; [discriminate | exact Hx]. }
      rewrite (N.mod_small (x / 16777216) 256) by exact S3.
      lia. }
    rewrite (D v Hn), (D w Hm). rewrite H0, H1, H2, H3. reflexivity. }
  apply Nat2N.inj. exact Hv.
Qed.
