(* C19 -- MODEL of the rest of simul/monitor:
     bucket_stats.go  newBucketRule / bucketRule.Match / bucketRules.Match /
                      BucketStats.Set / Get / Update
     stats.go         Stats.Update / Collect / WriteHeader / WriteValues / String /
                      AverageStats (incl. the mutex it takes on every source)
     monitor.go       Monitor.InsertBucket / update, and the name filter of
                      handleConnection (a measure named "end" is a control message)
   as a sequential state machine: [mstep] executes one operation and returns
   what the operation wrote / returned.

   A Go panic (nil *Stats dereference in BucketStats.Update) is [OutCrash]; a
   goroutine blocking forever on a mutex that AverageStats left locked is
   [OutDeadlock].  After either, nothing else happens ([dead]).

   Only executable definitions; proofs are in Stats/BucketsProofs.v. *)
From Coq Require Import List QArith Bool Arith ZArith String Ascii.
Import ListNotations.
From Onet Require Export Stats.Welford.
Local Open Scope string_scope.

(* ---------- strconv.Atoi (base 10, int = int64) ------------------------- *)

Definition is_digit (c : ascii) : bool :=
  let n := N_of_ascii c in (48 <=? n)%N && (n <=? 57)%N.

Fixpoint digits_val (s : string) (acc : Z) : option Z :=
  match s with
  | EmptyString => Some acc
  | String c r =>
      if is_digit c then digits_val r (10 * acc + (Z.of_N (N_of_ascii c) - 48))%Z else None
  end.

Definition atoi (s : string) : option Z :=
  let '(neg, body) :=
    match s with
    | String "+"%char r => (false, r)
    | String "-"%char r => (true, r)
    | _ => (false, s)
    end in
  match body with
  | EmptyString => None
  | _ =>
      match digits_val body 0 with
      | None => None
      | Some v =>
          let v' := if neg then (- v)%Z else v in
          if ((- 2 ^ 63 <=? v') && (v' <=? 2 ^ 63 - 1))%Z then Some v' else None
      end
  end.

(* ---------- newBucketRule: strings.Split(r, ":") must give 2 parts ------ *)

(* split at the first ':' ; None when there is none *)
Fixpoint cut_colon (s : string) : option (string * string) :=
  match s with
  | EmptyString => None
  | String c r =>
      if Ascii.eqb c ":"%char then Some (EmptyString, r)
      else match cut_colon r with
           | None => None
           | Some (a, b) => Some (String c a, b)
           end
  end.

Fixpoint has_colon (s : string) : bool :=
  match s with
  | EmptyString => false
  | String c r => Ascii.eqb c ":"%char || has_colon r
  end.

Definition rule := (Z * Z)%type.     (* low inclusive, high exclusive *)

Definition parse_rule (s : string) : option rule :=
  match cut_colon s with
  | None => None                                   (* 1 part *)
  | Some (a, b) =>
      if has_colon b then None                     (* 3 or more parts *)
      else match atoi a with
           | None => None
           | Some lo => match atoi b with
                        | None => None
                        | Some hi => Some (lo, hi)
                        end
           end
  end.

(* bucketRule.Match / bucketRules.Match *)
Definition rule_match (r : rule) (h : Z) : bool := ((fst r <=? h) && (h <? snd r))%Z.

Definition rules_match (rr : list rule) (h : Z) : bool :=
  if (h <? 0)%Z then false else existsb (fun r => rule_match r h) rr.

(* the loop of BucketStats.Set: rules parsed before the first malformed one
   (the remaining slots keep the zero rule 0:0, which matches nothing, so they
   are dropped here), and whether all were well-formed *)
Fixpoint parse_rules (l : list string) : list rule * bool :=
  match l with
  | [] => ([], true)
  | s :: r =>
      match parse_rule s with
      | None => ([], false)
      | Some ru => let '(rs, ok) := parse_rules r in (ru :: rs, ok)
      end
  end.

(* ---------- Stats ------------------------------------------------------- *)

Record stats := mkStats {
  statics : list (string * string);       (* staticKeys with their values, in order *)
  vals : list (string * value);           (* keys (kept sorted by sort.Strings) with values[k] *)
  locked : bool }.                        (* the embedded sync.Mutex *)

Definition new_stats (st : list (string * string)) : stats := mkStats st [] false.

(* Stats.Update on the values map + sorted key list *)
Fixpoint vals_update (l : list (string * value)) (k : string) (x : Q) : list (string * value) :=
  match l with
  | [] => [(k, store value0 x)]
  | (k', v) :: r =>
      match String.compare k k' with
      | Eq => (k', store v x) :: r
      | Lt => (k, store value0 x) :: l
      | Gt => (k', v) :: vals_update r k x
      end
  end.

Definition stats_update (s : stats) (k : string) (x : Q) : stats :=
  mkStats (statics s) (vals_update (vals s) k x) (locked s).

(* Stats.Collect: every value is collected (map order is irrelevant: values
   are independent) *)
Definition stats_collect (f21 f22 : bool) (s : stats) : stats :=
  mkStats (statics s) (map (fun kv => (fst kv, collect f21 f22 (snd kv))) (vals s)) (locked s).

Definition header_fields (k : string) : list string :=
  [k ++ "_min"; k ++ "_max"; k ++ "_avg"; k ++ "_sum"; k ++ "_dev"].

(* Stats.WriteHeader *)
Definition stats_header (s : stats) : list string :=
  map fst (statics s) ++ flat_map (fun kv => header_fields (fst kv)) (vals s).

Definition stats_rows (s : stats) : list (string * snap) :=
  map (fun kv => (fst kv, snapshot (snd kv))) (vals s).

Fixpoint vals_find (l : list (string * value)) (k : string) : option value :=
  match l with
  | [] => None
  | (k', v) :: r => if String.eqb k k' then Some v else vals_find r k
  end.

(* ---------- monitor state ------------------------------------------------ *)

Record bucket := mkBucket {
  b_idx : Z;                 (* key of BucketStats.rules / buckets *)
  b_rules : list rule;       (* rules[idx] *)
  b_obj : option nat }.      (* buckets[idx]: index of the *Stats object, None = nil *)

Inductive failure := FCrash | FDeadlock.

(* repairs of the pinned tree (all five are fix: commits of /repo now; Corr/C19.v
   selects [all_fixed]), each selectable so that both behaviours stay in the development:
     fx21  Value.Collect starts from zeroed accumulators            (F21)
     fx22  max initialised from the first value                     (F22)
     fxN1  BucketStats.Set installs rules only when all are well-formed:
           a malformed specification changes nothing                (C19-N1)
     fxN2  AverageStats unlocks a source that lacks the measure     (C19-N2)
     fxN3  handleConnection does not forward the half-filled struct of a
           message that failed to decode                            (C19-N3) *)
Record fixes := mkFix { fx21 : bool; fx22 : bool; fxN1 : bool; fxN2 : bool; fxN3 : bool }.
Definition pinned : fixes := mkFix false false false false false.
Definition all_fixed : fixes := mkFix true true true true true.

Record mstate := mkM {
  objs : list stats;         (* every *Stats object created so far; 0 is the monitor's global one *)
  bks : list bucket;
  dead : option failure }.

Definition init_state (st : list (string * string)) : mstate := mkM [new_stats st] [] None.

Fixpoint set_nth {A} (l : list A) (i : nat) (x : A) : list A :=
  match l, i with
  | [], _ => []
  | _ :: r, O => x :: r
  | y :: r, S j => y :: set_nth r j x
  end.

Inductive op :=
| ONew                                            (* NewStats(rc): a further object *)
| OSetBucket (idx : Z) (rules : list string)      (* Monitor.InsertBucket(idx, rules, NewStats(rc)) *)
| OWire (name : string) (x : Q) (host : Z)        (* a measure decoded by handleConnection *)
| OMeasure (name : string) (x : Q) (host : Z)     (* Monitor.update *)
| ODirect (obj : nat) (name : string) (x : Q)     (* Stats.Update on that object *)
| OCollect (obj : nat)                            (* Stats.Collect *)
| OString (obj : nat)                             (* Stats.String (log line of simul/build.go) *)
| OHeader (obj : nat)                             (* Stats.WriteHeader *)
| OValues (obj : nat)                             (* Stats.WriteValues, then the accessors of every value *)
| OGet (idx : Z)                                  (* BucketStats.Get(idx), then the accessors *)
| OAverage (srcs : list nat)                      (* AverageStats(srcs): a further object *)
| OWireErr (name : string) (x : Q) (host : Z).    (* handleConnection: a message that failed to decode
                                                     (first error of its connection), leaving these
                                                     values in the singleMeasure struct *)

Inductive out :=
| OutNone
| OutHeader (fields : list string)
| OutValues (st : list string) (rows : list (string * snap))
| OutGet (found : bool) (rows : list (string * snap))
| OutCrash
| OutDeadlock
| OutBadObj.                                      (* the harness named an object that does not exist *)

(* strings.ToLower on ASCII names *)
Definition lower_ascii (c : ascii) : ascii :=
  let n := N_of_ascii c in
  if ((65 <=? n) && (n <=? 90))%N then ascii_of_N (n + 32) else c.

Fixpoint lower (s : string) : string :=
  match s with
  | EmptyString => EmptyString
  | String c r => String (lower_ascii c) (lower r)
  end.

Definition fail_out (f : failure) : out :=
  match f with FCrash => OutCrash | FDeadlock => OutDeadlock end.

(* BucketStats.Update: every bucket whose rules match gets the measure; a
   matching entry whose *Stats is nil is a nil dereference *)
Fixpoint buckets_update (bl : list bucket) (os : list stats) (k : string) (x : Q) (h : Z)
  : option (list stats) :=
  match bl with
  | [] => Some os
  | b :: r =>
      if rules_match (b_rules b) h then
        match b_obj b with
        | None => None
        | Some i =>
            match nth_error os i with
            | None => None
            | Some s => buckets_update r (set_nth os i (stats_update s k x)) k x h
            end
        end
      else buckets_update r os k x h
  end.

Fixpoint bucket_find (bl : list bucket) (idx : Z) : option bucket :=
  match bl with
  | [] => None
  | b :: r => if (b_idx b =? idx)%Z then Some b else bucket_find r idx
  end.

Fixpoint bucket_set (bl : list bucket) (nb : bucket) : list bucket :=
  match bl with
  | [] => [nb]
  | b :: r => if (b_idx b =? b_idx nb)%Z then nb :: r else b :: bucket_set r nb
  end.

(* AverageStats, inner loop over the sources for one key:
     stat.Lock(); value, ok := stat.values[k]; if !ok { continue }; ...; stat.Unlock()
   returns the values found and the objects (a source without the key STAYS locked);
   None = Lock() on an already locked source blocks forever *)
Fixpoint avg_key (fixN2 : bool) (os : list stats) (srcs : list nat) (k : string) (acc : list value)
  : option (list stats * list value) :=
  match srcs with
  | [] => Some (os, acc)
  | i :: r =>
      match nth_error os i with
      | None => None
      | Some s =>
          if locked s then None
          else match vals_find (vals s) k with
               | Some v => avg_key fixN2 os r k (acc ++ [v])
               | None =>
                   if fixN2 then avg_key fixN2 os r k acc
                   else avg_key fixN2 (set_nth os i (mkStats (statics s) (vals s) true)) r k acc
               end
      end
  end.

Fixpoint avg_keys (fixN2 : bool) (os : list stats) (srcs : list nat) (keys : list string)
  (acc : list (string * value)) : option (list stats * list (string * value)) :=
  match keys with
  | [] => Some (os, acc)
  | k :: r =>
      match avg_key fixN2 os srcs k [] with
      | None => None
      | Some (os', vs) => avg_keys fixN2 os' srcs r (acc ++ [(k, average_value vs)])
      end
  end.

Definition with_objs (m : mstate) (os : list stats) : mstate := mkM os (bks m) (dead m).
Definition die (m : mstate) (f : failure) : mstate * out := (mkM (objs m) (bks m) (Some f), fail_out f).

(* an operation that first takes the object's mutex *)
Definition on_obj (m : mstate) (i : nat) (f : stats -> mstate * out) : mstate * out :=
  match nth_error (objs m) i with
  | None => (m, OutBadObj)
  | Some s => if locked s then die m FDeadlock else f s
  end.

Definition do_measure (m : mstate) (k : string) (x : Q) (h : Z) : mstate * out :=
  on_obj m 0 (fun s =>
    let os := set_nth (objs m) 0 (stats_update s k x) in
    match buckets_update (bks m) os k x h with
    | None => die (with_objs m os) FCrash
    | Some os' => (with_objs m os', OutNone)
    end).

Definition mstep (fx : fixes) (m : mstate) (o : op) : mstate * out :=
  let f21 := fx21 fx in let f22 := fx22 fx in
  match dead m with
  | Some f => (m, fail_out f)
  | None =>
    match o with
    | ONew =>
        let st := match objs m with s :: _ => statics s | [] => [] end in
        (with_objs m (objs m ++ [new_stats st]), OutNone)
    | OSetBucket idx rules =>
        let st := match objs m with s :: _ => statics s | [] => [] end in
        let i := List.length (objs m) in
        let '(rs, ok) := parse_rules rules in
        let old := match bucket_find (bks m) idx with Some b => b_obj b | None => None end in
        let nb := mkBucket idx rs (if ok then Some i else old) in
        let bl := if fxN1 fx && negb ok then bks m else bucket_set (bks m) nb in
        (mkM (objs m ++ [new_stats st]) bl None, OutNone)
    | OWire k x h =>
        if String.eqb (lower k) "end" then (m, OutNone) else do_measure m k x h
    | OMeasure k x h => do_measure m k x h
    | ODirect i k x =>
        on_obj m i (fun s => (with_objs m (set_nth (objs m) i (stats_update s k x)), OutNone))
    | OCollect i | OString i =>
        on_obj m i (fun s => (with_objs m (set_nth (objs m) i (stats_collect f21 f22 s)), OutNone))
    | OHeader i =>
        on_obj m i (fun s => (m, OutHeader (stats_header s)))
    | OValues i =>
        on_obj m i (fun s =>
          let s' := stats_collect f21 f22 s in
          (with_objs m (set_nth (objs m) i s'), OutValues (map snd (statics s')) (stats_rows s')))
    | OGet idx =>
        match bucket_find (bks m) idx with
        | None => (m, OutGet false [])
        | Some b =>
            match b_obj b with
            | None => (m, OutGet false [])
            | Some i =>
                on_obj m i (fun s =>
                  let s' := stats_collect f21 f22 s in
                  (with_objs m (set_nth (objs m) i s'), OutGet true (stats_rows s')))
            end
        end
    | OAverage srcs =>
        match srcs with
        | [] => (with_objs m (objs m ++ [new_stats []]), OutNone)
        | i0 :: _ =>
            if negb (forallb (fun i => Nat.ltb i (List.length (objs m))) srcs) then (m, OutBadObj) else
            on_obj m i0 (fun s0 =>
              match avg_keys (fxN2 fx) (objs m) srcs (map fst (vals s0)) [] with
              | None => die m FDeadlock
              | Some (os', kvs) =>
                  (with_objs m (os' ++ [mkStats (statics s0) kvs false]), OutNone)
              end)
        end
    | OWireErr k x h =>
        (* the pinned loop logs the error and falls through to the dispatch *)
        if fxN3 fx then (m, OutNone)
        else if String.eqb (lower k) "end" then (m, OutNone) else do_measure m k x h
    end
  end.

Fixpoint mrun (fx : fixes) (m : mstate) (ops : list op) : mstate * list out :=
  match ops with
  | [] => (m, [])
  | o :: r =>
      let '(m1, x) := mstep fx m o in
      let '(m2, xs) := mrun fx m1 r in
      (m2, x :: xs)
  end.

Definition run_outs (fx : fixes) (st : list (string * string)) (ops : list op) : list out :=
  snd (mrun fx (init_state st) ops).
