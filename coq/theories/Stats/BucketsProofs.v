(* C19 -- PROOFS about the state machine of Stats/Buckets.v:
   - a rule list matches exactly the hosts its ranges name;
   - after any set-up with well-formed rules and any list of measures, every
     bucket holds exactly the measures of the hosts its ranges name, and the
     global result set holds all of them (buckets_exact);
   - with the repairs, no sequence of operations crashes or blocks, and read-out
     operations (Collect, String, WriteHeader, WriteValues, bucket Get), however
     many and wherever they occur, do not change what any later operation
     reports (readouts_irrelevant); refuted for the pinned code (F21);
   - AverageStats over result sets with the same measures holds, per measure,
     the concatenation of the sources' values, so the repaired read-out reports
     the statistics of the union (average_stats_union);
   - witnesses for the crash on a malformed bucket specification (C19-N1) and
     the mutex leaked by AverageStats (C19-N2). *)
From Coq Require Import List QArith Bool Arith ZArith String Ascii Lia Permutation OrderedTypeEx.
Import ListNotations.
From Onet Require Import Stats.Welford Stats.WelfordProofs Stats.Buckets.
Local Open Scope string_scope.
Local Open Scope list_scope.
Local Close Scope Q_scope.

(* ---------- rules ------------------------------------------------------------ *)

(* the hosts a rule list names *)
Definition names_host (rr : list rule) (h : Z) : Prop :=
  (0 <= h)%Z /\ exists lo hi, In (lo, hi) rr /\ (lo <= h < hi)%Z.

Theorem rules_match_spec : forall rr h, rules_match rr h = true <-> names_host rr h.
Proof.
  intros rr h. unfold rules_match, names_host. destruct (h <? 0)%Z eqn:E.
  - split; [discriminate|]. intros [H _]. apply Z.ltb_lt in E. lia.
  - apply Z.ltb_ge in E. rewrite existsb_exists. split.
    + intros ([lo hi] & Hin & Hm). unfold rule_match in Hm. simpl in Hm.
      apply andb_true_iff in Hm as [A B]. apply Z.leb_le in A. apply Z.ltb_lt in B.
      split; [exact E|]. exists lo, hi. split; [exact Hin|lia].
    + intros (_ & lo & hi & Hin & A & B). exists (lo, hi). split; [exact Hin|].
      unfold rule_match. simpl. apply andb_true_iff. split; [now apply Z.leb_le|now apply Z.ltb_lt].
Qed.

Example parse_rule_examples :
  parse_rule "5:7" = Some (5, 7)%Z /\ parse_rule "+3:-1" = Some (3, -1)%Z /\
  parse_rule "" = None /\ parse_rule "5" = None /\ parse_rule "1:2:3" = None /\
  parse_rule "a:3" = None /\ parse_rule ":3" = None /\ parse_rule "1:" = None /\
  parse_rule " 1:2" = None /\ parse_rule "9223372036854775808:1" = None /\
  parse_rule "-9223372036854775808:9223372036854775807" = Some (-9223372036854775808, 9223372036854775807)%Z.
Proof. vm_compute. repeat split. Qed.

Example rules_match_examples :
  let rr := [(0, 1); (5, 7)]%Z in
  rules_match rr 0 = true /\ rules_match rr 5 = true /\ rules_match rr 6 = true /\
  rules_match rr 1 = false /\ rules_match rr 7 = false /\ rules_match rr 4 = false /\
  rules_match rr (-1) = false /\ rules_match [(-3, 2)]%Z (-1) = false.
Proof. vm_compute. repeat split. Qed.

(* ---------- lists -------------------------------------------------------------- *)

Lemma set_nth_length {A} (l : list A) i x : List.length (set_nth l i x) = List.length l.
Proof. revert i; induction l as [|y l IH]; intros [|i]; simpl; auto. Qed.

Lemma nth_error_set_nth_eq {A} (l : list A) i x :
  (i < List.length l)%nat -> nth_error (set_nth l i x) i = Some x.
Proof.
  revert i; induction l as [|y l IH]; intros [|i] H; simpl in *; try lia; auto.
  apply IH. lia.
Qed.

Lemma nth_error_set_nth_neq {A} (l : list A) i j x :
  i <> j -> nth_error (set_nth l i x) j = nth_error l j.
Proof.
  revert i j; induction l as [|y l IH]; intros [|i] [|j] H; simpl; auto; try congruence.
Qed.

Lemma in_set_nth {A} (l : list A) i x y : In y (set_nth l i x) -> y = x \/ In y l.
Proof.
  revert i; induction l as [|z l IH]; intros [|i]; simpl; auto.
  - intros [H|H]; auto.
  - intros [H|H]; auto. destruct (IH _ H); auto.
Qed.

Lemma NoDup_app_one {A} (l : list A) x : NoDup l -> ~ In x l -> NoDup (l ++ [x]).
Proof.
  induction 1 as [|y l Hy Hl IH]; intros Hx; simpl.
  - constructor; [intros []|constructor].
  - constructor.
    + intros Hin. apply in_app_or in Hin as [Hin|[<-|[]]]; [tauto|]. apply Hx. now left.
    + apply IH. intros Hin. apply Hx. now right.
Qed.

Lemma nth_error_lt {A} (l : list A) i x : nth_error l i = Some x -> (i < List.length l)%nat.
Proof. intros H. apply nth_error_Some. congruence. Qed.

(* ---------- the sorted key list of a Stats -------------------------------------- *)

Definition klt (a b : string * value) : Prop := String.compare (fst a) (fst b) = Lt.

Inductive ksorted : list (string * value) -> Prop :=
| ks_nil : ksorted []
| ks_cons : forall a l, Forall (klt a) l -> ksorted l -> ksorted (a :: l).

Lemma compare_refl s : String.compare s s = Eq.
Proof.
  pose proof (String.compare_antisym s s) as H. destruct (String.compare s s); auto; discriminate.
Qed.

Lemma compare_trans a b c :
  String.compare a b = Lt -> String.compare b c = Lt -> String.compare a c = Lt.
Proof.
  intros H1 H2. apply String_as_OT.cmp_lt in H1. apply String_as_OT.cmp_lt in H2.
  apply String_as_OT.cmp_lt. eapply String_as_OT.lt_trans; eauto.
Qed.

Lemma compare_lt_neq a b : String.compare a b = Lt -> String.eqb a b = false.
Proof.
  intros H. apply String.eqb_neq. intros ->. rewrite compare_refl in H. discriminate.
Qed.

Lemma compare_gt_lt a b : String.compare a b = Gt -> String.compare b a = Lt.
Proof. intros H. rewrite String.compare_antisym, H. reflexivity. Qed.

Definition store_of_vals (l : list (string * value)) (k : string) : list Q :=
  match vals_find l k with Some v => vstore v | None => [] end.

Definition store_of (s : stats) (k : string) : list Q := store_of_vals (vals s) k.

Lemma vals_find_none_lt l k : Forall (klt (k, value0)) l -> vals_find l k = None.
Proof.
  induction 1 as [|[k' v] l H _ IH]; simpl; [reflexivity|].
  unfold klt in H. simpl in H. rewrite (compare_lt_neq _ _ H). exact IH.
Qed.

Lemma vals_update_keys l k x a :
  In a (vals_update l k x) -> fst a = k \/ exists b, In b l /\ fst b = fst a.
Proof.
  induction l as [|[k1 v1] l IH]; simpl.
  - intros [<-|[]]. now left.
  - destruct (String.compare k k1) eqn:E.
    + intros [<-|H]; [right; exists (k1, v1); simpl; auto|right; exists a; auto].
    + intros [<-|[<-|H]]; [now left|right; exists (k1, v1); simpl; auto|right; exists a; auto].
    + intros [<-|H]; [right; exists (k1, v1); simpl; auto|].
      destruct (IH H) as [L|(b & Hb & Eb)]; [now left|right; exists b; auto].
Qed.

Lemma vals_update_spec l k x : ksorted l ->
  ksorted (vals_update l k x) /\
  forall k', vals_find (vals_update l k x) k' =
             if String.eqb k' k
             then Some (store (match vals_find l k with Some v => v | None => value0 end) x)
             else vals_find l k'.
Proof.
  induction 1 as [|[k1 v1] l Hall Hs IH]; simpl.
  - split; [constructor; [constructor|constructor]|].
    intros k'. rewrite String.eqb_sym. destruct (String.eqb k k'); reflexivity.
  - destruct IH as [IHs IHf]. destruct (String.compare k k1) eqn:E.
    + apply String.compare_eq_iff in E. subst k1. rewrite String.eqb_refl. split.
      * constructor; [|exact Hs]. eapply Forall_impl; [|exact Hall]. intros b Hb. exact Hb.
      * intros k'. simpl. destruct (String.eqb k' k) eqn:E2; reflexivity.
    + assert (Hk : Forall (klt (k, store value0 x)) ((k1, v1) :: l)).
      { constructor; [exact E|]. eapply Forall_impl; [|exact Hall].
        intros b Hb. unfold klt in *. simpl in *. eapply compare_trans; eauto. }
      split; [constructor; [exact Hk|constructor; assumption]|].
      intros k'. cbn [vals_find]. rewrite (String.eqb_sym k' k).
      destruct (String.eqb k k') eqn:E2.
      * rewrite (compare_lt_neq _ _ E).
        rewrite (vals_find_none_lt l k); [reflexivity|].
        eapply Forall_impl; [|exact Hall]. intros b Hb. unfold klt in *. simpl in *.
        eapply compare_trans; eauto.
      * reflexivity.
    + pose proof (compare_gt_lt _ _ E) as E'. split.
      * constructor; [|exact IHs]. apply Forall_forall. intros a Ha.
        destruct (vals_update_keys _ _ _ _ Ha) as [L|(b & Hb & Eb)].
        -- unfold klt. simpl. rewrite L. exact E'.
        -- rewrite Forall_forall in Hall. specialize (Hall b Hb). unfold klt in *. rewrite <- Eb. exact Hall.
      * intros k'. cbn [vals_find]. rewrite IHf.
        assert (Hne : String.eqb k k1 = false).
        { rewrite String.eqb_sym. apply compare_lt_neq. exact E'. }
        rewrite Hne.
        destruct (String.eqb k' k1) eqn:E1.
        -- apply String.eqb_eq in E1. subst k'. rewrite String.eqb_sym, Hne. reflexivity.
        -- reflexivity.
Qed.

Lemma store_of_update s k x k' : ksorted (vals s) ->
  store_of (stats_update s k x) k' =
  if String.eqb k' k then store_of s k ++ [x] else store_of s k'.
Proof.
  intros H. unfold store_of, store_of_vals, stats_update. cbn [vals].
  destruct (vals_update_spec (vals s) k x H) as [_ F]. rewrite F.
  destruct (String.eqb k' k); [|reflexivity].
  destruct (vals_find (vals s) k); reflexivity.
Qed.

Lemma stats_update_sorted s k x : ksorted (vals s) -> ksorted (vals (stats_update s k x)).
Proof. intros H. apply (vals_update_spec (vals s) k x H). Qed.

(* ---------- well-formed monitor states ------------------------------------------ *)

Record wf (m : mstate) : Prop := mkWf {
  wf_alive : dead m = None;
  wf_objs : objs m <> [];
  wf_sorted : forall s, In s (objs m) -> ksorted (vals s);
  wf_unlocked : forall s, In s (objs m) -> locked s = false;
  wf_bobj : forall b, In b (bks m) -> exists i, b_obj b = Some i /\ (0 < i < List.length (objs m))%nat;
  wf_bdistinct : NoDup (map b_obj (bks m)) }.

Lemma wf_init st : wf (init_state st).
Proof.
  constructor; simpl; try congruence.
  - intros s [<-|[]]. constructor.
  - intros s [<-|[]]. reflexivity.
  - intros b [].
  - constructor.
Qed.

(* one measure through BucketStats.Update *)
Lemma buckets_update_spec k x h : forall bl os,
  (forall b, In b bl -> exists i, b_obj b = Some i /\ (i < List.length os)%nat) ->
  NoDup (map b_obj bl) ->
  (forall s, In s os -> ksorted (vals s)) ->
  (forall s, In s os -> locked s = false) ->
  exists os', buckets_update bl os k x h = Some os' /\
    List.length os' = List.length os /\
    (forall s, In s os' -> ksorted (vals s)) /\
    (forall s, In s os' -> locked s = false) /\
    (forall i, ~ In (Some i) (map b_obj bl) -> nth_error os' i = nth_error os i) /\
    (forall b i, In b bl -> b_obj b = Some i ->
       exists s s', nth_error os i = Some s /\ nth_error os' i = Some s' /\
         statics s' = statics s /\
         forall k', store_of s' k' =
           if String.eqb k' k && rules_match (b_rules b) h then store_of s k' ++ [x] else store_of s k').
Proof.
  induction bl as [|b bl IH]; intros os Hobj Hnd Hsort Hlock.
  - exists os. simpl. repeat split; auto. intros b i [].
  - simpl. destruct (Hobj b (or_introl eq_refl)) as (i & Hi & Hlt).
    inversion Hnd as [|? ? Hnotin Hnd']; subst.
    destruct (nth_error os i) as [s|] eqn:Es; [|apply nth_error_None in Es; lia].
    destruct (rules_match (b_rules b) h) eqn:Em.
    + rewrite Hi, Es.
      set (os1 := set_nth os i (stats_update s k x)).
      assert (Hs_in : In s os) by (eapply nth_error_In; eauto).
      destruct (IH os1) as (os' & Hrun & Hlen & Hsort' & Hlock' & Hun & Hb).
      { intros b' Hb'. destruct (Hobj b' (or_intror Hb')) as (i' & A & B). exists i'. split; [exact A|].
        unfold os1. rewrite set_nth_length. exact B. }
      { exact Hnd'. }
      { intros s' Hs'. destruct (in_set_nth _ _ _ _ Hs') as [->|H]; [apply stats_update_sorted|]; auto. }
      { intros s' Hs'. destruct (in_set_nth _ _ _ _ Hs') as [->|H]; [simpl|]; auto. }
      exists os'. split; [exact Hrun|]. split; [rewrite Hlen; apply set_nth_length|].
      split; [exact Hsort'|]. split; [exact Hlock'|]. split.
      * intros j Hj. simpl in Hj. rewrite Hun by tauto.
        unfold os1. apply nth_error_set_nth_neq. intros ->. apply Hj. left. first [reflexivity|exact Hi].
      * intros b' j [<-|Hb'] Hj.
        -- rewrite Hi in Hj. injection Hj as <-.
           exists s, (stats_update s k x). split; [exact Es|]. split.
           { rewrite Hun by (rewrite <- Hi; exact Hnotin). unfold os1. now apply nth_error_set_nth_eq. }
           split; [reflexivity|].
           intros k'. rewrite store_of_update by auto. rewrite Em, andb_true_r.
           destruct (String.eqb k' k) eqn:Ek; [apply String.eqb_eq in Ek; subst k'|]; reflexivity.
        -- destruct (Hb b' j Hb' Hj) as (s1 & s' & A & B & C & D).
           assert (Hne : i <> j).
           { intros ->. apply Hnotin. rewrite Hi, <- Hj. apply in_map. exact Hb'. }
           unfold os1 in A. rewrite nth_error_set_nth_neq in A by exact Hne.
           exists s1, s'. repeat split; auto.
    + destruct (IH os) as (os' & Hrun & Hlen & Hsort' & Hlock' & Hun & Hb).
      { intros b' Hb'. apply Hobj. now right. }
      { exact Hnd'. }
      { exact Hsort. }
      { exact Hlock. }
      exists os'. split; [exact Hrun|]. split; [exact Hlen|]. split; [exact Hsort'|].
      split; [exact Hlock'|]. split.
      * intros j Hj. apply Hun. simpl in Hj. tauto.
      * intros b' j [<-|Hb'] Hj.
        -- rewrite Hi in Hj. injection Hj as <-.
           exists s, s. split; [exact Es|]. split.
           { rewrite Hun by (rewrite <- Hi; exact Hnotin). exact Es. }
           split; [reflexivity|]. intros k'. rewrite Em, andb_false_r. reflexivity.
        -- apply (Hb b' j Hb' Hj).
Qed.

(* ---------- one measure, many measures ------------------------------------------- *)

Definition store_at (m : mstate) (i : nat) (k : string) : list Q :=
  match nth_error (objs m) i with Some s => store_of s k | None => [] end.

Lemma measure_step fx m k x h : wf m ->
  exists m', mstep fx m (OMeasure k x h) = (m', OutNone) /\ wf m' /\
    bks m' = bks m /\ List.length (objs m') = List.length (objs m) /\
    (forall k', store_at m' 0 k' = if String.eqb k' k then store_at m 0 k' ++ [x] else store_at m 0 k') /\
    (forall b i, In b (bks m) -> b_obj b = Some i -> forall k',
       store_at m' i k' =
       if String.eqb k' k && rules_match (b_rules b) h then store_at m i k' ++ [x] else store_at m i k').
Proof.
  intros W. destruct W as [Hal Hne Hso Hlo Hbo Hbd].
  unfold mstep. rewrite Hal. unfold do_measure, on_obj, store_at.
  remember (objs m) as om eqn:Eo. destruct om as [|s0 rest]; [congruence|]. cbn [nth_error].
  rewrite (Hlo s0) by (now left).
  cbn [set_nth].
  set (os := stats_update s0 k x :: rest).
  destruct (buckets_update_spec k x h (bks m) os) as (os' & Hrun & Hlen & Hsort' & Hlock' & Hun & Hb).
  { intros b Hb. destruct (Hbo b Hb) as (i & A & B). exists i. split; [exact A|].
    unfold os. simpl in *. lia. }
  { exact Hbd. }
  { intros s [<-|H]; [apply stats_update_sorted; apply Hso; now left|].
    apply Hso. now right. }
  { intros s [<-|H]; [simpl; apply Hlo; now left|]. apply Hlo. now right. }
  rewrite Hrun. eexists. split; [reflexivity|].
  assert (Hlen' : List.length os' = List.length (s0 :: rest)) by (rewrite Hlen; reflexivity).
  assert (H0 : nth_error os' 0 = Some (stats_update s0 k x)).
  { rewrite Hun; [reflexivity|]. intros Hin. apply in_map_iff in Hin as (b & Eb & Hb').
    destruct (Hbo b Hb') as (i & A & B). rewrite A in Eb. injection Eb as ->. lia. }
  split; [|split; [reflexivity|split; [exact Hlen'|split]]].
  - constructor; cbn [with_objs dead objs bks]; auto.
    + intros E. rewrite E in Hlen'. discriminate.
    + intros b Hb'. destruct (Hbo b Hb') as (i & A & B). exists i. split; [exact A|].
      rewrite Hlen'. exact B.
  - intros k'. cbn [with_objs objs]. cbn [nth_error] in H0. rewrite H0.
    rewrite store_of_update by (apply Hso; now left).
    destruct (String.eqb k' k) eqn:Ek; [apply String.eqb_eq in Ek; subst k'|]; reflexivity.
  - intros b i Hb' Hi k'. cbn [with_objs objs].
    destruct (Hb b i Hb' Hi) as (s & s' & A & B & _ & D). rewrite B.
    assert (Hi0 : (0 < i)%nat) by (destruct (Hbo b Hb') as (i' & A' & B'); rewrite A' in Hi; injection Hi as <-; lia).
    destruct i as [|i]; [lia|]. unfold os in A. cbn [nth_error] in A |- *. rewrite A. apply D.
Qed.

Definition measure := (string * Q * Z)%type.
Definition m_name (e : measure) : string := fst (fst e).
Definition m_value (e : measure) : Q := snd (fst e).
Definition m_host (e : measure) : Z := snd e.

Definition mops (ms : list measure) : list op :=
  map (fun e => OMeasure (m_name e) (m_value e) (m_host e)) ms.

(* the values recorded under name k, in arrival order, from hosts selected by p *)
Definition recorded (k : string) (p : Z -> bool) (ms : list measure) : list Q :=
  map m_value (filter (fun e => String.eqb k (m_name e) && p (m_host e)) ms).

Lemma mrun_app fx m a b :
  mrun fx m (a ++ b) =
  let '(m1, o1) := mrun fx m a in let '(m2, o2) := mrun fx m1 b in (m2, o1 ++ o2).
Proof.
  revert m; induction a as [|o a IH]; intros m; simpl.
  - destruct (mrun fx m b); reflexivity.
  - destruct (mstep fx m o) as [m1 x]. rewrite IH.
    destruct (mrun fx m1 a) as [m2 xs]. destruct (mrun fx m2 b) as [m3 ys]. reflexivity.
Qed.

Lemma measures_spec fx ms : forall m, wf m ->
  let m' := fst (mrun fx m (mops ms)) in
  wf m' /\ bks m' = bks m /\ List.length (objs m') = List.length (objs m) /\
  (forall k', store_at m' 0 k' = store_at m 0 k' ++ recorded k' (fun _ => true) ms) /\
  (forall b i, In b (bks m) -> b_obj b = Some i -> forall k',
     store_at m' i k' = store_at m i k' ++ recorded k' (rules_match (b_rules b)) ms).
Proof.
  induction ms as [|[[k x] h] ms IH]; intros m W; cbn zeta.
  - cbn [mops map mrun fst]. split; [exact W|]. split; [reflexivity|]. split; [reflexivity|].
    split; intros; unfold recorded; cbn [filter map]; rewrite app_nil_r; reflexivity.
  - cbn [mops map m_name m_value m_host fst snd mrun].
    destruct (measure_step fx m k x h W) as (m1 & E & W1 & Hb1 & Hl1 & H0 & Hbk).
    rewrite E. specialize (IH m1 W1). cbn zeta in IH. fold (mops ms) in *.
    destruct (mrun fx m1 (mops ms)) as [m2 outs] eqn:Er. cbn [fst] in *.
    destruct IH as (W2 & Hb2 & Hl2 & I0 & Ibk).
    split; [exact W2|]. split; [congruence|]. split; [congruence|]. split.
    + intros k'. rewrite I0, H0. unfold recorded. cbn [filter m_name m_host fst snd].
      rewrite andb_true_r. rewrite (String.eqb_sym k' k).
      destruct (String.eqb k k'); [rewrite <- app_assoc; reflexivity|reflexivity].
    + intros b i Hb Hi k'. rewrite Hb1 in Ibk. rewrite (Ibk b i Hb Hi), (Hbk b i Hb Hi).
      unfold recorded. cbn [filter m_name m_host fst snd]. rewrite (String.eqb_sym k' k).
      destruct (String.eqb k k' && rules_match (b_rules b) h); [rewrite <- app_assoc; reflexivity|reflexivity].
Qed.

(* ---------- bucket set-up ----------------------------------------------------------- *)

Definition setups (bs : list (Z * list string)) : list op :=
  map (fun b => OSetBucket (fst b) (snd b)) bs.

Fixpoint mk_buckets (n : nat) (bs : list (Z * list string)) : list bucket :=
  match bs with
  | [] => []
  | b :: r => mkBucket (fst b) (fst (parse_rules (snd b))) (Some n) :: mk_buckets (S n) r
  end.

Lemma bucket_set_fresh bl nb : ~ In (b_idx nb) (map b_idx bl) -> bucket_set bl nb = bl ++ [nb].
Proof.
  induction bl as [|b bl IH]; simpl; intros H; [reflexivity|].
  destruct (b_idx b =? b_idx nb)%Z eqn:E; [apply Z.eqb_eq in E; tauto|].
  rewrite IH by tauto. reflexivity.
Qed.

Definition head_statics (m : mstate) : list (string * string) :=
  match objs m with s :: _ => statics s | [] => [] end.

Lemma setup_spec fx bs : forall m, wf m ->
  (forall b, In b bs -> snd (parse_rules (snd b)) = true) ->
  NoDup (map fst bs) ->
  (forall b, In b bs -> ~ In (fst b) (map b_idx (bks m))) ->
  let m' := fst (mrun fx m (setups bs)) in
  wf m' /\
  bks m' = bks m ++ mk_buckets (List.length (objs m)) bs /\
  objs m' = objs m ++ repeat (new_stats (head_statics m)) (List.length bs).
Proof.
  induction bs as [|[idx rules] bs IH]; intros m W Hok Hnd Hfresh; cbn zeta.
  - simpl. rewrite !app_nil_r. auto.
  - cbn [setups map fst snd mrun].
    assert (Hp : snd (parse_rules rules) = true) by (apply (Hok (idx, rules)); now left).
    destruct (parse_rules rules) as [rs ok] eqn:Ep. cbn [snd] in Hp. subst ok.
    destruct W as [Hal Hne Hso Hlo Hbo Hbd].
    set (nb := mkBucket idx rs (Some (List.length (objs m)))).
    assert (Hfr : ~ In (b_idx nb) (map b_idx (bks m))) by (apply (Hfresh (idx, rules)); now left).
    set (m1 := mkM (objs m ++ [new_stats (head_statics m)]) (bks m ++ [nb]) None).
    assert (Estep : mstep fx m (OSetBucket idx rules) = (m1, OutNone)).
    { unfold mstep. rewrite Hal, Ep. cbn [negb]. rewrite andb_false_r.
      fold nb. rewrite (bucket_set_fresh _ _ Hfr). reflexivity. }
    rewrite Estep. fold (setups bs).
    assert (W1 : wf m1).
    { constructor; cbn [m1 dead objs bks].
      - reflexivity.
      - intros E. apply app_eq_nil in E as [_ E]. discriminate.
      - intros s Hs. apply in_app_or in Hs as [Hs|[<-|[]]]; [auto|constructor].
      - intros s Hs. apply in_app_or in Hs as [Hs|[<-|[]]]; [auto|reflexivity].
      - intros b Hb. rewrite app_length. simpl. apply in_app_or in Hb as [Hb|[<-|[]]].
        + destruct (Hbo b Hb) as (i & A & B). exists i. split; [exact A|lia].
        + exists (List.length (objs m)). split; [reflexivity|].
          destruct (objs m); [congruence|simpl; lia].
      - rewrite map_app. simpl. apply NoDup_app_one; [exact Hbd|].
        intros Hin. apply in_map_iff in Hin as (b & Eb & Hb).
        destruct (Hbo b Hb) as (i & A & B). rewrite A in Eb. injection Eb as ->. lia. }
    inversion Hnd as [|? ? Hnot Hnd']; subst.
    specialize (IH m1 W1).
    destruct (mrun fx m1 (setups bs)) as [m2 outs] eqn:Er. cbn [fst] in *.
    destruct IH as (W2 & Hb2 & Ho2).
    { intros b Hb. apply Hok. now right. }
    { exact Hnd'. }
    { intros b Hb. cbn [m1 bks]. rewrite map_app. simpl. intros Hin.
      apply in_app_or in Hin as [Hin|[Hin|[]]].
      - apply (Hfresh b); [now right|exact Hin].
      - apply Hnot. rewrite Hin. apply in_map. exact Hb. }
    split; [exact W2|]. split.
    + rewrite Hb2. cbn [m1 bks objs mk_buckets fst snd]. rewrite Ep. cbn [fst].
      rewrite app_length. simpl. rewrite <- app_assoc. simpl.
      replace (List.length (objs m) + 1)%nat with (S (List.length (objs m))) by lia. reflexivity.
    + rewrite Ho2. cbn [m1 objs]. rewrite <- app_assoc. simpl.
      assert (Hh : head_statics m1 = head_statics m).
      { unfold head_statics. cbn [m1 objs]. destruct (objs m); [congruence|reflexivity]. }
      rewrite Hh. reflexivity.
Qed.

Lemma mk_buckets_nth bs : forall n j b, nth_error bs j = Some b ->
  In (mkBucket (fst b) (fst (parse_rules (snd b))) (Some (n + j)%nat)) (mk_buckets n bs).
Proof.
  induction bs as [|b0 bs IH]; intros n [|j] b H; simpl in H; try discriminate.
  - injection H as ->. left. rewrite Nat.add_0_r. reflexivity.
  - right. replace (n + S j)%nat with (S n + j)%nat by lia. apply IH. exact H.
Qed.

Lemma store_at_fresh m st i k :
  (forall s, In s (objs m) -> s = new_stats st) -> store_at m i k = [].
Proof.
  intros H. unfold store_at. destruct (nth_error (objs m) i) as [s|] eqn:E; [|reflexivity].
  rewrite (H s (nth_error_In _ _ E)). reflexivity.
Qed.

(* HEADLINE: after any set-up with well-formed rules and pairwise different
   bucket indices, and any list of measures, the global result set holds every
   measure and bucket j holds exactly the measures whose host index lies in one
   of its ranges (rules_match_spec: rules_match rr h <-> names_host rr h) --
   whichever repairs are applied. *)
Theorem buckets_exact : forall fx st bs ms,
  NoDup (map fst bs) ->
  (forall b, In b bs -> snd (parse_rules (snd b)) = true) ->
  let m := fst (mrun fx (init_state st) (setups bs ++ mops ms)) in
  wf m /\
  (forall k, store_at m 0 k = recorded k (fun _ => true) ms) /\
  (forall j idx rules, nth_error bs j = Some (idx, rules) -> forall k,
     store_at m (S j) k = recorded k (rules_match (fst (parse_rules rules))) ms).
Proof.
  intros fx st bs ms Hnd Hok. cbn zeta. rewrite mrun_app.
  destruct (setup_spec fx bs (init_state st) (wf_init st) Hok Hnd) as (W1 & Hb1 & Ho1).
  { intros b _ []. }
  destruct (mrun fx (init_state st) (setups bs)) as [m1 o1] eqn:E1. cbn [fst] in *.
  destruct (measures_spec fx ms m1 W1) as (W2 & Hb2 & Hl2 & H0 & Hbk).
  destruct (mrun fx m1 (mops ms)) as [m2 o2] eqn:E2. cbn [fst] in *.
  assert (Hfresh : forall s, In s (objs m1) -> s = new_stats st).
  { rewrite Ho1. cbn [init_state objs head_statics]. intros s [<-|Hs]; [reflexivity|].
    apply repeat_spec in Hs. exact Hs. }
  split; [exact W2|]. split.
  - intros k. rewrite H0, (store_at_fresh m1 st 0 k Hfresh). reflexivity.
  - intros j idx rules Hj k.
    pose proof (mk_buckets_nth bs 1 j (idx, rules) Hj) as Hin. cbn [fst snd] in Hin.
    cbn [init_state bks objs List.length app] in Hb1. rewrite <- Hb1 in Hin.
    rewrite (Hbk _ (S j) Hin eq_refl k), (store_at_fresh m1 st (S j) k Hfresh). reflexivity.
Qed.

Example buckets_exact_satisfiable :
  let bs := [(0, ["10:20"]); (1, ["15:20"]); (2, ["5:10"; "20:25"])]%Z in
  NoDup (map fst bs) /\ (forall b, In b bs -> snd (parse_rules (snd b)) = true).
Proof.
  split.
  - repeat constructor; simpl; intuition discriminate.
  - intros b [<-|[<-|[<-|[]]]]; reflexivity.
Qed.

(* ---------- what a read-out reports --------------------------------------------- *)

Lemma ksorted_find l k v : ksorted l -> In (k, v) l -> vals_find l k = Some v.
Proof.
  induction 1 as [|[k1 v1] l Hall Hs IH]; intros Hin; [destruct Hin|].
  destruct Hin as [E|Hin].
  - injection E as -> ->. simpl. rewrite String.eqb_refl. reflexivity.
  - simpl. rewrite Forall_forall in Hall. specialize (Hall _ Hin). unfold klt in Hall. simpl in Hall.
    rewrite String.eqb_sym, (compare_lt_neq _ _ Hall). apply IH. exact Hin.
Qed.

Lemma vals_find_in l k v : vals_find l k = Some v -> In (k, v) l.
Proof.
  induction l as [|[k1 v1] l IH]; simpl; [discriminate|].
  destruct (String.eqb k k1) eqn:E.
  - apply String.eqb_eq in E. subst. intros H; injection H as ->. now left.
  - intros H. right. apply IH. exact H.
Qed.

(* HEADLINE (with F21 and F22 repaired): in ANY well-formed state -- i.e. after
   any earlier read-outs -- WriteValues on result set i reports, for every
   measure, exactly the statistics of the values stored for it, and every
   measure with stored values is reported. *)
Theorem values_report_exact : forall fx m i s,
  fx21 fx = true -> fx22 fx = true -> wf m -> nth_error (objs m) i = Some s ->
  exists m' rows, mstep fx m (OValues i) = (m', OutValues (map snd (statics s)) rows) /\
    map fst rows = map fst (vals s) /\
    (forall k sn, In (k, sn) rows -> snap_eq sn (exact (store_at m i k))) /\
    (forall k, store_at m i k <> [] -> exists sn, In (k, sn) rows) /\
    (forall k, store_at m' i k = store_at m i k).
Proof.
  intros fx m i s H21 H22 W Hi. destruct W as [Hal Hne Hso Hlo Hbo Hbd].
  pose proof (nth_error_In _ _ Hi) as Hin.
  unfold mstep. rewrite Hal. unfold on_obj. rewrite Hi, (Hlo s Hin), H21, H22.
  eexists. eexists. split; [reflexivity|].
  unfold stats_rows, stats_collect. cbn [vals statics]. rewrite !map_map. cbn [fst snd].
  split; [reflexivity|]. split; [|split].
  - intros k sn Hk. apply in_map_iff in Hk as ([k0 v] & E & Hv). cbn [fst snd] in E.
    injection E as <- <-. unfold store_at. rewrite Hi. unfold store_of, store_of_vals.
    rewrite (ksorted_find _ _ _ (Hso s Hin) Hv). apply collect_exact.
  - intros k Hk. unfold store_at in Hk. rewrite Hi in Hk. unfold store_of, store_of_vals in Hk.
    destruct (vals_find (vals s) k) as [v|] eqn:E; [|congruence].
    eexists. apply in_map_iff. exists (k, v). split; [reflexivity|]. apply vals_find_in. exact E.
  - intros k. unfold store_at. cbn [with_objs objs].
    rewrite nth_error_set_nth_eq by (eapply nth_error_lt; eauto). rewrite Hi.
    unfold store_of, store_of_vals. cbn [vals].
    induction (vals s) as [|[k1 v1] l IH]; simpl; [reflexivity|].
    destruct (String.eqb k k1); [apply collect_store|exact IH].
Qed.

(* ---------- the repaired machine never crashes or blocks --------------------------- *)

(* invariant of every reachable state of the fully repaired machine *)
Record safe (m : mstate) : Prop := mkSafe {
  sf_alive : dead m = None;
  sf_unlocked : forall s, In s (objs m) -> locked s = false;
  sf_bobj : forall b, In b (bks m) -> exists i, b_obj b = Some i /\ (i < List.length (objs m))%nat }.

Lemma safe_init st : safe (init_state st).
Proof. constructor; simpl; auto. intros s [<-|[]]; reflexivity. intros b []. Qed.

Lemma buckets_update_safe k x h : forall bl os,
  (forall b, In b bl -> exists i, b_obj b = Some i /\ (i < List.length os)%nat) ->
  (forall s, In s os -> locked s = false) ->
  exists os', buckets_update bl os k x h = Some os' /\ List.length os' = List.length os /\
              (forall s, In s os' -> locked s = false).
Proof.
  induction bl as [|b bl IH]; intros os Hobj Hlock; simpl.
  - exists os. auto.
  - destruct (Hobj b (or_introl eq_refl)) as (i & Hi & Hlt).
    destruct (rules_match (b_rules b) h).
    + rewrite Hi. destruct (nth_error os i) as [s|] eqn:Es; [|apply nth_error_None in Es; lia].
      destruct (IH (set_nth os i (stats_update s k x))) as (os' & A & B & C).
      { intros b' Hb'. rewrite set_nth_length. apply Hobj. now right. }
      { intros s' Hs'. destruct (in_set_nth _ _ _ _ Hs') as [->|H]; [simpl; apply Hlock; eapply nth_error_In; eauto|auto]. }
      exists os'. rewrite B, set_nth_length. auto.
    + apply IH; auto. intros b' Hb'. apply Hobj. now right.
Qed.

Lemma avg_key_fixed k : forall srcs os acc,
  (forall s, In s os -> locked s = false) ->
  (forall i, In i srcs -> (i < List.length os)%nat) ->
  exists vs, avg_key true os srcs k acc = Some (os, vs).
Proof.
  induction srcs as [|i srcs IH]; intros os acc Hlock Hsrc; simpl.
  - eexists; reflexivity.
  - destruct (nth_error os i) as [s|] eqn:Es.
    + rewrite (Hlock s (nth_error_In _ _ Es)).
      destruct (vals_find (vals s) k); apply IH; auto; intros j Hj; apply Hsrc; now right.
    + apply nth_error_None in Es. specialize (Hsrc i (or_introl eq_refl)). lia.
Qed.

Lemma avg_keys_fixed srcs : forall keys os acc,
  (forall s, In s os -> locked s = false) ->
  (forall i, In i srcs -> (i < List.length os)%nat) ->
  exists kvs, avg_keys true os srcs keys acc = Some (os, kvs).
Proof.
  induction keys as [|k keys IH]; intros os acc Hlock Hsrc; simpl.
  - eexists; reflexivity.
  - destruct (avg_key_fixed k srcs os [] Hlock Hsrc) as (vs & ->). apply IH; auto.
Qed.


Lemma safe_set m i s s' : safe m -> nth_error (objs m) i = Some s -> locked s' = false ->
  safe (with_objs m (set_nth (objs m) i s')).
Proof.
  intros [Hal Hlo Hbo] Hi Hs'. constructor; cbn [with_objs dead objs bks]; auto.
  - intros s0 Hs0. destruct (in_set_nth _ _ _ _ Hs0) as [->|H]; auto.
  - intros b Hb. rewrite set_nth_length. auto.
Qed.

Lemma safe_grow m s : safe m -> locked s = false -> safe (with_objs m (objs m ++ [s])).
Proof.
  intros [Hal Hlo Hbo] Hs. constructor; cbn [with_objs dead objs bks]; auto.
  - intros s' Hs'. apply in_app_or in Hs' as [H|[<-|[]]]; auto.
  - intros b Hb. destruct (Hbo b Hb) as (i & A & B). exists i. split; [exact A|].
    rewrite app_length. lia.
Qed.

Lemma in_bucket_set bl nb b : In b (bucket_set bl nb) -> b = nb \/ In b bl.
Proof.
  induction bl as [|b0 bl IH]; simpl.
  - intros [<-|[]]. now left.
  - destruct (b_idx b0 =? b_idx nb)%Z.
    + intros [<-|H]; [now left|right; now right].
    + intros [<-|H]; [right; now left|]. destruct (IH H); [now left|right; now right].
Qed.

Lemma safe_on_obj m i f : safe m ->
  (forall s, nth_error (objs m) i = Some s -> locked s = false -> safe (fst (f s))) ->
  safe (fst (on_obj m i f)).
Proof.
  intros S Hf. unfold on_obj. destruct (nth_error (objs m) i) as [s|] eqn:E; [|exact S].
  pose proof (sf_unlocked m S s (nth_error_In _ _ E)) as Hl. rewrite Hl. apply Hf; auto.
Qed.

Lemma safe_measure m k x h : safe m -> safe (fst (do_measure m k x h)).
Proof.
  intros S. unfold do_measure. apply safe_on_obj; [exact S|]. intros s Hs Hl.
  pose proof (safe_set m 0 s (stats_update s k x) S Hs Hl) as S1.
  destruct (buckets_update_safe k x h (bks m) (set_nth (objs m) 0 (stats_update s k x)))
    as (os' & -> & Hlen & Hlock).
  { intros b Hb. apply (sf_bobj _ S1 b Hb). }
  { intros s' Hs'. apply (sf_unlocked _ S1 s' Hs'). }
  cbn [fst]. destruct S1 as [A B C]. constructor; cbn [with_objs dead objs bks] in *; auto.
  intros b Hb. rewrite Hlen. auto.
Qed.

Lemma safe_step o m : safe m -> safe (fst (mstep all_fixed m o)).
Proof.
  intros S. pose proof S as [Hal Hlo Hbo]. unfold mstep. rewrite Hal.
  cbn [all_fixed fx21 fx22 fxN1 fxN2 fxN3].
  destruct o as [|idx rules|k x h|k x h|i k x|i|i|i|i|idx|srcs|k x h].
  - (* ONew *) cbn [fst]. apply safe_grow; auto.
  - (* OSetBucket *)
    destruct (parse_rules rules) as [rs ok]. cbn [fst].
    constructor; cbn [dead objs bks]; auto.
    + intros s Hs. apply in_app_or in Hs as [H|[<-|[]]]; auto.
    + intros b Hb. rewrite app_length. simpl.
      assert (Hold : forall b, In b (bks m) -> exists i, b_obj b = Some i /\ (i < List.length (objs m) + 1)%nat).
      { intros b' Hb'. destruct (Hbo b' Hb') as (i & A & B). exists i. split; [exact A|lia]. }
      destruct ok; cbn [negb andb] in Hb.
      * apply in_bucket_set in Hb as [->|Hb]; [|auto]. eexists. split; [reflexivity|lia].
      * auto.
  - (* OWire *) destruct (String.eqb (lower k) "end"); [exact S|]. apply safe_measure; exact S.
  - (* OMeasure *) apply safe_measure; exact S.
  - (* ODirect *) apply safe_on_obj; [exact S|]. intros s Hs Hl. cbn [fst]. eapply safe_set; eauto.
  - (* OCollect *) apply safe_on_obj; [exact S|]. intros s Hs Hl. cbn [fst]. eapply safe_set; eauto.
  - (* OString *) apply safe_on_obj; [exact S|]. intros s Hs Hl. cbn [fst]. eapply safe_set; eauto.
  - (* OHeader *) apply safe_on_obj; [exact S|]. intros s Hs Hl. exact S.
  - (* OValues *) apply safe_on_obj; [exact S|]. intros s Hs Hl. cbn [fst]. eapply safe_set; eauto.
  - (* OGet *)
    destruct (bucket_find (bks m) idx) as [b|]; [|exact S].
    destruct (b_obj b) as [i|]; [|exact S].
    apply safe_on_obj; [exact S|]. intros s Hs Hl. cbn [fst]. eapply safe_set; eauto.
  - (* OAverage *)
    destruct srcs as [|i0 srcs]; [cbn [fst]; apply safe_grow; auto|].
    destruct (forallb (fun i => Nat.ltb i (List.length (objs m))) (i0 :: srcs)) eqn:Er; cbn [negb]; [|exact S].
    apply safe_on_obj; [exact S|]. intros s0 Hs0 Hl0.
    destruct (avg_keys_fixed (i0 :: srcs) (map fst (vals s0)) (objs m) [] Hlo) as (kvs & ->).
    { intros i Hi. rewrite forallb_forall in Er. apply Nat.ltb_lt. apply Er. exact Hi. }
    cbn [fst]. apply safe_grow; auto.
  - (* OWireErr *) exact S.
Qed.

(* HEADLINE: with the repairs no sequence of operations, on whatever bucket
   specifications (malformed ones included) and result sets, crashes or blocks *)
Theorem fixed_never_fails : forall st ops,
  dead (fst (mrun all_fixed (init_state st) ops)) = None.
Proof.
  intros st ops. apply sf_alive. generalize (safe_init st). generalize (init_state st).
  induction ops as [|o ops IH]; intros m S; simpl; [exact S|].
  pose proof (safe_step o m S) as S1.
  destruct (mstep all_fixed m o) as [m1 x]. cbn [fst] in S1.
  specialize (IH m1 S1). destruct (mrun all_fixed m1 ops) as [m2 xs]. exact IH.
Qed.

(* ... while the pinned code does: C19-N1 (malformed bucket specification, then
   a measure from a host of a well-formed range) and C19-N2 (average over result
   sets with different measures, then any read-out of the source) *)
Theorem malformed_rule_crash_witness :
  exists ops, ops = [OSetBucket 0 ["5:7"; ":3"]; OMeasure "a" 1%Q 6] /\
    dead (fst (mrun pinned (init_state []) ops)) = Some FCrash /\
    dead (fst (mrun (mkFix false false true false false) (init_state []) ops)) = None.
Proof. eexists. split; [reflexivity|]. split; vm_compute; reflexivity. Qed.

Theorem average_lock_leak_witness :
  exists ops, ops = [ONew; ODirect 1 "a" 1%Q; ONew; ODirect 2 "b" 2%Q; OAverage [1; 2]; OValues 2] /\
    dead (fst (mrun pinned (init_state []) ops)) = Some FDeadlock /\
    dead (fst (mrun (mkFix false false false true false) (init_state []) ops)) = None.
Proof. eexists. split; [reflexivity|]. split; vm_compute; reflexivity. Qed.

(* ---------- read-outs are irrelevant (repaired code) ---------------------------------- *)

Definition is_readout (o : op) : bool :=
  match o with
  | OCollect _ | OString _ | OHeader _ | OValues _ | OGet _ => true
  | _ => false
  end.

(* two states that differ at most in the accumulators of their values *)
Definition kv_equiv (a b : string * value) : Prop := fst a = fst b /\ vstore (snd a) = vstore (snd b).
Definition vals_equiv (l l' : list (string * value)) : Prop := Forall2 kv_equiv l l'.
Definition stats_equiv (s s' : stats) : Prop :=
  statics s = statics s' /\ locked s = locked s' /\ vals_equiv (vals s) (vals s').
Definition st_equiv (m m' : mstate) : Prop :=
  Forall2 stats_equiv (objs m) (objs m') /\ bks m = bks m' /\ dead m = dead m'.

Lemma Forall2_refl' {A} (R : A -> A -> Prop) : (forall a, R a a) -> forall l, Forall2 R l l.
Proof. intros H l. induction l; constructor; auto. Qed.

Lemma Forall2_sym' {A} (R : A -> A -> Prop) : (forall a b, R a b -> R b a) ->
  forall l l', Forall2 R l l' -> Forall2 R l' l.
Proof. intros H l l'. induction 1; constructor; auto. Qed.

Lemma Forall2_trans' {A} (R : A -> A -> Prop) : (forall a b c, R a b -> R b c -> R a c) ->
  forall l1 l2 l3, Forall2 R l1 l2 -> Forall2 R l2 l3 -> Forall2 R l1 l3.
Proof.
  intros H l1 l2 l3 H12. revert l3. induction H12; intros l3 H23; inversion H23; subst; constructor; eauto.
Qed.

Lemma kv_equiv_refl a : kv_equiv a a. Proof. split; reflexivity. Qed.
Lemma kv_equiv_sym a b : kv_equiv a b -> kv_equiv b a.
Proof. intros [H1 H2]; split; auto. Qed.
Lemma kv_equiv_trans a b c : kv_equiv a b -> kv_equiv b c -> kv_equiv a c.
Proof. intros [H1 H2] [H3 H4]; split; congruence. Qed.

Lemma stats_equiv_refl s : stats_equiv s s.
Proof. repeat split. apply Forall2_refl', kv_equiv_refl. Qed.
Lemma stats_equiv_sym s s' : stats_equiv s s' -> stats_equiv s' s.
Proof. intros (A & B & C). repeat split; auto. eapply Forall2_sym'; [apply kv_equiv_sym|exact C]. Qed.
Lemma stats_equiv_trans a b c : stats_equiv a b -> stats_equiv b c -> stats_equiv a c.
Proof.
  intros (A & B & C) (A' & B' & C'). repeat split; try congruence.
  eapply Forall2_trans'; [apply kv_equiv_trans|exact C|exact C'].
Qed.

Lemma st_equiv_refl m : st_equiv m m.
Proof. repeat split. apply Forall2_refl', stats_equiv_refl. Qed.
Lemma st_equiv_sym m m' : st_equiv m m' -> st_equiv m' m.
Proof. intros (A & B & C). repeat split; auto. eapply Forall2_sym'; [apply stats_equiv_sym|exact A]. Qed.
Lemma st_equiv_trans a b c : st_equiv a b -> st_equiv b c -> st_equiv a c.
Proof.
  intros (A & B & C) (A' & B' & C'). repeat split; try congruence.
  eapply Forall2_trans'; [apply stats_equiv_trans|exact A|exact A'].
Qed.

Lemma Forall2_nth {A} (R : A -> A -> Prop) l l' i : Forall2 R l l' ->
  match nth_error l i, nth_error l' i with
  | Some a, Some b => R a b
  | None, None => True
  | _, _ => False
  end.
Proof.
  intros H. revert i. induction H as [|a b l l' Hab _ IH]; intros [|i]; simpl; auto. apply IH.
Qed.

Lemma Forall2_set_nth {A} (R : A -> A -> Prop) l l' i a b :
  Forall2 R l l' -> R a b -> Forall2 R (set_nth l i a) (set_nth l' i b).
Proof.
  intros H Hab. revert i. induction H as [|x y l l' Hxy Hl IH]; intros [|i]; simpl; constructor; auto.
Qed.

Lemma Forall2_app' {A} (R : A -> A -> Prop) l1 l1' l2 l2' :
  Forall2 R l1 l1' -> Forall2 R l2 l2' -> Forall2 R (l1 ++ l2) (l1' ++ l2').
Proof. intros H H2. induction H; simpl; [exact H2|constructor; auto]. Qed.

Lemma Forall2_len {A} (R : A -> A -> Prop) l l' : Forall2 R l l' -> List.length l = List.length l'.
Proof. induction 1; simpl; auto. Qed.

Lemma vals_update_equiv l l' k x : vals_equiv l l' ->
  vals_equiv (vals_update l k x) (vals_update l' k x).
Proof.
  induction 1 as [|[k1 v1] [k1' v1'] l l' [Hk Hv] Hl IH]; simpl.
  - constructor; [apply kv_equiv_refl|constructor].
  - simpl in Hk, Hv. subst k1'. destruct (String.compare k k1).
    + constructor; [|exact Hl]. split; [reflexivity|]. simpl. rewrite Hv. reflexivity.
    + constructor; [apply kv_equiv_refl|]. constructor; [split; auto|exact Hl].
    + constructor; [split; auto|exact IH].
Qed.

Lemma stats_update_equiv s s' k x : stats_equiv s s' ->
  stats_equiv (stats_update s k x) (stats_update s' k x).
Proof.
  intros (A & B & C). repeat split; cbn [stats_update statics locked vals]; auto.
  apply vals_update_equiv. exact C.
Qed.

Lemma collect_by_store v v' : vstore v = vstore v' -> collect true true v = collect true true v'.
Proof.
  intros H. rewrite (collect_fixed_store_only v), (collect_fixed_store_only v'), H. reflexivity.
Qed.

Lemma stats_collect_equiv s s' : stats_equiv s s' ->
  stats_collect true true s = mkStats (statics s) (vals (stats_collect true true s')) (locked s) /\
  stats_rows (stats_collect true true s) = stats_rows (stats_collect true true s').
Proof.
  intros (A & B & C). unfold stats_collect, stats_rows. cbn [vals statics locked].
  assert (E : map (fun kv => (fst kv, collect true true (snd kv))) (vals s) =
              map (fun kv => (fst kv, collect true true (snd kv))) (vals s')).
  { induction C as [|a b l l' [Hk Hv] _ IH]; simpl; [reflexivity|].
    rewrite IH, Hk, (collect_by_store _ _ Hv). reflexivity. }
  rewrite E. split; reflexivity.
Qed.

Lemma stats_collect_self s f21 f22 : stats_equiv s (stats_collect f21 f22 s).
Proof.
  repeat split. unfold stats_collect. cbn [vals].
  induction (vals s) as [|a l IH]; simpl; constructor; auto.
  split; [reflexivity|]. simpl. symmetry. apply collect_store.
Qed.

Lemma vals_find_equiv l l' k : vals_equiv l l' ->
  match vals_find l k, vals_find l' k with
  | Some v, Some v' => vstore v = vstore v'
  | None, None => True
  | _, _ => False
  end.
Proof.
  induction 1 as [|[k1 v1] [k1' v1'] l l' [Hk Hv] _ IH]; simpl; auto.
  simpl in Hk, Hv. subst k1'. destruct (String.eqb k k1); auto.
Qed.

Lemma buckets_update_equiv k x h bl : forall os os', Forall2 stats_equiv os os' ->
  match buckets_update bl os k x h, buckets_update bl os' k x h with
  | Some a, Some b => Forall2 stats_equiv a b
  | None, None => True
  | _, _ => False
  end.
Proof.
  induction bl as [|b bl IH]; intros os os' H; simpl; [exact H|].
  destruct (rules_match (b_rules b) h); [|apply IH; exact H].
  destruct (b_obj b) as [i|]; [|exact I].
  pose proof (Forall2_nth _ _ _ i H) as Hn.
  destruct (nth_error os i) as [s|], (nth_error os' i) as [s'|]; try contradiction; [|exact I].
  apply IH. apply Forall2_set_nth; [exact H|]. apply stats_update_equiv. exact Hn.
Qed.

Lemma avg_key_equiv fixN2 k srcs : forall os os' acc acc',
  Forall2 stats_equiv os os' -> map vstore acc = map vstore acc' ->
  match avg_key fixN2 os srcs k acc, avg_key fixN2 os' srcs k acc' with
  | Some (a, vs), Some (b, vs') => Forall2 stats_equiv a b /\ map vstore vs = map vstore vs'
  | None, None => True
  | _, _ => False
  end.
Proof.
  induction srcs as [|i srcs IH]; intros os os' acc acc' H Hacc; simpl; [auto|].
  pose proof (Forall2_nth _ _ _ i H) as Hn.
  destruct (nth_error os i) as [s|], (nth_error os' i) as [s'|]; try contradiction; [|exact I].
  destruct Hn as (A & B & C). rewrite <- B. destruct (locked s); [exact I|].
  pose proof (vals_find_equiv _ _ k C) as Hf.
  destruct (vals_find (vals s) k) as [v|], (vals_find (vals s') k) as [v'|]; try contradiction.
  - apply IH; [exact H|]. rewrite !map_app, Hacc. simpl. rewrite Hf. reflexivity.
  - destruct fixN2; [apply IH; auto|]. apply IH; [|exact Hacc].
    apply Forall2_set_nth; [exact H|]. repeat split; auto.
Qed.

Lemma avg_keys_equiv fixN2 srcs keys : forall os os' acc,
  Forall2 stats_equiv os os' ->
  match avg_keys fixN2 os srcs keys acc, avg_keys fixN2 os' srcs keys acc with
  | Some (a, kvs), Some (b, kvs') => Forall2 stats_equiv a b /\ kvs = kvs'
  | None, None => True
  | _, _ => False
  end.
Proof.
  induction keys as [|k keys IH]; intros os os' acc H; simpl; [auto|].
  pose proof (avg_key_equiv fixN2 k srcs os os' [] [] H eq_refl) as Hk.
  destruct (avg_key fixN2 os srcs k []) as [[a vs]|], (avg_key fixN2 os' srcs k []) as [[b vs']|];
    try contradiction; [|exact I].
  destruct Hk as [Hab Hvs]. unfold average_value. rewrite Hvs. apply IH. exact Hab.
Qed.

Definition res_equiv (a b : mstate * out) : Prop := st_equiv (fst a) (fst b) /\ snd a = snd b.

Lemma on_obj_equiv m m' i f f' : st_equiv m m' ->
  (forall s s', stats_equiv s s' -> nth_error (objs m) i = Some s -> nth_error (objs m') i = Some s' ->
                res_equiv (f s) (f' s')) ->
  res_equiv (on_obj m i f) (on_obj m' i f').
Proof.
  intros E Hf. pose proof E as (A & B & C). unfold on_obj.
  pose proof (Forall2_nth _ _ _ i A) as Hn.
  destruct (nth_error (objs m) i) as [s|] eqn:E1, (nth_error (objs m') i) as [s'|] eqn:E2; try contradiction.
  - pose proof Hn as (_ & Hl & _). rewrite <- Hl. destruct (locked s).
    + unfold die. split; [|reflexivity]. cbn [fst]. repeat split; auto.
    + apply Hf; auto.
  - split; [exact E|reflexivity].
Qed.

Lemma with_objs_equiv m m' os os' : st_equiv m m' -> Forall2 stats_equiv os os' ->
  st_equiv (with_objs m os) (with_objs m' os').
Proof. intros (A & B & C) H. repeat split; cbn [with_objs objs bks dead]; auto. Qed.

Lemma do_measure_equiv m m' k x h : st_equiv m m' ->
  res_equiv (do_measure m k x h) (do_measure m' k x h).
Proof.
  intros E. unfold do_measure. apply on_obj_equiv; [exact E|]. intros s s' Hs _ _.
  pose proof E as (A & B & C).
  assert (H1 : Forall2 stats_equiv (set_nth (objs m) 0 (stats_update s k x))
                                   (set_nth (objs m') 0 (stats_update s' k x))).
  { apply Forall2_set_nth; [exact A|]. apply stats_update_equiv. exact Hs. }
  pose proof (buckets_update_equiv k x h (bks m) _ _ H1) as Hb. rewrite <- B.
  destruct (buckets_update (bks m) (set_nth (objs m) 0 (stats_update s k x)) k x h) as [a|],
           (buckets_update (bks m) (set_nth (objs m') 0 (stats_update s' k x)) k x h) as [b|];
    try contradiction.
  - split; [|reflexivity]. cbn [fst]. apply with_objs_equiv; [exact E|exact Hb].
  - unfold die. split; [|reflexivity]. cbn [fst with_objs objs bks]. repeat split; auto.
Qed.

(* every operation treats equivalent states alike and reports the same *)
Lemma mstep_equiv fx o m m' : fx21 fx = true -> fx22 fx = true -> st_equiv m m' ->
  res_equiv (mstep fx m o) (mstep fx m' o).
Proof.
  intros H21 H22 E. pose proof E as (A & B & C). unfold mstep. rewrite <- C, H21, H22.
  destruct (dead m) as [f|]; [split; [exact E|reflexivity]|].
  assert (Hhd : match objs m with s :: _ => statics s | [] => [] end =
                match objs m' with s :: _ => statics s | [] => [] end).
  { destruct A as [|s s' l l' (Hs & _) _]; [reflexivity|exact Hs]. }
  destruct o as [|idx rules|k x h|k x h|i k x|i|i|i|i|idx|srcs|k x h].
  - (* ONew *) rewrite <- Hhd. split; [|reflexivity]. cbn [fst].
    apply with_objs_equiv; [exact E|]. apply Forall2_app'; [exact A|]. constructor; [apply stats_equiv_refl|constructor].
  - (* OSetBucket *) rewrite <- Hhd, <- B, (Forall2_len _ _ _ A).
    destruct (parse_rules rules) as [rs ok]. split; [|reflexivity]. cbn [fst].
    repeat split; cbn [objs bks dead]; auto.
    apply Forall2_app'; [exact A|]. constructor; [apply stats_equiv_refl|constructor].
  - (* OWire *) destruct (String.eqb (lower k) "end"); [split; [exact E|reflexivity]|].
    apply do_measure_equiv; exact E.
  - (* OMeasure *) apply do_measure_equiv; exact E.
  - (* ODirect *) apply on_obj_equiv; [exact E|]. intros s s' Hs _ _. split; [|reflexivity]. cbn [fst].
    apply with_objs_equiv; [exact E|]. apply Forall2_set_nth; [exact A|]. apply stats_update_equiv; exact Hs.
  - (* OCollect *) apply on_obj_equiv; [exact E|]. intros s s' Hs _ _. split; [|reflexivity]. cbn [fst].
    apply with_objs_equiv; [exact E|]. apply Forall2_set_nth; [exact A|].
    eapply stats_equiv_trans; [apply stats_equiv_sym, stats_collect_self|].
    eapply stats_equiv_trans; [exact Hs|apply stats_collect_self].
  - (* OString *) apply on_obj_equiv; [exact E|]. intros s s' Hs _ _. split; [|reflexivity]. cbn [fst].
    apply with_objs_equiv; [exact E|]. apply Forall2_set_nth; [exact A|].
    eapply stats_equiv_trans; [apply stats_equiv_sym, stats_collect_self|].
    eapply stats_equiv_trans; [exact Hs|apply stats_collect_self].
  - (* OHeader *) apply on_obj_equiv; [exact E|]. intros s s' (Hs1 & Hs2 & Hs3) _ _. split; [exact E|].
    cbn [snd]. unfold stats_header. rewrite Hs1. f_equal. f_equal.
    induction Hs3 as [|a b l l' [Hk _] _ IH]; simpl; [reflexivity|]. rewrite Hk, IH. reflexivity.
  - (* OValues *) apply on_obj_equiv; [exact E|]. intros s s' Hs _ _.
    destruct (stats_collect_equiv s s' Hs) as [_ Hrows]. pose proof Hs as (Hs1 & _ & _). split.
    + cbn [fst]. apply with_objs_equiv; [exact E|]. apply Forall2_set_nth; [exact A|].
      eapply stats_equiv_trans; [apply stats_equiv_sym, stats_collect_self|].
      eapply stats_equiv_trans; [exact Hs|apply stats_collect_self].
    + cbn [snd]. rewrite Hrows. unfold stats_collect. cbn [statics]. rewrite Hs1. reflexivity.
  - (* OGet *) rewrite <- B. destruct (bucket_find (bks m) idx) as [b|]; [|split; [exact E|reflexivity]].
    destruct (b_obj b) as [i|]; [|split; [exact E|reflexivity]].
    apply on_obj_equiv; [exact E|]. intros s s' Hs _ _.
    destruct (stats_collect_equiv s s' Hs) as [_ Hrows]. split.
    + cbn [fst]. apply with_objs_equiv; [exact E|]. apply Forall2_set_nth; [exact A|].
      eapply stats_equiv_trans; [apply stats_equiv_sym, stats_collect_self|].
      eapply stats_equiv_trans; [exact Hs|apply stats_collect_self].
    + cbn [snd]. rewrite Hrows. reflexivity.
  - (* OAverage *)
    destruct srcs as [|i0 srcs].
    + split; [|reflexivity]. cbn [fst]. apply with_objs_equiv; [exact E|].
      apply Forall2_app'; [exact A|]. constructor; [apply stats_equiv_refl|constructor].
    + rewrite <- (Forall2_len _ _ _ A).
      destruct (negb (forallb (fun i => Nat.ltb i (List.length (objs m))) (i0 :: srcs)));
        [split; [exact E|reflexivity]|].
      apply on_obj_equiv; [exact E|]. intros s0 s0' (Hs1 & Hs2 & Hs3) _ _.
      assert (Hkeys : map fst (vals s0) = map fst (vals s0')).
      { clear -Hs3. induction Hs3 as [|a b l l' [Hk _] _ IH]; simpl; [reflexivity|]. rewrite Hk, IH. reflexivity. }
      rewrite <- Hkeys.
      pose proof (avg_keys_equiv (fxN2 fx) (i0 :: srcs) (map fst (vals s0)) _ _ [] A) as Hk.
      destruct (avg_keys (fxN2 fx) (objs m) (i0 :: srcs) (map fst (vals s0)) []) as [[a kvs]|],
               (avg_keys (fxN2 fx) (objs m') (i0 :: srcs) (map fst (vals s0)) []) as [[b kvs']|];
        try contradiction.
      * destruct Hk as [Hab ->]. rewrite Hs1. split; [|reflexivity]. cbn [fst].
        apply with_objs_equiv; [exact E|]. apply Forall2_app'; [exact Hab|].
        constructor; [apply stats_equiv_refl|constructor].
      * unfold die. split; [|reflexivity]. cbn [fst]. repeat split; auto.
  - (* OWireErr *) destruct (fxN3 fx); [split; [exact E|reflexivity]|].
    destruct (String.eqb (lower k) "end"); [split; [exact E|reflexivity]|].
    apply do_measure_equiv; exact E.
Qed.

(* a read-out leaves the state equivalent to what it was *)
Lemma readout_self_equiv o m : safe m -> is_readout o = true ->
  st_equiv m (fst (mstep all_fixed m o)).
Proof.
  intros S Hr. pose proof S as [Hal Hlo Hbo]. unfold mstep. rewrite Hal.
  assert (Hobj : forall i (g : stats -> stats) (w : stats -> out),
            (forall s, stats_equiv s (g s)) ->
            st_equiv m (fst (on_obj m i (fun s => (with_objs m (set_nth (objs m) i (g s)), w s))))).
  { intros i g w Hg. unfold on_obj. destruct (nth_error (objs m) i) as [s|] eqn:Ei; [|apply st_equiv_refl].
    rewrite (Hlo s (nth_error_In _ _ Ei)). cbn [fst]. repeat split; cbn [with_objs objs bks dead]; auto.
    clear -Ei Hg. revert i Ei. induction (objs m) as [|y l IH]; intros [|i] Ei; simpl in *; try discriminate.
    - injection Ei as ->. constructor; [apply Hg|apply Forall2_refl', stats_equiv_refl].
    - constructor; [apply stats_equiv_refl|apply IH; exact Ei]. }
  destruct o as [|idx rules|k x h|k x h|i k x|i|i|i|i|idx|srcs|k x h]; try discriminate; cbn [all_fixed fx21 fx22].
  - apply (Hobj i (stats_collect true true) (fun _ => OutNone)). intros s; apply stats_collect_self.
  - apply (Hobj i (stats_collect true true) (fun _ => OutNone)). intros s; apply stats_collect_self.
  - unfold on_obj. destruct (nth_error (objs m) i) as [s|] eqn:Ei; [|apply st_equiv_refl].
    rewrite (Hlo s (nth_error_In _ _ Ei)). apply st_equiv_refl.
  - apply (Hobj i (stats_collect true true)
             (fun s => OutValues (map snd (statics (stats_collect true true s))) (stats_rows (stats_collect true true s)))).
    intros s; apply stats_collect_self.
  - destruct (bucket_find (bks m) idx) as [b|]; [|apply st_equiv_refl].
    destruct (b_obj b) as [i|]; [|apply st_equiv_refl].
    apply (Hobj i (stats_collect true true) (fun s => OutGet true (stats_rows (stats_collect true true s)))).
    intros s; apply stats_collect_self.
Qed.

Definition strip_readouts (ops : list op) : list op := filter (fun o => negb (is_readout o)) ops.

Lemma run_strip ops : forall m m', safe m -> safe m' -> st_equiv m m' ->
  st_equiv (fst (mrun all_fixed m ops)) (fst (mrun all_fixed m' (strip_readouts ops))).
Proof.
  induction ops as [|o ops IH]; intros m m' S S' E; [exact E|].
  cbn [strip_readouts filter mrun]. destruct (is_readout o) eqn:Hr; cbn [negb].
  - pose proof (readout_self_equiv o m S Hr) as E1. pose proof (safe_step o m S) as S1.
    destruct (mstep all_fixed m o) as [m1 x]. cbn [fst] in *.
    specialize (IH m1 m' S1 S' (st_equiv_trans _ _ _ (st_equiv_sym _ _ E1) E)).
    fold (strip_readouts ops). destruct (mrun all_fixed m1 ops) as [m2 xs]. exact IH.
  - cbn [mrun]. destruct (mstep_equiv all_fixed o m m' eq_refl eq_refl E) as [E1 _].
    pose proof (safe_step o m S) as S1. pose proof (safe_step o m' S') as S1'.
    destruct (mstep all_fixed m o) as [m1 x]. destruct (mstep all_fixed m' o) as [m1' x']. cbn [fst] in *.
    specialize (IH m1 m1' S1 S1' E1). fold (strip_readouts ops).
    destruct (mrun all_fixed m1 ops) as [m2 xs]. destruct (mrun all_fixed m1' (strip_readouts ops)) as [m2' xs'].
    exact IH.
Qed.

(* what operation [fin] reports after the history [ops] *)
Definition final_out (fx : fixes) (st : list (string * string)) (ops : list op) (fin : op) : out :=
  snd (mstep fx (fst (mrun fx (init_state st) ops)) fin).

(* HEADLINE: with the repairs, what any operation reports (a CSV write, a bucket
   Get, a header) after a history is what it reports after the same history
   with every read-out operation -- Collect, String, WriteHeader, WriteValues,
   bucket Get, in any number, at any position, on any result set -- removed. *)
Theorem readouts_irrelevant : forall st ops fin,
  final_out all_fixed st ops fin = final_out all_fixed st (strip_readouts ops) fin.
Proof.
  intros st ops fin. unfold final_out.
  pose proof (run_strip ops _ _ (safe_init st) (safe_init st) (st_equiv_refl _)) as E.
  apply (mstep_equiv all_fixed fin _ _ eq_refl eq_refl E).
Qed.

Example readouts_irrelevant_nontrivial :
  strip_readouts [OMeasure "a" 1%Q 0; OValues 0; OString 0; OMeasure "a" 2%Q 0; OGet 3; OCollect 0]
  = [OMeasure "a" 1%Q 0; OMeasure "a" 2%Q 0].
Proof. reflexivity. Qed.

(* F21 on the state machine: the log line of the simulation driver (String)
   before the write changes what the pinned code writes *)
Theorem readouts_irrelevant_refuted :
  exists st ops fin,
    ops = [OMeasure "round" 1%Q (-1); OMeasure "round" 2%Q (-1); OMeasure "round" 3%Q (-1);
           OMeasure "round" 6%Q (-1); OString 0] /\ fin = OValues 0 /\
    final_out pinned st ops fin <> final_out pinned st (strip_readouts ops) fin.
Proof.
  exists [], [OMeasure "round" 1%Q (-1); OMeasure "round" 2%Q (-1); OMeasure "round" 3%Q (-1);
              OMeasure "round" 6%Q (-1); OString 0], (OValues 0).
  split; [reflexivity|]. split; [reflexivity|]. vm_compute. discriminate.
Qed.

(* ---------- averaging result sets ----------------------------------------------------- *)

(* per key, the values found in the sources, in source order *)
Fixpoint found_values (os : list stats) (srcs : list nat) (k : string) : list value :=
  match srcs with
  | [] => []
  | i :: r =>
      match nth_error os i with
      | Some s => match vals_find (vals s) k with
                  | Some v => v :: found_values os r k
                  | None => found_values os r k
                  end
      | None => found_values os r k
      end
  end.

Lemma avg_key_complete fixN2 k os : forall srcs acc,
  (forall s, In s os -> locked s = false) ->
  (forall i, In i srcs -> exists s, nth_error os i = Some s /\ vals_find (vals s) k <> None) ->
  avg_key fixN2 os srcs k acc = Some (os, acc ++ found_values os srcs k).
Proof.
  induction srcs as [|i srcs IH]; intros acc Hlock Hsrc; simpl.
  - rewrite app_nil_r. reflexivity.
  - destruct (Hsrc i (or_introl eq_refl)) as (s & Es & Hf). rewrite Es.
    rewrite (Hlock s (nth_error_In _ _ Es)).
    destruct (vals_find (vals s) k) as [v|]; [|congruence].
    rewrite IH; auto. rewrite <- app_assoc. reflexivity.
    intros j Hj. apply Hsrc. now right.
Qed.

Lemma avg_keys_complete fixN2 os srcs : forall keys acc,
  (forall s, In s os -> locked s = false) ->
  (forall k i, In k keys -> In i srcs -> exists s, nth_error os i = Some s /\ vals_find (vals s) k <> None) ->
  avg_keys fixN2 os srcs keys acc =
  Some (os, acc ++ map (fun k => (k, average_value (found_values os srcs k))) keys).
Proof.
  induction keys as [|k keys IH]; intros acc Hlock Hsrc; simpl.
  - rewrite app_nil_r. reflexivity.
  - rewrite (avg_key_complete fixN2 k os srcs []); auto.
    + simpl. rewrite IH; auto. rewrite <- app_assoc. reflexivity.
      intros k' i Hk Hi. apply Hsrc; [now right|exact Hi].
    + intros i Hi. apply Hsrc; [now left|exact Hi].
Qed.

(* HEADLINE: AverageStats over result sets that all carry the measures of the
   first one: no source stays locked, and the new result set holds, per
   measure, the concatenation of the sources' values -- whether or not the
   sources were read before. *)
Theorem average_stats_union : forall fx m i0 srcs s0,
  dead m = None -> (forall s, In s (objs m) -> locked s = false) ->
  nth_error (objs m) i0 = Some s0 ->
  (forall i, In i srcs -> (i < List.length (objs m))%nat) ->
  (forall k i, In k (map fst (vals s0)) -> In i (i0 :: srcs) ->
     exists s, nth_error (objs m) i = Some s /\ vals_find (vals s) k <> None) ->
  mstep fx m (OAverage (i0 :: srcs)) =
    (with_objs m (objs m ++
       [mkStats (statics s0)
          (map (fun k => (k, average_value (found_values (objs m) (i0 :: srcs) k))) (map fst (vals s0)))
          false]), OutNone).
Proof.
  intros fx m i0 srcs s0 Hal Hlock H0 Hex Hsrc. unfold mstep. rewrite Hal.
  assert (Hr : forallb (fun i => Nat.ltb i (List.length (objs m))) (i0 :: srcs) = true).
  { apply forallb_forall. intros i Hi. apply Nat.ltb_lt.
    destruct Hi as [<-|Hi]; [eapply nth_error_lt; eauto|auto]. }
  rewrite Hr. cbn [negb]. unfold on_obj. rewrite H0, (Hlock s0 (nth_error_In _ _ H0)).
  rewrite (avg_keys_complete (fxN2 fx) (objs m) (i0 :: srcs) (map fst (vals s0)) [] Hlock Hsrc).
  reflexivity.
Qed.

(* ... so the repaired read-out of the averaged set reports, per measure, the
   statistics of the union of the sources' values *)
Corollary average_reports_union : forall os srcs k,
  snap_eq (snapshot (collect true true (average_value (found_values os srcs k))))
          (exact (List.concat (map vstore (found_values os srcs k)))).
Proof. intros. apply average_is_union. Qed.

Example average_stats_union_example :
  let ops := [ONew; ODirect 1 "a" 1%Q; ODirect 1 "a" 2%Q; OValues 1; ONew; ODirect 2 "a" 6%Q;
              OAverage [1; 2]; OValues 3] in
  final_out all_fixed [] ops (OValues 3) =
  OutValues [] [("a", exact [1%Q; 2%Q; 6%Q])].
Proof. vm_compute. reflexivity. Qed.

(* ---------- C19-N3: a message that fails to decode -------------------------------------- *)

Definition out_keys (o : out) : list string :=
  match o with OutValues _ rows | OutGet _ rows => map fst rows | _ => [] end.

(* the pinned handleConnection forwards the half-filled struct: a measure
   nobody recorded (here the empty name with value 0) appears in the results *)
Theorem undecodable_message_witness :
  exists ops, ops = [OWire "a" 1%Q 2; OWireErr "" 0%Q 0] /\
    out_keys (final_out pinned [] ops (OValues 0)) = [""; "a"] /\
    out_keys (final_out (mkFix false false false false true) [] ops (OValues 0)) = ["a"].
Proof. eexists. split; [reflexivity|]. split; vm_compute; reflexivity. Qed.

(* repaired: such a message changes nothing, in any state *)
Theorem undecodable_message_ignored : forall fx m k x h,
  fxN3 fx = true -> fst (mstep fx m (OWireErr k x h)) = m.
Proof.
  intros fx m k x h H. unfold mstep. destruct (dead m); [reflexivity|]. rewrite H. reflexivity.
Qed.

(* ---------- arrival order at the monitor ------------------------------------------------ *)

Lemma recorded_perm k p ms ms' : Permutation ms ms' ->
  Permutation (recorded k p ms) (recorded k p ms').
Proof.
  intros P. unfold recorded. apply Permutation_map.
  induction P as [|x l l' _ IH|x y l|l1 l2 l3 _ IH1 _ IH2]; simpl.
  - constructor.
  - destruct (String.eqb k (m_name x) && p (m_host x)); [apply perm_skip|]; exact IH.
  - destruct (String.eqb k (m_name x) && p (m_host x)), (String.eqb k (m_name y) && p (m_host y));
      try apply Permutation_refl. apply perm_swap.
  - eapply Permutation_trans; eauto.
Qed.

(* HEADLINE: two runs of the monitor that receive the same measures in different
   orders (any scheduling of any number of reporting connections) hold, in the
   global result set and in every bucket, value lists with the same exact
   statistics -- so with F21/F22 repaired they report the same numbers
   (values_report_exact), and the pinned code does on its first read-out. *)
Theorem arrival_order_irrelevant : forall fx st bs ms ms',
  NoDup (map fst bs) ->
  (forall b, In b bs -> snd (parse_rules (snd b)) = true) ->
  Permutation ms ms' ->
  let m := fst (mrun fx (init_state st) (setups bs ++ mops ms)) in
  let m' := fst (mrun fx (init_state st) (setups bs ++ mops ms')) in
  forall i k, (i <= List.length bs)%nat ->
    Permutation (store_at m i k) (store_at m' i k) /\
    snap_eq (exact (store_at m i k)) (exact (store_at m' i k)).
Proof.
  intros fx st bs ms ms' Hnd Hok P m m' i k Hi.
  destruct (buckets_exact fx st bs ms Hnd Hok) as (_ & H0 & Hb).
  destruct (buckets_exact fx st bs ms' Hnd Hok) as (_ & H0' & Hb').
  fold m in H0, Hb. fold m' in H0', Hb'.
  assert (HP : Permutation (store_at m i k) (store_at m' i k)).
  { destruct i as [|j].
    - rewrite H0, H0'. apply recorded_perm. exact P.
    - destruct (nth_error bs j) as [[idx rules]|] eqn:Ej.
      + rewrite (Hb j idx rules Ej), (Hb' j idx rules Ej). apply recorded_perm. exact P.
      + apply nth_error_None in Ej. lia. }
  split; [exact HP|]. apply exact_perm. exact HP.
Qed.

(* ---------- [wf] is an invariant of EVERY operation (repaired machine) -------------------- *)
(* so that values_report_exact applies in every reachable state, whatever mix of
   set-up, measures, direct updates, new result sets, averaging and read-outs led there *)

Lemma ksorted_keys_ext l : forall l', map fst l = map fst l' -> ksorted l -> ksorted l'.
Proof.
  induction l as [|a l IH]; intros [|a' l'] E H; try discriminate; [constructor|].
  simpl in E. injection E as Ea El. inversion H as [|? ? Hall Hs]; subst.
  constructor; [|apply IH; assumption].
  clear -Hall Ea El. revert l' El. induction Hall as [|b l Hb _ IHl]; intros [|b' l'] El; try discriminate; constructor.
  - simpl in El. injection El as Eb _. unfold klt in *. rewrite <- Ea, <- Eb. exact Hb.
  - simpl in El. injection El as _ El. apply IHl. exact El.
Qed.

Lemma stats_collect_sorted f21 f22 s : ksorted (vals s) -> ksorted (vals (stats_collect f21 f22 s)).
Proof.
  apply ksorted_keys_ext. unfold stats_collect. cbn [vals]. rewrite map_map. reflexivity.
Qed.

Lemma avg_keys_fst fixN2 srcs : forall keys os acc os' kvs,
  avg_keys fixN2 os srcs keys acc = Some (os', kvs) -> map fst kvs = map fst acc ++ keys.
Proof.
  induction keys as [|k keys IH]; intros os acc os' kvs H; simpl in H.
  - injection H as _ <-. rewrite app_nil_r. reflexivity.
  - destruct (avg_key fixN2 os srcs k []) as [[os1 vs]|]; [|discriminate].
    apply IH in H. rewrite H, map_app, <- app_assoc. reflexivity.
Qed.

Lemma bucket_set_nodup bl nb : NoDup (map b_obj bl) -> ~ In (b_obj nb) (map b_obj bl) ->
  NoDup (map b_obj (bucket_set bl nb)).
Proof.
  induction bl as [|b bl IH]; simpl; intros Hnd Hnot.
  - constructor; [intros []|constructor].
  - inversion Hnd as [|? ? Hb Hrest]; subst. destruct (b_idx b =? b_idx nb)%Z; simpl.
    + constructor; [tauto|exact Hrest].
    + constructor; [|apply IH; tauto].
      intros Hin. apply in_map_iff in Hin as (b' & Eb & Hb').
      apply in_bucket_set in Hb' as [->|Hb']; [apply Hnot; left; symmetry; exact Eb|].
      apply Hb. rewrite <- Eb. apply in_map. exact Hb'.
Qed.

Lemma wf_set m i s s' : wf m -> nth_error (objs m) i = Some s ->
  locked s' = false -> ksorted (vals s') -> wf (with_objs m (set_nth (objs m) i s')).
Proof.
  intros [Hal Hne Hso Hlo Hbo Hbd] Hi Hl Hs. constructor; cbn [with_objs dead objs bks]; auto.
  - intros E. apply (f_equal (@List.length stats)) in E. rewrite set_nth_length in E.
    destruct (objs m); [congruence|discriminate].
  - intros s0 H0. destruct (in_set_nth _ _ _ _ H0) as [->|H]; auto.
  - intros s0 H0. destruct (in_set_nth _ _ _ _ H0) as [->|H]; auto.
  - intros b Hb. rewrite set_nth_length. auto.
Qed.

Lemma wf_grow m s : wf m -> locked s = false -> ksorted (vals s) ->
  wf (with_objs m (objs m ++ [s])).
Proof.
  intros [Hal Hne Hso Hlo Hbo Hbd] Hl Hs. constructor; cbn [with_objs dead objs bks]; auto.
  - intros E. apply app_eq_nil in E as [E _]. congruence.
  - intros s0 H0. apply in_app_or in H0 as [H|[<-|[]]]; auto.
  - intros s0 H0. apply in_app_or in H0 as [H|[<-|[]]]; auto.
  - intros b Hb. destruct (Hbo b Hb) as (i & A & B). exists i. split; [exact A|]. rewrite app_length. lia.
Qed.

Lemma wf_safe m : wf m -> safe m.
Proof.
  intros [Hal Hne Hso Hlo Hbo Hbd]. constructor; auto.
  intros b Hb. destruct (Hbo b Hb) as (i & A & B). exists i. split; [exact A|lia].
Qed.

Lemma wf_on_obj m i f : wf m ->
  (forall s, nth_error (objs m) i = Some s -> wf (fst (f s))) -> wf (fst (on_obj m i f)).
Proof.
  intros W Hf. unfold on_obj. destruct (nth_error (objs m) i) as [s|] eqn:E; [|exact W].
  rewrite (wf_unlocked m W s (nth_error_In _ _ E)). apply Hf. reflexivity.
Qed.

Lemma wf_measure (fx : fixes) m k x h : wf m -> wf (fst (do_measure m k x h)).
Proof.
  intros W. destruct (measure_step fx m k x h W) as (m' & E & W' & _).
  unfold mstep in E. rewrite (wf_alive m W) in E. rewrite E. exact W'.
Qed.

Theorem wf_step : forall o m, wf m -> wf (fst (mstep all_fixed m o)).
Proof.
  intros o m W. pose proof W as [Hal Hne Hso Hlo Hbo Hbd]. unfold mstep. rewrite Hal.
  cbn [all_fixed fx21 fx22 fxN1 fxN2 fxN3].
  destruct o as [|idx rules|k x h|k x h|i k x|i|i|i|i|idx|srcs|k x h].
  - (* ONew *) cbn [fst]. apply wf_grow; [exact W|reflexivity|constructor].
  - (* OSetBucket *)
    destruct (parse_rules rules) as [rs ok]. cbn [fst].
    destruct ok; cbn [negb andb].
    + constructor; cbn [dead objs bks].
      * reflexivity.
      * intros E. apply app_eq_nil in E as [E _]. congruence.
      * intros s Hs. apply in_app_or in Hs as [H|[<-|[]]]; [auto|constructor].
      * intros s Hs. apply in_app_or in Hs as [H|[<-|[]]]; [auto|reflexivity].
      * intros b Hb. rewrite app_length. simpl. apply in_bucket_set in Hb as [->|Hb].
        -- eexists. split; [reflexivity|]. destruct (objs m); [congruence|simpl; lia].
        -- destruct (Hbo b Hb) as (i & A & B). exists i. split; [exact A|lia].
      * apply bucket_set_nodup; [exact Hbd|]. cbn [b_obj]. intros Hin.
        apply in_map_iff in Hin as (b & Eb & Hb). destruct (Hbo b Hb) as (i & A & B).
        rewrite A in Eb. injection Eb as ->. lia.
    + constructor; cbn [dead objs bks]; auto.
      * intros E. apply app_eq_nil in E as [E _]. congruence.
      * intros s Hs. apply in_app_or in Hs as [H|[<-|[]]]; [auto|constructor].
      * intros s Hs. apply in_app_or in Hs as [H|[<-|[]]]; [auto|reflexivity].
      * intros b Hb. destruct (Hbo b Hb) as (i & A & B). exists i. split; [exact A|].
        rewrite app_length. lia.
  - (* OWire *) destruct (String.eqb (lower k) "end"); [exact W|]. apply (wf_measure all_fixed); exact W.
  - (* OMeasure *) apply (wf_measure all_fixed); exact W.
  - (* ODirect *) apply wf_on_obj; [exact W|]. intros s Hs. cbn [fst].
    pose proof (nth_error_In _ _ Hs) as Hin.
    eapply wf_set; [exact W|exact Hs|cbn [stats_update locked]; auto|apply stats_update_sorted; auto].
  - (* OCollect *) apply wf_on_obj; [exact W|]. intros s Hs. cbn [fst].
    pose proof (nth_error_In _ _ Hs) as Hin.
    eapply wf_set; [exact W|exact Hs|apply (Hlo s Hin)|apply stats_collect_sorted; auto].
  - (* OString *) apply wf_on_obj; [exact W|]. intros s Hs. cbn [fst].
    pose proof (nth_error_In _ _ Hs) as Hin.
    eapply wf_set; [exact W|exact Hs|apply (Hlo s Hin)|apply stats_collect_sorted; auto].
  - (* OHeader *) apply wf_on_obj; [exact W|]. intros s Hs. exact W.
  - (* OValues *) apply wf_on_obj; [exact W|]. intros s Hs. cbn [fst].
    pose proof (nth_error_In _ _ Hs) as Hin.
    eapply wf_set; [exact W|exact Hs|apply (Hlo s Hin)|apply stats_collect_sorted; auto].
  - (* OGet *)
    destruct (bucket_find (bks m) idx) as [b|]; [|exact W].
    destruct (b_obj b) as [i|]; [|exact W].
    apply wf_on_obj; [exact W|]. intros s Hs. cbn [fst].
    pose proof (nth_error_In _ _ Hs) as Hin.
    eapply wf_set; [exact W|exact Hs|apply (Hlo s Hin)|apply stats_collect_sorted; auto].
  - (* OAverage *)
    destruct srcs as [|i0 srcs]; [cbn [fst]; apply wf_grow; [exact W|reflexivity|constructor]|].
    destruct (forallb (fun i => Nat.ltb i (List.length (objs m))) (i0 :: srcs)) eqn:Er; cbn [negb]; [|exact W].
    apply wf_on_obj; [exact W|]. intros s0 Hs0.
    destruct (avg_keys_fixed (i0 :: srcs) (map fst (vals s0)) (objs m) [] Hlo) as (kvs & E).
    { intros i Hi. rewrite forallb_forall in Er. apply Nat.ltb_lt. apply Er. exact Hi. }
    rewrite E. cbn [fst]. apply wf_grow; [exact W|reflexivity|]. cbn [vals].
    apply (ksorted_keys_ext (vals s0)); [|apply Hso; eapply nth_error_In; eauto].
    apply avg_keys_fst in E. rewrite E. reflexivity.
  - (* OWireErr *) exact W.
Qed.

(* HEADLINE: every state the repaired machine can reach, by ANY history, is
   well-formed ... *)
Theorem wf_reachable : forall st ops, wf (fst (mrun all_fixed (init_state st) ops)).
Proof.
  intros st ops. generalize (wf_init st). generalize (init_state st).
  induction ops as [|o ops IH]; intros m W; simpl; [exact W|].
  pose proof (wf_step o m W) as W1. destruct (mstep all_fixed m o) as [m1 x]. cbn [fst] in W1.
  specialize (IH m1 W1). destruct (mrun all_fixed m1 ops) as [m2 xs]. exact IH.
Qed.

(* ... hence after ANY history a write reports, for every measure of the result
   set, exactly the statistics of the values stored for it *)
Theorem values_report_exact_reachable : forall st ops i s,
  let m := fst (mrun all_fixed (init_state st) ops) in
  nth_error (objs m) i = Some s ->
  exists m' rows, mstep all_fixed m (OValues i) = (m', OutValues (map snd (statics s)) rows) /\
    map fst rows = map fst (vals s) /\
    (forall k sn, In (k, sn) rows -> snap_eq sn (exact (store_at m i k))) /\
    (forall k, store_at m i k <> [] -> exists sn, In (k, sn) rows) /\
    (forall k, store_at m' i k = store_at m i k).
Proof.
  intros st ops i s m Hi. apply values_report_exact; auto. apply wf_reachable.
Qed.

(* ---------- averaging, end to end, for arbitrary histories ---------------------------------- *)

Lemma st_equiv_store_at m m' i k : st_equiv m m' -> store_at m i k = store_at m' i k.
Proof.
  intros (A & _ & _). unfold store_at. pose proof (Forall2_nth _ _ _ i A) as Hn.
  destruct (nth_error (objs m) i) as [s|], (nth_error (objs m') i) as [s'|]; try contradiction; [|reflexivity].
  destruct Hn as (_ & _ & C). unfold store_of, store_of_vals.
  pose proof (vals_find_equiv _ _ k C) as Hf.
  destruct (vals_find (vals s) k), (vals_find (vals s') k); try contradiction; auto.
Qed.

Lemma readouts_keep ros : forall m, wf m -> Forall (fun o => is_readout o = true) ros ->
  wf (fst (mrun all_fixed m ros)) /\ st_equiv m (fst (mrun all_fixed m ros)).
Proof.
  induction ros as [|o ros IH]; intros m W H; [split; [exact W|apply st_equiv_refl]|].
  inversion H as [|? ? Ho Hros]; subst. cbn [mrun].
  pose proof (wf_step o m W) as W1.
  pose proof (readout_self_equiv o m (wf_safe m W) Ho) as E1.
  destruct (mstep all_fixed m o) as [m1 x]. cbn [fst] in *.
  destruct (IH m1 W1 Hros) as [W2 E2]. destruct (mrun all_fixed m1 ros) as [m2 xs]. cbn [fst] in *.
  split; [exact W2|]. eapply st_equiv_trans; eauto.
Qed.

Lemma found_values_concat m srcs k :
  List.concat (map vstore (found_values (objs m) srcs k)) =
  List.concat (map (fun i => store_at m i k) srcs).
Proof.
  induction srcs as [|i srcs IH]; [reflexivity|]. cbn [found_values map List.concat].
  unfold store_at at 1. destruct (nth_error (objs m) i) as [s|]; [|exact IH].
  unfold store_of, store_of_vals. destruct (vals_find (vals s) k) as [v|]; [|exact IH].
  cbn [map List.concat]. rewrite IH. reflexivity.
Qed.

(* result set i carries measure k *)
Definition has_measure (m : mstate) (i : nat) (k : string) : Prop :=
  exists s, nth_error (objs m) i = Some s /\ vals_find (vals s) k <> None.

(* HEADLINE (averaging clause of the property, end to end, repaired machine):
   let ANY history [ops] -- bucket set-up, measures arriving over any interleaving
   of connections, direct updates, earlier averages, any number of read-outs of
   anything -- lead to state m; let i0 :: srcs be result sets over the same
   measures (each carries every measure of i0); average them; perform any
   further read-outs [ros] (of the sources, of the average, of anything); then
   write the averaged set.  Every written measure carries exactly the
   statistics of the UNION (concatenation, in source order; by
   c19_statistics_of_multiset any arrangement) of the values the sources held
   for it, and every measure of i0 is written. *)
Theorem average_end_to_end : forall st ops i0 srcs ros,
  let m := fst (mrun all_fixed (init_state st) ops) in
  let a := List.length (objs m) in
  (forall i, In i (i0 :: srcs) -> (i < a)%nat) ->
  (forall k i, has_measure m i0 k -> In i srcs -> has_measure m i k) ->
  Forall (fun o => is_readout o = true) ros ->
  let m2 := fst (mrun all_fixed m (OAverage (i0 :: srcs) :: ros)) in
  exists m3 stt rows, mstep all_fixed m2 (OValues a) = (m3, OutValues stt rows) /\
    (forall k sn, In (k, sn) rows ->
       snap_eq sn (exact (List.concat (map (fun i => store_at m i k) (i0 :: srcs))))) /\
    (forall k, has_measure m i0 k -> exists sn, In (k, sn) rows).
Proof.
  intros st ops i0 srcs ros m a Hrange Hsame Hros m2.
  pose proof (wf_reachable st ops) as W. fold m in W.
  pose proof W as [Hal Hne Hso Hlo Hbo Hbd].
  destruct (nth_error (objs m) i0) as [s0|] eqn:E0;
    [|apply nth_error_None in E0; specialize (Hrange i0 (or_introl eq_refl)); unfold a in Hrange; lia].
  assert (Hkeys : forall k, In k (map fst (vals s0)) -> has_measure m i0 k).
  { intros k Hk. exists s0. split; [exact E0|]. apply in_map_iff in Hk as ([k' v] & <- & Hv).
    cbn [fst]. rewrite (ksorted_find _ _ _ (Hso s0 (nth_error_In _ _ E0)) Hv). discriminate. }
  assert (H1 : forall i, In i srcs -> (i < List.length (objs m))%nat).
  { intros i Hi. apply Hrange. now right. }
  assert (H2 : forall k i, In k (map fst (vals s0)) -> In i (i0 :: srcs) ->
                 exists s, nth_error (objs m) i = Some s /\ vals_find (vals s) k <> None).
  { intros k i Hk [<-|Hi]; [apply Hkeys; exact Hk|apply Hsame; [apply Hkeys; exact Hk|exact Hi]]. }
  pose proof (average_stats_union all_fixed m i0 srcs s0 Hal Hlo E0 H1 H2) as Estep.
  set (snew := mkStats (statics s0)
                 (map (fun k => (k, average_value (found_values (objs m) (i0 :: srcs) k))) (map fst (vals s0)))
                 false) in Estep.
  set (m1 := with_objs m (objs m ++ [snew])) in Estep.
  unfold m2. cbn [mrun]. rewrite Estep.
  assert (W1 : wf m1).
  { pose proof (wf_step (OAverage (i0 :: srcs)) m W) as H. rewrite Estep in H. exact H. }
  destruct (readouts_keep ros m1 W1 Hros) as [W2 E12].
  destruct (mrun all_fixed m1 ros) as [m2' outs] eqn:Er. cbn [fst] in *.
  assert (Ha1 : nth_error (objs m1) a = Some snew).
  { unfold m1, a. cbn [with_objs objs]. rewrite nth_error_app2 by lia. rewrite Nat.sub_diag. reflexivity. }
  pose proof E12 as (A12 & _ & _). pose proof (Forall2_nth _ _ _ a A12) as Hn. rewrite Ha1 in Hn.
  destruct (nth_error (objs m2') a) as [s2|] eqn:Ea2; [|contradiction].
  destruct (values_report_exact all_fixed m2' a s2 eq_refl eq_refl W2 Ea2) as (m3 & rows & Ev & Hfst & Hex & Hall & _).
  exists m3, (map snd (statics s2)), rows. split; [exact Ev|].
  assert (Hstore : forall k, In k (map fst (vals s0)) ->
            store_at m2' a k = List.concat (map (fun i => store_at m i k) (i0 :: srcs))).
  { intros k Hk. rewrite <- (st_equiv_store_at m1 m2' a k E12). unfold store_at. rewrite Ha1.
    unfold store_of, store_of_vals, snew. cbn [vals].
    assert (Hf : vals_find (map (fun k0 => (k0, average_value (found_values (objs m) (i0 :: srcs) k0)))
                               (map fst (vals s0))) k
                 = Some (average_value (found_values (objs m) (i0 :: srcs) k))).
    { apply ksorted_find.
      - apply (ksorted_keys_ext (vals s0)); [|apply Hso; eapply nth_error_In; eauto].
        rewrite !map_map. reflexivity.
      - apply in_map_iff. exists k. auto. }
    rewrite Hf. unfold average_value. cbn [with_store vstore]. apply found_values_concat. }
  assert (Hrowkeys : map fst rows = map fst (vals s0)).
  { rewrite Hfst. destruct Hn as (_ & _ & C). unfold snew in C. cbn [vals] in C.
    clear -C. revert C. generalize (vals s2). generalize (map fst (vals s0)).
    induction l as [|k l IH]; intros l2 C; inversion C as [|? ? ? ? [Hk _] Hr]; subst; [reflexivity|].
    simpl in *. rewrite <- Hk. f_equal. apply IH. exact Hr. }
  split.
  - intros k sn Hin. rewrite <- Hstore; [apply Hex; exact Hin|].
    rewrite <- Hrowkeys. apply in_map_iff. exists (k, sn). auto.
  - intros k (s & Es & Hf). rewrite E0 in Es. injection Es as <-.
    assert (Hk : In k (map fst rows)).
    { rewrite Hrowkeys. destruct (vals_find (vals s0) k) as [v|] eqn:Ev0; [|congruence].
      apply in_map_iff. exists (k, v). split; [reflexivity|]. apply vals_find_in. exact Ev0. }
    apply in_map_iff in Hk as ([k' sn] & <- & Hin). exists sn. exact Hin.
Qed.

Example average_end_to_end_satisfiable :
  let ops := [OSetBucket 0 ["0:2"]; OMeasure "a" 1%Q 0; ONew; ODirect 2 "a" 2%Q; OValues 2;
              ONew; ODirect 3 "a" 6%Q; ODirect 3 "b" 7%Q] in
  let m := fst (mrun all_fixed (init_state []) ops) in
  (forall i, In i [2%nat; 3%nat; 1%nat] -> (i < List.length (objs m))%nat) /\
  (forall k i, has_measure m 2 k -> In i [3%nat; 1%nat] -> has_measure m i k).
Proof.
  cbn zeta. split.
  - intros i [<-|[<-|[<-|[]]]]; vm_compute; lia.
  - intros k i (s & Es & Hf) Hi. vm_compute in Es. injection Es as <-.
    cbn [vals vals_find] in Hf. destruct (String.eqb k "a") eqn:E; [|congruence].
    apply String.eqb_eq in E. subst k.
    destruct Hi as [<-|[<-|[]]]; eexists; (split; [vm_compute; reflexivity|vm_compute; discriminate]).
Qed.

(* ---------- read-outs concurrent with the recording ----------------------------------------- *)
(* Stats.Update and Stats.Collect (hence every read-out) hold the Stats mutex for
   their whole body, so an execution with reader goroutines is some interleaving,
   operation by operation, of the recording thread's operations with the readers'
   read-outs. *)

Inductive interleave2 : list op -> list op -> list op -> Prop :=
| il2_nil : interleave2 [] [] []
| il2_l : forall x a b m, interleave2 a b m -> interleave2 (x :: a) b (x :: m)
| il2_r : forall y a b m, interleave2 a b m -> interleave2 a (y :: b) (y :: m).

Lemma strip_interleave ups ros merged : interleave2 ups ros merged ->
  (forall o, In o ups -> is_readout o = false) -> (forall o, In o ros -> is_readout o = true) ->
  strip_readouts merged = ups.
Proof.
  induction 1 as [|x a b m _ IH|y a b m _ IH]; intros Hu Hr; [reflexivity| |].
  - cbn [strip_readouts filter]. rewrite (Hu x (or_introl eq_refl)). cbn [negb]. f_equal.
    apply IH; [intros o Ho; apply Hu; now right|exact Hr].
  - cbn [strip_readouts filter]. rewrite (Hr y (or_introl eq_refl)). cbn [negb].
    apply IH; [exact Hu|intros o Ho; apply Hr; now right].
Qed.

(* read-outs never change WHAT IS RECORDED: after any history every result set
   holds, for every measure, the same values as after the history without its
   read-outs *)
Theorem readouts_keep_recorded : forall st ops i k,
  store_at (fst (mrun all_fixed (init_state st) ops)) i k =
  store_at (fst (mrun all_fixed (init_state st) (strip_readouts ops))) i k.
Proof.
  intros st ops i k. apply st_equiv_store_at.
  apply (run_strip ops _ _ (safe_init st) (safe_init st) (st_equiv_refl _)).
Qed.

(* HEADLINE: after any prefix, let the recording operations [ups] run
   concurrently with any read-outs [ros] of any reader threads (any interleaving
   [merged]); whatever is read or written afterwards is what it would be had no
   reader run: nothing recorded is lost, nothing is counted twice. *)
Theorem concurrent_readers_irrelevant : forall st pre ups ros merged fin,
  interleave2 ups ros merged ->
  (forall o, In o ups -> is_readout o = false) -> (forall o, In o ros -> is_readout o = true) ->
  final_out all_fixed st (pre ++ merged) fin = final_out all_fixed st (pre ++ ups) fin.
Proof.
  intros st pre ups ros merged fin Hi Hu Hr.
  rewrite (readouts_irrelevant st (pre ++ merged) fin), (readouts_irrelevant st (pre ++ ups) fin).
  unfold strip_readouts. rewrite !filter_app. fold (strip_readouts merged). fold (strip_readouts ups).
  rewrite (strip_interleave _ _ _ Hi Hu Hr).
  assert (E : strip_readouts ups = ups).
  { clear -Hu. induction ups as [|o l IH]; [reflexivity|]. cbn [strip_readouts filter].
    rewrite (Hu o (or_introl eq_refl)). cbn [negb]. f_equal. apply IH. intros o' Ho'. apply Hu. now right. }
  rewrite E. reflexivity.
Qed.

Example concurrent_readers_example :
  interleave2 [OMeasure "a" 1%Q 0; OMeasure "a" 2%Q 0] [OString 0; OCollect 0; OValues 0]
              [OString 0; OMeasure "a" 1%Q 0; OCollect 0; OValues 0; OMeasure "a" 2%Q 0].
Proof. repeat constructor. Qed.
