(* C19 -- PROOFS about the checker of Corr/C19.v: what an empty clause list of
   the per-measure comparison [snap_diff] means, and that the book-keeping of
   recorded values used by [check] agrees with the model's stores. *)
From Coq Require Import List QArith Qabs Bool Arith ZArith NArith String Lia.
Import ListNotations.
From Onet Require Import Base.Corr Stats.Welford Stats.WelfordProofs Stats.Buckets Stats.BucketsProofs Corr.C19.

Lemma app_nil_iff {A} (a b : list A) : a ++ b = [] <-> a = [] /\ b = [].
Proof. split; [apply app_eq_nil|intros [-> ->]; reflexivity]. Qed.

Lemma clause_nil n b : clause n b = [] <-> b = true.
Proof. unfold clause. destruct b; split; intros H; try reflexivity; discriminate. Qed.

Lemma qabs_le_iff a b tol : qabs_le a b tol = true <-> Qabs (a - b) <= tol.
Proof. unfold qabs_le. apply Qle_bool_iff. Qed.

(* a reported float64 is the finite rational q within tol of e *)
Definition reported_num (bits : N) (e tol : Q) : Prop :=
  exists q, decode bits = FNum q /\ Qabs (q - e) <= tol.

Definition reported_dev (bits : N) (e : dev) (tol : Q) : Prop :=
  match e with
  | DNaN => decode bits = FNaN
  | DInf => decode bits = FInf false
  | DSq v => exists d, decode bits = FNum d /\ 0 <= d /\ Qabs (d * d - v) <= tol
  end.

Lemma num_close_iff e bits tol : num_close e (decode bits) tol = true <-> reported_num bits e tol.
Proof.
  unfold num_close, reported_num. destruct (decode bits) as [|neg|q].
  - split; [intros H; discriminate H|intros (q & H & _); discriminate H].
  - split; [intros H; discriminate H|intros (q & H & _); discriminate H].
  - rewrite qabs_le_iff. split.
    + intros H; exists q; auto.
    + intros (q' & H & H'). injection H as <-. exact H'.
Qed.

Lemma dev_close_iff e bits tol : dev_close e (decode bits) tol = true <-> reported_dev bits e tol.
Proof.
  unfold dev_close, reported_dev. destruct e as [| |v]; destruct (decode bits) as [|neg|d].
  - split; reflexivity.
  - split; intros H; discriminate H.
  - split; intros H; discriminate H.
  - split; intros H; discriminate H.
  - destruct neg; split; intros H; try reflexivity; try discriminate H.
  - split; intros H; discriminate H.
  - split; [intros H; discriminate H|intros (d' & H & _); discriminate H].
  - split; [intros H; discriminate H|intros (d' & H & _); discriminate H].
  - rewrite andb_true_iff, qabs_le_iff, Qle_bool_iff. split.
    + intros [A B]. exists d. auto.
    + intros (d' & H & A & B). injection H as <-. auto.
Qed.

(* the deviation clause of [snap_diff] *)
Definition reported_var (bits : N) (e : dev) (mag : Q) : Prop :=
  match e with
  | DNaN => decode bits = FNaN
  | DInf => decode bits = FInf false
  | DSq v => exists d, decode bits = FNum d /\ 0 <= d /\
               let D := Qabs (d * d - v) - eps * v in
               (D <= 0 \/ D * D <= eps * eps * v * mag * mag)
  end.

Lemma dev_close_v_iff e bits mag : dev_close_v e (decode bits) mag = true <-> reported_var bits e mag.
Proof.
  unfold dev_close_v, reported_var. destruct e as [| |v]; destruct (decode bits) as [|neg|d].
  - split; reflexivity.
  - split; intros H; discriminate H.
  - split; intros H; discriminate H.
  - split; intros H; discriminate H.
  - destruct neg; split; intros H; try reflexivity; try discriminate H.
  - split; intros H; discriminate H.
  - split; [intros H; discriminate H|intros (d' & H & _); discriminate H].
  - split; [intros H; discriminate H|intros (d' & H & _); discriminate H].
  - unfold var_close. cbn zeta. rewrite andb_true_iff, orb_true_iff, !Qle_bool_iff. split.
    + intros [A B]. exists d. auto.
    + intros (d' & H & A & B). injection H as <-. auto.
Qed.

(* THE MEANING OF THE PER-MEASURE CHECK: no clause is reported iff the count
   is the expected one, minimum and maximum are exactly the expected
   rationals, and sum / mean / squared deviation lie within the stated relative
   tolerances (deviation: same class NaN / +Inf / number) *)
Theorem snap_diff_nil_iff : forall e o,
  let mag := mag_of e in
  let nq := qofnat (Nat.max 1 (s_n e)) in
  snap_diff e o = [] <->
  (s_n e = o_n o /\
   reported_num (o_min o) (s_min e) 0 /\
   reported_num (o_max o) (s_max e) 0 /\
   reported_num (o_sum o) (s_sum e) (eps * mag * nq) /\
   reported_num (o_avg o) (s_avg e) (eps * mag) /\
   reported_var (o_dev o) (s_dev e) mag).
Proof.
  intros e o mag nq. unfold snap_diff. fold mag. fold nq.
  repeat rewrite app_nil_iff. repeat rewrite clause_nil.
  rewrite Nat.eqb_eq. repeat rewrite num_close_iff. rewrite dev_close_v_iff. tauto.
Qed.

(* each violated clause number names the statistic that differs *)
Theorem snap_diff_clauses : forall e o c, In c (snap_diff e o) -> (1 <= c <= 6)%nat.
Proof.
  intros e o c. unfold snap_diff, clause.
  repeat match goal with |- context [if ?b then _ else _] => destruct b end; simpl; intuition lia.
Qed.

(* the exact-match clauses really are exact: tolerance 0 means equality *)
Lemma reported_num_exact bits e : reported_num bits e 0 <-> exists q, decode bits = FNum q /\ q == e.
Proof.
  unfold reported_num. split; intros (q & H & H'); exists q; split; auto.
  - apply Qabs_Qle_condition in H' as [A B]. change (- 0) with 0 in A.
    assert (Z0 : q - e == 0) by (apply Qle_antisym; assumption).
    setoid_replace q with ((q - e) + e) by ring. rewrite Z0. ring.
  - rewrite H'. setoid_replace (e - e) with 0 by ring. simpl. apply Qle_refl.
Qed.

(* decoding float64 bit patterns: spot checks against IEEE-754 *)
Example decode_examples :
  decode 4607182418800017408 = FNum 1 /\                       (* 1.0 *)
  decode 13840687554816376832 = FNum (-5) /\                   (* -5.0 *)
  decode 4612046862365756483 = FNum (4864443565739075 # 2251799813685248) /\ (* 2.1602468994692865 *)
  decode 0 = FNum 0 /\ decode 9223372036854775808 = FNum 0 /\  (* +0, -0 *)
  decode 1 = FNum (Qmake 1 (Z.to_pos (2 ^ 1074))) /\
  decode 9218868437227405312 = FInf false /\ decode 18442240474082181120 = FInf true /\
  decode 18444492273895866368 = FNaN /\
  decode 4596373779694328218 = FNum (3602879701896397 # 18014398509481984).    (* 0.2 *)
Proof. vm_compute. repeat split. Qed.

Example parse_dec_examples :
  parse_dec "2.160247" = Some (FNum (2160247 # 1000000)) /\
  parse_dec "-3.500000" = Some (FNum (-7 # 2)) /\
  parse_dec "NaN" = Some FNaN /\ parse_dec "+Inf" = Some (FInf false) /\
  parse_dec "12" = None /\ parse_dec "1.2e3" = None /\ parse_dec "" = None.
Proof. vm_compute. repeat split. Qed.

(* the checker accepts the exact statistics and rejects the F21 / F22 reports *)
Example check_examples :
  (* 1,2,3,6 read once: n=4 min=1 max=6 avg=3 sum=12 dev=2.160246899469287 *)
  snap_diff (exact [1; 2; 3; 6])
    (mkO 4 4607182418800017408 4618441417868443648 4613937818241073152 4622945017495814144 4612046862365756483) = [] /\
  (* ... read three times by the pinned code: n=12 dev=1.954016841836789 *)
  snap_diff (exact [1; 2; 3; 6])
    (mkO 12 4607182418800017408 4618441417868443648 4613937818241073152 4622945017495814144 4611478928693418748) = [1; 6]%nat /\
  (* -5,-2 with max reported 0 *)
  snap_diff (exact [-5; -2])
    (mkO 2 13840687554816376832 0 13838435755002691584 13842939354630062080 4611959207554411737) = [3]%nat.
Proof. vm_compute. repeat split. Qed.

(* ---------- the per-result-set check ------------------------------------------------------ *)

Local Open Scope string_scope.
Local Open Scope list_scope.

Definition row_ok (cnt : bool) (r : recs) (k : string) (row : string * osnap) : Prop :=
  fst row = k /\ exists l, rec_find r k = Some l /\
                 dsel (cnt && is_time_name k) (exact l) (snd row) = [].

(* [rows_check] reports nothing iff the reported rows are, in order, exactly the
   expected measure names, each with statistics accepted by [snap_diff] against
   the exact statistics of the values recorded for that measure *)
Theorem rows_check_nil_iff : forall cnt kc keys r o,
  (forall k, In k keys -> rec_find r k <> None) ->
  (rows_check cnt kc keys r o = [] <-> Forall2 (row_ok cnt r) keys o).
Proof.
  intros cnt kc keys r. induction keys as [|k keys IH]; intros o Hk.
  - destruct o as [|row o]; simpl.
    + split; [constructor|reflexivity].
    + split; [discriminate|]. intros H; inversion H.
  - destruct o as [|[k' s] o]; cbn [rows_check].
    + split; [discriminate|]. intros H; inversion H.
    + destruct (String.eqb k k') eqn:E.
      * apply String.eqb_eq in E. subst k'.
        destruct (rec_find r k) as [l|] eqn:Ef; [|exfalso; apply (Hk k); [now left|exact Ef]].
        rewrite app_nil_iff. rewrite IH by (intros k2 H2; apply Hk; now right). split.
        -- intros [A B]. constructor; [|exact B]. split; [reflexivity|]. exists l. auto.
        -- intros H. inversion H as [|? ? ? ? Hrow Hrest]; subst.
           destruct Hrow as [_ (l' & El & Hd)]. cbn [snd] in Hd. rewrite Ef in El. injection El as <-. auto.
      * split; [discriminate|]. intros H. inversion H as [|? ? ? ? Hrow _]; subst.
        destruct Hrow as [Hfst _]. cbn [fst] in Hfst. subst k'. rewrite String.eqb_refl in E. discriminate.
Qed.

Lemma insert_str_in k x l : In x (insert_str k l) <-> x = k \/ In x l.
Proof.
  induction l as [|y l IH]; simpl; [intuition|].
  destruct (String.leb k y); simpl; [intuition|]. rewrite IH. intuition.
Qed.

Lemma sort_strs_in x l : In x (sort_strs l) <-> In x l.
Proof.
  induction l as [|y l IH]; simpl; [reflexivity|].
  rewrite insert_str_in, IH. intuition.
Qed.

Lemma rec_find_keys r k : In k (map fst r) -> rec_find r k <> None.
Proof.
  induction r as [|[k1 l1] r IH]; simpl; [intros []|].
  destruct (String.eqb k k1) eqn:E; [discriminate|].
  intros [H|H]; [subst; rewrite String.eqb_refl in E; discriminate|auto].
Qed.

(* for the key list the checker actually uses (the recorded names, sorted) the
   side condition always holds *)
Corollary rows_check_keys_of : forall cnt kc r o,
  rows_check cnt kc (keys_of r) r o = [] <-> Forall2 (row_ok cnt r) (keys_of r) o.
Proof.
  intros cnt kc r o. apply rows_check_nil_iff. intros k Hk. apply rec_find_keys.
  unfold keys_of in Hk. apply (proj1 (sort_strs_in _ _)) in Hk. exact Hk.
Qed.

(* the routing predicate of the checker's book-keeping is the mathematical
   "host named by one of the ranges" (and coincides with the model's Match) *)
Theorem in_ranges_spec : forall rr h,
  in_ranges rr h = true <-> ((0 <= h)%Z /\ exists lo hi, In (lo, hi) rr /\ (lo <= h < hi)%Z).
Proof.
  intros rr h. unfold in_ranges. rewrite andb_true_iff, existsb_exists, Z.leb_le. split.
  - intros [H0 ([lo hi] & Hin & Hm)]. simpl in Hm. apply andb_true_iff in Hm as [A B].
    apply Z.leb_le in A. apply Z.ltb_lt in B. split; [exact H0|]. exists lo, hi. auto.
  - intros [H0 (lo & hi & Hin & A & B)]. split; [exact H0|]. exists (lo, hi). split; [exact Hin|].
    simpl. apply andb_true_iff. split; [now apply Z.leb_le|now apply Z.ltb_lt].
Qed.

Corollary in_ranges_is_rules_match : forall rr h, in_ranges rr h = rules_match rr h.
Proof.
  intros rr h. destruct (in_ranges rr h) eqn:E1, (rules_match rr h) eqn:E2; try reflexivity.
  - apply in_ranges_spec in E1. apply (proj2 (BucketsProofs.rules_match_spec rr h)) in E1. congruence.
  - apply BucketsProofs.rules_match_spec in E2. apply (proj2 (in_ranges_spec rr h)) in E2. congruence.
Qed.

(* the tolerance of the deviation clause is tight enough to reject a wrong
   variance formula even where it is hardest: data with a large offset and a
   small spread (values 1000000, 1000001, 1000003; sample deviation 1.5275...):
   accepted with the correct deviation; rejected with the population deviation
   (n instead of n-1: 1.2472...) and even with the 0.1 % error that n vs n-1
   makes for 500 values (deviation * sqrt(499/500)) *)
Example deviation_tolerance_examples :
  let e := exact [QB 4696837146684686336; QB 4696837155274620928; QB 4696837172454490112] in
  let o d := mkO 3 4696837146684686336 4696837172454490112 4696837158137932459 4703696870881361920 d in
  snap_diff e (o 4609558181236713650%N) = [] /\
  snap_diff e (o 4608295794776921307%N) = [6]%nat /\
  snap_diff e (o 4609551298431524565%N) = [6]%nat.
Proof. vm_compute. repeat split. Qed.

(* the internal-consistency check of measures with unknown values *)
Example snap_sane_examples :
  (* n=2 min=1 max=3 avg=2 sum=4 dev=1.414.. *)
  snap_sane (mkO 2 4607182418800017408 4613937818241073152 4611686018427387904 4616189618054758400 4609047870845172685) = [] /\
  (* mean outside [min,max] *)
  snap_sane (mkO 2 4607182418800017408 4613937818241073152 4616189618054758400 4620693217682128896 4609047870845172685) = [5]%nat /\
  (* sum <> mean * count *)
  snap_sane (mkO 3 4607182418800017408 4613937818241073152 4611686018427387904 4616189618054758400 4609047870845172685) = [4]%nat /\
  (* a single value must have an undefined deviation *)
  snap_sane (mkO 1 4607182418800017408 4607182418800017408 4607182418800017408 4607182418800017408 0) = [6]%nat.
Proof. vm_compute. repeat split. Qed.
