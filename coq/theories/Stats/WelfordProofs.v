(* C19 -- PROOFS about the model of Value (Stats/Welford.v):
   the streaming recurrence computes the exact statistics of the stored list,
   the statistics depend only on the multiset of values, the repaired Collect
   is a function of the store alone (read-outs are idempotent), the pinned
   Collect is not (F21) and reports max(0, values) (F22). *)
From Coq Require Import List QArith Qabs Bool Arith ZArith Lia Permutation Setoid Morphisms Field.
Import ListNotations.
From Onet Require Import Stats.Welford.

(* ---------- small facts about Q ------------------------------------------- *)

Lemma qofnat_S n : qofnat (S n) == qofnat n + 1.
Proof.
  unfold qofnat. rewrite Nat2Z.inj_succ. unfold Z.succ. rewrite inject_Z_plus. reflexivity.
Qed.

Lemma qofnat_nonneg n : 0 <= qofnat n.
Proof. unfold qofnat. change 0 with (inject_Z 0). rewrite <- Zle_Qle. lia. Qed.

Lemma qofnat_pos n : (0 < n)%nat -> 0 < qofnat n.
Proof. intros H. unfold qofnat. change 0 with (inject_Z 0). rewrite <- Zlt_Qlt. lia. Qed.

Lemma qofnat_neq0 n : (0 < n)%nat -> ~ qofnat n == 0.
Proof. intros H E. pose proof (qofnat_pos n H) as P. rewrite E in P. exact (Qlt_irrefl _ P). Qed.

Lemma qlt_true a b : qlt a b = true <-> a < b.
Proof.
  unfold qlt. rewrite negb_true_iff. split.
  - intros H. apply Qnot_le_lt. intros L. apply Qle_bool_iff in L. congruence.
  - intros H. destruct (Qle_bool b a) eqn:E; [|reflexivity].
    apply Qle_bool_iff in E. exfalso. exact (Qlt_not_le _ _ H E).
Qed.

Lemma qlt_false a b : qlt a b = false <-> b <= a.
Proof.
  unfold qlt. rewrite negb_false_iff. apply Qle_bool_iff.
Qed.

Lemma sq_nonneg (a : Q) : 0 <= a * a.
Proof.
  destruct (Qlt_le_dec a 0) as [L|L].
  - setoid_replace (a * a) with ((- a) * (- a)) by ring.
    apply Qmult_le_0_compat; apply (Qopp_le_compat a 0), Qlt_le_weak, L.
  - apply Qmult_le_0_compat; exact L.
Qed.

(* ---------- sums ------------------------------------------------------------ *)

Lemma qsum_app a b : qsum (a ++ b) == qsum a + qsum b.
Proof. induction a as [|x a IH]; simpl; [ring|]. rewrite IH. ring. Qed.

Lemma qsumsq_app a b : qsumsq (a ++ b) == qsumsq a + qsumsq b.
Proof. induction a as [|x a IH]; simpl; [ring|]. rewrite IH. ring. Qed.

Lemma qsum_perm a b : Permutation a b -> qsum a == qsum b.
Proof.
  induction 1 as [|x a b _ IH|x y a|a b c _ IH1 _ IH2]; simpl.
  - reflexivity.
  - rewrite IH. reflexivity.
  - ring.
  - rewrite IH1. exact IH2.
Qed.

Lemma qsumsq_perm a b : Permutation a b -> qsumsq a == qsumsq b.
Proof.
  induction 1 as [|x a b _ IH|x y a|a b c _ IH1 _ IH2]; simpl.
  - reflexivity.
  - rewrite IH. reflexivity.
  - ring.
  - rewrite IH1. exact IH2.
Qed.

(* sum of squared distances to m, expanded *)
Lemma qss_to_expand m l :
  qss_to m l == qsumsq l - 2 * m * qsum l + qofnat (length l) * m * m.
Proof.
  induction l as [|x l IH].
  - simpl. unfold qofnat. simpl. ring.
  - cbn [qss_to qsumsq qsum length]. rewrite IH, qofnat_S. ring.
Qed.

Lemma qss_to_nonneg m l : 0 <= qss_to m l.
Proof.
  induction l as [|x l IH]; simpl; [apply Qle_refl|].
  setoid_replace 0 with (0 + 0) by ring. apply Qplus_le_compat; [apply sq_nonneg|exact IH].
Qed.

Global Instance qss_to_proper : Proper (Qeq ==> eq ==> Qeq) qss_to.
Proof.
  intros m m' Hm l l' <-. induction l as [|x l IH]; simpl; [reflexivity|].
  rewrite IH, Hm. reflexivity.
Qed.

(* the textbook identity  sum (x - mean)^2 = sum x^2 - (sum x)^2 / n *)
Lemma qss_sums l : (0 < length l)%nat ->
  qss l == qsumsq l - qsum l * qsum l / qofnat (length l).
Proof.
  intros H. unfold qss, qmean. rewrite qss_to_expand.
  pose proof (qofnat_neq0 _ H) as Hn. field. exact Hn.
Qed.

Lemma qss_nonneg l : 0 <= qss l.
Proof. apply qss_to_nonneg. Qed.

Lemma qmean_perm a b : Permutation a b -> qmean a == qmean b.
Proof.
  intros P. unfold qmean. rewrite (qsum_perm _ _ P), (Permutation_length P). reflexivity.
Qed.

Lemma qss_perm a b : Permutation a b -> qss a == qss b.
Proof.
  intros P. destruct a as [|x a].
  - apply Permutation_nil in P. subst. reflexivity.
  - assert (Ha : (0 < length (x :: a))%nat) by (simpl; lia).
    assert (Hb : (0 < length b)%nat) by (rewrite <- (Permutation_length P); exact Ha).
    rewrite (qss_sums _ Ha), (qss_sums _ Hb).
    rewrite (qsum_perm _ _ P), (qsumsq_perm _ _ P), (Permutation_length P). reflexivity.
Qed.

Lemma qvar_perm a b : Permutation a b -> qvar a == qvar b.
Proof.
  intros P. unfold qvar. rewrite (qss_perm _ _ P), (Permutation_length P). reflexivity.
Qed.

(* the reduced folds used by [exact] are the plain sums *)
Lemma qsum_r_gen l a : fold_left (fun a x => Qred (a + x)) l a == a + qsum l.
Proof.
  revert a; induction l as [|x l IH]; intros a; simpl; [ring|].
  rewrite IH. rewrite (Qred_correct (a + x)). ring.
Qed.

Lemma qsum_r_ok l : qsum_r l == qsum l.
Proof. unfold qsum_r. rewrite qsum_r_gen. ring. Qed.

Lemma qss_to_r_gen m l a :
  fold_left (fun a x => Qred (a + (x - m) * (x - m))) l a == a + qss_to m l.
Proof.
  revert a; induction l as [|x l IH]; intros a; simpl; [ring|].
  rewrite IH. rewrite (Qred_correct (a + (x - m) * (x - m))). ring.
Qed.

Lemma qss_to_r_ok m l : qss_to_r m l == qss_to m l.
Proof. unfold qss_to_r. rewrite qss_to_r_gen. ring. Qed.

(* ---------- extrema ---------------------------------------------------------- *)

Lemma qmin2_cases a b : (qmin2 a b = a /\ a <= b) \/ (qmin2 a b = b /\ b < a).
Proof.
  unfold qmin2. destruct (qlt b a) eqn:E.
  - right. split; [reflexivity|]. now apply qlt_true.
  - left. split; [reflexivity|]. now apply qlt_false.
Qed.

Lemma qmax2_cases a b : (qmax2 a b = a /\ b <= a) \/ (qmax2 a b = b /\ a < b).
Proof.
  unfold qmax2. destruct (qlt a b) eqn:E.
  - right. split; [reflexivity|]. now apply qlt_true.
  - left. split; [reflexivity|]. now apply qlt_false.
Qed.

(* [qminl d l] is a member of d :: l below all of them *)
Lemma qminl_spec l : forall d,
  In (qminl d l) (d :: l) /\ forall y, In y (d :: l) -> qminl d l <= y.
Proof.
  induction l as [|x l IH]; intros d; simpl.
  - split; [now left|]. intros y [<-|[]]. apply Qle_refl.
  - destruct (IH (qmin2 d x)) as [Hin Hle]. split.
    + destruct Hin as [E|Hin]; [|now right; right].
      rewrite <- E. destruct (qmin2_cases d x) as [[-> _]|[-> _]]; [now left|now right; left].
    + intros y Hy.
      assert (Hm : qminl (qmin2 d x) l <= qmin2 d x) by (apply Hle; now left).
      destruct Hy as [<-|[<-|Hy]].
      * eapply Qle_trans; [exact Hm|]. destruct (qmin2_cases d x) as [[-> H]|[-> H]];
          [apply Qle_refl|now apply Qlt_le_weak].
      * eapply Qle_trans; [exact Hm|]. destruct (qmin2_cases d x) as [[-> H]|[-> H]];
          [exact H|apply Qle_refl].
      * apply Hle. now right.
Qed.

Lemma qmaxl_spec l : forall d,
  In (qmaxl d l) (d :: l) /\ forall y, In y (d :: l) -> y <= qmaxl d l.
Proof.
  induction l as [|x l IH]; intros d; simpl.
  - split; [now left|]. intros y [<-|[]]. apply Qle_refl.
  - destruct (IH (qmax2 d x)) as [Hin Hle]. split.
    + destruct Hin as [E|Hin]; [|now right; right].
      rewrite <- E. destruct (qmax2_cases d x) as [[-> _]|[-> _]]; [now left|now right; left].
    + intros y Hy.
      assert (Hm : qmax2 d x <= qmaxl (qmax2 d x) l) by (apply Hle; now left).
      destruct Hy as [<-|[<-|Hy]].
      * eapply Qle_trans; [|exact Hm]. destruct (qmax2_cases d x) as [[-> H]|[-> H]];
          [apply Qle_refl|now apply Qlt_le_weak].
      * eapply Qle_trans; [|exact Hm]. destruct (qmax2_cases d x) as [[-> H]|[-> H]];
          [exact H|apply Qle_refl].
      * apply Hle. now right.
Qed.

(* extrema of two arrangements of the same values are equal as rationals *)
Lemma qminl_perm x r y s : Permutation (x :: r) (y :: s) -> qminl x r == qminl y s.
Proof.
  intros P. destruct (qminl_spec r x) as [I1 L1]. destruct (qminl_spec s y) as [I2 L2].
  apply Qle_antisym.
  - apply L1. eapply Permutation_in; [apply Permutation_sym; exact P|exact I2].
  - apply L2. eapply Permutation_in; [exact P|exact I1].
Qed.

Lemma qmaxl_perm x r y s : Permutation (x :: r) (y :: s) -> qmaxl x r == qmaxl y s.
Proof.
  intros P. destruct (qmaxl_spec r x) as [I1 L1]. destruct (qmaxl_spec s y) as [I2 L2].
  apply Qle_antisym.
  - apply L2. eapply Permutation_in; [exact P|exact I1].
  - apply L1. eapply Permutation_in; [apply Permutation_sym; exact P|exact I2].
Qed.

(* ---------- equality of reported statistics up to == ------------------------- *)

Definition dev_eq (a b : dev) : Prop :=
  match a, b with
  | DNaN, DNaN => True
  | DInf, DInf => True
  | DSq p, DSq q => p == q
  | _, _ => False
  end.

Definition snap_eq (a b : snap) : Prop :=
  s_n a = s_n b /\ s_min a == s_min b /\ s_max a == s_max b /\
  s_avg a == s_avg b /\ s_sum a == s_sum b /\ dev_eq (s_dev a) (s_dev b).

Lemma dev_eq_refl a : dev_eq a a.
Proof. destruct a; simpl; auto. reflexivity. Qed.

Lemma dev_eq_sym a b : dev_eq a b -> dev_eq b a.
Proof. destruct a, b; simpl; auto. intros H; now symmetry. Qed.

Lemma dev_eq_trans a b c : dev_eq a b -> dev_eq b c -> dev_eq a c.
Proof. destruct a, b, c; simpl; auto; try tauto. intros H1 H2; now rewrite H1. Qed.

Lemma snap_eq_refl a : snap_eq a a.
Proof. repeat split; try reflexivity. apply dev_eq_refl. Qed.

Lemma snap_eq_sym a b : snap_eq a b -> snap_eq b a.
Proof.
  intros (H1 & H2 & H3 & H4 & H5 & H6). repeat split; try (now symmetry). now apply dev_eq_sym.
Qed.

Lemma snap_eq_trans a b c : snap_eq a b -> snap_eq b c -> snap_eq a c.
Proof.
  intros (H1 & H2 & H3 & H4 & H5 & H6) (G1 & G2 & G3 & G4 & G5 & G6).
  repeat split; try (etransitivity; eassumption). eapply dev_eq_trans; eassumption.
Qed.

(* ---------- what [exact] is ---------------------------------------------------- *)

(* the specification in words: count, extrema, sum, mean, and the sample
   variance  sum (x - mean)^2 / (n - 1)  of the recorded values *)
Theorem exact_spec : forall x r, let l := x :: r in
  s_n (exact l) = length l /\
  (In (s_min (exact l)) l /\ forall y, In y l -> s_min (exact l) <= y) /\
  (In (s_max (exact l)) l /\ forall y, In y l -> y <= s_max (exact l)) /\
  s_sum (exact l) == qsum l /\
  s_avg (exact l) == qsum l / qofnat (length l) /\
  match r with
  | [] => s_dev (exact l) = DNaN
  | _ => exists v, s_dev (exact l) = DSq v /\
                   v == qss_to (qsum l / qofnat (length l)) l / qofnat (length l - 1)
  end.
Proof.
  intros x r l. unfold l. cbn [exact s_n s_min s_max s_sum s_avg s_dev].
  split; [reflexivity|]. split; [apply qminl_spec|]. split; [apply qmaxl_spec|].
  split; [apply qsum_r_ok|]. split.
  - rewrite Qred_correct, qsum_r_ok. reflexivity.
  - destruct r as [|y r]; [reflexivity|]. eexists. split; [reflexivity|].
    rewrite Qred_correct, qss_to_r_ok. rewrite Qred_correct, qsum_r_ok. reflexivity.
Qed.

Lemma exact_avg l : l <> [] -> s_avg (exact l) == qmean l.
Proof.
  destruct l as [|x r]; [congruence|]. intros _.
  cbn [exact s_avg]. rewrite Qred_correct, qsum_r_ok. reflexivity.
Qed.

Lemma exact_dev x y r : dev_eq (s_dev (exact (x :: y :: r))) (DSq (qvar (x :: y :: r))).
Proof.
  cbn [exact s_dev dev_eq]. rewrite Qred_correct, qss_to_r_ok.
  unfold qvar, qss, qmean. rewrite Qred_correct, qsum_r_ok. reflexivity.
Qed.

(* the statistics depend only on the multiset of values *)
Theorem exact_perm : forall a b, Permutation a b -> snap_eq (exact a) (exact b).
Proof.
  intros a b P. destruct a as [|x r].
  - apply Permutation_nil in P. subst. apply snap_eq_refl.
  - destruct b as [|y s]; [apply Permutation_sym, Permutation_nil in P; discriminate|].
    pose proof (Permutation_length P) as Hl.
    unfold snap_eq. cbn [exact s_n s_min s_max s_avg s_sum s_dev].
    split; [exact Hl|]. split; [now apply qminl_perm|]. split; [now apply qmaxl_perm|].
    split.
    { rewrite !Qred_correct, !qsum_r_ok, (qsum_perm _ _ P), Hl. reflexivity. }
    split.
    { rewrite !qsum_r_ok. now apply qsum_perm. }
    destruct r as [|x2 r], s as [|y2 s]; try (simpl in Hl; discriminate); [exact I|].
    eapply dev_eq_trans; [apply exact_dev|]. eapply dev_eq_trans; [|apply dev_eq_sym, exact_dev].
    simpl. now apply qvar_perm.
Qed.

(* ---------- the streaming recurrence ------------------------------------------ *)

(* accumulator invariant after the values [ys] (non-empty) went through [step] *)
Definition acc_inv (t : value) (ys : list Q) : Prop :=
  vn t = length ys /\ (0 < length ys)%nat /\
  oldM t == qsum ys / qofnat (length ys) /\
  newM t == oldM t /\
  oldS t == qsumsq ys - qsum ys * qsum ys / qofnat (length ys).

Lemma welford_alg (N S1 S2 M S x : Q) :
  0 < N -> M == S1 / N -> S == S2 - S1 * S1 / N ->
  M + (x - M) / (N + 1) == (S1 + x) / (N + 1) /\
  S + (x - M) * (x - (M + (x - M) / (N + 1))) ==
    S2 + x * x - (S1 + x) * (S1 + x) / (N + 1).
Proof.
  intros HN HM HS.
  assert (N0 : ~ N == 0) by (intros E; rewrite E in HN; exact (Qlt_irrefl _ HN)).
  assert (N1 : ~ N + 1 == 0).
  { intros E. assert (0 < N + 1) by (apply Qlt_trans with N; [exact HN|];
      setoid_replace N with (N + 0) at 1 by ring; apply Qplus_lt_r; reflexivity).
    rewrite E in H. exact (Qlt_irrefl _ H). }
  rewrite HM, HS. split; field; auto.
Qed.

Lemma step_first f22 t x : vn t = 0%nat ->
  acc_inv (step f22 t x) [x] /\ newS (step f22 t x) = newS t /\
  vdev (step f22 t x) = mkdev (newS t) 0.
Proof.
  intros Hn. unfold step. rewrite Hn. cbn [Nat.eqb]. cbn [vn oldM newM oldS newS vdev].
  split; [|split; reflexivity].
  unfold acc_inv. cbn [vn oldM newM oldS length qsum qsumsq].
  split; [reflexivity|]. split; [lia|]. unfold qofnat. simpl.
  split; [field|]. split; [reflexivity|]. field.
Qed.

Lemma step_next f22 t x ys : acc_inv t ys ->
  acc_inv (step f22 t x) (ys ++ [x]) /\
  newS (step f22 t x) == qsumsq (ys ++ [x]) - qsum (ys ++ [x]) * qsum (ys ++ [x]) / qofnat (length (ys ++ [x])) /\
  vdev (step f22 t x) = mkdev (newS (step f22 t x)) (length ys).
Proof.
  intros (Hn & Hpos & HM & HMM & HS).
  unfold step. destruct (Nat.eqb (S (vn t)) 1) eqn:E.
  { apply Nat.eqb_eq in E. lia. }
  cbn [vn oldM newM oldS newS vdev].
  assert (Hlen : length (ys ++ [x]) = S (length ys)) by (rewrite app_length; simpl; lia).
  destruct (welford_alg (qofnat (length ys)) (qsum ys) (qsumsq ys) (oldM t) (oldS t) x
              (qofnat_pos _ Hpos) HM HS) as [A B].
  assert (EM : Qred (oldM t + (x - oldM t) / qofnat (S (vn t))) == (qsum ys + x) / (qofnat (length ys) + 1)).
  { rewrite Qred_correct, Hn, qofnat_S. exact A. }
  assert (ES : Qred (oldS t + (x - oldM t) * (x - Qred (oldM t + (x - oldM t) / qofnat (S (vn t))))) ==
               qsumsq (ys ++ [x]) - qsum (ys ++ [x]) * qsum (ys ++ [x]) / qofnat (length (ys ++ [x]))).
  { rewrite Qred_correct. rewrite (Qred_correct (oldM t + _)). rewrite Hn, qofnat_S, B.
    rewrite qsum_app, qsumsq_app, Hlen, qofnat_S. simpl.
    assert (N1 : ~ qofnat (length ys) + 1 == 0).
    { rewrite <- qofnat_S. apply qofnat_neq0. lia. }
    field. exact N1. }
  split; [|split].
  - unfold acc_inv. cbn [vn oldM newM oldS].
    split; [rewrite Hlen, Hn; reflexivity|]. split; [lia|].
    split; [|split; [reflexivity|exact ES]].
    rewrite EM, qsum_app, Hlen, qofnat_S. simpl.
    assert (N1 : ~ qofnat (length ys) + 1 == 0).
    { rewrite <- qofnat_S. apply qofnat_neq0. lia. }
    field. exact N1.
  - exact ES.
  - rewrite Hn. replace (S (length ys) - 1)%nat with (length ys) by lia. reflexivity.
Qed.

(* folding [step] over further values keeps the invariant *)
Lemma fold_step_inv f22 xs : forall t ys, acc_inv t ys ->
  acc_inv (fold_left (step f22) xs t) (ys ++ xs).
Proof.
  induction xs as [|x xs IH]; intros t ys H; simpl.
  - rewrite app_nil_r. exact H.
  - replace (ys ++ x :: xs) with ((ys ++ [x]) ++ xs) by (rewrite <- app_assoc; reflexivity).
    apply IH. apply (step_next f22 t x ys H).
Qed.

(* newS and dev after at least one further value *)
Lemma fold_step_dev f22 xs : forall t ys x, acc_inv t ys ->
  let l := ys ++ x :: xs in
  let t' := fold_left (step f22) (x :: xs) t in
  newS t' == qsumsq l - qsum l * qsum l / qofnat (length l) /\
  vdev t' = mkdev (newS t') (length l - 1).
Proof.
  induction xs as [|x2 xs IH]; intros t ys x H; cbn zeta.
  - simpl fold_left. destruct (step_next f22 t x ys H) as (_ & B & C).
    split; [exact B|]. rewrite C. f_equal. rewrite app_length. simpl. lia.
  - change (fold_left (step f22) (x :: x2 :: xs) t)
      with (fold_left (step f22) (x2 :: xs) (step f22 t x)).
    replace (ys ++ x :: x2 :: xs) with ((ys ++ [x]) ++ x2 :: xs)
      by (rewrite <- app_assoc; reflexivity).
    apply IH. apply (step_next f22 t x ys H).
Qed.

(* fields that [step] computes independently of the accumulators *)
Lemma fold_step_store f22 xs : forall t, vstore (fold_left (step f22) xs t) = vstore t.
Proof.
  induction xs as [|x xs IH]; intros t; simpl; [reflexivity|].
  rewrite IH. unfold step. destruct (Nat.eqb (S (vn t)) 1); reflexivity.
Qed.

Lemma fold_step_n f22 xs : forall t, vn (fold_left (step f22) xs t) = (vn t + length xs)%nat.
Proof.
  induction xs as [|x xs IH]; intros t; simpl; [lia|].
  rewrite IH. unfold step. destruct (Nat.eqb (S (vn t)) 1); cbn [vn]; lia.
Qed.

Lemma fold_step_sum f22 xs : forall t, vsum (fold_left (step f22) xs t) == vsum t + qsum xs.
Proof.
  induction xs as [|x xs IH]; intros t; simpl; [ring|].
  rewrite IH. unfold step. destruct (Nat.eqb (S (vn t)) 1); cbn [vsum]; rewrite Qred_correct; ring.
Qed.

Lemma step_vmin f22 t x :
  vmin (step f22 t x) = if Nat.eqb (vn t) 0 then x else qmin2 (vmin t) x.
Proof.
  unfold step, qmin2. destruct (Nat.eqb (S (vn t)) 1); cbn [vmin];
    destruct (Nat.eqb (vn t) 0); rewrite ?orb_true_r, ?orb_false_r; reflexivity.
Qed.

Lemma step_vmax f22 t x :
  vmax (step f22 t x) = if f22 && Nat.eqb (vn t) 0 then x else qmax2 (vmax t) x.
Proof.
  unfold step, qmax2. destruct (Nat.eqb (S (vn t)) 1); cbn [vmax];
    destruct (f22 && Nat.eqb (vn t) 0); rewrite ?orb_true_r, ?orb_false_r; reflexivity.
Qed.

Lemma step_vn f22 t x : vn (step f22 t x) = S (vn t).
Proof. unfold step. destruct (Nat.eqb (S (vn t)) 1); reflexivity. Qed.

Lemma fold_step_min_pos f22 xs : forall t, (0 < vn t)%nat ->
  vmin (fold_left (step f22) xs t) = qminl (vmin t) xs.
Proof.
  induction xs as [|x xs IH]; intros t H; simpl; [reflexivity|].
  rewrite IH by (rewrite step_vn; lia). rewrite step_vmin.
  destruct (Nat.eqb (vn t) 0) eqn:E; [apply Nat.eqb_eq in E; lia|reflexivity].
Qed.

Lemma fold_step_max_pos f22 xs : forall t, (0 < vn t)%nat \/ f22 = false ->
  vmax (fold_left (step f22) xs t) = qmaxl (vmax t) xs.
Proof.
  induction xs as [|x xs IH]; intros t H; simpl; [reflexivity|].
  rewrite IH by (left; rewrite step_vn; lia). rewrite step_vmax.
  destruct H as [H| ->]; [|reflexivity].
  destruct (Nat.eqb (vn t) 0) eqn:E; [apply Nat.eqb_eq in E; lia|].
  rewrite andb_false_r. reflexivity.
Qed.

Lemma fold_step_min_first f22 x xs t : vn t = 0%nat ->
  vmin (fold_left (step f22) (x :: xs) t) = qminl x xs.
Proof.
  intros H. simpl. rewrite fold_step_min_pos by (rewrite step_vn; lia).
  rewrite step_vmin, H. reflexivity.
Qed.

Lemma fold_step_max_first x xs t : vn t = 0%nat ->
  vmax (fold_left (step true) (x :: xs) t) = qmaxl x xs.
Proof.
  intros H. simpl. rewrite fold_step_max_pos by (left; rewrite step_vn; lia).
  rewrite step_vmax, H. reflexivity.
Qed.

Lemma mkdev_pos s k : (0 < k)%nat -> 0 <= s ->
  dev_eq (mkdev s k) (DSq (s / qofnat k)).
Proof.
  intros Hk Hs. destruct k as [|k]; [lia|]. unfold mkdev.
  assert (Hq : 0 <= Qred (s / qofnat (S k))).
  { rewrite Qred_correct. apply Qle_shift_div_l; [apply qofnat_pos; lia|].
    setoid_replace (0 * qofnat (S k)) with 0 by ring. exact Hs. }
  destruct (qlt (Qred (s / qofnat (S k))) 0) eqn:E.
  - apply qlt_true in E. exfalso. exact (Qlt_not_le _ _ E Hq).
  - cbn [dev_eq]. apply Qred_correct.
Qed.

(* ---------- Collect from zeroed accumulators = exact statistics -------------- *)

(* a state whose count is zero: what Collect starts from after the F21 repair,
   and what the pinned Collect starts from the first time *)
Lemma collect_from_zero f22 t x xs : vn t = 0%nat -> vsum t == 0 ->
  let l := x :: xs in
  let t' := fold_left (step f22) l t in
  vn t' = length l /\
  vmin t' = qminl x xs /\
  vmax t' = (if f22 then qmaxl x xs else qmaxl (vmax t) l) /\
  vsum t' == qsum l /\
  newM t' == qmean l /\
  match xs with
  | [] => vdev t' = mkdev (newS t) 0
  | _ => dev_eq (vdev t') (DSq (qvar l))
  end.
Proof.
  intros Hn Hs l t'.
  destruct (step_first f22 t x Hn) as (Hinv & HnS & Hdev).
  split; [unfold t'; rewrite fold_step_n, Hn; reflexivity|].
  split; [apply fold_step_min_first; exact Hn|].
  split.
  { destruct f22; [apply fold_step_max_first; exact Hn|].
    unfold t'. apply fold_step_max_pos. now right. }
  split; [unfold t'; rewrite fold_step_sum, Hs; ring|].
  split.
  { pose proof (fold_step_inv f22 xs _ _ Hinv) as (_ & _ & HM & HMM & _).
    unfold t'. simpl fold_left. rewrite HMM, HM. reflexivity. }
  destruct xs as [|x2 xs].
  - unfold t'. simpl. exact Hdev.
  - unfold t', l. change (fold_left (step f22) (x :: x2 :: xs) t)
      with (fold_left (step f22) (x2 :: xs) (step f22 t x)).
    destruct (fold_step_dev f22 xs (step f22 t x) [x] x2 Hinv) as (HS & HD).
    cbn zeta in HS, HD. change ([x] ++ x2 :: xs) with (x :: x2 :: xs) in HS, HD.
    rewrite HD.
    assert (Hl : (0 < length (x :: x2 :: xs))%nat) by (simpl; lia).
    rewrite <- (qss_sums _ Hl) in HS.
    eapply dev_eq_trans.
    + apply mkdev_pos; [simpl; lia|]. rewrite HS. apply qss_nonneg.
    + simpl. unfold qvar. rewrite HS. reflexivity.
Qed.

(* HEADLINE: with both repairs, whatever happened before (any number of earlier
   read-outs, any accumulator contents), Collect leaves exactly the statistics
   of the stored values. *)
Theorem collect_exact : forall t,
  snap_eq (snapshot (collect true true t)) (exact (vstore t)).
Proof.
  intros t. unfold collect, collect_init. cbn [vstore].
  destruct (vstore t) as [|x xs] eqn:Est.
  - simpl. apply snap_eq_refl.
  - set (t0 := mkV 0 0 0 0 0 0 0 0 (DSq 0) (x :: xs)).
    destruct (collect_from_zero true t0 x xs eq_refl (Qeq_refl 0)) as (A & B & C & D & E & F).
    cbn zeta in *. unfold snap_eq, snapshot. cbn [s_n s_min s_max s_avg s_sum s_dev].
    split; [rewrite A; reflexivity|]. split; [rewrite B; reflexivity|].
    split; [rewrite C; reflexivity|]. split.
    { rewrite E. symmetry. apply exact_avg. discriminate. }
    split.
    { rewrite D. cbn [exact s_sum]. symmetry. apply qsum_r_ok. }
    destruct xs as [|x2 xs].
    + rewrite F. reflexivity.
    + eapply dev_eq_trans; [exact F|]. apply dev_eq_sym, exact_dev.
Qed.

(* the repaired Collect is a function of the store alone ... *)
Lemma collect_fixed_store_only t :
  collect true true t = collect true true (with_store value0 (vstore t)).
Proof. reflexivity. Qed.

Lemma collect_store f21 f22 t : vstore (collect f21 f22 t) = vstore t.
Proof.
  unfold collect. rewrite fold_step_store. unfold collect_init. destruct f21; reflexivity.
Qed.

(* ... hence idempotent: reading twice is reading once *)
Theorem collect_fixed_idempotent t :
  collect true true (collect true true t) = collect true true t.
Proof.
  rewrite (collect_fixed_store_only (collect true true t)), collect_store.
  symmetry. apply collect_fixed_store_only.
Qed.

(* the number of earlier read-outs is irrelevant *)
Theorem collect_fixed_iter t k :
  Nat.iter (S k) (collect true true) t = collect true true t.
Proof.
  induction k as [|k IH]; [reflexivity|].
  change (Nat.iter (S (S k)) (collect true true) t)
    with (collect true true (Nat.iter (S k) (collect true true) t)).
  rewrite IH. apply collect_fixed_idempotent.
Qed.

(* ---------- the pinned Collect ------------------------------------------------ *)

(* First read-out of a fresh Value: everything is exact except the maximum,
   which is max(0, values). *)
Theorem collect_pinned_first : forall x xs,
  let t := collect false false (with_store value0 (x :: xs)) in
  let e := exact (x :: xs) in
  vn t = s_n e /\ vmin t = s_min e /\ vsum t == s_sum e /\ newM t == s_avg e /\
  dev_eq (vdev t) (s_dev e) /\
  vmax t = qmaxl 0 (x :: xs).
Proof.
  intros x xs. cbn zeta. unfold collect, collect_init, with_store, value0. cbn [vstore vmin vmax vsum vn oldM newM oldS newS vdev].
  set (t0 := mkV 0 0 0 0 0 0 0 0 (DSq 0) (x :: xs)).
  destruct (collect_from_zero false t0 x xs eq_refl (Qeq_refl 0)) as (A & B & C & D & E & F).
  cbn zeta in *.
  split; [exact A|]. split; [exact B|]. split.
  { rewrite D. cbn [exact s_sum]. symmetry. apply qsum_r_ok. }
  split.
  { rewrite E. symmetry. apply exact_avg. discriminate. }
  split; [|exact C].
  destruct xs as [|x2 xs].
  - rewrite F. reflexivity.
  - eapply dev_eq_trans; [exact F|]. apply dev_eq_sym, exact_dev.
Qed.

(* so the pinned maximum is right exactly when some value is non-negative *)
Lemma qmaxl_mono_d l : forall d, d <= qmaxl d l.
Proof. intros d. destruct (qmaxl_spec l d) as [_ H]. apply H. now left. Qed.

Theorem collect_pinned_first_max : forall x xs,
  (exists y, In y (x :: xs) /\ 0 <= y) ->
  vmax (collect false false (with_store value0 (x :: xs))) == s_max (exact (x :: xs)).
Proof.
  intros x xs (y & Hy & Hy0).
  destruct (collect_pinned_first x xs) as (_ & _ & _ & _ & _ & ->).
  cbn [exact s_max].
  destruct (qmaxl_spec (x :: xs) 0) as [I1 L1]. destruct (qmaxl_spec xs x) as [I2 L2].
  apply Qle_antisym.
  - destruct I1 as [E|I1]; [|apply L2; exact I1].
    rewrite <- E. eapply Qle_trans; [exact Hy0|]. apply L2. exact Hy.
  - apply L1. right. exact I2.
Qed.

(* k-th read-out of the pinned code: the accumulators have seen the stored
   values once per read-out.  [reps k l] is l repeated k times. *)
Fixpoint reps (k : nat) (l : list Q) : list Q :=
  match k with O => [] | S j => l ++ reps j l end.

Lemma reps_length k l : length (reps k l) = (k * length l)%nat.
Proof. induction k as [|k IH]; simpl; [reflexivity|]. rewrite app_length, IH. reflexivity. Qed.

Lemma reps_snoc k (l : list Q) : reps k l ++ l = reps (S k) l.
Proof.
  induction k as [|k IH]; cbn [reps]; [rewrite app_nil_r; reflexivity|].
  rewrite <- app_assoc, IH. reflexivity.
Qed.

Lemma collect_pinned_inv f22 t ys : acc_inv t ys ->
  acc_inv (collect false f22 t) (ys ++ vstore t).
Proof.
  intros H. unfold collect. apply fold_step_inv.
  destruct H as (A & B & C & D & E). unfold acc_inv, collect_init. cbn [vn oldM newM oldS].
  repeat split; assumption.
Qed.

Lemma acc_inv_store t ys s : acc_inv t ys -> acc_inv (with_store t s) ys.
Proof. intros H. exact H. Qed.

Theorem collect_pinned_repeated : forall x xs k,
  let l := x :: xs in
  let t := Nat.iter (S k) (collect false false) (with_store value0 l) in
  vn t = (S k * length l)%nat /\
  newM t == qmean (reps (S k) l) /\
  newS t == qss (reps (S k) l) /\
  vsum t == qsum l /\
  vstore t = l.
Proof.
  intros x xs k l t.
  assert (G : forall j, let tj := Nat.iter (S j) (collect false false) (with_store value0 l) in
            acc_inv tj (reps (S j) l) /\ vstore tj = l /\ vsum tj == qsum l /\
            newS tj == qss (reps (S j) l)).
  { induction j as [|j IH]; cbn zeta.
    - set (t0 := mkV 0 0 0 0 0 0 0 0 (DSq 0) (x :: xs)).
      change (Nat.iter 1 (collect false false) (with_store value0 l))
        with (fold_left (step false) xs (step false t0 x)).
      destruct (step_first false t0 x eq_refl) as (Hinv & HnS & _).
      pose proof (fold_step_inv false xs _ _ Hinv) as Hinv'.
      cbn [reps]. rewrite app_nil_r. unfold l.
      split; [exact Hinv'|]. split; [rewrite fold_step_store; reflexivity|].
      split.
      { change (fold_left (step false) xs (step false t0 x)) with (fold_left (step false) (x :: xs) t0).
        rewrite fold_step_sum. unfold t0. cbn [vsum]. ring. }
      destruct xs as [|x2 xs].
      + simpl. unfold qss, qmean, qofnat. simpl. field.
      + destruct (fold_step_dev false xs (step false t0 x) [x] x2 Hinv) as (HS & _).
        cbn zeta in HS. change ([x] ++ x2 :: xs) with (x :: x2 :: xs) in HS.
        rewrite HS. symmetry. apply qss_sums. simpl; lia.
    - cbn zeta in IH. destruct IH as (Hinv & Hst & Hsum & _).
      set (tj := Nat.iter (S j) (collect false false) (with_store value0 l)) in *.
      change (Nat.iter (S (S j)) (collect false false) (with_store value0 l))
        with (collect false false tj).
      pose proof (collect_pinned_inv false tj _ Hinv) as Hinv2. rewrite Hst in Hinv2.
      assert (Hreps : reps (S j) l ++ l = reps (S (S j)) l) by apply reps_snoc.
      rewrite Hreps in Hinv2.
      split; [exact Hinv2|]. split; [rewrite collect_store; exact Hst|].
      split.
      { unfold collect. rewrite fold_step_sum. unfold collect_init. cbn [vsum]. rewrite Hst. ring. }
      unfold collect. rewrite Hst. unfold l.
      assert (Hi0 : acc_inv (collect_init false tj) (reps (S j) (x :: xs))).
      { destruct Hinv as (A & B & C & D & E). unfold acc_inv, collect_init. cbn [vn oldM newM oldS].
        repeat split; assumption. }
      destruct (fold_step_dev false xs (collect_init false tj) _ x Hi0) as (HS & _).
      cbn zeta in HS. fold l in HS. rewrite Hreps in HS. fold l. rewrite HS.
      symmetry. apply qss_sums. rewrite reps_length. unfold l. simpl. lia. }
  destruct (G k) as ((A & B & C & D & E) & Hst & Hsum & HS). fold t in A, C, D, Hst, Hsum, HS.
  split; [rewrite A, reps_length; reflexivity|].
  split; [rewrite D, C; reflexivity|].
  split; [exact HS|]. split; [exact Hsum|exact Hst].
Qed.

(* F21: the witness of the design phase -- values 1,2,3,6 read three times *)
Definition f21_store : list Q := [1; 2; 3; 6].

Theorem double_collect_refuted :
  exists t, t = with_store value0 f21_store /\
    vn (collect false false t) = 4%nat /\
    vn (collect false false (collect false false (collect false false t))) = 12%nat /\
    ~ snap_eq (snapshot (collect false false (collect false false t))) (exact (vstore t)).
Proof.
  exists (with_store value0 f21_store). split; [reflexivity|]. split; [reflexivity|].
  split; [reflexivity|]. intros (H & _). vm_compute in H. discriminate.
Qed.

(* F21, other face: a single value has an undefined deviation; read twice the
   pinned code reports 0 *)
Theorem single_value_reread_refuted :
  vdev (collect false false (with_store value0 [4])) = DNaN /\
  vdev (collect false false (collect false false (with_store value0 [4]))) = DSq 0.
Proof. split; vm_compute; reflexivity. Qed.

(* F22 *)
Theorem negative_max_refuted :
  exists l, l = [-5; -2] /\ vmax (collect false false (with_store value0 l)) == 0 /\
            s_max (exact l) == -2 /\
            ~ snap_eq (snapshot (collect false false (with_store value0 l))) (exact l).
Proof.
  exists [-5; -2]. split; [reflexivity|]. split; [vm_compute; reflexivity|].
  split; [vm_compute; reflexivity|]. intros (_ & _ & H & _). vm_compute in H. discriminate.
Qed.

(* each repair alone removes its own defect *)
Example f21_fixed_on_witness :
  snap_eq (snapshot (collect true false (collect true false (collect true false (with_store value0 f21_store)))))
          (exact f21_store).
Proof. vm_compute. repeat split; discriminate. Qed.

Example f22_fixed_on_witness :
  snap_eq (snapshot (collect false true (with_store value0 [-5; -2]))) (exact [-5; -2]).
Proof. vm_compute. repeat split; discriminate. Qed.

(* ---------- order / partition invariance ------------------------------------- *)

(* the values of several reporting connections arrive in some interleaving *)
Inductive interleaving : list (list Q) -> list Q -> Prop :=
| il_done : forall ls, Forall (fun l => l = []) ls -> interleaving ls []
| il_take : forall pre x l post m,
    interleaving (pre ++ l :: post) m -> interleaving (pre ++ (x :: l) :: post) (x :: m).

Lemma concat_all_nil (ls : list (list Q)) : Forall (fun l => l = []) ls -> concat ls = [].
Proof. induction 1 as [|l ls -> _ IH]; simpl; auto. Qed.

Lemma interleaving_perm ls m : interleaving ls m -> Permutation m (concat ls).
Proof.
  induction 1 as [ls H|pre x l post m _ IH].
  - rewrite concat_all_nil by exact H. constructor.
  - rewrite concat_app in *. simpl in *.
    eapply Permutation_trans; [apply perm_skip, IH|].
    apply Permutation_middle.
Qed.

(* HEADLINE: whatever the arrival order, and however the values were split
   over connections, the repaired Collect reports the same statistics *)
Theorem order_partition_invariant : forall conns arrival other t t',
  interleaving conns arrival -> Permutation other (concat conns) ->
  vstore t = arrival -> vstore t' = other ->
  snap_eq (snapshot (collect true true t)) (snapshot (collect true true t')).
Proof.
  intros conns arrival other t t' Hi Hp Ht Ht'.
  eapply snap_eq_trans; [apply collect_exact|].
  eapply snap_eq_trans; [|apply snap_eq_sym, collect_exact].
  rewrite Ht, Ht'. apply exact_perm.
  eapply Permutation_trans; [apply interleaving_perm; exact Hi|]. apply Permutation_sym, Hp.
Qed.

Example interleaving_example :
  interleaving [[1; 2]; [3]] [1; 3; 2].
Proof.
  apply (il_take [] 1 [2] [[3]]). apply (il_take [[2]] 3 [] []).
  apply (il_take [] 2 [] [[]]). apply il_done. repeat constructor.
Qed.

(* the same for the first read-out of the pinned code (max included: it is
   max(0, values) for every arrangement) *)
Theorem order_invariant_pinned_first : forall a b, Permutation a b ->
  snap_eq (snapshot (collect false false (with_store value0 a)))
          (snapshot (collect false false (with_store value0 b))).
Proof.
  intros a b P. destruct a as [|x xs].
  - apply Permutation_nil in P. subst. apply snap_eq_refl.
  - destruct b as [|y ys]; [apply Permutation_sym, Permutation_nil in P; discriminate|].
    destruct (collect_pinned_first x xs) as (A1 & A2 & A3 & A4 & A5 & A6).
    destruct (collect_pinned_first y ys) as (B1 & B2 & B3 & B4 & B5 & B6).
    destruct (exact_perm _ _ P) as (E1 & E2 & E3 & E4 & E5 & E6).
    unfold snap_eq, snapshot. cbn [s_n s_min s_max s_avg s_sum s_dev].
    split; [rewrite A1, B1; exact E1|]. split; [rewrite A2, B2; exact E2|].
    split.
    { rewrite A6, B6.
      assert (P0 : Permutation (0 :: x :: xs) (0 :: y :: ys)) by (apply perm_skip, P).
      now apply qmaxl_perm. }
    split; [rewrite A4, B4; exact E4|]. split; [rewrite A3, B3; exact E5|].
    eapply dev_eq_trans; [exact A5|]. eapply dev_eq_trans; [exact E6|]. apply dev_eq_sym, B5.
Qed.

(* ---------- averaging = union --------------------------------------------------- *)

(* AverageValue followed by the repaired Collect reports the statistics of all
   values of all sources *)
Theorem average_is_union : forall vs,
  snap_eq (snapshot (collect true true (average_value vs)))
          (exact (concat (map vstore vs))).
Proof. intros vs. apply collect_exact. Qed.

(* and it does not matter whether, or how often, the sources were read before *)
Theorem average_ignores_readouts : forall f21 f22 vs,
  average_value (map (collect f21 f22) vs) = average_value vs.
Proof.
  intros f21 f22 vs. unfold average_value. f_equal. f_equal.
  rewrite map_map. apply map_ext. intros v. apply collect_store.
Qed.
