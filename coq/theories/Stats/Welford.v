(* C19 -- MODEL of simul/monitor/stats.go: type Value
     NewValue / Store / Collect / AverageValue and the accessors
   over exact rationals (every finite float64 is a rational; float rounding is
   NOT modelled, the correspondence compares within a tolerance).

   The streaming recurrence of Value.Collect is written exactly as coded:
     t.sum = 0
     for _, x := range t.store {
        if t.min > x || t.n == 0 { t.min = x }
        if t.max < x             { t.max = x }
        t.n++
        if t.n == 1 { oldM = x; newM = x; oldS = 0 }
        else { newM = oldM + (x-oldM)/n; newS = oldS + (x-oldM)*(x-newM); oldM = newM; oldS = newS }
        t.dev = sqrt(newS / (n-1)); t.sum += x }
   In the tree as it was pinned nothing but [sum] was reset between two calls of
   Collect (defect F21) and [max] started from 0 (defect F22).  Both repairs
   (fix: commits of /repo, selected by Corr/C19.v) are boolean parameters; with
   both false the functions describe the pinned tree:
     fix_f21 : Collect starts from zeroed accumulators (n, min, max, sum, M, S, dev)
     fix_f22 : max is initialised from the first value (as min already is)

   Only executable definitions here; the proofs are in Stats/WelfordProofs.v. *)
From Coq Require Import List QArith Bool Arith ZArith.
Import ListNotations.

(* The deviation is a square root; the model carries its square.
   DNaN = sqrt(0/0) or sqrt of a negative, DInf = sqrt(+x/0). *)
Inductive dev := DNaN | DInf | DSq (q : Q).

Record value := mkV {
  vmin : Q; vmax : Q; vsum : Q; vn : nat;
  oldM : Q; newM : Q; oldS : Q; newS : Q;
  vdev : dev;
  vstore : list Q }.

(* NewValue(name) / new(Value): Go zero values, empty store *)
Definition value0 : value := mkV 0 0 0 0 0 0 0 0 (DSq 0) [].

Definition with_store (t : value) (s : list Q) : value :=
  mkV (vmin t) (vmax t) (vsum t) (vn t) (oldM t) (newM t) (oldS t) (newS t) (vdev t) s.

(* Value.Store *)
Definition store (t : value) (x : Q) : value := with_store t (vstore t ++ [x]).

Definition qlt (a b : Q) : bool := negb (Qle_bool b a).

Definition qofnat (n : nat) : Q := inject_Z (Z.of_nat n).

(* math.Sqrt(s / float64(k)) as a class/square *)
Definition mkdev (s : Q) (k : nat) : dev :=
  match k with
  | O => match Qcompare s 0 with Eq => DNaN | Gt => DInf | Lt => DNaN end
  | S _ => let q := Qred (s / qofnat k) in if qlt q 0 then DNaN else DSq q
  end.

(* one iteration of the loop in Value.Collect *)
Definition step (fix_f22 : bool) (t : value) (x : Q) : value :=
  let first := Nat.eqb (vn t) 0 in
  let mn := if qlt x (vmin t) || first then x else vmin t in
  let mx := if qlt (vmax t) x || (fix_f22 && first) then x else vmax t in
  let n := S (vn t) in
  let sm := Qred (vsum t + x) in
  if Nat.eqb n 1 then
    mkV mn mx sm n x x 0 (newS t) (mkdev (newS t) 0) (vstore t)
  else
    let nM := Qred (oldM t + (x - oldM t) / qofnat n) in
    let nS := Qred (oldS t + (x - oldM t) * (x - nM)) in
    mkV mn mx sm n nM nM nS nS (mkdev nS (n - 1)) (vstore t).

(* what Collect does before its loop *)
Definition collect_init (fix_f21 : bool) (t : value) : value :=
  if fix_f21 then mkV 0 0 0 0 0 0 0 0 (DSq 0) (vstore t)
  else mkV (vmin t) (vmax t) 0 (vn t) (oldM t) (newM t) (oldS t) (newS t) (vdev t) (vstore t).

(* Value.Collect (no outlier filter configured: Filter is the identity) *)
Definition collect (fix_f21 fix_f22 : bool) (t : value) : value :=
  fold_left (step fix_f22) (vstore t) (collect_init fix_f21 t).

(* AverageValue(st...): a fresh Value whose store is the concatenation *)
Definition average_value (vs : list value) : value :=
  with_store value0 (concat (map vstore vs)).

(* what the accessors NumValue/Min/Max/Avg/Sum/Dev return *)
Record snap := mkSnap { s_n : nat; s_min : Q; s_max : Q; s_avg : Q; s_sum : Q; s_dev : dev }.

Definition snapshot (t : value) : snap :=
  mkSnap (vn t) (vmin t) (vmax t) (newM t) (vsum t) (vdev t).

(* ------------------------------------------------------------------------ *)
(* Exact statistics of a list of recorded values: the SPECIFICATION the
   property compares with ("an independent computation over the recorded
   values").  Executable, used by the checker of Corr/C19.v. *)

Fixpoint qsum (l : list Q) : Q :=
  match l with [] => 0 | x :: r => x + qsum r end.

Fixpoint qsumsq (l : list Q) : Q :=
  match l with [] => 0 | x :: r => x * x + qsumsq r end.

Definition qmean (l : list Q) : Q := qsum l / qofnat (length l).

(* sum of squared distances to [m] *)
Fixpoint qss_to (m : Q) (l : list Q) : Q :=
  match l with [] => 0 | x :: r => (x - m) * (x - m) + qss_to m r end.

Definition qss (l : list Q) : Q := qss_to (qmean l) l.

(* sample variance  sum (x - mean)^2 / (n - 1), n >= 2 *)
Definition qvar (l : list Q) : Q := qss l / qofnat (length l - 1).

Definition qmin2 (a b : Q) : Q := if qlt b a then b else a.
Definition qmax2 (a b : Q) : Q := if qlt a b then b else a.

Fixpoint qminl (d : Q) (l : list Q) : Q :=
  match l with [] => d | x :: r => qminl (qmin2 d x) r end.
Fixpoint qmaxl (d : Q) (l : list Q) : Q :=
  match l with [] => d | x :: r => qmaxl (qmax2 d x) r end.

(* the same sums with a reduced fraction after every addition (the plain folds
   above let denominators grow with every term); proved equal (==) to them *)
Definition qsum_r (l : list Q) : Q := fold_left (fun a x => Qred (a + x)) l 0.
Definition qss_to_r (m : Q) (l : list Q) : Q :=
  fold_left (fun a x => Qred (a + (x - m) * (x - m))) l 0.

(* the statistics of a recorded list, in the shape of the accessors; the
   empty list reports the zero values of a fresh Value, one value has an
   undefined (NaN) sample deviation *)
Definition exact (l : list Q) : snap :=
  match l with
  | [] => mkSnap 0 0 0 0 0 (DSq 0)
  | x :: r =>
      let sm := qsum_r l in
      let mean := Qred (sm / qofnat (length l)) in
      mkSnap (length l) (qminl x r) (qmaxl x r) mean sm
             (match r with
              | [] => DNaN
              | _ => DSq (Qred (qss_to_r mean l / qofnat (length l - 1)))
              end)
  end.
