(* C14 -- proofs about the parallel sender and about the panic barrier (Api/Par.v).

     par_accepted_reply     whatever the arrival order and the number of nodes and workers: if a
                            node has been accepted, ret holds exactly the reply of that node,
                            and if none has been, ret is untouched
     par_ret_stable         ... and no later arrival changes ret or the accepted node
     par_result_node        the node the call returns is the accepted one, with that ret
     par_decode_every_refuted   the variant that decodes every reply: the call returns node 0
                            and ret ends up holding the reply of node 1
     barrier_all_kinds      callInterfaceFunc never lets a handler panic escape, for ordinary
                            AND streaming handlers; refuted when the recover is installed
                            after the streaming branch
     conversation_never_dead    no conversation on a streaming path ends with the server dead *)
From Coq Require Import List String Ascii ZArith NArith Bool Arith Lia.
Import ListNotations.
From Onet Require Import Api.Rest Api.Par.
Local Open Scope string_scope.

Section Par.
Variables (want_ret quit : bool) (out : nat -> pout).

(* node n's answer is one the caller accepts, and it is r *)
Definition acceptable (n : nat) (r : msg) : Prop :=
  out n = POk r \/ (want_ret = false /\ out n = PBadReply r).

Definition pinv (s : pstate) : Prop :=
  (forall n, ps_acc s = Some n ->
     ps_done s = true /\ exists r, acceptable n r /\ (want_ret = true -> ps_ret s = Some r)) /\
  (ps_acc s = None -> ps_ret s = None) /\
  (want_ret = false -> ps_ret s = None) /\
  (forall n first, ps_result s = Some (RNode n, first) -> ps_acc s = Some n /\ first = ps_ret s).

Lemma take_next_fields s :
  ps_acc (take_next s) = ps_acc s /\ ps_ret (take_next s) = ps_ret s /\
  ps_done (take_next s) = ps_done s /\ ps_result (take_next s) = ps_result s.
Proof.
  unfold take_next. destruct (ps_done s) eqn:E; [rewrite E; auto|].
  destruct (ps_queue s); simpl; rewrite ?E; auto.
Qed.

Lemma pinv_take_next s : pinv s -> pinv (take_next s).
Proof.
  destruct (take_next_fields s) as [H1 [H2 [H3 H4]]]. unfold pinv. now rewrite H1, H2, H3, H4.
Qed.

Lemma pinv_leave s n : pinv s -> pinv (leave s n).
Proof. unfold pinv, leave. simpl. auto. Qed.

Lemma pinv_add_err s e : pinv s -> pinv (add_err quit s e).
Proof.
  intros [H1 [H2 [H3 H4]]]. unfold pinv, add_err. simpl. split; [|split; [|split]]; auto.
  - intros n Hn. destruct (H1 n Hn) as [Hd Hr]. rewrite Hd. auto.
  - intros n first. destruct (ps_result s) as [r|] eqn:E; [apply H4|].
    destruct (quit || _); [|discriminate].
    destruct (ps_errs s ++ [e])%list as [|[c t] l]; [discriminate|]. destruct quit; discriminate.
Qed.

Lemma no_node_result s : pinv s -> ps_acc s = None ->
  forall m f, ps_result s <> Some (RNode m, f).
Proof. intros [_ [_ [_ H4]]] Ha m f Hr. destruct (H4 m f Hr). congruence. Qed.

Lemma not_done_no_acc s : pinv s -> ps_done s = false -> ps_acc s = None.
Proof.
  intros [H1 _] Hd. destruct (ps_acc s) as [m|] eqn:Ea; [|reflexivity].
  destruct (H1 m eq_refl) as [Hd' _]. congruence.
Qed.

Lemma accept_pinv s n r :
  pinv s -> ps_done s = false -> acceptable n r ->
  pinv (accept (if want_ret then set_ret s r else s) n).
Proof.
  intros Hs Hd Hacc. pose proof (not_done_no_acc s Hs Hd) as Ha.
  pose proof (no_node_result s Hs Ha) as Hnr. destruct Hs as [H1 [H2 [H3 H4]]].
  unfold pinv. destruct want_ret eqn:Ew; unfold accept, set_ret; cbn [ps_acc ps_ret ps_done ps_result].
  - split; [|split; [|split]].
    + intros m [= <-]. split; [reflexivity|]. exists r. auto.
    + discriminate.
    + discriminate.
    + intros m f. destruct (ps_result s) as [x|] eqn:Er.
      * intros [= ->]. exfalso. now apply (Hnr m f).
      * intros [= <- <-]. auto.
  - split; [|split; [|split]].
    + intros m [= <-]. split; [reflexivity|]. exists r. split; [exact Hacc|discriminate].
    + discriminate.
    + intros _. now apply H3.
    + intros m f. destruct (ps_result s) as [x|] eqn:Er.
      * intros [= ->]. exfalso. now apply (Hnr m f).
      * intros [= <- <-]. auto.
Qed.

Lemma complete_pinv s n : pinv s -> pinv (complete false want_ret quit out s n).
Proof.
  intro Hs. unfold complete. destruct (negb (mem_nat n (ps_infl s))); [exact Hs|].
  pose proof (pinv_leave s n Hs) as Hl. generalize dependent (leave s n). intros s1 Hl.
  destruct (out n) as [r|r|c t] eqn:Eo.
  - cbn [andb]. destruct (ps_done s1) eqn:Ed; [now apply pinv_take_next|].
    apply accept_pinv; auto. now left.
  - destruct want_ret eqn:Ew.
    + destruct (ps_done s1); apply pinv_take_next; [exact Hl|now apply pinv_add_err].
    + destruct (ps_done s1) eqn:Ed; [now apply pinv_take_next|].
      pose proof (accept_pinv s1 n r Hl Ed) as H. rewrite Ew in H. apply H. right. auto.
  - apply pinv_take_next. now apply pinv_add_err.
Qed.

Lemma prun_pinv arrivals : forall s, pinv s -> pinv (prun false want_ret quit out s arrivals).
Proof.
  induction arrivals as [|n l IH]; intros s Hs; [exact Hs|]. simpl. apply IH. now apply complete_pinv.
Qed.

Lemma pinit_pinv par chosen : pinv (pinit par chosen).
Proof.
  unfold pinv, pinit. simpl. split; [discriminate|]. split; [auto|]. split; [auto|].
  intros n f. destruct chosen; discriminate.
Qed.

(* once a node is accepted nothing changes it, nor ret *)
Lemma complete_stable s n m :
  pinv s -> ps_acc s = Some m ->
  ps_acc (complete false want_ret quit out s n) = Some m /\
  ps_ret (complete false want_ret quit out s n) = ps_ret s.
Proof.
  intros [H1 _] Hm. destruct (H1 m Hm) as [Hd _]. unfold complete.
  destruct (negb (mem_nat n (ps_infl s))); [auto|].
  assert (ps_done (leave s n) = true) as Hd1 by exact Hd.
  destruct (out n) as [r|r|c t].
  - cbn [andb]. rewrite Hd1. destruct (take_next_fields (leave s n)) as [E1 [E2 _]]. rewrite E1, E2. auto.
  - destruct want_ret; rewrite Hd1; destruct (take_next_fields (leave s n)) as [E1 [E2 _]]; rewrite E1, E2; auto.
  - destruct (take_next_fields (add_err quit (leave s n) (c, t))) as [E1 [E2 _]]. rewrite E1, E2. auto.
Qed.

End Par.

(* Every arrival order, any number of nodes and workers, any option set (they only fix
   the initial queue): an accepted node's reply is what ret holds, ... *)
Theorem par_accepted_reply want_ret quit out par chosen arrivals n :
  let s := prun false want_ret quit out (pinit par chosen) arrivals in
  ps_acc s = Some n ->
  exists r, acceptable want_ret out n r /\ (want_ret = true -> ps_ret s = Some r).
Proof.
  intros s Hn. destruct (prun_pinv want_ret quit out arrivals _ (pinit_pinv want_ret out par chosen)) as [H1 _].
  destruct (H1 n Hn) as [_ H]. exact H.
Qed.

Theorem par_untouched_without_accept want_ret quit out par chosen arrivals :
  let s := prun false want_ret quit out (pinit par chosen) arrivals in
  ps_acc s = None -> ps_ret s = None.
Proof.
  intros s. destruct (prun_pinv want_ret quit out arrivals _ (pinit_pinv want_ret out par chosen)) as [_ [H2 _]].
  exact H2.
Qed.

(* ... later arrivals are dropped: neither the accepted node nor ret changes, ... *)
Theorem par_ret_stable want_ret quit out par chosen arrivals later n :
  let s := prun false want_ret quit out (pinit par chosen) arrivals in
  ps_acc s = Some n ->
  ps_acc (prun false want_ret quit out s later) = Some n /\
  ps_ret (prun false want_ret quit out s later) = ps_ret s.
Proof.
  intros s. assert (pinv want_ret out s) as Hs by (apply prun_pinv, pinit_pinv).
  clearbody s. revert s Hs. induction later as [|m l IH]; intros s Hs Hn; [auto|].
  simpl. destruct (complete_stable want_ret quit out s m n Hs Hn) as [E1 E2].
  destruct (IH _ (complete_pinv want_ret quit out s m Hs) E1) as [F1 F2]. rewrite F1, F2. auto.
Qed.

(* ... and the node the call returns is the accepted one, ret at the return being its reply *)
Theorem par_result_node want_ret quit out par chosen arrivals n first :
  let s := prun false want_ret quit out (pinit par chosen) arrivals in
  ps_result s = Some (RNode n, first) ->
  ps_acc s = Some n /\ first = ps_ret s /\
  exists r, acceptable want_ret out n r /\ (want_ret = true -> first = Some r).
Proof.
  intros s Hr. destruct (prun_pinv want_ret quit out arrivals _ (pinit_pinv want_ret out par chosen)) as [H1 [_ [_ H4]]].
  destruct (H4 n first Hr) as [Ha Hf]. split; [exact Ha|]. split; [exact Hf|].
  destruct (H1 n Ha) as [_ [r [Hr1 Hr2]]]. exists r. split; [exact Hr1|]. intro Hw. rewrite Hf. auto.
Qed.

(* the driver used by the correspondence check is one of these executions *)
Lemma drive_is_prun fuel de want_ret quit out prio : forall s,
  exists arrivals, drive fuel de want_ret quit out prio s = prun de want_ret quit out s arrivals.
Proof.
  induction fuel as [|f IH]; intro s; [exists []; reflexivity|]. simpl.
  destruct (best prio (ps_infl s)) as [n|]; [|exists []; reflexivity].
  destruct (IH (complete de want_ret quit out s n)) as [l Hl]. exists (n :: l). exact Hl.
Qed.

Definition two_nodes : nat -> pout :=
  node_out [NOk; NOk] true (Msg "q" 0 true "").

(* the variant that decodes every reply: node 0 is returned, ret holds node 1's reply *)
Theorem par_decode_every_refuted :
  let s := prun true true false two_nodes (pinit 2 [0; 1]) [0; 1] in
  ps_result s = Some (RNode 0, Some (Msg "q" 0 true "")) /\ ps_ret s = Some (Msg "q" 1 true "").
Proof. split; vm_compute; reflexivity. Qed.

Example par_same_arrivals_as_is :
  let s := prun false true false two_nodes (pinit 2 [0; 1]) [0; 1] in
  ps_result s = Some (RNode 0, Some (Msg "q" 0 true "")) /\ ps_ret s = Some (Msg "q" 0 true "").
Proof. split; vm_compute; reflexivity. Qed.

(* ---------- the panic barrier, every kind of handler -------------------------------------- *)

Theorem barrier_all_kinds : forall streaming h m, call_interface true streaming h m <> CCrash.
Proof.
  intros streaming h m. unfold call_interface. destruct (handler h m); destruct streaming; discriminate.
Qed.

Theorem barrier_panic_is_error : forall streaming h m t,
  handler h m = HPanic t -> call_interface true streaming h m = CError EPanic t.
Proof. intros streaming h m t H. unfold call_interface. rewrite H. now destruct streaming. Qed.

Theorem barrier_streaming_lost_refuted :
  exists h m, call_interface false true h m = CCrash /\ call_interface false false h m <> CCrash.
Proof. exists HLenient, (Msg "panic-1" 0 false ""). split; [reflexivity|discriminate]. Qed.

Theorem conversation_never_dead : forall msgs, snd (conversation true msgs) <> SDead.
Proof.
  induction msgs as [|[p|] r IH]; simpl; try discriminate.
  pose proof (barrier_all_kinds true HLenient (apply_writes zero_msg (pmsg_writes p))) as Hb.
  destruct (call_interface true true HLenient _); try discriminate; [|contradiction].
  destruct (conversation true r). exact IH.
Qed.

Theorem conversation_dead_refuted :
  snd (conversation false [SMsg (PMsg (Some "ok") (Some 1%Z) None None); SMsg (PMsg (Some "panic-x") None None None)]) = SDead.
Proof. reflexivity. Qed.
