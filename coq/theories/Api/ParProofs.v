(* C14 -- proofs about the parallel sender and about the panic barrier (Api/Par.v).

     (all for the repaired Quit path, every interleaving of workers and main goroutine)
     par_no_crash           no goroutine closes the closed [done]
     par_accepted_reply     if a node has been accepted, ret holds exactly the reply of that node,
                            and if none has been, ret is untouched
     par_quit_error_ret_untouched   an error return under QuitError comes with ret untouched, for good
     par_quit_double_close_refuted  the Quit path as it is: a worker closes [done] after the main
                            goroutine did (process dies; error returned with ret written), and the
                            symmetric order (the call panics)
     par_ret_stable         ... and no later arrival changes ret or the accepted node
     par_result_node        the node the call returns is the accepted one, with that ret
     par_decode_every_refuted   the variant that decodes every reply: the call returns node 0
                            and ret ends up holding the reply of node 1
     barrier_all_kinds      callInterfaceFunc never lets a handler panic escape, for ordinary
                            AND streaming handlers; refuted when the recover is installed
                            after the streaming branch
     conversation_never_dead    no conversation on a streaming path ends with the server dead *)
From Coq Require Import List String Ascii ZArith NArith Bool Arith Lia.
Import ListNotations.
From Onet Require Import Api.Rest Api.Par.
Local Open Scope string_scope.

Section Par.
Variables (want_ret quit : bool) (out : nat -> pout).

(* node n's answer is one the caller accepts, and it is r *)
Definition acceptable (n : nat) (r : msg) : Prop :=
  out n = POk r \/ (want_ret = false /\ out n = PBadReply r).

(* the fields the invariant speaks about *)
Definition same_core (s s' : pstate) : Prop :=
  ps_commit s' = ps_commit s /\ ps_acc s' = ps_acc s /\ ps_decoded s' = ps_decoded s /\
  ps_ret s' = ps_ret s /\ ps_done s' = ps_done s /\ ps_result s' = ps_result s /\
  ps_dead s' = ps_dead s /\ ps_nbr s' = ps_nbr s.

Definition kinv (s : pstate) : Prop :=
  ps_dead s = false /\
  (forall n, ps_commit s = Some n ->
     ps_done s = false /\ ps_acc s = None /\ ps_decoded s = None /\
     exists r, acceptable n r /\ (want_ret = true -> ps_ret s = Some r)) /\
  (forall n, ps_acc s = Some n ->
     ps_done s = true /\ ps_commit s = None /\ ps_decoded s = Some n /\
     exists r, acceptable n r /\ (want_ret = true -> ps_ret s = Some r)) /\
  (ps_acc s = None -> ps_decoded s = None /\ (ps_commit s = None -> ps_ret s = None)) /\
  (want_ret = false -> ps_ret s = None) /\
  (forall n f, ps_result s = Some (RNode n, f) -> ps_acc s = Some n /\ f = ps_ret s) /\
  (forall c t f, quit = true -> ps_result s = Some (RError c t, f) ->
     ps_acc s = None /\ ps_commit s = None /\ ps_done s = true /\ f = None) /\
  (forall f, ps_result s = Some (RCrash, f) -> ps_nbr s = 0).

Lemma kinv_same_core s s' : same_core s s' -> kinv s -> kinv s'.
Proof.
  intros [E1 [E2 [E3 [E4 [E5 [E6 [E7 E8]]]]]]]. unfold kinv. now rewrite E1, E2, E3, E4, E5, E6, E7, E8.
Qed.

Lemma same_core_refl s : same_core s s.
Proof. unfold same_core. tauto. Qed.

Lemma same_core_trans a b c : same_core a b -> same_core b c -> same_core a c.
Proof.
  unfold same_core. intros [A1 [A2 [A3 [A4 [A5 [A6 [A7 A8]]]]]]] [B1 [B2 [B3 [B4 [B5 [B6 [B7 B8]]]]]]].
  repeat split; congruence.
Qed.

Lemma same_core_take_next s : same_core s (take_next s).
Proof.
  unfold take_next. destruct (ps_done s); [apply same_core_refl|].
  destruct (ps_queue s); [apply same_core_refl|]. unfold same_core, upd_work. simpl. tauto.
Qed.

Lemma same_core_leave s n : same_core s (leave s n).
Proof. unfold same_core, leave, upd_work. simpl. tauto. Qed.

Lemma same_core_push_err s e : same_core s (push_err s e).
Proof. unfold same_core, push_err. simpl. tauto. Qed.

Lemma acc_of_decoded s n : kinv s -> ps_decoded s = Some n -> ps_acc s = Some n.
Proof.
  intros [_ [_ [K3 [K4 _]]]] Hd. destruct (ps_acc s) as [m|] eqn:Ea.
  - destruct (K3 m eq_refl) as [_ [_ [Hm _]]]. congruence.
  - destruct (K4 eq_refl) as [Hn _]. congruence.
Qed.

(* a worker takes the mutex with [done] open: it decodes and is about to close [done] *)
Lemma kinv_enter n r (s1 : pstate) :
  kinv s1 -> ps_commit s1 = None -> ps_done s1 = false -> acceptable n r ->
  kinv (set_commit (if want_ret then set_ret s1 r else s1) (Some n)).
Proof.
  intros [K1 [K2 [K3 [K4 [K5 [K6 [K7 K8]]]]]]] Hc Hd Hacc.
  assert (ps_acc s1 = None) as Ha.
  { destruct (ps_acc s1) as [m|] eqn:E; [|reflexivity]. destruct (K3 m eq_refl) as [H _]. congruence. }
  destruct (K4 Ha) as [Hdec Hret].
  unfold kinv. destruct want_ret eqn:Ew; unfold set_commit, set_ret; cbn [ps_dead ps_commit ps_done ps_acc ps_decoded ps_ret ps_result ps_nbr].
  - split; [exact K1|]. split.
    { intros m [= <-]. repeat split; auto. exists r. auto. }
    split; [intros m Hm; congruence|]. split; [intros _; split; [exact Hdec|discriminate]|].
    split; [discriminate|]. split.
    { intros m f Hr. destruct (K6 m f Hr). congruence. }
    split; [|exact K8]. intros c t f Hq Hr. destruct (K7 c t f Hq Hr) as [_ [_ [H _]]]. congruence.
  - split; [exact K1|]. split.
    { intros m [= <-]. repeat split; auto. exists r. split; [exact Hacc|discriminate]. }
    split; [intros m Hm; congruence|]. split; [intros _; split; [exact Hdec|discriminate]|].
    split; [exact K5|]. split.
    { intros m f Hr. destruct (K6 m f Hr). congruence. }
    split; [|exact K8]. intros c t f Hq Hr. destruct (K7 c t f Hq Hr) as [_ [_ [H _]]]. congruence.
Qed.

Lemma pstep_kinv s a : kinv s -> kinv (pstep false true want_ret quit out s a).
Proof.
  intro Hs. pose proof Hs as [K1 [K2 [K3 [K4 [K5 [K6 [K7 K8]]]]]]].
  unfold pstep. rewrite K1. destruct a as [n| | |].
  - (* a Send returns *)
    destruct (negb (mem_nat n (ps_infl s))); [exact Hs|].
    destruct (out n) as [r|r|c t] eqn:Eo.
    + destruct (ps_commit s) as [m|] eqn:Ec; [exact Hs|]. cbn [is_none negb andb].
      pose proof (kinv_same_core _ _ (same_core_leave s n) Hs) as Hl.
      assert (ps_commit (leave s n) = None) as Hc by exact Ec.
      destruct (ps_done (leave s n)) eqn:Ed.
      * eapply kinv_same_core; [apply same_core_take_next|exact Hl].
      * apply kinv_enter; auto. now left.
    + destruct (ps_commit s) as [m|] eqn:Ec; [exact Hs|]. cbn [is_none negb].
      pose proof (kinv_same_core _ _ (same_core_leave s n) Hs) as Hl.
      assert (ps_commit (leave s n) = None) as Hc by exact Ec.
      destruct want_ret eqn:Ew.
      * destruct (ps_done (leave s n)).
        -- eapply kinv_same_core; [apply same_core_take_next|exact Hl].
        -- eapply kinv_same_core; [|exact Hl].
           eapply same_core_trans; [apply same_core_push_err|apply same_core_take_next].
      * destruct (ps_done (leave s n)) eqn:Ed.
        -- eapply kinv_same_core; [apply same_core_take_next|exact Hl].
        -- pose proof (kinv_enter n r (leave s n) Hl Hc Ed) as H. rewrite Ew in H. apply H. right. auto.
    + eapply kinv_same_core; [|exact Hs].
      eapply same_core_trans; [apply same_core_leave|].
      eapply same_core_trans; [apply same_core_push_err|apply same_core_take_next].
  - (* the worker that holds the mutex closes [done] *)
    destruct (ps_commit s) as [n|] eqn:Ec; [|exact Hs].
    destruct (K2 n eq_refl) as [Hd [Ha [Hdec [r [Hr1 Hr2]]]]].
    unfold kinv, commit; cbn [ps_dead ps_commit ps_done ps_acc ps_decoded ps_ret ps_result ps_nbr].
    split; [now rewrite K1, Hd|]. split; [discriminate|]. split.
    { intros m [= <-]. repeat split; auto. exists r. auto. }
    split; [discriminate|]. split; [exact K5|]. split.
    { intros m f Hres. destruct (K6 m f Hres). congruence. }
    split; [|exact K8]. intros c t f Hq Hres. destruct (K7 c t f Hq Hres) as [_ [H _]]. congruence.
  - (* the main goroutine takes an error *)
    destruct (ps_result s) as [res|] eqn:Er; [exact Hs|].
    destruct (ps_pending s) as [|e rest] eqn:Ep; [exact Hs|].
    destruct quit eqn:Eq.
    + destruct (ps_commit s) as [m|] eqn:Ec; [exact Hs|]. cbn [is_none negb].
      destruct (ps_decoded s) as [n|] eqn:Edec.
      * pose proof (acc_of_decoded s n Hs Edec) as Ha. destruct (K3 n Ha) as [Hd _].
        unfold kinv, main_state; cbn [ps_dead ps_commit ps_done ps_acc ps_decoded ps_ret ps_result ps_nbr].
        rewrite Ec, Edec. split; [exact K1|]. split; [discriminate|]. split.
        { intros m Hm. destruct (K3 m Hm) as [H1 [H2 [H3 H4]]]. repeat split; try congruence; exact H4. }
        split; [intro H; congruence|]. split; [exact K5|]. split.
        { intros m f [= <- <-]. auto. }
        split; [intros c t f _ H; discriminate|intros f H; discriminate].
      * assert (ps_acc s = None) as Ha.
        { destruct (ps_acc s) as [m|] eqn:E; [|reflexivity]. destruct (K3 m eq_refl) as [_ [_ [H _]]]. congruence. }
        destruct (K4 Ha) as [_ Hret]. specialize (Hret eq_refl).
        unfold kinv, main_state; cbn [ps_dead ps_commit ps_done ps_acc ps_decoded ps_ret ps_result ps_nbr].
        rewrite Ec, Edec, Ha, Hret. split; [exact K1|]. split; [discriminate|]. split; [discriminate|].
        split; [auto|]. split; [auto|]. split; [intros m f H; discriminate|].
        split; [intros c t f _ [= _ _ <-]; auto|intros f H; discriminate].
    + unfold kinv, main_state; cbn [ps_dead ps_commit ps_done ps_acc ps_decoded ps_ret ps_result ps_nbr].
      split; [exact K1|]. split; [exact K2|]. split; [exact K3|]. split; [exact K4|]. split; [exact K5|].
      destruct (Nat.eqb _ _); [|repeat split; intros; congruence].
      destruct (ps_errs s ++ [e])%list as [|[c t] l]; [repeat split; intros; congruence|].
      split; [intros m f H; discriminate H|]. split; [intros c' t' f H; congruence|intros f H; discriminate H].
  - (* the main goroutine takes the accepted node *)
    destruct (ps_result s) as [res|] eqn:Er; [exact Hs|].
    destruct (ps_decoded s) as [n|] eqn:Edec; [|exact Hs].
    pose proof (acc_of_decoded s n Hs Edec) as Ha.
    unfold kinv, main_state; cbn [ps_dead ps_commit ps_done ps_acc ps_decoded ps_ret ps_result ps_nbr].
    rewrite Edec. split; [exact K1|]. split; [exact K2|]. split.
    { intros m Hm. destruct (K3 m Hm) as [H1 [H2 [H3 H4]]]. repeat split; try congruence; exact H4. }
    split; [intro H; congruence|]. split; [exact K5|]. split.
    { intros m f [= <- <-]. auto. }
    split; [intros c t f _ H; discriminate|intros f H; discriminate].
Qed.

Lemma prun_kinv acts : forall s, kinv s -> kinv (prun false true want_ret quit out s acts).
Proof.
  induction acts as [|a l IH]; intros s Hs; [exact Hs|]. simpl. apply IH. now apply pstep_kinv.
Qed.

Lemma pinit_kinv par chosen : kinv (pinit par chosen).
Proof.
  unfold kinv, pinit. cbn [ps_dead ps_commit ps_done ps_acc ps_decoded ps_ret ps_result ps_nbr].
  split; [reflexivity|]. split; [discriminate|]. split; [discriminate|]. split; [auto|]. split; [auto|].
  destruct chosen as [|x l]; (split; [intros; discriminate|]); (split; [intros; discriminate|]).
  - intros f _. reflexivity.
  - intros; discriminate.
Qed.

(* once a node is accepted nothing changes it, nor ret *)
Lemma pstep_stable_acc s a m :
  kinv s -> ps_acc s = Some m ->
  ps_acc (pstep false true want_ret quit out s a) = Some m /\
  ps_ret (pstep false true want_ret quit out s a) = ps_ret s.
Proof.
  intros Hs Hm. pose proof Hs as [K1 [_ [K3 _]]]. destruct (K3 m Hm) as [Hd [Hc _]].
  unfold pstep. rewrite K1. destruct a as [n| | |].
  - destruct (negb (mem_nat n (ps_infl s))); [auto|].
    assert (forall x, same_core s x -> ps_acc x = Some m /\ ps_ret x = ps_ret s) as Hfin.
    { intros x [_ [A [_ [B _]]]]. rewrite A, B. auto. }
    destruct (out n) as [r|r|c t].
    + rewrite Hc. cbn [is_none negb andb]. assert (ps_done (leave s n) = true) as -> by exact Hd.
      apply Hfin. eapply same_core_trans; [apply same_core_leave|apply same_core_take_next].
    + rewrite Hc. cbn [is_none negb]. assert (ps_done (leave s n) = true) as -> by exact Hd.
      destruct want_ret; apply Hfin; (eapply same_core_trans; [apply same_core_leave|apply same_core_take_next]).
    + apply Hfin. eapply same_core_trans; [apply same_core_leave|].
      eapply same_core_trans; [apply same_core_push_err|apply same_core_take_next].
  - rewrite Hc. auto.
  - destruct (ps_result s); [auto|]. destruct (ps_pending s); [auto|].
    destruct quit; [|auto]. rewrite Hc. cbn [is_none negb]. destruct (ps_decoded s); auto.
  - destruct (ps_result s); [auto|]. destruct (ps_decoded s); auto.
Qed.

(* a call that has returned an error under QuitError: nothing is accepted afterwards *)
Definition closed_empty (s : pstate) : Prop :=
  ps_acc s = None /\ ps_commit s = None /\ ps_done s = true /\ ps_ret s = None /\ ps_result s <> None.

Lemma pstep_closed_empty s a : ps_dead s = false -> closed_empty s ->
  closed_empty (pstep false true want_ret quit out s a) /\
  ps_result (pstep false true want_ret quit out s a) = ps_result s.
Proof.
  intros K1 [Ha [Hc [Hd [Hr Hres]]]]. unfold pstep. rewrite K1.
  assert (forall x, same_core s x -> closed_empty x /\ ps_result x = ps_result s) as Hcore.
  { intros x [E1 [E2 [E3 [E4 [E5 [E6 _]]]]]]. unfold closed_empty. rewrite E1, E2, E4, E5, E6. tauto. }
  destruct a as [n| | |].
  - destruct (negb (mem_nat n (ps_infl s))); [apply Hcore, same_core_refl|].
    destruct (out n) as [r|r|c t].
    + rewrite Hc. cbn [is_none negb andb]. assert (ps_done (leave s n) = true) as -> by exact Hd.
      apply Hcore. eapply same_core_trans; [apply same_core_leave|apply same_core_take_next].
    + rewrite Hc. cbn [is_none negb]. assert (ps_done (leave s n) = true) as -> by exact Hd.
      destruct want_ret; apply Hcore; (eapply same_core_trans; [apply same_core_leave|apply same_core_take_next]).
    + apply Hcore. eapply same_core_trans; [apply same_core_leave|].
      eapply same_core_trans; [apply same_core_push_err|apply same_core_take_next].
  - rewrite Hc. apply Hcore, same_core_refl.
  - destruct (ps_result s) eqn:E; [|contradiction].
    split; [|congruence]. unfold closed_empty. rewrite E. repeat split; auto.
  - destruct (ps_result s) eqn:E; [|contradiction].
    split; [|congruence]. unfold closed_empty. rewrite E. repeat split; auto.
Qed.

End Par.

(* The repaired Quit path ([fix_quit = true]), every interleaving of the workers' and the main
   goroutine's steps, any number of nodes and workers, QuitError or not, nodes of any
   behaviour: no goroutine closes a closed channel, ... *)
Theorem par_no_crash want_ret quit out par chosen acts :
  let s := prun false true want_ret quit out (pinit par chosen) acts in
  ps_dead s = false /\ (forall f, ps_result s = Some (RCrash, f) -> ps_nbr s = 0).
Proof.
  intros s. destruct (prun_kinv want_ret quit out acts _ (pinit_kinv want_ret quit out par chosen)) as [K1 [_ [_ [_ [_ [_ [_ K8]]]]]]].
  split; [exact K1|exact K8].
Qed.

(* ... an accepted node's reply is what ret holds, ... *)
Theorem par_accepted_reply want_ret quit out par chosen acts n :
  let s := prun false true want_ret quit out (pinit par chosen) acts in
  ps_acc s = Some n ->
  exists r, acceptable want_ret out n r /\ (want_ret = true -> ps_ret s = Some r).
Proof.
  intros s Hn. destruct (prun_kinv want_ret quit out acts _ (pinit_kinv want_ret quit out par chosen)) as [_ [_ [K3 _]]].
  destruct (K3 n Hn) as [_ [_ [_ H]]]. exact H.
Qed.

(* ... while no node is accepted and no worker is about to accept, ret is untouched, ... *)
Theorem par_untouched_without_accept want_ret quit out par chosen acts :
  let s := prun false true want_ret quit out (pinit par chosen) acts in
  ps_acc s = None -> ps_commit s = None -> ps_ret s = None.
Proof.
  intros s Ha Hc. destruct (prun_kinv want_ret quit out acts _ (pinit_kinv want_ret quit out par chosen)) as [_ [_ [_ [K4 _]]]].
  destruct (K4 Ha) as [_ H]. auto.
Qed.

(* ... later arrivals are dropped: neither the accepted node nor ret changes (also after the
   call has returned), ... *)
Theorem par_ret_stable want_ret quit out par chosen acts later n :
  let s := prun false true want_ret quit out (pinit par chosen) acts in
  ps_acc s = Some n ->
  ps_acc (prun false true want_ret quit out s later) = Some n /\
  ps_ret (prun false true want_ret quit out s later) = ps_ret s.
Proof.
  intros s. assert (kinv want_ret quit out s) as Hs by (apply prun_kinv, pinit_kinv).
  clearbody s. revert s Hs. induction later as [|a l IH]; intros s Hs Hn; [auto|].
  simpl. destruct (pstep_stable_acc want_ret quit out s a n Hs Hn) as [E1 E2].
  destruct (IH _ (pstep_kinv want_ret quit out s a Hs) E1) as [F1 F2]. rewrite F1, F2. auto.
Qed.

(* ... the node the call returns is the accepted one, ret at the return being its reply, ... *)
Theorem par_result_node want_ret quit out par chosen acts n first :
  let s := prun false true want_ret quit out (pinit par chosen) acts in
  ps_result s = Some (RNode n, first) ->
  ps_acc s = Some n /\ first = ps_ret s /\
  exists r, acceptable want_ret out n r /\ (want_ret = true -> first = Some r).
Proof.
  intros s Hr. destruct (prun_kinv want_ret quit out acts _ (pinit_kinv want_ret quit out par chosen)) as [_ [_ [K3 [_ [_ [K6 _]]]]]].
  destruct (K6 n first Hr) as [Ha Hf]. split; [exact Ha|]. split; [exact Hf|].
  destruct (K3 n Ha) as [_ [_ [_ [r [Hr1 Hr2]]]]]. exists r. split; [exact Hr1|]. intro Hw. rewrite Hf. auto.
Qed.

Lemma closed_empty_run want_ret quit out later : forall s,
  kinv want_ret quit out s -> closed_empty s ->
  ps_ret (prun false true want_ret quit out s later) = None /\
  ps_result (prun false true want_ret quit out s later) = ps_result s.
Proof.
  induction later as [|a l IH]; intros s Hs Hce.
  - destruct Hce as [_ [_ [_ [H _]]]]. auto.
  - simpl. pose proof Hs as [K1 _].
    destruct (pstep_closed_empty want_ret quit out s a K1 Hce) as [H1 H2].
    destruct (IH _ (pstep_kinv want_ret quit out s a Hs) H1) as [F1 F2]. split; [exact F1|congruence].
Qed.

(* ... and a call that returns an error under QuitError has not written ret, and nothing
   writes it afterwards. *)
Theorem par_quit_error_ret_untouched want_ret out par chosen acts later c t first :
  let s := prun false true want_ret true out (pinit par chosen) acts in
  ps_result s = Some (RError c t, first) ->
  first = None /\
  ps_ret (prun false true want_ret true out s later) = None /\
  ps_result (prun false true want_ret true out s later) = Some (RError c t, first).
Proof.
  intros s Hr. assert (kinv want_ret true out s) as Hs by (apply prun_kinv, pinit_kinv).
  pose proof Hs as [K1 [_ [_ [K4 [_ [_ [K7 _]]]]]]].
  destruct (K7 c t first eq_refl Hr) as [Ha [Hc [Hd Hf]]]. split; [exact Hf|].
  destruct (K4 Ha) as [_ Hret]. specialize (Hret Hc).
  assert (closed_empty s) as Hce. { unfold closed_empty. repeat split; auto. congruence. }
  destruct (closed_empty_run want_ret true out later s Hs Hce) as [F1 F2]. split; [exact F1|congruence].
Qed.

(* the schedule the correspondence check derives from the harness's release order is one of
   these executions *)
Lemma drive_is_prun fuel de fq want_ret quit out prio hold s :
  exists acts, drive fuel de fq want_ret quit out prio hold s = prun de fq want_ret quit out s acts.
Proof. eexists. reflexivity. Qed.

Definition two_nodes : nat -> pout :=
  node_out [NOk; NOk] true (Msg "q" 0 true "").

(* the variant that decodes every reply: node 0 is returned, ret holds node 1's reply *)
Theorem par_decode_every_refuted :
  let s := prun true true true false two_nodes (pinit 2 [0; 1]) [ACheck 0; ACommit; AMainDecoded; ACheck 1] in
  ps_result s = Some (RNode 0, Some (Msg "q" 0 true "")) /\ ps_ret s = Some (Msg "q" 1 true "").
Proof. split; vm_compute; reflexivity. Qed.

Example par_same_steps_as_is :
  let s := prun false true true false two_nodes (pinit 2 [0; 1]) [ACheck 0; ACommit; AMainDecoded; ACheck 1] in
  ps_result s = Some (RNode 0, Some (Msg "q" 0 true "")) /\ ps_ret s = Some (Msg "q" 0 true "").
Proof. split; vm_compute; reflexivity. Qed.

(* ---------- the Quit path as it is: both closes of [done] can happen ------------------------ *)

Definition fail_ok : nat -> pout := node_out [NFail; NOk] true (Msg "q" 0 true "").

(* node 1 answers, its worker passes the [done] check and decodes; node 0 fails; the main
   goroutine (QuitError) closes [done] and returns the error; the worker closes [done]
   again: the process dies -- and the call has returned an error with ret written *)
Theorem par_quit_double_close_refuted :
  let s := prun false false true true fail_ok (pinit 2 [0; 1]) [ACheck 1; ACheck 0; AMainErr; ACommit] in
  ps_dead s = true /\
  ps_result s = Some (RError EHandler "node-fails", Some (Msg "q" 1 true "")).
Proof. split; vm_compute; reflexivity. Qed.

(* the other order: the worker closes [done] first, the main goroutine takes the error
   and closes it again: the call panics in the caller's goroutine *)
Theorem par_quit_double_close_main_refuted :
  let s := prun false false true true fail_ok (pinit 2 [0; 1]) [ACheck 1; ACommit; ACheck 0; AMainErr] in
  ps_result s = Some (RCrash, Some (Msg "q" 1 true "")).
Proof. vm_compute. reflexivity. Qed.

(* the same steps with the repair: the worker holds the mutex, so the main goroutine's
   step has no effect until the worker has closed [done]; then it returns the accepted node *)
Example par_quit_repaired_same_steps :
  let s := prun false true true true fail_ok (pinit 2 [0; 1]) [ACheck 1; ACheck 0; AMainErr; ACommit; AMainErr] in
  ps_dead s = false /\ ps_result s = Some (RNode 1, Some (Msg "q" 1 true "")).
Proof. split; vm_compute; reflexivity. Qed.

(* ---------- SendProtobuf: the reply variable holds this call's reply, from scratch ---------- *)

(* whatever the variable held and whatever calls came before: what the caller sees after a
   call is the server's reply to THIS call *)
Theorem sendpb_fresh ret server : snd (sendpb false ret server) = server.
Proof. destruct server; reflexivity. Qed.

Theorem sendpb_seq_fresh : forall servers ret, sendpb_seq false ret servers = servers.
Proof.
  induction servers as [|r l IH]; intro ret; [reflexivity|]. simpl.
  destruct (sendpb false ret r) as [ret' seen] eqn:E. pose proof (sendpb_fresh ret r) as H.
  rewrite E in H. simpl in H. now rewrite H, IH.
Qed.

(* the variant that skips zero-byte replies: the second call's (empty) reply is presented
   as the first call's *)
Theorem sendpb_skip_empty_refuted :
  sendpb_seq true None [ROk 6 (Msg "alice" 1 true ""); zero_reply] =
  [ROk 6 (Msg "alice" 1 true ""); ROk 6 (Msg "alice" 1 true "")].
Proof. reflexivity. Qed.

(* ---------- SendToAll: slot i is the reply of server i ---------------------------------------- *)

Lemma set_nth_app_length {A} (pre : list A) x y rest :
  set_nth (pre ++ x :: rest) (List.length pre) y = (pre ++ y :: rest)%list.
Proof. induction pre as [|a pre IH]; simpl; [reflexivity|now rewrite IH]. Qed.

Lemma to_all_loop_spec : forall outs pre,
  to_all_loop (List.length pre) outs (pre ++ repeat None (List.length outs)) = (pre ++ outs)%list.
Proof.
  induction outs as [|o r IH]; intro pre; simpl; [reflexivity|].
  assert ((match o with Some _ => set_nth (pre ++ None :: repeat None (List.length r)) (List.length pre) o
                      | None => (pre ++ None :: repeat None (List.length r))%list end)
          = ((pre ++ [o]) ++ repeat None (List.length r))%list) as ->.
  { rewrite <- app_assoc. simpl. destruct o; [apply set_nth_app_length|reflexivity]. }
  replace (S (List.length pre)) with (List.length (pre ++ [o])) by (rewrite app_length; simpl; lia).
  rewrite IH, <- app_assoc. reflexivity.
Qed.

(* every roster, whoever fails: one slot per server, slot i = the reply of server i, empty
   where the request to server i failed; an error is returned iff some request failed *)
Theorem send_to_all_slots outs :
  fst (send_to_all outs) = outs /\ snd (send_to_all outs) = existsb is_none outs.
Proof. split; [apply (to_all_loop_spec outs [])|reflexivity]. Qed.

(* the variant that appends the successes: after a failure that is not the last, slot 0
   holds the reply of server 1 *)
Theorem send_to_all_compact_refuted :
  fst (send_to_all_compact [None; Some (ROk 6 (Msg "q" 1 true ""))]) = [Some (ROk 6 (Msg "q" 1 true ""))].
Proof. reflexivity. Qed.

(* ---------- what a handler keeps stays what the request carried ------------------------------ *)

(* the store of the model, seen as a key -> data map *)
Definition store_map (st : sstore) (m : list (string * string)) : Prop :=
  forall k, match slookup k st with
            | Some (VData d, _) => find (fun e => String.eqb k (fst e)) m = Some (match find (fun e => String.eqb k (fst e)) m with Some e => e | None => (k, d) end)
                                   /\ (match find (fun e => String.eqb k (fst e)) m with Some e => snd e | None => "" end) = d
            | Some (VClobbered, _) => False
            | None => find (fun e => String.eqb k (fst e)) m = None
            end.

Lemma store_run_spec keeps : forall ops st m,
  store_map st m -> store_run false keeps st ops = store_spec m ops.
Proof.
  induction ops as [|o r IH]; intros st m Hm; [reflexivity|].
  simpl. unfold store_step.
  assert ((match match nth_error keeps (so_client o) with Some true => Some (so_client o) | _ => None end with
           | Some c => if false then clobber c st else st | None => st end) = st) as ->.
  { destruct (match nth_error keeps (so_client o) with Some true => Some (so_client o) | _ => None end); reflexivity. }
  destruct (so_kind o) as [k d|k].
  - f_equal. apply IH. intro k'. simpl. destruct (String.eqb k' k) eqn:E.
    + split; reflexivity.
    + apply Hm.
  - f_equal; [|now apply IH]. specialize (Hm k).
    destruct (slookup k st) as [[[d|] c]|].
    + destruct Hm as [_ H]. now rewrite H.
    + destruct Hm.
    + now rewrite Hm.
Qed.

(* Any sequence of Put / Get of any clients over kept and single-use connections: Get
   returns the data of the last Put of that key, whatever requests came in between and
   on whichever connection. *)
Theorem store_get_returns_put keeps ops : store_run false keeps [] ops = store_spec [] ops.
Proof. apply store_run_spec. intro k. reflexivity. Qed.

(* one read buffer per connection: what request 1 stored is overwritten by request 2 on
   the same kept connection *)
Theorem store_reuse_buffer_refuted :
  let ops := [SOp 0 (SPut "k1" "AAAA"); SOp 0 (SPut "k2" "BBBB"); SOp 0 (SGet "k1")] in
  store_run true [true] [] ops <> store_spec [] ops /\
  store_run true [false] [] ops = store_spec [] ops.
Proof. split; [vm_compute; discriminate|vm_compute; reflexivity]. Qed.

(* ---------- the panic barrier, every kind of handler -------------------------------------- *)

Theorem barrier_all_kinds : forall streaming h m, call_interface true streaming h m <> CCrash.
Proof.
  intros streaming h m. unfold call_interface. destruct (handler h m); destruct streaming; discriminate.
Qed.

Theorem barrier_panic_is_error : forall streaming h m t,
  handler h m = HPanic t -> call_interface true streaming h m = CError EPanic t.
Proof. intros streaming h m t H. unfold call_interface. rewrite H. now destruct streaming. Qed.

Theorem barrier_streaming_lost_refuted :
  exists h m, call_interface false true h m = CCrash /\ call_interface false false h m <> CCrash.
Proof. exists HLenient, (Msg "panic-1" 0 false ""). split; [reflexivity|discriminate]. Qed.

Theorem conversation_never_dead : forall msgs, snd (conversation true msgs) <> SDead.
Proof.
  induction msgs as [|[p|] r IH]; simpl; try discriminate.
  pose proof (barrier_all_kinds true HLenient (apply_writes zero_msg (pmsg_writes p))) as Hb.
  destruct (call_interface true true HLenient _); try discriminate; [|contradiction].
  destruct (conversation true r). exact IH.
Qed.

Theorem conversation_dead_refuted :
  snd (conversation false [SMsg (PMsg (Some "ok") (Some 1%Z) None None); SMsg (PMsg (Some "panic-x") None None None)]) = SDead.
Proof. reflexivity. Qed.
