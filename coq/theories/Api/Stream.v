(* C15 -- one websocket streaming session of onet as a transition system.

   Go code mirrored (one action = one channel operation / one critical section):

   websocket.go, wsHandler.ServeHTTP, streaming branch
     clientInputs := make(chan []byte, 10); clientInputs <- firstMessage
     outChan := ProcessClientStreamRequest(...)
     closing := make(chan bool)
     reader goroutine : for { _, buf, err := ws.ReadMessage()             RdMsg / RdErr
                              if err != nil { close(closing); return }
                              clientInputs <- buf }                       RdSend
     write loop       : select {
                          case <-closing: close(clientInputs); break      WrClosing
                          case reply, ok := <-outChan:
                            !ok: WriteControl(normal close); close(clientInputs); return   WrOutClosed
                            ws.WriteMessage(reply)                        WrFwd
                              err: close(clientInputs); break }           WrFwdFail
                        (break: WriteControl(protocol error)); deferred ws.Close()          WrFinish

   processor.go, ProcessClientStreamRequest
     outChan := make(chan []byte, 100); closeOutOnce; stopAll; closing(mutex)
     adapter goroutine: for buf := range clientInputs {                   AdTake
                           decode error / handler error: close(outChan); return             AdBad
                           reply, stop := handler(msg)                    AdHandle
                           go stopper:   <-stopAll; lock; close(stop) unless closed         StStop k
                           go forwarder: for { v, ok := <-reply                             FwRecv k
                                               !ok: closeOutOnce.Do(close(outChan)); return
                                               outChan <- encode(v) } }                     FwSend k
                        close(stopAll)                                    AdEnd

   A send on a closed channel and a close of a closed channel are the explicit
   outcome [crashed] (the Go runtime panics in a goroutine nobody recovers, the
   process exits); a crashed session takes no further step.

   Fix flags (both [false] = the pinned code):
     f19  websocket.go: the reader is the only closer of clientInputs (deferred at
          its exit) and sends inside a select with a [done] channel that the write
          loop closes instead of clientInputs                             RdDone / RdFinish
     f18  processor.go: outChan is closed by whoever leaves last among
          {adapter while it handles a message, running forwarders} (a counter
          under the existing mutex), the adapter does not start a forwarder once
          outChan is closed, and every exit of the adapter closes stopAll.

   Reductions used (sound for the interleaving semantics): a receive that observes
   the stable condition "closed and drained" is merged with the operation that
   follows it (AdEnd, FwRecv on a closed channel, WrOutClosed); close(stopAll),
   which can only enable other goroutines, is merged with the operation before it
   (fixed variant); WriteControl, which only the client can observe, is merged
   with the neighbouring channel operation. *)
From Coq Require Import List Arith Bool Lia.
Import ListNotations.

Record fixes := { f18 : bool; f19 : bool }.
Definition pinned : fixes := {| f18 := false; f19 := false |}.
Definition fixed : fixes := {| f18 := true; f19 := true |}.

(* client -> server data frame: a request whose handler answers on service channel c,
   or a frame that does not decode / whose handler returns an error *)
Inductive cmsg := MReq (c : nat) | MBad.
(* server -> client: (service channel, value) *)
Definition omsg := (nat * nat)%type.
Inductive ccode := CNormal | CProto.
Inductive sframe := SMsg (m : omsg) | SClose (c : ccode).

Inductive rstate := RRead | RHave (m : cmsg) | RFin | RExit.
Inductive wstate := WLoop | WFin (c : option ccode) | WExit.
Inductive astate := ALoop | ABusy (m : cmsg) | AExit.
Inductive fstate := FRecv | FHave (v : nat) | FExit.

Definition cin_cap : nat := 10.
Definition out_cap : nat := 100.

(* the connection as seen from both ends *)
Record net := {
  wsin : list cmsg;        (* client frames not yet returned by the reader's ReadMessage *)
  cleft : bool;            (* the client closed or dropped the connection *)
  wsout : list sframe;     (* everything the server wrote, in order (history) *)
  crecv : nat;             (* how many of them the client has read *)
  wsclosed : bool;         (* the server closed the connection (deferred ws.Close) *)
  dropped : list omsg }.   (* taken from outChan but the write failed (history) *)

(* websocket.go *)
Record wsk := {
  rd : rstate; wr : wstate;
  cin : list cmsg; cin_closed : bool;       (* clientInputs *)
  closing : bool;                           (* closing channel closed *)
  done : bool }.                            (* f19: done channel closed *)

Record req := { rc : nat; fw : fstate; stp : bool }.

(* processor.go *)
Record prc := {
  ad : astate;
  out : list omsg; out_closed : bool;       (* outChan *)
  once : bool;                              (* closeOutOnce already used *)
  active : nat;                             (* f18: the counter *)
  stopall : bool;                           (* stopAll closed *)
  reqs : list req }.                        (* one entry per successful handler call *)

(* a service channel returned by the handler: the service is the producer *)
Record chan_st := { buf : list nat; sclosed : bool; emitted : list nat }.

Record st := { nt : net; wk : wsk; pc : prc; svc : list chan_st; crashed : bool }.

Inductive action :=
| CSend (m : cmsg) | CLeave | CRecv                      (* client *)
| SEmit (c v : nat) | SEnd (c : nat)                     (* service: send on / close its channel *)
| RdMsg | RdErr | RdSend | RdDone | RdFinish             (* reader goroutine *)
| WrClosing | WrFwd | WrFwdFail | WrOutClosed | WrFinish (* write loop *)
| AdTake | AdEnd | AdBad | AdHandle                      (* adapter goroutine *)
| StStop (k : nat) | FwRecv (k : nat) | FwSend (k : nat).

Definition internal (a : action) : bool :=
  match a with
  | CSend _ | CLeave | CRecv | SEmit _ _ | SEnd _ => false
  | _ => true
  end.

Fixpoint upd {A} (l : list A) (i : nat) (x : A) : list A :=
  match l, i with
  | [], _ => []
  | _ :: r, 0 => x :: r
  | y :: r, S j => y :: upd r j x
  end.

Definition chan0 : chan_st := {| buf := []; sclosed := false; emitted := [] |}.

(* state at the moment ServeHTTP enters the write loop: the first message is in
   clientInputs, reader and adapter have been started *)
Definition init (m0 : cmsg) (nchan : nat) : st :=
  {| nt := {| wsin := []; cleft := false; wsout := []; crecv := 0; wsclosed := false; dropped := [] |};
     wk := {| rd := RRead; wr := WLoop; cin := [m0]; cin_closed := false; closing := false; done := false |};
     pc := {| ad := ALoop; out := []; out_closed := false; once := false; active := 0; stopall := false; reqs := [] |};
     svc := repeat chan0 nchan;
     crashed := false |}.

Definition crash (s : st) : st :=
  {| nt := nt s; wk := wk s; pc := pc s; svc := svc s; crashed := true |}.

Definition set_nt (s : st) (n : net) : st :=
  {| nt := n; wk := wk s; pc := pc s; svc := svc s; crashed := crashed s |}.
Definition set_wk (s : st) (w : wsk) : st :=
  {| nt := nt s; wk := w; pc := pc s; svc := svc s; crashed := crashed s |}.
Definition set_pc (s : st) (p : prc) : st :=
  {| nt := nt s; wk := wk s; pc := p; svc := svc s; crashed := crashed s |}.
Definition set_svc (s : st) (v : list chan_st) : st :=
  {| nt := nt s; wk := wk s; pc := pc s; svc := v; crashed := crashed s |}.

(* the write loop lets go of the input side: close(clientInputs) in the pinned
   code, close(done) with f19. Second component: a closed channel was closed. *)
Definition wr_release (fx : fixes) (w : wsk) (nw : wstate) : wsk * bool :=
  if f19 fx then
    ({| rd := rd w; wr := nw; cin := cin w; cin_closed := cin_closed w; closing := closing w; done := true |},
     done w)
  else
    ({| rd := rd w; wr := nw; cin := cin w; cin_closed := true; closing := closing w; done := done w |},
     cin_closed w).

(* f18: leave() -- decrement the counter, the last one closes outChan *)
Definition leave (p : prc) (na : astate) (sa : bool) (rs : list req) : prc :=
  let n := active p - 1 in
  {| ad := na; out := out p;
     out_closed := if (n =? 0) then true else out_closed p;
     once := once p; active := n; stopall := sa; reqs := rs |}.

Definition set_fw (r : req) (f : fstate) : req := {| rc := rc r; fw := f; stp := stp r |}.

(* the frame decodes and the handler answers with a service channel (a request
   for a channel the service does not have is a handler error) *)
Definition handler_ok (s : st) (m : cmsg) : bool :=
  match m with
  | MReq c => c <? length (svc s)
  | MBad => false
  end.

Definition step (fx : fixes) (s : st) (a : action) : option st :=
  if crashed s then None else
  let n := nt s in let w := wk s in let p := pc s in
  match a with
  (* ---------------- client ---------------- *)
  | CSend m =>
      if cleft n then None else
      Some (set_nt s {| wsin := wsin n ++ [m]; cleft := false; wsout := wsout n; crecv := crecv n;
                        wsclosed := wsclosed n; dropped := dropped n |})
  | CLeave =>
      if cleft n then None else
      Some (set_nt s {| wsin := wsin n; cleft := true; wsout := wsout n; crecv := crecv n;
                        wsclosed := wsclosed n; dropped := dropped n |})
  | CRecv =>
      if cleft n then None else
      if crecv n <? length (wsout n) then
        Some (set_nt s {| wsin := wsin n; cleft := cleft n; wsout := wsout n; crecv := S (crecv n);
                          wsclosed := wsclosed n; dropped := dropped n |})
      else None
  (* ---------------- service ---------------- *)
  | SEmit c v =>
      match nth_error (svc s) c with
      | Some ch =>
          if sclosed ch then None       (* the service does not send on the channel it closed *)
          else Some (set_svc s (upd (svc s) c {| buf := buf ch ++ [v]; sclosed := false;
                                                 emitted := emitted ch ++ [v] |}))
      | None => None
      end
  | SEnd c =>
      match nth_error (svc s) c with
      | Some ch =>
          if sclosed ch then None
          else Some (set_svc s (upd (svc s) c {| buf := buf ch; sclosed := true; emitted := emitted ch |}))
      | None => None
      end
  (* ---------------- reader goroutine ---------------- *)
  | RdMsg =>
      match rd w, wsin n with
      | RRead, m :: r =>
          Some {| nt := {| wsin := r; cleft := cleft n; wsout := wsout n; crecv := crecv n;
                           wsclosed := wsclosed n; dropped := dropped n |};
                  wk := {| rd := RHave m; wr := wr w; cin := cin w; cin_closed := cin_closed w;
                           closing := closing w; done := done w |};
                  pc := p; svc := svc s; crashed := false |}
      | _, _ => None
      end
  | RdErr =>
      (* ReadMessage fails once the client has left or the server closed the
         connection (frames still in flight may be lost) *)
      match rd w with
      | RRead =>
          if cleft n || wsclosed n then
            (* close(closing): closed only here, the reader leaves the loop *)
            Some (set_wk s {| rd := if f19 fx then RFin else RExit; wr := wr w; cin := cin w;
                              cin_closed := cin_closed w; closing := true; done := done w |})
          else None
      | _ => None
      end
  | RdSend =>
      match rd w with
      | RHave m =>
          if cin_closed w then Some (crash s)                       (* send on closed channel *)
          else if length (cin w) <? cin_cap then
            Some (set_wk s {| rd := RRead; wr := wr w; cin := cin w ++ [m]; cin_closed := false;
                              closing := closing w; done := done w |})
          else None                                                 (* channel full: blocked *)
      | _ => None
      end
  | RdDone =>
      (* f19 only: the other branch of the select *)
      match rd w with
      | RHave _ =>
          if f19 fx && done w then
            Some (set_wk s {| rd := RFin; wr := wr w; cin := cin w; cin_closed := cin_closed w;
                              closing := closing w; done := done w |})
          else None
      | _ => None
      end
  | RdFinish =>
      (* f19 only: deferred close(clientInputs) *)
      match rd w with
      | RFin =>
          if cin_closed w then Some (crash s)
          else Some (set_wk s {| rd := RExit; wr := wr w; cin := cin w; cin_closed := true;
                                 closing := closing w; done := done w |})
      | _ => None
      end
  (* ---------------- write loop ---------------- *)
  | WrClosing =>
      match wr w with
      | WLoop =>
          if closing w then
            let (w', bad) := wr_release fx w (WFin (Some CProto)) in
            if bad then Some (crash s) else Some (set_wk s w')
          else None
      | _ => None
      end
  | WrFwd =>
      match wr w, out p with
      | WLoop, x :: r =>
          Some {| nt := {| wsin := wsin n; cleft := cleft n; wsout := wsout n ++ [SMsg x]; crecv := crecv n;
                           wsclosed := wsclosed n; dropped := dropped n |};
                  wk := w;
                  pc := {| ad := ad p; out := r; out_closed := out_closed p; once := once p;
                           active := active p; stopall := stopall p; reqs := reqs p |};
                  svc := svc s; crashed := false |}
      | _, _ => None
      end
  | WrFwdFail =>
      (* the write fails: only possible once the client has gone *)
      match wr w, out p with
      | WLoop, x :: r =>
          if cleft n then
            let (w', bad) := wr_release fx w (WFin (Some CProto)) in
            if bad then Some (crash s) else
            Some {| nt := {| wsin := wsin n; cleft := cleft n; wsout := wsout n; crecv := crecv n;
                             wsclosed := wsclosed n; dropped := dropped n ++ [x] |};
                    wk := w';
                    pc := {| ad := ad p; out := r; out_closed := out_closed p; once := once p;
                             active := active p; stopall := stopall p; reqs := reqs p |};
                    svc := svc s; crashed := false |}
          else None
      | _, _ => None
      end
  | WrOutClosed =>
      match wr w, out p with
      | WLoop, [] =>
          if out_closed p then
            let (w', bad) := wr_release fx w (WFin None) in
            if bad then Some (crash s) else
            Some {| nt := {| wsin := wsin n; cleft := cleft n; wsout := wsout n ++ [SClose CNormal];
                             crecv := crecv n; wsclosed := wsclosed n; dropped := dropped n |};
                    wk := w'; pc := p; svc := svc s; crashed := false |}
          else None
      | _, _ => None
      end
  | WrFinish =>
      match wr w with
      | WFin oc =>
          Some {| nt := {| wsin := wsin n; cleft := cleft n;
                           wsout := match oc with Some c => wsout n ++ [SClose c] | None => wsout n end;
                           crecv := crecv n; wsclosed := true; dropped := dropped n |};
                  wk := {| rd := rd w; wr := WExit; cin := cin w; cin_closed := cin_closed w;
                           closing := closing w; done := done w |};
                  pc := p; svc := svc s; crashed := false |}
      | _ => None
      end
  (* ---------------- adapter goroutine ---------------- *)
  | AdTake =>
      match ad p, cin w with
      | ALoop, m :: r =>
          let w' := {| rd := rd w; wr := wr w; cin := r; cin_closed := cin_closed w;
                       closing := closing w; done := done w |} in
          if f18 fx then
            if out_closed p then
              (* enter() refused: the stream has ended; return, deferred close(stopAll) *)
              Some {| nt := n; wk := w';
                      pc := {| ad := AExit; out := out p; out_closed := true; once := once p;
                               active := active p; stopall := true; reqs := reqs p |};
                      svc := svc s; crashed := false |}
            else
              Some {| nt := n; wk := w';
                      pc := {| ad := ABusy m; out := out p; out_closed := false; once := once p;
                               active := S (active p); stopall := stopall p; reqs := reqs p |};
                      svc := svc s; crashed := false |}
          else
            Some {| nt := n; wk := w';
                    pc := {| ad := ABusy m; out := out p; out_closed := out_closed p; once := once p;
                             active := active p; stopall := stopall p; reqs := reqs p |};
                    svc := svc s; crashed := false |}
      | _, _ => None
      end
  | AdEnd =>
      match ad p, cin w with
      | ALoop, [] =>
          if cin_closed w then
            if stopall p then Some (crash s) else
            Some (set_pc s {| ad := AExit; out := out p; out_closed := out_closed p; once := once p;
                              active := active p; stopall := true; reqs := reqs p |})
          else None
      | _, _ => None
      end
  | AdBad =>
      match ad p with
      | ABusy m =>
          if handler_ok s m then None else
          if f18 fx then
            Some (set_pc s (leave p AExit true (reqs p)))
          else if out_closed p then Some (crash s)                  (* close of closed channel *)
          else
            (* close(outChan); return -- stopAll stays open *)
            Some (set_pc s {| ad := AExit; out := out p; out_closed := true; once := once p;
                              active := active p; stopall := stopall p; reqs := reqs p |})
      | _ => None
      end
  | AdHandle =>
      match ad p with
      | ABusy (MReq c) =>
          if handler_ok s (MReq c) then
            Some (set_pc s {| ad := ALoop; out := out p; out_closed := out_closed p; once := once p;
                              active := active p; stopall := stopall p;
                              reqs := reqs p ++ [{| rc := c; fw := FRecv; stp := false |}] |})
          else None
      | _ => None
      end
  (* ---------------- per request goroutines ---------------- *)
  | StStop k =>
      match nth_error (reqs p) k with
      | Some r =>
          if stopall p && negb (stp r) then
            Some (set_pc s {| ad := ad p; out := out p; out_closed := out_closed p; once := once p;
                              active := active p; stopall := stopall p;
                              reqs := upd (reqs p) k {| rc := rc r; fw := fw r; stp := true |} |})
          else None
      | None => None
      end
  | FwRecv k =>
      match nth_error (reqs p) k with
      | Some r =>
          match fw r, nth_error (svc s) (rc r) with
          | FRecv, Some ch =>
              match buf ch with
              | v :: b =>
                  Some {| nt := n; wk := w;
                          pc := {| ad := ad p; out := out p; out_closed := out_closed p; once := once p;
                                   active := active p; stopall := stopall p;
                                   reqs := upd (reqs p) k (set_fw r (FHave v)) |};
                          svc := upd (svc s) (rc r) {| buf := b; sclosed := sclosed ch; emitted := emitted ch |};
                          crashed := false |}
              | [] =>
                  if sclosed ch then
                    let rs := upd (reqs p) k (set_fw r FExit) in
                    if f18 fx then Some (set_pc s (leave p (ad p) (stopall p) rs))
                    else if once p then
                      Some (set_pc s {| ad := ad p; out := out p; out_closed := out_closed p; once := true;
                                        active := active p; stopall := stopall p; reqs := rs |})
                    else if out_closed p then Some (crash s)        (* close of closed channel *)
                    else
                      Some (set_pc s {| ad := ad p; out := out p; out_closed := true; once := true;
                                        active := active p; stopall := stopall p; reqs := rs |})
                  else None
              end
          | _, _ => None
          end
      | None => None
      end
  | FwSend k =>
      match nth_error (reqs p) k with
      | Some r =>
          match fw r with
          | FHave v =>
              if out_closed p then Some (crash s)                   (* send on closed channel *)
              else if length (out p) <? out_cap then
                Some (set_pc s {| ad := ad p; out := out p ++ [(rc r, v)]; out_closed := false; once := once p;
                                  active := active p; stopall := stopall p;
                                  reqs := upd (reqs p) k (set_fw r FRecv) |})
              else None
          | _ => None
          end
      | None => None
      end
  end.

Fixpoint run (fx : fixes) (s : st) (acts : list action) : option st :=
  match acts with
  | [] => Some s
  | a :: r => match step fx s a with None => None | Some s' => run fx s' r end
  end.

(* ---- several sessions on one server ----------------------------------------
   A panic in any goroutine ends the process: no session moves any more. *)

Definition sys := list st.

Definition sys_crashed (s : sys) : bool := existsb crashed s.

Definition sstep (fx : fixes) (s : sys) (ia : nat * action) : option sys :=
  if sys_crashed s then None else
  match nth_error s (fst ia) with
  | None => None
  | Some c => match step fx c (snd ia) with
              | None => None
              | Some c' => Some (upd s (fst ia) c')
              end
  end.

Fixpoint srun (fx : fixes) (s : sys) (acts : list (nat * action)) : option sys :=
  match acts with
  | [] => Some s
  | a :: r => match sstep fx s a with None => None | Some s' => srun fx s' r end
  end.

(* ---- derived notions used by the statements --------------------------------- *)

(* the internal actions that could be enabled in s *)
Definition tau_actions (s : st) : list action :=
  [RdMsg; RdErr; RdSend; RdDone; RdFinish; WrClosing; WrFwd; WrFwdFail; WrOutClosed; WrFinish;
   AdTake; AdEnd; AdBad] ++
  flat_map (fun k => [StStop k; FwRecv k; FwSend k]) (seq 0 (length (reqs (pc s)))).

(* the handler call is the adapter's own step but the harness sees it *)
Definition quiescentb (fx : fixes) (s : st) : bool :=
  forallb (fun a => match step fx s a with None => true | Some _ => false end)
          (AdHandle :: tau_actions s).

Definition wmsgs (l : list sframe) : list omsg :=
  flat_map (fun f => match f with SMsg m => [m] | SClose _ => [] end) l.

Definition on_chan (c : nat) (l : list omsg) : list nat :=
  map snd (filter (fun m => fst m =? c) l).

Definition held (c : nat) (rs : list req) : list nat :=
  flat_map (fun r => if rc r =? c then match fw r with FHave v => [v] | _ => [] end else []) rs.

(* goroutines of the session that have not returned *)
Definition census (s : st) : nat :=
  (match rd (wk s) with RExit => 0 | _ => 1 end) +
  (match wr (wk s) with WExit => 0 | _ => 1 end) +
  (match ad (pc s) with AExit => 0 | _ => 1 end) +
  length (filter (fun r => negb (stp r)) (reqs (pc s))) +
  length (filter (fun r => match fw r with FExit => false | _ => true end) (reqs (pc s))).

(* ---- trace validation --------------------------------------------------------
   Observable events of one session, in the order of the harness's stamp counter.
   [explain] keeps the SET of model states that are compatible with the events so
   far (closed under internal actions), so a race whose outcome the harness cannot
   control is accepted whichever way it went. *)

Inductive oevent :=
| OSend (m : cmsg)            (* client wrote a follow-up frame *)
| OLeave                      (* client closed / dropped *)
| ORecv (c v : nat)           (* client read a data frame *)
| OClosed (c : ccode)         (* client read a close frame *)
| OEmit (c v : nat)           (* service sent v on its channel c *)
| OEnd (c : nat)              (* service closed its channel c *)
| OHandler (c : nat)          (* handler called, answers with channel c *)
| OStop (k : nat)             (* the service saw the stop channel of request k closed *)
| OParked                     (* a goroutine dump showed the reader parked in its send: clientInputs full *)
| OWriterGone.                (* a goroutine dump showed that the write loop has returned *)

Definition cmsg_eqb (a b : cmsg) : bool :=
  match a, b with
  | MReq x, MReq y => x =? y
  | MBad, MBad => true
  | _, _ => false
  end.
Definition ccode_eqb (a b : ccode) : bool :=
  match a, b with CNormal, CNormal | CProto, CProto => true | _, _ => false end.
Definition omsg_eqb (a b : omsg) : bool := (fst a =? fst b) && (snd a =? snd b).
Definition sframe_eqb (a b : sframe) : bool :=
  match a, b with
  | SMsg x, SMsg y => omsg_eqb x y
  | SClose x, SClose y => ccode_eqb x y
  | _, _ => false
  end.

Fixpoint list_eqb {A} (e : A -> A -> bool) (a b : list A) : bool :=
  match a, b with
  | [], [] => true
  | x :: a', y :: b' => e x y && list_eqb e a' b'
  | _, _ => false
  end.

Definition rstate_eqb (a b : rstate) : bool :=
  match a, b with
  | RRead, RRead | RFin, RFin | RExit, RExit => true
  | RHave x, RHave y => cmsg_eqb x y
  | _, _ => false
  end.
Definition ocode_eqb (a b : option ccode) : bool :=
  match a, b with
  | None, None => true
  | Some x, Some y => ccode_eqb x y
  | _, _ => false
  end.
Definition wstate_eqb (a b : wstate) : bool :=
  match a, b with
  | WLoop, WLoop | WExit, WExit => true
  | WFin x, WFin y => ocode_eqb x y
  | _, _ => false
  end.
Definition astate_eqb (a b : astate) : bool :=
  match a, b with
  | ALoop, ALoop | AExit, AExit => true
  | ABusy x, ABusy y => cmsg_eqb x y
  | _, _ => false
  end.
Definition fstate_eqb (a b : fstate) : bool :=
  match a, b with
  | FRecv, FRecv | FExit, FExit => true
  | FHave x, FHave y => x =? y
  | _, _ => false
  end.
Definition req_eqb (a b : req) : bool :=
  (rc a =? rc b) && fstate_eqb (fw a) (fw b) && Bool.eqb (stp a) (stp b).
Definition chan_eqb (a b : chan_st) : bool :=
  list_eqb Nat.eqb (buf a) (buf b) && Bool.eqb (sclosed a) (sclosed b) &&
  list_eqb Nat.eqb (emitted a) (emitted b).
Definition net_eqb (a b : net) : bool :=
  list_eqb cmsg_eqb (wsin a) (wsin b) && Bool.eqb (cleft a) (cleft b) &&
  (length (wsout a) =? length (wsout b)) && (crecv a =? crecv b) &&
  Bool.eqb (wsclosed a) (wsclosed b) && list_eqb omsg_eqb (dropped a) (dropped b) &&
  list_eqb sframe_eqb (wsout a) (wsout b).
Definition wsk_eqb (a b : wsk) : bool :=
  rstate_eqb (rd a) (rd b) && wstate_eqb (wr a) (wr b) && list_eqb cmsg_eqb (cin a) (cin b) &&
  Bool.eqb (cin_closed a) (cin_closed b) && Bool.eqb (closing a) (closing b) && Bool.eqb (done a) (done b).
Definition prc_eqb (a b : prc) : bool :=
  astate_eqb (ad a) (ad b) && list_eqb omsg_eqb (out a) (out b) && Bool.eqb (out_closed a) (out_closed b) &&
  Bool.eqb (once a) (once b) && (active a =? active b) && Bool.eqb (stopall a) (stopall b) &&
  list_eqb req_eqb (reqs a) (reqs b).
Definition st_eqb (a b : st) : bool :=
  Bool.eqb (crashed a) (crashed b) && wsk_eqb (wk a) (wk b) && prc_eqb (pc a) (pc b) &&
  list_eqb chan_eqb (svc a) (svc b) && net_eqb (nt a) (nt b).

Fixpoint steps (fx : fixes) (s : st) (l : list action) : list st :=
  match l with
  | [] => []
  | a :: r => match step fx s a with Some s' => s' :: steps fx s r | None => steps fx s r end
  end.

(* Reduced enumeration used by the closure. StStop k commutes with every other
   action and is never disabled, forwarders that wait on the same service channel
   (resp. that are about to leave because their channel is closed and drained)
   differ by their index only; exploring them lowest index first reaches the same
   observable behaviour with linearly instead of exponentially many states. Every
   action listed is an action of [tau_actions], so nothing is accepted that the
   full system cannot do. *)
Fixpoint first_idx {A} (p : A -> bool) (l : list A) (i : nat) : option nat :=
  match l with
  | [] => None
  | x :: r => if p x then Some i else first_idx p r (S i)
  end.

Definition exit_ready (s : st) (r : req) : bool :=
  match fw r, nth_error (svc s) (rc r) with
  | FRecv, Some ch => match buf ch with [] => sclosed ch | _ :: _ => false end
  | _, _ => false
  end.

Definition waits_on (c : nat) (r : req) : bool :=
  (rc r =? c) && match fw r with FRecv => true | _ => false end.

Definition tau_reduced (s : st) : list action :=
  let rs := reqs (pc s) in
  [RdMsg; RdErr; RdSend; RdDone; RdFinish; WrClosing; WrFwd; WrFwdFail; WrOutClosed; WrFinish;
   AdTake; AdEnd; AdBad] ++
  (match first_idx (fun r => negb (stp r)) rs 0 with Some k => [StStop k] | None => [] end) ++
  (match first_idx (exit_ready s) rs 0 with Some k => [FwRecv k] | None => [] end) ++
  flat_map (fun k => match nth_error rs k with
                     | Some r =>
                         match fw r with
                         | FHave _ => [FwSend k]
                         | FRecv => if exit_ready s r then []
                                    else match first_idx (waits_on (rc r)) rs 0 with
                                         | Some j => if j =? k then [FwRecv k] else []
                                         | None => []
                                         end
                         | FExit => []
                         end
                     | None => []
                     end) (seq 0 (length rs)).

Definition succs (fx : fixes) (s : st) : list st := steps fx s (tau_reduced s).

(* Internal actions that commute with every other action, that nothing can
   disable and that disable nothing: a stopper closing its stop channel, and a
   forwarder leaving when that does not close outChan (pinned: the once is used
   up; f18: it is not the last one), and the only forwarder of a service channel
   taking the next value off it. Any run can be reordered so that they happen
   as soon as they are enabled, and a quiescent end state has taken them all; the
   closure therefore replaces a state by its successor under such an action. *)
Definition eager_action (fx : fixes) (s : st) : option action :=
  let p := pc s in
  match (if stopall p then first_idx (fun r => negb (stp r)) (reqs p) 0 else None) with
  | Some k => Some (StStop k)
  | None =>
      match (if (if f18 fx then 1 <? active p else once p) then first_idx (exit_ready s) (reqs p) 0
             else None) with
      | Some k => Some (FwRecv k)
      | None =>
          (* the only forwarder of a service channel takes the next value: nobody else
             touches the head of that channel *)
          option_map FwRecv (first_idx (fun r => match fw r, nth_error (svc s) (rc r) with
                              | FRecv, Some ch =>
                                  match buf ch with
                                  | _ :: _ => length (filter (fun r' => rc r' =? rc r) (reqs p)) =? 1
                                  | [] => false
                                  end
                              | _, _ => false
                              end) (reqs p) 0)
          
      end
  end.

(* closure under internal actions; None = out of fuel *)
Fixpoint closure (fx : fixes) (fuel : nat) (todo seen : list st) : option (list st) :=
  match todo with
  | [] => Some seen
  | s :: r =>
      match fuel with
      | 0 => None
      | S f =>
          match (match eager_action fx s with Some a => step fx s a | None => None end) with
          | Some s' => closure fx f (s' :: r) seen
          | None =>
              if existsb (st_eqb s) seen then closure fx f r seen
              else closure fx f (succs fx s ++ r) (s :: seen)
          end
      end
  end.

(* the model actions that show as event e in state s *)
Definition event_steps (fx : fixes) (s : st) (e : oevent) : list st :=
  match e with
  | OSend m => steps fx s [CSend m]
  | OLeave => steps fx s [CLeave]
  | ORecv c v =>
      match nth_error (wsout (nt s)) (crecv (nt s)) with
      | Some (SMsg m) => if omsg_eqb m (c, v) then steps fx s [CRecv] else []
      | _ => []
      end
  | OClosed cc =>
      match nth_error (wsout (nt s)) (crecv (nt s)) with
      | Some (SClose c') => if ccode_eqb c' cc then steps fx s [CRecv] else []
      | _ => []
      end
  | OEmit c v => steps fx s [SEmit c v]
  | OEnd c => steps fx s [SEnd c]
  | OHandler c =>
      match ad (pc s) with
      | ABusy (MReq c') => if c' =? c then steps fx s [AdHandle] else []
      | _ => []
      end
  | OStop k =>
      match nth_error (reqs (pc s)) k with
      | Some r => if stp r then (if crashed s then [] else [s]) else []
      | None => []
      end
  | OParked =>
      match rd (wk s) with
      | RHave _ =>
          if (cin_cap <=? length (cin (wk s))) && negb (cin_closed (wk s)) &&
             negb (f19 fx && done (wk s)) && negb (crashed s) then [s] else []
      | _ => []
      end
  | OWriterGone =>
      match wr (wk s) with
      | WExit => if crashed s then [] else [s]
      | _ => []
      end
  end.

Definition fuel_of (evs : nat) : nat := 4000 + 400 * evs.

Fixpoint explain_from (fx : fixes) (fuel : nat) (cur : list st) (evs : list oevent) : option (list st) :=
  match evs with
  | [] => Some cur
  | e :: r =>
      match closure fx fuel (flat_map (fun s => event_steps fx s e) cur) [] with
      | None => None
      | Some nxt => explain_from fx fuel nxt r
      end
  end.

(* all states the session can be in after showing exactly these events *)
Definition explain (fx : fixes) (m0 : cmsg) (nchan : nat) (evs : list oevent) : option (list st) :=
  let fuel := fuel_of (length evs) in
  match closure fx fuel [init m0 nchan] [] with
  | None => None
  | Some c0 => explain_from fx fuel c0 evs
  end.
