(* C16 REFERENCE CHECKER: the refinement statement of the property, executed.
   Every service is given a PRIVATE database (only its own buckets); each
   observed answer must be the answer that private database gives to the
   operation.  Executable Gallina only; used by Corr/C16.v on the
   implementation's observations and proved sound for the model in
   Api/StorageSpecProofs.v.

   clauses:
   1 a value saved under a key is not returned, equal, by a later load / raw load
     of that key by the same service (also after a restart), or a save failed
   2 loading a key this service never saved yields something, or an error
   3 the database version read is not the one this service saved last (0 if none)
   4 an additional bucket of this service does not return what this service put last
   5 crash (nil bucket)
   6 concurrent savers (see Corr/C16.v)
   7 a value handed to the service changed afterwards (see Corr/C16.v)
   8 a Save REPORTED SUCCESS in the observation (whatever the key: also empty, nil,
     over-long), but a later load / raw load of that key by the same service, before
     the next successful save of it, does not return exactly that value *)
From Coq Require Import List Arith Bool ZArith NArith.
Import ListNotations.
From Onet Require Import Base.Corr Api.Storage.

Definition res_eqb (a b : res) : bool :=
  match a, b with
  | ROk, ROk | RErr, RErr | RNone, RNone | RCrash, RCrash => true
  | RBytes x, RBytes y => bytes_eqb x y
  | RVer x, RVer y => Z.eqb x y
  | _, _ => false
  end.

Fixpoint ress_eqb (a b : list res) : bool :=
  match a, b with
  | [], [] => true
  | x :: a', y :: b' => res_eqb x y && ress_eqb a' b'
  | _, _ => false
  end.

Fixpoint upd_nth {A} (l : list A) (n : nat) (x : A) : list A :=
  match l, n with
  | [], _ => []
  | _ :: r, 0 => x :: r
  | y :: r, S n' => y :: upd_nth r n' x
  end.

Definition is_crash (r : res) : bool := match r with RCrash => true | _ => false end.

(* what the property demands for one answer, given the answer of the private database *)
Definition demand (o : op) (expected got : res) : list nat :=
  clause 5 (negb (is_crash got)) ++
  match expected with
  | ROk => clause 1 (res_eqb got ROk)
  | RNone => match o with
             | OAddGet _ _ => clause 4 (res_eqb got RNone)
             | _ => clause 2 (res_eqb got RNone)
             end
  | RBytes v => match o with
                | OAddGet _ _ => clause 4 (res_eqb got expected)
                | _ => clause 1 (res_eqb got expected)
                end
  | RVer z => clause 3 (res_eqb got expected)
  | RErr | RCrash => []            (* the property is silent *)
  end.

Section Check.
  Variable dec : list bytes.
  Variable names : list bytes.

  (* private databases, one per service *)
  Definition pinit : list db := map (fun n => startup [n] []) names.

  Fixpoint pwalk (ps : list db) (h : list (hop * res)) : list nat :=
    match h with
    | [] => []
    | (HOp s o, got) :: r =>
        match nth_error names s, nth_error ps s with
        | Some n, Some d =>
            let (d1, expected) := exec_op dec n d o in
            demand o expected got ++ pwalk (upd_nth ps s d1) r
        | _, _ => pwalk ps r
        end
    | (HRestart, _) :: r => pwalk ps r   (* a restart changes no private database *)
    end.
End Check.


(* ---- clause 8: driven by the OBSERVED outcome of Save alone ----------------
   The reference of clauses 1-5 expects an error for keys bbolt refuses and is
   then silent.  The property text is not: "a value a service saves under a key
   is returned, equal, by every later load of that key by the same service".
   So: whenever the implementation SAID the save succeeded, it owes the value. *)
Definition sstate := list (nat * bytes * bytes).   (* newest first *)

Fixpoint sfind (st : sstate) (s : nat) (k : bytes) : option bytes :=
  match st with
  | [] => None
  | (s', k', v) :: r => if (s =? s') && bytes_eqb k k' then Some v else sfind r s k
  end.

Definition owes (st : sstate) (s : nat) (k : bytes) (got : res) : list nat :=
  match sfind st s k with
  | Some v => clause 8 (res_eqb got (RBytes v))
  | None => []
  end.

Fixpoint swalk (st : sstate) (h : list (hop * res)) : list nat :=
  match h with
  | [] => []
  | (HOp s (OSave k v), got) :: r =>
      swalk (if res_eqb got ROk then (s, k, v) :: st else st) r
  | (HOp s (OLoad k), got) :: r => owes st s k got ++ swalk st r
  | (HOp s (OLoadRaw k), got) :: r => owes st s k got ++ swalk st r
  | _ :: r => swalk st r            (* restarts keep what is owed *)
  end.
