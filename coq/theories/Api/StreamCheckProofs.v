(* C15 -- the boolean property checker of Corr/C15.v decides the property stated
   on the observed events (check c = [] <-> spec c). *)
From Coq Require Import List Arith Bool Lia Permutation.
Import ListNotations.
From Onet Require Import Base.Corr Api.Stream Api.StreamProofs Corr.C15.

Lemma app_eq_nil_iff {A} (a b : list A) : a ++ b = [] <-> a = [] /\ b = [].
Proof. split; [apply app_eq_nil|intros [-> ->]; reflexivity]. Qed.

Lemma clause_nil n b : clause n b = [] <-> b = true.
Proof. unfold clause. destruct b; split; intros; auto; discriminate. Qed.

Lemma nodup_nil {A} (dec : forall x y : A, {x = y} + {x <> y}) l : nodup dec l = [] <-> l = [].
Proof.
  split; [|intros ->; reflexivity]. destruct l as [|x t]; auto. intros H. exfalso.
  assert (Hin : In x (nodup dec (x :: t))) by (apply nodup_In; now left). rewrite H in Hin. contradiction.
Qed.

Lemma flat_map_nil {A B} (f : A -> list B) l : flat_map f l = [] <-> forall x, In x l -> f x = [].
Proof.
  induction l as [|x t IH]; cbn.
  - split; auto. intros _ y [].
  - split.
    + intros H. apply app_eq_nil in H as [H1 H2]. intros y [<-|Hy]; auto. now apply IH.
    + intros H. rewrite (H x (or_introl eq_refl)). cbn. apply IH. intros y Hy. apply H. now right.
Qed.

Lemma prefixb_spec a : forall b, prefixb a b = true <-> prefix_of a b.
Proof.
  induction a as [|x a IH]; intros [|y b]; cbn; try tauto.
  - split; [discriminate|contradiction].
  - rewrite andb_true_iff, Nat.eqb_eq, IH. tauto.
Qed.

Lemma remove1_perm x : forall l l', remove1 x l = Some l' -> Permutation l (x :: l').
Proof.
  induction l as [|y t IH]; intros l' H; cbn in H; [discriminate|].
  destruct (x =? y) eqn:E.
  - inversion H; subst. apply Nat.eqb_eq in E. subst. reflexivity.
  - destruct (remove1 x t) as [t'|] eqn:Er; [|discriminate]. inversion H; subst.
    rewrite (IH t' eq_refl). apply perm_swap.
Qed.

Lemma remove1_in x : forall l, In x l -> exists l', remove1 x l = Some l'.
Proof.
  induction l as [|y t IH]; intros H; [contradiction|]. cbn. destruct (x =? y) eqn:E; eauto.
  destruct H as [->|H]; [rewrite Nat.eqb_refl in E; discriminate|].
  destruct (IH H) as [t' ->]. eauto.
Qed.

Lemma same_bag_spec a : forall b, same_bag a b = true <-> Permutation a b.
Proof.
  induction a as [|x a IH]; intros b; cbn.
  - destruct b; split; intros H; auto; try discriminate. apply Permutation_nil in H. discriminate.
  - split.
    + destruct (remove1 x b) as [b'|] eqn:E; [|discriminate]. intros H. apply IH in H.
      rewrite (remove1_perm x b b' E). now constructor.
    + intros H. assert (Hin : In x b) by (eapply Permutation_in; [exact H|now left]).
      destruct (remove1_in x b Hin) as [b' E]. rewrite E. apply IH.
      apply (Permutation_cons_inv (a := x)). rewrite H. apply remove1_perm. exact E.
Qed.

(* the property on one observed session *)
Definition spec_stream (t : strace) : Prop :=
  let e := evs t in
  (* order, no duplicate, nothing invented *)
  (forall c, In c (recv_chans e ++ handed_out e) -> prefix_of (received_on c e) (emitted_on c e)) /\
  (* the service ended the stream and the client stayed: everything, and the normal
     close is the last frame the client reads *)
  (left_in e = false -> service_ended e = true ->
     (forall c, In c (handed_out e) -> Permutation (received_on c e) (emitted_on c e)) /\
     normal_close_last e = true) /\
  (* the client left first: every request is told to stop *)
  (client_left_first e = true -> forall k, k < length (handed_out e) -> stop_seen k e = true) /\
  (* the session's first request reached the service *)
  served t = true.

Definition spec (c : case) : Prop :=
  crashed_obs c = false /\
  (forall t, In t (streams c) -> spec_stream t) /\
  (forallb all_over (streams c) = true -> leaked c = 0).

Lemma check_stream_spec t : check_stream false t = [] <-> spec_stream t.
Proof.
  unfold check_stream, spec_stream. cbn zeta.
  set (e := evs t). rewrite !app_eq_nil_iff. rewrite clause_nil, forallb_forall.
  split.
  - intros (H2 & H3 & H4 & H6). split; [|split; [|split]]; [| | |exact (proj1 (clause_nil 6 _) H6)].
    + intros c Hc. apply prefixb_spec, H2, nodup_In, Hc.
    + intros Hl Hs. rewrite Hl, Hs in H3. cbn in H3. apply clause_nil, andb_true_iff in H3 as [Ha Hb].
      split; auto. intros c Hc. rewrite forallb_forall in Ha. now apply same_bag_spec, Ha.
    + intros Hl k Hk. rewrite Hl in H4. apply clause_nil in H4. rewrite forallb_forall in H4.
      apply H4, in_seq. lia.
  - intros (H2 & H3 & H4 & H6). split; [|split; [|split]]; [| | |exact (proj2 (clause_nil 6 _) H6)].
    + intros c Hc. apply prefixb_spec, H2. eapply nodup_In, Hc.
    + destruct (negb (left_in e) && service_ended e) eqn:E; auto.
      apply andb_true_iff in E as [El Es]. apply negb_true_iff in El.
      destruct (H3 El Es) as [Ha Hb]. apply clause_nil, andb_true_iff. split; auto.
      apply forallb_forall. intros c Hc. now apply same_bag_spec, Ha.
    + destruct (client_left_first e) eqn:E; auto. apply clause_nil, forallb_forall.
      intros k Hk. apply in_seq in Hk. apply H4; auto. lia.
Qed.

(* the checker evaluated on the implementation's observations is exactly the property *)
Theorem check_spec c : check c = [] <-> spec c.
Proof.
  unfold check, spec. rewrite !app_eq_nil_iff, clause_nil, negb_true_iff, nodup_nil, flat_map_nil.
  split.
  - intros (H1 & H2 & H3). split; [exact H1|]. split.
    + intros t Ht. apply check_stream_spec. rewrite <- H1. now apply H2.
    + intros Ha. rewrite H1, Ha in H3. cbn in H3. now apply clause_nil, Nat.eqb_eq in H3.
  - intros (H1 & H2 & H3). split; [exact H1|]. split.
    + intros t Ht. rewrite H1. now apply check_stream_spec, H2.
    + rewrite H1. cbn. destruct (forallb all_over (streams c)) eqn:E; auto.
      apply clause_nil, Nat.eqb_eq. now apply H3.
Qed.
