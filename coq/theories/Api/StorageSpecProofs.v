(* C16: the model satisfies the executed refinement checker of
   Api/StorageSpec.v on every history (names satisfying the side condition,
   service numbers in range). *)
From Coq Require Import List Arith Bool ZArith NArith Lia.
Import ListNotations.
From Onet Require Import Base.Corr Api.Storage Api.StorageSpec Api.StorageProofs.

Lemma res_eqb_refl x : res_eqb x x = true.
Proof. destruct x; simpl; auto using bytes_eqb_refl, Z.eqb_refl. Qed.

Lemma demand_refl o x : x <> RCrash -> demand o x x = [].
Proof.
  intros N. unfold demand.
  assert (is_crash x = false) as -> by (destruct x; try reflexivity; contradiction).
  simpl. destruct x; try reflexivity; try contradiction;
    destruct o; simpl; rewrite ?bytes_eqb_refl, ?Z.eqb_refl; reflexivity.
Qed.

Lemma upd_nth_length {A} (l : list A) n x : length (upd_nth l n x) = length l.
Proof. revert n; induction l as [|y l IH]; intros [|n]; simpl; auto. Qed.

Lemma upd_nth_same {A} (l : list A) n x : n < length l -> nth_error (upd_nth l n x) n = Some x.
Proof.
  revert n; induction l as [|y l IH]; intros [|n] L; simpl in *; try lia; [reflexivity|].
  apply IH. lia.
Qed.

Lemma upd_nth_other {A} (l : list A) n x m : m <> n -> nth_error (upd_nth l n x) m = nth_error l m.
Proof.
  revert n m; induction l as [|y l IH]; intros [|n] [|m] N; simpl; auto; try contradiction.
Qed.

Section Sound.
  Variable dec : list bytes.
  Variable names : list bytes.
  Hypothesis OK : names_ok names = true.

  Definition views (d : db) (ps : list db) : Prop :=
    length ps = length names /\
    forall s n dp, nth_error names s = Some n -> nth_error ps s = Some dp -> same_view n d dp.

  Lemma exec_fixed_exist d n o : fixed_exist names d -> fixed_exist names (fst (exec_op dec n d o)).
  Proof. intros F n' Hn'. destruct (F n' Hn'). split; now apply exec_keeps. Qed.

  (* a restart is invisible: all fixed buckets exist already *)
  Lemma startup_same_view n s d : fixed_exist names d -> nth_error names s = Some n ->
    same_view n (startup names d) d.
  Proof.
    intros F Hs b Hb. rewrite startup_get. destruct (bget d b) as [m|] eqn:G; [reflexivity|].
    destruct (fixedb names b) eqn:X; [|reflexivity]. exfalso.
    apply existsb_exists in X as [m [Hm Q]]. destruct (F m Hm) as [FD FV].
    apply orb_true_iff in Q as [Q|Q]; apply bytes_eqb_spec in Q; subst b; congruence.
  Qed.

  Lemma sound_gen hs : forall d ps, views d ps -> fixed_exist names d ->
    Forall (in_range names) hs ->
    pwalk dec names ps (combine hs (snd (hexec dec names d hs))) = [].
  Proof.
    induction hs as [|h hs IH]; intros d ps [VL V] F R; [reflexivity|].
    inversion R as [|? ? Rh Rr]; subst.
    destruct h as [s o|]; cbn [Storage.hexec hstep].
    - simpl in Rh. destruct (nth_error names s) as [n|] eqn:Hs; [|apply nth_error_None in Hs; lia].
      destruct (nth_error ps s) as [dp|] eqn:Hp; [|apply nth_error_None in Hp; lia].
      pose proof (V s n dp Hs Hp) as Vs.
      destruct (exec_op_local dec n d dp o Vs) as [ER EV].
      pose proof (exec_no_crash dec names d n o F (nth_error_In _ _ Hs)) as NC.
      pose proof (exec_fixed_exist d n o F) as F1.
      assert (V1 : views (fst (exec_op dec n d o)) (upd_nth ps s (fst (exec_op dec n dp o)))).
      { split; [now rewrite upd_nth_length|]. intros s' n' dp' Hs' Hp'.
        destruct (Nat.eq_dec s' s) as [->|N].
        - rewrite Hs in Hs'. injection Hs' as <-. rewrite upd_nth_same in Hp' by lia.
          injection Hp' as <-. exact EV.
        - rewrite upd_nth_other in Hp' by assumption.
          intros b Hb. rewrite exec_op_other; [now apply (V s' n' dp' Hs' Hp')|].
          intros Hn. exact (buckets_disjoint n' n b b
                              (others_compatible names s' n' OK Hs' s n (not_eq_sym N) Hs) Hb Hn eq_refl). }
      destruct (exec_op dec n d o) as [d1 x] eqn:E1. destruct (exec_op dec n dp o) as [dp1 x'] eqn:E2.
      simpl in ER, NC, F1, V1. subst x'.
      specialize (IH d1 (upd_nth ps s dp1) V1 F1 Rr).
      destruct (hexec dec names d1 hs) as [d2 xs]. cbn [snd combine pwalk].
      rewrite Hs, Hp, E2, (demand_refl o x NC). exact IH.
    - assert (F1 : fixed_exist names (startup names d)).
      { intros n' Hn'. destruct (F n' Hn') as [A B]. rewrite !startup_get.
        split; [destruct (bget d (data_bucket n')); [discriminate|contradiction]
               |destruct (bget d (ver_bucket n')); [discriminate|contradiction]]. }
      assert (V1 : views (startup names d) ps).
      { split; [assumption|]. intros s n dp Hs Hp b Hb.
        rewrite (startup_same_view n s d F Hs b Hb). now apply (V s n dp Hs Hp). }
      specialize (IH (startup names d) ps V1 F1 Rr).
      destruct (hexec dec names (startup names d) hs) as [d2 xs]. cbn [snd combine pwalk]. exact IH.
  Qed.

  (* On every history, the answers of the model satisfy every clause of the
     property as judged by private per-service databases. *)
  Theorem model_satisfies_property hs : Forall (in_range names) hs ->
    pwalk dec names (pinit names) (combine hs (houts dec names hs)) = [].
  Proof.
    intros R. unfold Storage.houts. apply sound_gen; [| |assumption].
    - split; [unfold pinit; now rewrite map_length|].
      intros s n dp Hs Hp. unfold pinit in Hp. rewrite (map_nth_error _ _ _ Hs) in Hp.
      injection Hp as <-. apply (same_view_startup names s n OK Hs). intros b _. reflexivity.
    - intros n Hn. rewrite !startup_get. simpl.
      assert (X : fixedb names (data_bucket n) = true /\ fixedb names (ver_bucket n) = true).
      { unfold fixedb. split; apply existsb_exists; exists n; (split; [assumption|]);
          rewrite bytes_eqb_refl; [reflexivity|apply orb_true_r]. }
      destruct X as [-> ->]. split; discriminate.
  Qed.
End Sound.
