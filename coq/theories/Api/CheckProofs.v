(* C14 -- the boolean checker of Corr/C14.v decides the property on an observation:
   [check c = []] exactly when every observed reply satisfies what the property
   demands of its request ([Api.Spec.satisfies] against [Api.Spec.spec_of], the specification
   written from the property text; the model is not consulted for the verdict). *)
From Coq Require Import List String ZArith Bool Lia.
Import ListNotations.
From Onet Require Import Api.Rest Api.RestConc Api.Spec Api.SpecProofs Corr.C14.

Definition sat (clients : list ckind) (cr : creq) (o : reply) : Prop :=
  satisfies (req_is_ws cr) (spec_of c14_world clients cr) o = true.

Definition observation_ok (clients : list ckind) (rounds : list (list creq)) (obs : list (list reply)) : Prop :=
  Forall2 (Forall2 (sat clients)) rounds obs.

Lemma dedup_nil l : dedup l = [] <-> l = [].
Proof.
  split; [|intros ->; reflexivity].
  induction l as [|x r IH]; [reflexivity|]. simpl.
  destruct (existsb (Nat.eqb x) r) eqn:E; [|discriminate].
  intro H. rewrite (IH H) in E. discriminate.
Qed.

Lemma check_round_nil clients h rd : forall rest obs i,
  check_round c14_world clients h rd rest obs i = [] <-> Forall2 (sat clients) rest obs.
Proof.
  induction rest as [|cr r IH]; intros [|o os] i; simpl.
  - split; [constructor|reflexivity].
  - split; [discriminate|intro H; inversion H].
  - split; [discriminate|intro H; inversion H].
  - split.
    + intro H. apply app_eq_nil in H as [H1 H2].
      constructor; [|now apply (IH os (S i))].
      unfold sat. destruct (satisfies _ _ _); [reflexivity|discriminate].
    + intro H. inversion H as [|? ? ? ? H1 H2]; subst.
      unfold sat in H1. rewrite H1. simpl. now apply IH.
Qed.

Lemma check_rounds_nil clients : forall rounds obs h,
  check_rounds c14_world clients h rounds obs = [] <-> observation_ok clients rounds obs.
Proof.
  unfold observation_ok.
  induction rounds as [|rd r IH]; intros [|o os] h; simpl.
  - split; [constructor|reflexivity].
  - split; [discriminate|intro H; inversion H].
  - split; [discriminate|intro H; inversion H].
  - split.
    + intro H. apply app_eq_nil in H as [H1 H2]. constructor.
      * now apply (check_round_nil clients h rd rd o 0).
      * now apply (IH os (hist_after c14_world clients h rd)).
    + intro H. inversion H as [|? ? ? ? H1 H2]; subst.
      apply (check_round_nil clients h rd rd o 0) in H1. rewrite H1. simpl. now apply IH.
Qed.

(* the checker used on every observation is exactly the property on that observation *)
Theorem check_decides clients rounds obs :
  check (Case clients rounds obs) = [] <-> observation_ok clients rounds obs.
Proof. unfold check. rewrite dedup_nil. apply check_rounds_nil. Qed.

(* what [sat] means: Api/SpecProofs.v satisfies_ok (a request the handler answers: exactly
   that reply) and satisfies_error (any other request: an error reply, and if it names a
   handler failure, this request's). *)
Theorem sat_meaning clients cr o :
  sat clients cr o <->
  match spec_of c14_world clients cr with
  | SOk tag m => o = ROk tag m
  | SError own => reports_error (req_is_ws cr) o = true /\
                  (forall t, names_failure o = Some t -> own = Some t)
  end.
Proof.
  unfold sat. destruct (spec_of c14_world clients cr) as [tag m|own].
  - apply satisfies_ok.
  - apply satisfies_error.
Qed.
