(* C14 -- the boolean checker of Corr/C14.v decides the property on an observation:
   [check c = []] exactly when every observed reply satisfies what the property
   demands of its request ([sat_reply] against [fixed_reply]). *)
From Coq Require Import List String ZArith Bool Lia.
Import ListNotations.
From Onet Require Import Api.Rest Api.RestConc Corr.C14.

Definition sat (clients : list ckind) (cr : creq) (o : reply) : Prop :=
  sat_reply (is_ws cr) (fixed_reply c14_world clients cr) o = true.

Definition observation_ok (clients : list ckind) (rounds : list (list creq)) (obs : list (list reply)) : Prop :=
  Forall2 (Forall2 (sat clients)) rounds obs.

Lemma dedup_nil l : dedup l = [] <-> l = [].
Proof.
  split; [|intros ->; reflexivity].
  induction l as [|x r IH]; [reflexivity|]. simpl.
  destruct (existsb (Nat.eqb x) r) eqn:E; [|discriminate].
  intro H. rewrite (IH H) in E. discriminate.
Qed.

Lemma check_round_nil clients h rd : forall rest obs i,
  check_round c14_world clients h rd rest obs i = [] <-> Forall2 (sat clients) rest obs.
Proof.
  induction rest as [|cr r IH]; intros [|o os] i; simpl.
  - split; [constructor|reflexivity].
  - split; [discriminate|intro H; inversion H].
  - split; [discriminate|intro H; inversion H].
  - split.
    + intro H. apply app_eq_nil in H as [H1 H2].
      constructor; [|now apply (IH os (S i))].
      unfold sat. destruct (sat_reply _ _ _); [reflexivity|discriminate].
    + intro H. inversion H as [|? ? ? ? H1 H2]; subst.
      unfold sat in H1. rewrite H1. simpl. now apply IH.
Qed.

Lemma check_rounds_nil clients : forall rounds obs h,
  check_rounds c14_world clients h rounds obs = [] <-> observation_ok clients rounds obs.
Proof.
  unfold observation_ok.
  induction rounds as [|rd r IH]; intros [|o os] h; simpl.
  - split; [constructor|reflexivity].
  - split; [discriminate|intro H; inversion H].
  - split; [discriminate|intro H; inversion H].
  - split.
    + intro H. apply app_eq_nil in H as [H1 H2]. constructor.
      * now apply (check_round_nil clients h rd rd o 0).
      * now apply (IH os (hist_after c14_world clients h rd)).
    + intro H. inversion H as [|? ? ? ? H1 H2]; subst.
      apply (check_round_nil clients h rd rd o 0) in H1. rewrite H1. simpl. now apply IH.
Qed.

(* the checker used on every observation is exactly the property on that observation *)
Theorem check_decides clients rounds obs :
  check (Case clients rounds obs) = [] <-> observation_ok clients rounds obs.
Proof. unfold check. rewrite dedup_nil. apply check_rounds_nil. Qed.

(* what [sat] means: the reply computed from this request alone; on the websocket an
   error may also arrive as a close without reason (the reason text of a decode error
   is the library's, and a reason longer than a close frame is not sent at all) *)
Theorem sat_meaning clients cr o :
  sat clients cr o <->
  let s := fixed_reply c14_world clients cr in
  reply_eqb s o = true \/
  (is_ws cr = true /\ is_err s = true /\ exists t', o = RErr EAbnormal t').
Proof.
  unfold sat, sat_reply. cbv zeta.
  set (s := fixed_reply c14_world clients cr). split.
  - intro H. apply orb_true_iff in H as [H|H]; [now left|].
    right. apply andb_true_iff in H as [H1 H2]. apply andb_true_iff in H1 as [H0 H1].
    destruct o as [tg m|c' t']; [discriminate|]. destruct c'; try discriminate. eauto.
  - intros [H|[H1 [H2 [t' Ho]]]].
    + rewrite H. reflexivity.
    + rewrite H1, H2, Ho. simpl. apply orb_true_r.
Qed.
