(* C16 PROOFS about the storage model of Api/Storage.v.  All statements are for
   every history (list of operations), every set of service names satisfying
   the side condition, every key, value and bucket name. *)
From Coq Require Import List Arith Bool ZArith NArith Lia.
Import ListNotations.
From Onet Require Import Api.Storage.

(* ------------------------------------------------------------------------ *)
(* byte strings                                                              *)

Lemma bytes_eqb_spec a b : bytes_eqb a b = true <-> a = b.
Proof.
  revert b; induction a as [|x a IH]; intros [|y b]; simpl; split; intros H;
    try reflexivity; try discriminate.
  - apply andb_true_iff in H as [H1 H2]. apply N.eqb_eq in H1. apply IH in H2. congruence.
  - injection H as -> ->. rewrite N.eqb_refl. simpl. now apply IH.
Qed.

Lemma bytes_eqb_refl a : bytes_eqb a a = true.
Proof. now apply bytes_eqb_spec. Qed.

Lemma bytes_eqb_neq a b : bytes_eqb a b = false <-> a <> b.
Proof.
  split.
  - intros H E. apply bytes_eqb_spec in E. congruence.
  - intros H. destruct (bytes_eqb a b) eqn:E; [|reflexivity]. apply bytes_eqb_spec in E. contradiction.
Qed.

Lemma bytes_eqb_sym a b : bytes_eqb a b = bytes_eqb b a.
Proof.
  destruct (bytes_eqb a b) eqn:E.
  - apply bytes_eqb_spec in E. subst. now rewrite bytes_eqb_refl.
  - symmetry. apply bytes_eqb_neq. apply bytes_eqb_neq in E. congruence.
Qed.

Lemma is_prefix_spec p l : is_prefix p l = true <-> exists x, l = p ++ x.
Proof.
  revert l; induction p as [|a p IH]; intros l; simpl.
  - split; [intros _; now exists l|reflexivity].
  - destruct l as [|b l]; [split; [discriminate|intros [x H]; discriminate]|].
    rewrite andb_true_iff, N.eqb_eq, IH. split.
    + intros [-> [x ->]]. now exists x.
    + intros [x H]. injection H as -> ->. split; [reflexivity|now exists x].
Qed.

(* ------------------------------------------------------------------------ *)
(* T1: bucket names of compatible services never coincide                    *)

Definition is_bucket_of (n b : bytes) : Prop :=
  b = data_bucket n \/ b = ver_bucket n \/ exists x, b = add_bucket n x.

Lemma extends_spec a b :
  extends a b = true <-> b = a ++ sfx_version \/ exists x, b = a ++ sfx_us ++ x.
Proof.
  unfold extends. rewrite orb_true_iff, bytes_eqb_spec, is_prefix_spec. split.
  - intros [H|[x H]]; [now left|right; exists x; now rewrite H, app_assoc].
  - intros [H|[x H]]; [now left|right; exists x; now rewrite H, app_assoc].
Qed.

Lemma compatible_spec a b :
  compatible a b = true <-> a <> b /\ extends a b = false /\ extends b a = false.
Proof.
  unfold compatible. rewrite !andb_true_iff, !negb_true_iff, bytes_eqb_neq. tauto.
Qed.

Lemma compatible_sym a b : compatible a b = compatible b a.
Proof.
  unfold compatible. rewrite (bytes_eqb_sym a b).
  destruct (bytes_eqb b a), (extends a b), (extends b a); reflexivity.
Qed.

(* "_" does not occur in "version" *)
Lemma us_not_in_version l y : sfx_version = l ++ sfx_us ++ y -> False.
Proof.
  intros H. assert (In 95%N sfx_version) as HI.
  { rewrite H. apply in_or_app. right. now left. }
  unfold sfx_version in HI. simpl in HI.
  repeat (destruct HI as [HI|HI]; [discriminate|]). exact HI.
Qed.

(* l ++ t starts with "_" and l is not empty: l starts with "_" *)
Lemma starts_us l t y : sfx_us ++ y = l ++ t -> l <> [] -> exists l', l = sfx_us ++ l'.
Proof.
  intros H N. destruct l as [|c l']; [contradiction|]. simpl in H. injection H as <- _.
  now exists l'.
Qed.

Lemma version_vs_us a b y : a ++ sfx_version = b ++ sfx_us ++ y ->
  extends b a = true.
Proof.
  intros H. apply app_eq_app in H as [l [[Ha Ht]|[Hb Hs]]].
  - (* a = b ++ l, "_" ++ y = l ++ "version" *)
    destruct l as [|c l'].
    + simpl in Ht. discriminate.
    + destruct (starts_us (c :: l') sfx_version y Ht) as [l'' E]; [discriminate|].
      apply extends_spec. right. exists l''. now rewrite Ha, E.
  - (* b = a ++ l, "version" = l ++ "_" ++ y *)
    exfalso. exact (us_not_in_version l y Hs).
Qed.

Lemma us_vs_us a b x y : a ++ sfx_us ++ x = b ++ sfx_us ++ y ->
  a = b \/ extends b a = true \/ extends a b = true.
Proof.
  intros H. apply app_eq_app in H as [l [[Ha Ht]|[Hb Hs]]].
  - destruct l as [|c l']; [left; now rewrite Ha, app_nil_r|].
    destruct (starts_us (c :: l') (sfx_us ++ x) y Ht) as [l'' E]; [discriminate|].
    right; left. apply extends_spec. right. exists l''. now rewrite Ha, E.
  - destruct l as [|c l']; [left; now rewrite Hb, app_nil_r|].
    destruct (starts_us (c :: l') (sfx_us ++ y) x Hs) as [l'' E]; [discriminate|].
    right; right. apply extends_spec. right. exists l''. now rewrite Hb, E.
Qed.

Theorem buckets_disjoint a b ba bb :
  compatible a b = true -> is_bucket_of a ba -> is_bucket_of b bb -> ba <> bb.
Proof.
  intros C Ha Hb E. apply compatible_spec in C as [N [Eab Eba]].
  assert (XA : forall P, extends a b = true -> P) by (intros P H; congruence).
  assert (XB : forall P, extends b a = true -> P) by (intros P H; congruence).
  unfold is_bucket_of, data_bucket, ver_bucket, add_bucket in *.
  destruct Ha as [-> |[-> |[x ->]]], Hb as [-> |[-> |[y ->]]].
  - contradiction.
  - apply XB, extends_spec. now left.
  - apply XB, extends_spec. right. now exists y.
  - apply XA, extends_spec. left. now symmetry.
  - apply app_inv_tail in E. contradiction.
  - apply XB. exact (version_vs_us a b y E).
  - apply XA, extends_spec. right. exists x. now symmetry.
  - apply XA. symmetry in E. exact (version_vs_us b a x E).
  - destruct (us_vs_us a b x y E) as [H|[H|H]]; [contradiction|now apply XB|now apply XA].
Qed.

(* the three kinds of buckets of ONE service are distinct from each other *)
Lemma own_buckets_distinct n x y :
  data_bucket n <> ver_bucket n /\ data_bucket n <> add_bucket n x /\
  ver_bucket n <> add_bucket n x /\ (add_bucket n x = add_bucket n y -> x = y).
Proof.
  unfold data_bucket, ver_bucket, add_bucket. repeat split.
  - intros H. apply (f_equal (@length N)) in H. rewrite app_length in H. simpl in H. lia.
  - intros H. apply (f_equal (@length N)) in H. rewrite !app_length in H. simpl in H. lia.
  - intros H. apply app_inv_head in H. discriminate.
  - intros H. apply app_inv_head in H. now injection H.
Qed.

(* the side condition is needed: "foo" / "fooversion" (and "foo" / "foo_x") *)
Definition foo : bytes := [102; 111; 111]%N.

Lemma clash_bucket_names :
  ver_bucket foo = data_bucket (foo ++ sfx_version) /\
  add_bucket foo [120]%N = data_bucket (foo ++ sfx_us ++ [120]%N) /\
  compatible foo (foo ++ sfx_version) = false /\
  compatible foo (foo ++ sfx_us ++ [120]%N) = false.
Proof. repeat split; vm_compute; reflexivity. Qed.

(* service 0 = "foo" saves version 7; service 1 = "fooversion" then finds four
   bytes under a key it never saved, and cannot decode them; and a value that
   "fooversion" saves under "dbVersion" changes the version "foo" reads *)
Lemma name_clash_example :
  let names := [foo; foo ++ sfx_version] in
  let v := [9; 9; 9; 9; 9; 9; 9; 9; 9; 9; 9; 9; 9; 9; 9; 9; 10; 1; 1]%N in
  houts [v] names
    [ HOp 1 (OLoadRaw key_dbversion); HOp 0 (OSaveVer 7);
      HOp 1 (OLoadRaw key_dbversion); HOp 1 (OLoad key_dbversion);
      HOp 1 (OSave key_dbversion v); HOp 0 OLoadVer ]
  = [ RNone; ROk; RBytes [7; 0; 0; 0]%N; RErr; ROk; RVer 151587081 ] /\
  names_ok names = false.
Proof. split; vm_compute; reflexivity. Qed.

(* ------------------------------------------------------------------------ *)
(* databases                                                                  *)

Lemma bget_bset_same d b m : bget (bset d b m) b = Some m.
Proof.
  induction d as [|[b' m'] r IH]; simpl.
  - now rewrite bytes_eqb_refl.
  - destruct (bytes_eqb b b') eqn:E; simpl; [now rewrite bytes_eqb_refl|now rewrite E].
Qed.

Lemma bget_bset_other d b m b' : b' <> b -> bget (bset d b m) b' = bget d b'.
Proof.
  intros N. induction d as [|[b0 m0] r IH]; simpl.
  - apply bytes_eqb_neq in N. now rewrite N.
  - destruct (bytes_eqb b b0) eqn:E; simpl.
    + apply bytes_eqb_spec in E. subst b0. apply bytes_eqb_neq in N. now rewrite N.
    + destruct (bytes_eqb b' b0); [reflexivity|assumption].
Qed.

Lemma bget_bcreate d b b' :
  bget (bcreate d b) b' =
  match bget d b' with
  | Some m => Some m
  | None => if bytes_eqb b' b then Some [] else None
  end.
Proof.
  unfold bcreate. destruct (bget d b) as [m|] eqn:E.
  - destruct (bget d b') as [m'|] eqn:E'; [reflexivity|].
    destruct (bytes_eqb b' b) eqn:Q; [|reflexivity].
    apply bytes_eqb_spec in Q. subst. congruence.
  - destruct (bytes_eqb b' b) eqn:Q.
    + apply bytes_eqb_spec in Q. subst b'. now rewrite bget_bset_same, E.
    + apply bytes_eqb_neq in Q. rewrite bget_bset_other by assumption. now destruct (bget d b').
Qed.

Lemma aget_aput_same m k v : aget (aput m k v) k = Some v.
Proof.
  induction m as [|[k' v'] r IH]; simpl.
  - now rewrite bytes_eqb_refl.
  - destruct (bytes_eqb k k') eqn:E; simpl; [now rewrite bytes_eqb_refl|now rewrite E].
Qed.

Lemma aget_aput_other m k v k' : k' <> k -> aget (aput m k v) k' = aget m k'.
Proof.
  intros N. induction m as [|[k0 v0] r IH]; simpl.
  - apply bytes_eqb_neq in N. now rewrite N.
  - destruct (bytes_eqb k k0) eqn:E; simpl.
    + apply bytes_eqb_spec in E. subst k0. apply bytes_eqb_neq in N. now rewrite N.
    + destruct (bytes_eqb k' k0); [reflexivity|assumption].
Qed.

(* start-up creates exactly the missing fixed buckets *)
Definition fixedb (l : list bytes) (b : bytes) : bool :=
  existsb (fun m => bytes_eqb b (data_bucket m) || bytes_eqb b (ver_bucket m)) l.

Lemma startup_get l : forall d b,
  bget (startup l d) b =
  match bget d b with
  | Some m => Some m
  | None => if fixedb l b then Some [] else None
  end.
Proof.
  unfold startup. induction l as [|n l IH]; intros d b; simpl.
  - now destruct (bget d b).
  - rewrite IH, !bget_bcreate. destruct (bget d b) as [m|]; [reflexivity|].
    destruct (bytes_eqb b (data_bucket n)); simpl; [reflexivity|].
    destruct (bytes_eqb b (ver_bucket n)); simpl; reflexivity.
Qed.

(* ------------------------------------------------------------------------ *)
(* locality of the operations                                                 *)

Section Local.
  Variable dec : list bytes.
  Notation exec_op := (exec_op dec).
  Notation hexec := (hexec dec).
  Notation houts := (houts dec).

  Lemma bkt_data n : is_bucket_of n (data_bucket n).
  Proof. now left. Qed.
  Lemma bkt_ver n : is_bucket_of n (ver_bucket n).
  Proof. right; now left. Qed.
  Lemma bkt_add n x : is_bucket_of n (add_bucket n x).
  Proof. right; right; now exists x. Qed.
  Hint Resolve bkt_data bkt_ver bkt_add : core.

  (* the view relation: two databases agree on every bucket of service n *)
  Definition same_view (n : bytes) (d d' : db) : Prop :=
    forall b, is_bucket_of n b -> bget d b = bget d' b.

  Lemma same_view_bset n d d' b m : same_view n d d' -> same_view n (bset d b m) (bset d' b m).
  Proof.
    intros V b' Hb'. destruct (bytes_eqb b' b) eqn:E.
    - apply bytes_eqb_spec in E. subst. now rewrite !bget_bset_same.
    - apply bytes_eqb_neq in E. rewrite !bget_bset_other by assumption. now apply V.
  Qed.

  Lemma same_view_bcreate n d d' b : is_bucket_of n b -> same_view n d d' ->
    same_view n (bcreate d b) (bcreate d' b).
  Proof.
    intros Hb V b' Hb'. rewrite !bget_bcreate. now rewrite (V b' Hb').
  Qed.

  (* an operation of service n reads and writes only buckets of n *)
  Lemma exec_op_local n d d' o : same_view n d d' ->
    snd (exec_op n d o) = snd (exec_op n d' o) /\
    same_view n (fst (exec_op n d o)) (fst (exec_op n d' o)).
  Proof.
    intros V. destruct o as [k v|k|k|z| |x k v|x k]; simpl.
    - destruct (key_ok k); [|split; [reflexivity|exact V]].
      rewrite <- (V (data_bucket n)) by auto.
      destruct (bget d (data_bucket n)) as [m|]; simpl; [|split; [reflexivity|exact V]].
      split; [reflexivity|now apply same_view_bset].
    - rewrite <- (V (data_bucket n)) by auto.
      destruct (bget d (data_bucket n)) as [m|]; simpl; split; auto.
    - rewrite <- (V (data_bucket n)) by auto.
      destruct (bget d (data_bucket n)) as [m|]; simpl; split; auto.
    - rewrite <- (V (ver_bucket n)) by auto.
      destruct (bget d (ver_bucket n)) as [m|]; simpl; [|split; [reflexivity|exact V]].
      split; [reflexivity|now apply same_view_bset].
    - rewrite <- (V (ver_bucket n)) by auto.
      destruct (bget d (ver_bucket n)) as [m|]; simpl; split; auto.
    - assert (V1 : same_view n (bcreate d (add_bucket n x)) (bcreate d' (add_bucket n x)))
        by (apply same_view_bcreate; auto).
      destruct (key_ok k); [|split; [reflexivity|exact V1]].
      rewrite <- (V1 (add_bucket n x)) by auto.
      destruct (bget (bcreate d (add_bucket n x)) (add_bucket n x)) as [m|]; simpl;
        [|split; [reflexivity|exact V1]].
      split; [reflexivity|now apply same_view_bset].
    - assert (V1 : same_view n (bcreate d (add_bucket n x)) (bcreate d' (add_bucket n x)))
        by (apply same_view_bcreate; auto).
      rewrite <- (V1 (add_bucket n x)) by auto.
      destruct (bget (bcreate d (add_bucket n x)) (add_bucket n x)) as [m|]; simpl; split; auto.
  Qed.

  (* ... and leaves every bucket that is not its own untouched *)
  Lemma exec_op_other m d o b : ~ is_bucket_of m b -> bget (fst (exec_op m d o)) b = bget d b.
  Proof.
    intros NB.
    assert (ND : b <> data_bucket m) by (intros ->; apply NB; auto).
    assert (NV : b <> ver_bucket m) by (intros ->; apply NB; auto).
    assert (NA : forall x, b <> add_bucket m x) by (intros x ->; apply NB; auto).
    assert (CR : forall x, bget (bcreate d (add_bucket m x)) b = bget d b).
    { intros x. rewrite bget_bcreate. destruct (bget d b); [reflexivity|].
      specialize (NA x). apply bytes_eqb_neq in NA. now rewrite NA. }
    destruct o as [k v|k|k|z| |x k v|x k]; simpl.
    - destruct (key_ok k); [|reflexivity]. destruct (bget d (data_bucket m)); simpl; [|reflexivity].
      now apply bget_bset_other.
    - now destruct (bget d (data_bucket m)).
    - now destruct (bget d (data_bucket m)).
    - destruct (bget d (ver_bucket m)); simpl; [|reflexivity]. now apply bget_bset_other.
    - now destruct (bget d (ver_bucket m)).
    - destruct (key_ok k); [|apply CR].
      destruct (bget (bcreate d (add_bucket m x)) (add_bucket m x)); simpl; [|apply CR].
      rewrite bget_bset_other by apply NA. apply CR.
    - destruct (bget (bcreate d (add_bucket m x)) (add_bucket m x)); simpl; apply CR.
  Qed.

  (* ---------------------------------------------------------------------- *)
  (* T2: refinement to a private database per service                          *)

  (* the sub-history of service number a, renumbered to 0; restarts are kept *)
  Fixpoint proj (a : nat) (hs : list hop) : list hop :=
    match hs with
    | [] => []
    | HOp s o :: r => if s =? a then HOp 0 o :: proj a r else proj a r
    | HRestart :: r => HRestart :: proj a r
    end.

  (* the answers given to service a (and to the restarts) *)
  Fixpoint sel (a : nat) (hs : list hop) (xs : list res) : list res :=
    match hs, xs with
    | HOp s o :: r, x :: xr => if s =? a then x :: sel a r xr else sel a r xr
    | HRestart :: r, x :: xr => x :: sel a r xr
    | _, _ => []
    end.

  Lemma pairwise_nth {A} (f : A -> A -> bool) (fsym : forall x y, f x y = f y x) l :
    pairwise f l = true -> forall i j x y, i <> j ->
    nth_error l i = Some x -> nth_error l j = Some y -> f x y = true.
  Proof.
    induction l as [|z l IH]; intros P i j x y N Hi Hj; [now destruct i|].
    simpl in P. apply andb_true_iff in P as [P1 P2]. rewrite forallb_forall in P1.
    destruct i as [|i], j as [|j]; simpl in *.
    - contradiction.
    - injection Hi as <-. apply P1. eapply nth_error_In; eassumption.
    - injection Hj as <-. rewrite fsym. apply P1. eapply nth_error_In; eassumption.
    - apply (IH P2 i j); auto.
  Qed.

  Section OneService.
    Variable names : list bytes.
    Variable a : nat.
    Variable n : bytes.
    Hypothesis OK : names_ok names = true.
    Hypothesis NA : nth_error names a = Some n.

    Lemma others_compatible s m : s <> a -> nth_error names s = Some m -> compatible n m = true.
    Proof.
      intros N Hs. apply (pairwise_nth compatible compatible_sym names OK a s); auto.
    Qed.

    Lemma fixedb_names b : is_bucket_of n b -> fixedb names b = fixedb [n] b.
    Proof.
      intros Hb. unfold fixedb. simpl. rewrite orb_false_r.
      destruct (bytes_eqb b (data_bucket n) || bytes_eqb b (ver_bucket n)) eqn:E.
      - apply existsb_exists. exists n. split; [eapply nth_error_In; eassumption|assumption].
      - destruct (existsb _ names) eqn:X; [|reflexivity]. exfalso.
        apply existsb_exists in X as [m [Hm Q]]. apply In_nth_error in Hm as [s Hs].
        destruct (Nat.eq_dec s a) as [->|N].
        + rewrite NA in Hs. injection Hs as <-. congruence.
        + pose proof (others_compatible s m N Hs) as C.
          apply orb_true_iff in Q as [Q|Q]; apply bytes_eqb_spec in Q;
            apply (buckets_disjoint n m b b C Hb); subst; auto.
    Qed.

    Lemma same_view_startup d d' : same_view n d d' ->
      same_view n (startup names d) (startup [n] d').
    Proof.
      intros V b Hb. rewrite !startup_get, (V b Hb), (fixedb_names b Hb). reflexivity.
    Qed.

    Lemma refine_gen hs : forall d d', same_view n d d' ->
      sel a hs (snd (hexec names d hs)) = snd (hexec [n] d' (proj a hs)).
    Proof.
      induction hs as [|h hs IH]; intros d d' V; [reflexivity|].
      destruct h as [s o|].
      - cbn [Storage.hexec hstep proj].
        destruct (Nat.eqb_spec s a) as [->|N].
        + rewrite NA. cbn [Storage.hexec hstep nth_error].
          destruct (exec_op_local n d d' o V) as [ER EV].
          destruct (exec_op n d o) as [d1 x] eqn:E1. destruct (exec_op n d' o) as [d1' x'] eqn:E2.
          simpl in ER, EV. subst x'. specialize (IH d1 d1' EV).
          destruct (hexec names d1 hs) as [d2 xs]. destruct (hexec [n] d1' (proj a hs)) as [d2' xs'].
          cbn [snd sel]. rewrite Nat.eqb_refl. simpl in IH. now rewrite IH.
        + assert (V1 : same_view n (fst (match nth_error names s with
                                         | Some m => exec_op m d o | None => (d, RCrash) end)) d').
          { destruct (nth_error names s) as [m|] eqn:Hs; [|exact V].
            intros b Hb. rewrite exec_op_other; [now apply V|].
            intros Hm. exact (buckets_disjoint n m b b (others_compatible s m N Hs) Hb Hm eq_refl). }
          destruct (match nth_error names s with Some m => exec_op m d o | None => (d, RCrash) end)
            as [d1 x]. simpl in V1. specialize (IH d1 d' V1).
          destruct (hexec names d1 hs) as [d2 xs]. cbn [snd sel].
          apply Nat.eqb_neq in N. rewrite N. exact IH.
      - cbn [Storage.hexec hstep proj].
        specialize (IH (startup names d) (startup [n] d') (same_view_startup d d' V)).
        destruct (hexec names (startup names d) hs) as [d2 xs].
        destruct (hexec [n] (startup [n] d') (proj a hs)) as [d2' xs'].
        cbn [snd sel]. simpl in IH. now rewrite IH.
    Qed.

    (* Every service sees the shared database exactly as a database of its own:
       the answers it gets in ANY history with any other (compatible) services
       are the answers a private database gives to its own operations alone. *)
    Theorem refines_private hs :
      sel a hs (houts names hs) = houts [n] (proj a hs).
    Proof.
      unfold Storage.houts. apply refine_gen.
      apply same_view_startup. intros b _. reflexivity.
    Qed.
  End OneService.

  (* ---------------------------------------------------------------------- *)
  (* T3: the private database is a map (read-your-writes, nothing if never saved,
         overwrite, persistence across restarts)                               *)

  (* last value saved under k in a private history *)
  Fixpoint last_saved (k : bytes) (hs : list hop) (acc : option bytes) : option bytes :=
    match hs with
    | [] => acc
    | HOp 0 (OSave k' v) :: r =>
        last_saved k r (if key_ok k' then (if bytes_eqb k k' then Some v else acc) else acc)
    | _ :: r => last_saved k r acc
    end.

  Definition kv_is (n : bytes) (d : db) (k : bytes) (v : option bytes) : Prop :=
    exists m, bget d (data_bucket n) = Some m /\ aget m k = v.

  Lemma kv_startup n d k v : kv_is n d k v -> kv_is n (startup [n] d) k v.
  Proof.
    intros [m [G A]]. exists m. split; [|assumption]. now rewrite startup_get, G.
  Qed.

  Lemma kv_step n d k v o : kv_is n d k v ->
    kv_is n (fst (exec_op n d o)) k
      (match o with
       | OSave k' v' => if key_ok k' then (if bytes_eqb k k' then Some v' else v) else v
       | _ => v
       end).
  Proof.
    intros [m [G A]].
    destruct (own_buckets_distinct n [] []) as [DV [_ _]].
    destruct o as [k' v'|k'|k'|z| |x k' v'|x k']; simpl.
    - destruct (key_ok k'); [|exists m; auto]. rewrite G. simpl.
      exists (aput m k' v'). rewrite bget_bset_same. split; [reflexivity|].
      destruct (bytes_eqb k k') eqn:E.
      + apply bytes_eqb_spec in E. subst k. apply aget_aput_same.
      + apply bytes_eqb_neq in E. now rewrite aget_aput_other.
    - rewrite G. exists m; auto.
    - rewrite G. exists m; auto.
    - destruct (bget d (ver_bucket n)); simpl; [|exists m; auto].
      exists m. split; [|assumption]. now rewrite bget_bset_other.
    - destruct (bget d (ver_bucket n)); simpl; exists m; auto.
    - destruct (own_buckets_distinct n x x) as [_ [DA _]].
      assert (G1 : bget (bcreate d (add_bucket n x)) (data_bucket n) = Some m)
        by (now rewrite bget_bcreate, G).
      destruct (key_ok k'); [|exists m; auto].
      destruct (bget (bcreate d (add_bucket n x)) (add_bucket n x)); simpl; [|exists m; auto].
      exists m. split; [|assumption]. now rewrite bget_bset_other.
    - assert (G1 : bget (bcreate d (add_bucket n x)) (data_bucket n) = Some m)
        by (now rewrite bget_bcreate, G).
      destruct (bget (bcreate d (add_bucket n x)) (add_bucket n x)); simpl; exists m; auto.
  Qed.

  Lemma kv_run n k hs : forall d acc, kv_is n d k acc ->
    kv_is n (fst (hexec [n] d hs)) k (last_saved k hs acc).
  Proof.
    induction hs as [|h hs IH]; intros d acc K; [exact K|].
    cbn [Storage.hexec]. destruct h as [s o|].
    - cbn [hstep]. destruct s as [|s]; cbn [nth_error].
      + pose proof (kv_step n d k acc o K) as K1.
        destruct (exec_op n d o) as [d1 x]. simpl in K1.
        specialize (IH d1 _ K1). destruct (hexec [n] d1 hs) as [d2 xs]. simpl in *.
        destruct o as [k' v'|k'|k'|z| |x' k' v'|x' k']; exact IH.
      + replace (nth_error (@nil bytes) s) with (@None bytes) by now destruct s.
        specialize (IH d acc K). destruct (hexec [n] d hs) as [d2 xs]. simpl in *.
        destruct s; exact IH.
    - cbn [hstep]. specialize (IH (startup [n] d) acc (kv_startup n d k acc K)).
      destruct (hexec [n] (startup [n] d) hs) as [d2 xs]. exact IH.
  Qed.

  Lemma hexec_app names d h1 h2 :
    hexec names d (h1 ++ h2) =
    (fst (hexec names (fst (hexec names d h1)) h2),
     snd (hexec names d h1) ++ snd (hexec names (fst (hexec names d h1)) h2)).
  Proof.
    revert d; induction h1 as [|h h1 IH]; intros d; simpl.
    - now destruct (hexec names d h2).
    - destruct (hstep dec names d h) as [d1 x]. rewrite IH.
      destruct (hexec names d1 h1) as [d2 xs]. simpl. now destruct (hexec names d2 h2).
  Qed.

  Lemma kv_init n k : kv_is n (startup [n] []) k None.
  Proof. exists []. split; [|reflexivity]. rewrite startup_get. simpl. now rewrite bytes_eqb_refl. Qed.

  (* In a private history, a raw load of k answers with the value of the latest
     successful save of k -- whatever else (other keys, versions, additional
     buckets, restarts) happened in between -- and with "nothing" if there was none;
     Load answers the same whenever those bytes are decodable. *)
  Theorem private_load_is_last_save n k hs :
    last (houts [n] (hs ++ [HOp 0 (OLoadRaw k)])) RCrash =
      match last_saved k hs None with Some v => RBytes v | None => RNone end /\
    last (houts [n] (hs ++ [HOp 0 (OLoad k)])) RCrash =
      match last_saved k hs None with
      | Some v => if memb v dec then RBytes v else RErr
      | None => RNone
      end.
  Proof.
    unfold Storage.houts. rewrite !hexec_app. cbn [snd].
    destruct (kv_run n k hs (startup [n] []) None (kv_init n k)) as [m [G A]].
    set (d := fst (hexec [n] (startup [n] []) hs)) in *.
    split.
    - replace (snd (hexec [n] d [HOp 0 (OLoadRaw k)]))
        with [match last_saved k hs None with Some v => RBytes v | None => RNone end].
      + apply last_last.
      + cbn [Storage.hexec hstep nth_error Storage.exec_op]. rewrite G. cbn [snd]. now rewrite A.
    - replace (snd (hexec [n] d [HOp 0 (OLoad k)]))
        with [match last_saved k hs None with
              | Some v => if memb v dec then RBytes v else RErr | None => RNone end].
      + apply last_last.
      + cbn [Storage.hexec hstep nth_error Storage.exec_op]. rewrite G. cbn [snd]. now rewrite A.
  Qed.
End Local.

(* ------------------------------------------------------------------------ *)
(* int32 round trip of the database version                                   *)

Lemma le32_sle32 z :
  match le32 z with
  | [b0; b1; b2; b3] => sle32 b0 b1 b2 b3 = wrap32 z
  | _ => False
  end.
Proof.
  unfold le32, sle32. cbv zeta.
  set (u := (z mod 4294967296)%Z).
  assert (U : (0 <= u < 4294967296)%Z) by (apply Z.mod_pos_bound; lia).
  rewrite !Z2N.id by (try apply Z.mod_pos_bound; lia).
  replace (u mod 256 + 256 * ((u / 256) mod 256) + 65536 * ((u / 65536) mod 256) +
           16777216 * ((u / 16777216) mod 256))%Z with u.
  - unfold wrap32, u. rewrite Zplus_mod_idemp_l. reflexivity.
  - assert (E3 : ((u / 16777216) mod 256 = u / 16777216)%Z).
    { apply Z.mod_small. split; [apply Z.div_pos; lia|apply Z.div_lt_upper_bound; lia]. }
    rewrite E3.
    pose proof (Z.div_mod u 256 ltac:(lia)) as D0.
    pose proof (Z.div_mod (u / 256) 256 ltac:(lia)) as D1.
    pose proof (Z.div_mod (u / 65536) 256 ltac:(lia)) as D2.
    assert (Q1 : (u / 256 / 256 = u / 65536)%Z) by (rewrite Z.div_div by lia; reflexivity).
    assert (Q2 : (u / 65536 / 256 = u / 16777216)%Z) by (rewrite Z.div_div by lia; reflexivity).
    rewrite Q1 in D1. rewrite Q2 in D2. lia.
Qed.

Lemma wrap32_id z : (-2147483648 <= z < 2147483648)%Z -> wrap32 z = z.
Proof. intros H. unfold wrap32. rewrite Z.mod_small by lia. lia. Qed.

Section Version.
  Variable dec : list bytes.

  (* last version saved in a private history *)
  Fixpoint last_ver (hs : list hop) (acc : option Z) : option Z :=
    match hs with
    | [] => acc
    | HOp 0 (OSaveVer z) :: r => last_ver r (Some z)
    | _ :: r => last_ver r acc
    end.

  Definition ver_is (n : bytes) (d : db) (v : option Z) : Prop :=
    exists m, bget d (ver_bucket n) = Some m /\
              aget m key_dbversion = match v with Some z => Some (le32 z) | None => None end.

  Lemma ver_step n d v o : ver_is n d v ->
    ver_is n (fst (exec_op dec n d o)) (match o with OSaveVer z => Some z | _ => v end).
  Proof.
    intros [m [G A]].
    destruct (own_buckets_distinct n [] []) as [DV _].
    assert (DV' : ver_bucket n <> data_bucket n) by congruence.
    destruct o as [k' v'|k'|k'|z| |x k' v'|x k']; simpl.
    - destruct (key_ok k'); [|exists m; auto].
      destruct (bget d (data_bucket n)); simpl; [|exists m; auto].
      exists m. split; [|assumption]. now rewrite bget_bset_other.
    - destruct (bget d (data_bucket n)); exists m; auto.
    - destruct (bget d (data_bucket n)); exists m; auto.
    - rewrite G. simpl. exists (aput m key_dbversion (le32 z)).
      rewrite bget_bset_same. split; [reflexivity|apply aget_aput_same].
    - rewrite G. exists m; auto.
    - destruct (own_buckets_distinct n x x) as [_ [_ [DA _]]].
      assert (G1 : bget (bcreate d (add_bucket n x)) (ver_bucket n) = Some m)
        by (now rewrite bget_bcreate, G).
      destruct (key_ok k'); [|exists m; auto].
      destruct (bget (bcreate d (add_bucket n x)) (add_bucket n x)); simpl; [|exists m; auto].
      exists m. split; [|assumption]. now rewrite bget_bset_other.
    - assert (G1 : bget (bcreate d (add_bucket n x)) (ver_bucket n) = Some m)
        by (now rewrite bget_bcreate, G).
      destruct (bget (bcreate d (add_bucket n x)) (add_bucket n x)); simpl; exists m; auto.
  Qed.

  Lemma ver_run n hs : forall d acc, ver_is n d acc ->
    ver_is n (fst (hexec dec [n] d hs)) (last_ver hs acc).
  Proof.
    induction hs as [|h hs IH]; intros d acc K; [exact K|].
    cbn [Storage.hexec]. destruct h as [s o|].
    - cbn [hstep]. destruct s as [|s]; cbn [nth_error].
      + pose proof (ver_step n d acc o K) as K1.
        destruct (exec_op dec n d o) as [d1 x]. simpl in K1.
        specialize (IH d1 _ K1). destruct (hexec dec [n] d1 hs) as [d2 xs]. simpl in *.
        destruct o; exact IH.
      + replace (nth_error (@nil bytes) s) with (@None bytes) by now destruct s.
        specialize (IH d acc K). destruct (hexec dec [n] d hs) as [d2 xs]. simpl in *.
        destruct s; exact IH.
    - cbn [hstep].
      assert (K1 : ver_is n (startup [n] d) acc).
      { destruct K as [m [G A]]. exists m. split; [|assumption]. now rewrite startup_get, G. }
      specialize (IH (startup [n] d) acc K1).
      destruct (hexec dec [n] (startup [n] d) hs) as [d2 xs]. exact IH.
  Qed.

  (* LoadVersion answers with the version saved last by this service, reduced to
     int32 (i.e. exactly that version whenever it is an int32), and 0 if none. *)
  Theorem private_version_is_last_saved n hs :
    last (houts dec [n] (hs ++ [HOp 0 OLoadVer])) RCrash =
      RVer (match last_ver hs None with Some z => wrap32 z | None => 0%Z end).
  Proof.
    unfold Storage.houts. rewrite hexec_app. cbn [snd].
    assert (I : ver_is n (startup [n] []) None).
    { exists []. split; [|reflexivity]. rewrite startup_get. simpl.
      destruct (bytes_eqb (ver_bucket n) (data_bucket n)); simpl; [reflexivity|].
      now rewrite bytes_eqb_refl. }
    destruct (ver_run n hs (startup [n] []) None I) as [m [G A]].
    set (d := fst (hexec dec [n] (startup [n] []) hs)) in *.
    replace (snd (hexec dec [n] d [HOp 0 OLoadVer]))
      with [RVer (match last_ver hs None with Some z => wrap32 z | None => 0%Z end)].
    - apply last_last.
    - cbn [Storage.hexec hstep nth_error Storage.exec_op]. rewrite G. cbn [snd]. rewrite A.
      destruct (last_ver hs None) as [z|]; [|reflexivity].
      pose proof (le32_sle32 z) as L. destruct (le32 z) as [|b0 [|b1 [|b2 [|b3 [|? ?]]]]]; try contradiction.
      now rewrite L.
  Qed.
End Version.

(* ------------------------------------------------------------------------ *)
(* no nil-bucket crash after start-up                                         *)

Section NoCrash.
  Variable dec : list bytes.

  Definition fixed_exist (names : list bytes) (d : db) : Prop :=
    forall n, In n names -> bget d (data_bucket n) <> None /\ bget d (ver_bucket n) <> None.

  Lemma exec_keeps d n o b : bget d b <> None -> bget (fst (exec_op dec n d o)) b <> None.
  Proof.
    intros H.
    assert (S : forall d' b' m, bget d' b <> None -> bget (bset d' b' m) b <> None).
    { intros d' b' m H'. destruct (bytes_eqb b b') eqn:E.
      - apply bytes_eqb_spec in E. subst. rewrite bget_bset_same. discriminate.
      - apply bytes_eqb_neq in E. now rewrite bget_bset_other. }
    assert (C : forall b', bget (bcreate d b') b <> None).
    { intros b'. rewrite bget_bcreate. destruct (bget d b); [discriminate|contradiction]. }
    destruct o as [k v|k|k|z| |x k v|x k]; simpl.
    - destruct (key_ok k); [|assumption]. destruct (bget d (data_bucket n)); simpl; auto.
    - now destruct (bget d (data_bucket n)).
    - now destruct (bget d (data_bucket n)).
    - destruct (bget d (ver_bucket n)); simpl; auto.
    - now destruct (bget d (ver_bucket n)).
    - destruct (key_ok k); [|apply C].
      destruct (bget (bcreate d (add_bucket n x)) (add_bucket n x)); simpl; auto.
    - destruct (bget (bcreate d (add_bucket n x)) (add_bucket n x)); simpl; auto.
  Qed.

  Lemma exec_no_crash names d n o : fixed_exist names d -> In n names ->
    snd (exec_op dec n d o) <> RCrash.
  Proof.
    intros F Hn. destruct (F n Hn) as [FD FV].
    assert (A : forall x, bget (bcreate d (add_bucket n x)) (add_bucket n x) <> None).
    { intros x. rewrite bget_bcreate, bytes_eqb_refl. now destruct (bget d (add_bucket n x)). }
    destruct o as [k v|k|k|z| |x k v|x k]; simpl.
    - destruct (key_ok k); [|discriminate]. destruct (bget d (data_bucket n)); [discriminate|contradiction].
    - destruct (bget d (data_bucket n)) as [m|]; [|contradiction]. simpl.
      destruct (aget m k); [destruct (memb b dec)|]; discriminate.
    - destruct (bget d (data_bucket n)) as [m|]; [|contradiction]. simpl.
      destruct (aget m k); discriminate.
    - destruct (bget d (ver_bucket n)); [discriminate|contradiction].
    - destruct (bget d (ver_bucket n)) as [m|]; [|contradiction]. simpl.
      destruct (aget m key_dbversion) as [[|b0 [|b1 [|b2 [|b3 ?]]]]|]; discriminate.
    - specialize (A x). destruct (key_ok k); [|discriminate].
      destruct (bget (bcreate d (add_bucket n x)) (add_bucket n x)); [discriminate|contradiction].
    - specialize (A x).
      destruct (bget (bcreate d (add_bucket n x)) (add_bucket n x)) as [m|]; [|contradiction]. simpl.
      destruct (aget m k); discriminate.
  Qed.

  Definition in_range (names : list bytes) (h : hop) : Prop :=
    match h with HOp s _ => s < length names | HRestart => True end.

  Lemma no_crash_gen names hs : forall d, fixed_exist names d -> Forall (in_range names) hs ->
    ~ In RCrash (snd (hexec dec names d hs)).
  Proof.
    induction hs as [|h hs IH]; intros d F R; [intros []|].
    inversion R as [|? ? Rh Rr]; subst. cbn [Storage.hexec].
    destruct h as [s o|]; cbn [hstep].
    - simpl in Rh. destruct (nth_error names s) as [n|] eqn:E;
        [|apply nth_error_None in E; lia].
      pose proof (exec_no_crash names d n o F (nth_error_In _ _ E)) as NC.
      assert (F1 : fixed_exist names (fst (exec_op dec n d o))).
      { intros n' Hn'. destruct (F n' Hn'). split; now apply exec_keeps. }
      destruct (exec_op dec n d o) as [d1 x]. simpl in *.
      specialize (IH d1 F1 Rr). destruct (hexec dec names d1 hs) as [d2 xs]. simpl in *.
      intros [H|H]; [congruence|contradiction].
    - assert (F1 : fixed_exist names (startup names d)).
      { intros n' Hn'. destruct (F n' Hn') as [A B]. rewrite !startup_get.
        split; [destruct (bget d (data_bucket n')); [discriminate|contradiction]
               |destruct (bget d (ver_bucket n')); [discriminate|contradiction]]. }
      specialize (IH (startup names d) F1 Rr).
      destruct (hexec dec names (startup names d) hs) as [d2 xs]. simpl in *.
      intros [H|H]; [discriminate|contradiction].
  Qed.

  (* after start-up no operation of a registered service meets a missing bucket *)
  Theorem no_crash names hs : Forall (in_range names) hs -> ~ In RCrash (houts dec names hs).
  Proof.
    intros R. unfold Storage.houts. apply no_crash_gen; [|assumption].
    intros n Hn. rewrite !startup_get. simpl.
    assert (X : fixedb names (data_bucket n) = true /\ fixedb names (ver_bucket n) = true).
    { unfold fixedb. split; apply existsb_exists; exists n; (split; [assumption|]);
        rewrite bytes_eqb_refl; [reflexivity|apply orb_true_r]. }
    destruct X as [-> ->]. split; discriminate.
  Qed.
End NoCrash.

Example refines_private_hypotheses :
  names_ok [[65; 108]; [65; 108; 112; 104; 97]; [65; 108; 112; 104; 97; 66]]%N = true /\
  nth_error [[65; 108]; [65; 108; 112; 104; 97]; [65; 108; 112; 104; 97; 66]]%N 1 = Some [65; 108; 112; 104; 97]%N.
Proof. split; vm_compute; reflexivity. Qed.

(* ------------------------------------------------------------------------ *)
(* concurrent savers                                                          *)
(* bbolt serialises Update transactions (one writer lock per database) and a
   Save returns only after its transaction is committed, so an execution with
   concurrent savers is a LINEARISATION: some interleaving of the threads'
   operation sequences that keeps each thread's own order, run sequentially.
   (That is the assumption; it is bbolt's, not proved here.)  For every number
   of threads and every interleaving, the value of a key after quiescence is
   the last save of the linearisation, and that is the LAST save of that key by
   SOME thread -- never a value that its own writer overwrote later. *)

Inductive interleaving {A : Type} : list (list A) -> list A -> Prop :=
| il_done : forall ts, Forall (fun t => t = []) ts -> interleaving ts []
| il_step : forall pre t x post l,
    interleaving (pre ++ t :: post) l -> interleaving (pre ++ (x :: t) :: post) (x :: l).

Lemma last_saved_acc k l : forall acc,
  last_saved k l acc = match last_saved k l None with Some v => Some v | None => acc end.
Proof.
  induction l as [|h l IH]; intros acc; [reflexivity|].
  destruct h as [[|s] o|]; simpl; try apply IH.
  destruct o; try apply IH.
  rewrite (IH (if key_ok k0 then if bytes_eqb k k0 then Some v else acc else acc)),
          (IH (if key_ok k0 then if bytes_eqb k k0 then Some v else None else None)).
  destruct (last_saved k l None); [reflexivity|].
  destruct (key_ok k0); [|reflexivity]. now destruct (bytes_eqb k k0).
Qed.

Lemma last_saved_cons k h l :
  last_saved k (h :: l) None =
  match last_saved k l None with Some v => Some v | None => last_saved k [h] None end.
Proof.
  destruct h as [[|s] o|]; simpl; try now destruct (last_saved k l None).
  destruct o; simpl; try now destruct (last_saved k l None).
  apply last_saved_acc.
Qed.

Theorem quiescent_value_is_some_threads_last k threads l :
  interleaving threads l ->
  match last_saved k l None with
  | Some v => exists t, In t threads /\ last_saved k t None = Some v
  | None => forall t, In t threads -> last_saved k t None = None
  end.
Proof.
  induction 1 as [ts F|pre t x post l I IH].
  - simpl. intros t Ht. rewrite Forall_forall in F. now rewrite (F t Ht).
  - rewrite last_saved_cons. destruct (last_saved k l None) as [v|] eqn:E.
    + destruct IH as [t' [Ht' L']]. apply in_app_or in Ht' as [Hp|[<-|Hp]].
      * exists t'. split; [apply in_or_app; now left|assumption].
      * exists (x :: t). split; [apply in_or_app; right; now left|].
        now rewrite last_saved_cons, L'.
      * exists t'. split; [apply in_or_app; right; now right|assumption].
    + assert (Lt : last_saved k (x :: t) None = last_saved k [x] None).
      { rewrite last_saved_cons. rewrite (IH t); [reflexivity|]. apply in_or_app. right. now left. }
      destruct (last_saved k [x] None) as [v|] eqn:X.
      * exists (x :: t). split; [apply in_or_app; right; now left|assumption].
      * intros t' Ht'. apply in_app_or in Ht' as [Hp|[<-|Hp]].
        -- apply IH. apply in_or_app. now left.
        -- assumption.
        -- apply IH. apply in_or_app. right. now right.
  Qed.

(* with the characterisation of the private database: whatever the number of
   saver threads and however they were interleaved, a load after quiescence
   returns the last save of that key by one of the threads, or nothing if no
   thread (successfully) saved it *)
Corollary concurrent_savers_quiescent_load dec n k threads l :
  interleaving threads l ->
  match last (houts dec [n] (l ++ [HOp 0 (OLoadRaw k)])) RCrash with
  | RBytes v => exists t, In t threads /\ last_saved k t None = Some v
  | RNone => forall t, In t threads -> last_saved k t None = None
  | _ => False
  end.
Proof.
  intros I. destruct (private_load_is_last_save dec n k l) as [-> _].
  pose proof (quiescent_value_is_some_threads_last k threads l I) as Q.
  now destruct (last_saved k l None).
Qed.

Example interleaving_example :
  interleaving [[1; 2]; [3]] [1; 3; 2].
Proof.
  apply (il_step [] [2] 1 [[3]]). apply (il_step [[2]] [] 3 []).
  apply (il_step [] [] 2 [[]]). apply il_done. repeat constructor.
Qed.
