(* C16 MODEL -- service storage on the per-server bbolt database
   (context.go:26-51 newContext, 166-309 Save / Load / LoadRaw / LoadVersion /
   SaveVersion / GetAdditionalBucket; service.go:330-425 database file, close).

   Executable Gallina only; proofs are in Api/StorageProofs.v.

   A database is a list of top-level buckets, a bucket a key -> value
   association; names, keys and values are byte strings ([list nat]).  Per
   service named [n] the code derives three kinds of bucket names:
       n                (Save / Load / LoadRaw)
       n ++ "version"   (SaveVersion / LoadVersion, key "dbVersion")
       n ++ "_" ++ x    (GetAdditionalBucket x)
   Closing and re-opening the server on the same data directory is the
   identity on the database (bbolt durability is assumed, not modelled);
   start-up re-creates the two fixed buckets of every registered service if
   they are missing (CreateBucketIfNotExists).

   network.Marshal / Unmarshal are not modelled: a Save operation carries the
   bytes Marshal produced for its value, and Load succeeds exactly on the
   stored byte strings listed in [dec] (those some Marshal produced in the same
   run) -- the C03 codec hypothesis. *)
From Coq Require Import List Arith Bool ZArith NArith.
Import ListNotations.

(* bytes are binary naturals (N): cases hold long byte strings as literals *)
Definition bytes := list N.

Fixpoint bytes_eqb (a b : bytes) : bool :=
  match a, b with
  | [], [] => true
  | x :: a', y :: b' => N.eqb x y && bytes_eqb a' b'
  | _, _ => false
  end.

(* "version", "_", "dbVersion" *)
Definition sfx_version : bytes := [118; 101; 114; 115; 105; 111; 110]%N.
Definition sfx_us : bytes := [95]%N.
Definition key_dbversion : bytes := [100; 98; 86; 101; 114; 115; 105; 111; 110]%N.

Definition data_bucket (n : bytes) : bytes := n.
Definition ver_bucket (n : bytes) : bytes := n ++ sfx_version.
Definition add_bucket (n x : bytes) : bytes := n ++ sfx_us ++ x.

(* ---- association lists -------------------------------------------------- *)

Definition assoc := list (bytes * bytes).

Fixpoint aget (m : assoc) (k : bytes) : option bytes :=
  match m with
  | [] => None
  | (k', v) :: r => if bytes_eqb k k' then Some v else aget r k
  end.

Fixpoint aput (m : assoc) (k v : bytes) : assoc :=
  match m with
  | [] => [(k, v)]
  | (k', v') :: r => if bytes_eqb k k' then (k, v) :: r else (k', v') :: aput r k v
  end.

Definition db := list (bytes * assoc).

Fixpoint bget (d : db) (b : bytes) : option assoc :=
  match d with
  | [] => None
  | (b', m) :: r => if bytes_eqb b b' then Some m else bget r b
  end.

Fixpoint bset (d : db) (b : bytes) (m : assoc) : db :=
  match d with
  | [] => [(b, m)]
  | (b', m') :: r => if bytes_eqb b b' then (b, m) :: r else (b', m') :: bset r b m
  end.

(* CreateBucketIfNotExists *)
Definition bcreate (d : db) (b : bytes) : db :=
  match bget d b with
  | Some _ => d
  | None => bset d b []
  end.

(* ---- int32, little endian ---------------------------------------------- *)

Definition wrap32 (z : Z) : Z := ((z + 2147483648) mod 4294967296 - 2147483648)%Z.

Definition le32 (z : Z) : bytes :=
  let u := (z mod 4294967296)%Z in
  [ Z.to_N (u mod 256); Z.to_N ((u / 256) mod 256);
    Z.to_N ((u / 65536) mod 256); Z.to_N ((u / 16777216) mod 256) ].

Definition sle32 (b0 b1 b2 b3 : N) : Z :=
  wrap32 (Z.of_N b0 + 256 * Z.of_N b1 + 65536 * Z.of_N b2 + 16777216 * Z.of_N b3)%Z.

(* ---- operations of one service ------------------------------------------ *)

Inductive op :=
| OSave (k v : bytes)         (* Save(k, x) with v = Marshal(x) *)
| OLoad (k : bytes)
| OLoadRaw (k : bytes)
| OSaveVer (z : Z)            (* SaveVersion(int z) *)
| OLoadVer
| OAddPut (x k v : bytes)     (* GetAdditionalBucket(x), then Put(k, v) in it *)
| OAddGet (x k : bytes).      (* GetAdditionalBucket(x), then Get(k) *)

Inductive res :=
| ROk
| RErr                        (* an error is returned *)
| RNone                       (* nothing stored (nil, no error) *)
| RBytes (b : bytes)          (* LoadRaw / Get: the bytes; Load: Marshal of the value returned *)
| RVer (z : Z)
| RCrash.                     (* nil bucket dereference: cannot happen after start-up *)

Definition memb (b : bytes) (l : list bytes) : bool := existsb (bytes_eqb b) l.

(* bbolt's Bucket.Put refuses the empty key (ErrKeyRequired) and keys longer than
   MaxKeySize = 32768 bytes (ErrKeyTooLarge) *)
Definition key_ok (k : bytes) : bool :=
  match k with
  | [] => false
  | _ => N.leb (N.of_nat (length k)) 32768%N
  end.

(* compact literal for long constant byte strings (over-long keys in cases files) *)
Definition rep (x n : N) : bytes := repeat x (N.to_nat n).

Section Exec.
  Variable dec : list bytes.   (* stored byte strings that Unmarshal accepts *)

  Definition exec_op (n : bytes) (d : db) (o : op) : db * res :=
    match o with
    | OSave k v =>
        if key_ok k
        then match bget d (data_bucket n) with
             | None => (d, RCrash)
             | Some m => (bset d (data_bucket n) (aput m k v), ROk)
             end
        else (d, RErr)                              (* bbolt: key required / key too large *)
    | OLoad k =>
        match bget d (data_bucket n) with
        | None => (d, RCrash)
        | Some m => (d, match aget m k with
                        | None => RNone
                        | Some b => if memb b dec then RBytes b else RErr
                        end)
        end
    | OLoadRaw k =>
        match bget d (data_bucket n) with
        | None => (d, RCrash)
        | Some m => (d, match aget m k with None => RNone | Some b => RBytes b end)
        end
    | OSaveVer z =>
        match bget d (ver_bucket n) with
        | None => (d, RCrash)
        | Some m => (bset d (ver_bucket n) (aput m key_dbversion (le32 z)), ROk)
        end
    | OLoadVer =>
        match bget d (ver_bucket n) with
        | None => (d, RCrash)
        | Some m => (d, match aget m key_dbversion with
                        | None => RVer 0
                        | Some [] => RVer 0
                        | Some (b0 :: b1 :: b2 :: b3 :: _) => RVer (sle32 b0 b1 b2 b3)
                        | Some _ => RErr              (* binary.Read: unexpected EOF *)
                        end)
        end
    | OAddPut x k v =>
        let d1 := bcreate d (add_bucket n x) in
        if key_ok k
        then match bget d1 (add_bucket n x) with
             | None => (d1, RCrash)
             | Some m => (bset d1 (add_bucket n x) (aput m k v), ROk)
             end
        else (d1, RErr)
    | OAddGet x k =>
        let d1 := bcreate d (add_bucket n x) in
        match bget d1 (add_bucket n x) with
        | None => (d1, RCrash)
        | Some m => (d1, match aget m k with None => RNone | Some b => RBytes b end)
        end
    end.

  (* ---- histories over several services ---------------------------------- *)

  Inductive hop :=
  | HOp (s : nat) (o : op)     (* service number s (index into the name list) *)
  | HRestart.                  (* server closed and started again on the same directory *)

  (* start-up: newContext of every registered service *)
  Definition startup (names : list bytes) (d : db) : db :=
    fold_left (fun d n => bcreate (bcreate d (data_bucket n)) (ver_bucket n)) names d.

  Definition hstep (names : list bytes) (d : db) (h : hop) : db * res :=
    match h with
    | HOp s o => match nth_error names s with
                 | Some n => exec_op n d o
                 | None => (d, RCrash)
                 end
    | HRestart => (startup names d, ROk)
    end.

  Fixpoint hexec (names : list bytes) (d : db) (hs : list hop) : db * list res :=
    match hs with
    | [] => (d, [])
    | h :: r => let (d1, x) := hstep names d h in
                let (d2, xs) := hexec names d1 r in (d2, x :: xs)
    end.

  Definition houts (names : list bytes) (hs : list hop) : list res :=
    snd (hexec names (startup names []) hs).
End Exec.

(* ---- the side condition of the property --------------------------------- *)

Fixpoint is_prefix (p l : bytes) : bool :=
  match p, l with
  | [], _ => true
  | x :: p', y :: l' => N.eqb x y && is_prefix p' l'
  | _ :: _, [] => false
  end.

(* b is a ++ "version" or a ++ "_" ++ anything *)
Definition extends (a b : bytes) : bool :=
  bytes_eqb b (a ++ sfx_version) || is_prefix (a ++ sfx_us) b.

Definition compatible (a b : bytes) : bool :=
  negb (bytes_eqb a b) && negb (extends a b) && negb (extends b a).

Fixpoint pairwise {A} (f : A -> A -> bool) (l : list A) : bool :=
  match l with
  | [] => true
  | x :: r => forallb (f x) r && pairwise f r
  end.

Definition names_ok (names : list bytes) : bool := pairwise compatible names.
