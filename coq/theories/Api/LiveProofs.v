(* C14 -- every request of a round IS answered (Api/RestConc.v, any variant of the code).

     thread_step             a step of an unanswered request's thread answers it or advances it
     quiescent_all_answered  in a state where no thread can move, every request has its reply
     conc_every_request_answered   every schedule that steps request i's thread [steps_of] times
                             (one step per field write of its decoding, plus one) answers it,
                             whatever the other threads do in between

   This is about the model's threads; that the real server and clients take their steps
   (the Go scheduler, the network) is observed by the harness, clause 4. *)
From Coq Require Import List String Ascii ZArith NArith Bool Lia Arith.
Import ListNotations.
From Onet Require Import Api.Rest Api.RestConc Api.RestProofs Api.RestConcProofs.

Section Live.
Variables (fl : flags) (w : world) (clients : list ckind).

Lemma cstep_other g j i t :
  j <> i -> nth_error (g_threads g) i = Some t ->
  nth_error (g_threads (cstep fl w clients g j)) i = Some t.
Proof.
  intros N Hi. unfold cstep.
  destruct (nth_error (g_threads g) j) as [u|] eqn:Ej; [|exact Hi].
  destruct (th_rep u); [exact Hi|].
  destruct (c_req (th_req u)) as [q|path b].
  - destruct (nth_error (w_regs w) (q_res q)) as [r|];
      [destruct (nth_error (g_cells g) (q_res q)) as [cell|]|];
      [destruct (routed r q); [destruct (nth_error (p_writes (rest_plan r q)) (th_pc u))|]| |];
      cbn [g_threads]; now rewrite nth_error_set_nth_other.
  - destruct (step fl w clients _ (th_req u)). cbn [g_threads]. now rewrite nth_error_set_nth_other.
Qed.

Definition answered (t : thread) : Prop := th_rep t <> None.

(* a step of thread i: an answered request stays as it is; an unanswered one is answered,
   or has performed one more field write and still needs fewer than [steps_of] steps *)
Lemma thread_step g i t :
  nth_error (g_threads g) i = Some t ->
  exists t', nth_error (g_threads (cstep fl w clients g i)) i = Some t' /\ th_req t' = th_req t /\
             (answered t -> t' = t) /\
             (th_rep t = None ->
              answered t' \/ (th_rep t' = None /\ th_pc t' = S (th_pc t) /\ S (th_pc t) < steps_of w (th_req t))).
Proof.
  intro Hi. assert (i < List.length (g_threads g)) as Hl by (apply nth_error_Some; congruence).
  unfold cstep. rewrite Hi.
  destruct (th_rep t) as [rep|] eqn:Er.
  { exists t. repeat split; auto. intro H; discriminate. }
  assert (forall rep, exists t', nth_error (set_nth (g_threads g) i (done_with t rep)) i = Some t' /\
            th_req t' = th_req t /\ (answered t -> t' = t) /\
            (@None reply = None -> answered t' \/ (th_rep t' = None /\ th_pc t' = S (th_pc t) /\ S (th_pc t) < steps_of w (th_req t)))) as Hdone.
  { intro rep. exists (done_with t rep). split; [now apply nth_error_set_nth_same|]. split; [reflexivity|].
    split; [intro H; exfalso; apply H; exact Er|]. intros _. left. unfold answered, done_with. simpl. discriminate. }
  destruct (c_req (th_req t)) as [q|path b] eqn:Ec.
  - destruct (nth_error (w_regs w) (q_res q)) as [r|] eqn:Ereg; [|cbn [g_threads]; apply Hdone].
    destruct (nth_error (g_cells g) (q_res q)) as [cell|]; [|cbn [g_threads]; apply Hdone].
    destruct (routed r q); [|cbn [g_threads]; apply Hdone].
    destruct (nth_error (p_writes (rest_plan r q)) (th_pc t)) as [wr|] eqn:Ew; [|cbn [g_threads]; apply Hdone].
    cbn [g_threads]. eexists. split; [now apply nth_error_set_nth_same|]. cbn [th_req th_rep th_pc].
    split; [reflexivity|]. split; [intro H; exfalso; apply H; exact Er|]. intros _. right.
    split; [reflexivity|]. split; [reflexivity|].
    assert (th_pc t < List.length (p_writes (rest_plan r q))) by (apply nth_error_Some; congruence).
    unfold steps_of. rewrite Ec, Ereg. lia.
  - destruct (step fl w clients _ (th_req t)). cbn [g_threads]. apply Hdone.
Qed.

(* no thread can move *)
Definition quiescent (g : gstate) : Prop := forall i, cstep fl w clients g i = g.

Theorem quiescent_all_answered g :
  quiescent g -> forall i t, nth_error (g_threads g) i = Some t -> answered t.
Proof.
  intros Hq i t Hi. destruct (thread_step g i t Hi) as [t' [Ht' [_ [_ Hstep]]]].
  rewrite (Hq i), Hi in Ht'. injection Ht' as <-.
  destruct (th_rep t) as [rep|] eqn:Er; [unfold answered; congruence|].
  destruct (Hstep eq_refl) as [Ha|[_ [Hpc _]]]; [unfold answered in Ha; congruence|lia].
Qed.

(* after k steps of its own thread, request i is answered or has done exactly k writes *)
Definition progress (g : gstate) (i : nat) (cr : creq) (k : nat) : Prop :=
  exists t, nth_error (g_threads g) i = Some t /\ th_req t = cr /\
            (answered t \/ (th_rep t = None /\ th_pc t = k /\ k < steps_of w cr)).

Lemma progress_run i cr : forall sched g k,
  progress g i cr k ->
  steps_of w cr <= k + count_occ Nat.eq_dec sched i ->
  exists t, nth_error (g_threads (crun fl w clients g sched)) i = Some t /\ answered t.
Proof.
  induction sched as [|j sched IH]; intros g k [t [Hi [Hreq Hp]]] Hc.
  - simpl in *. exists t. split; [exact Hi|]. destruct Hp as [Ha|[_ [_ Hk]]]; [exact Ha|lia].
  - simpl. simpl in Hc. destruct (Nat.eq_dec j i) as [->|N].
    + destruct (thread_step g i t Hi) as [t' [Ht' [Hr' [Hkeep Hstep]]]].
      apply (IH _ (S k)); [|lia]. exists t'. split; [exact Ht'|]. split; [congruence|].
      destruct Hp as [Ha|[Hn [Hpc Hk]]].
      * left. now rewrite (Hkeep Ha).
      * destruct (Hstep Hn) as [Ha|[Hn' [Hpc' Hk']]]; [now left|]. right.
        split; [exact Hn'|]. split; [lia|]. rewrite <- Hreq, <- Hpc. exact Hk'.
    + apply (IH _ k); [|lia]. exists t. split; [now apply cstep_other|]. auto.
Qed.

End Live.

(* Every schedule -- the other requests' threads interleaved in any way -- that gives the
   thread of request i its [steps_of] steps answers request i.  Any variant of the code. *)
Theorem conc_every_request_answered fl w clients st rd sched i cr :
  nth_error rd i = Some cr ->
  steps_of w cr <= count_occ Nat.eq_dec sched i ->
  exists t rep, nth_error (g_threads (crun fl w clients (start st rd) sched)) i = Some t /\ th_rep t = Some rep.
Proof.
  intros Hi Hc.
  destruct (progress_run fl w clients i cr sched (start st rd) 0) as [t [Ht Ha]].
  - exists (start_thread cr). split; [simpl; now apply map_nth_error|]. split; [reflexivity|].
    right. split; [reflexivity|]. split; [reflexivity|]. unfold steps_of.
    destruct (c_req cr) as [q|]; [destruct (nth_error (w_regs w) (q_res q))|]; lia.
  - lia.
  - exists t. unfold answered in Ha. destruct (th_rep t) as [rep|]; [eauto|congruence].
Qed.

(* in particular the one-after-the-other schedule answers everybody *)
Example live_example :
  all_done (crun pinned demo_world [CKind true true] (start (init_state demo_world) demo_round)
                 (seq_sched demo_world demo_round 0)) = true.
Proof. vm_compute. reflexivity. Qed.
