(* C14 -- the SPECIFICATION, written from the text of the property alone.

     "Each client request to a service endpoint - over the websocket API or the REST API -
      is answered with the reply the registered handler produced for exactly that request's
      content ... A handler error or panic is reported to that client as an error ..."

   [spec_reply w svc_ok rq] is what one request must be answered with.  It mentions the
   request, the registered endpoints ([world]: which handler serves which resource /
   message, methods, versions) and the handler -- and nothing else: no server state, no
   cell, no connection table, no other request, no [step].  A well-formed request to a
   registered endpoint is answered with [handler] applied to the decoding of ITS content
   (a decoding that starts from the zero message); everything else -- a request that is
   not addressed to a registered endpoint in the documented way, whose content cannot be
   decoded, or whose handler fails or panics -- must be answered with AN ERROR: the
   property does not say which, so the specification does not either.  The only thing it
   keeps of an error is whose it is: when the handler of this request failed, an error
   reply that names a handler failure must name this one ([SError (Some tok)]).

   What "well-formed" and "its content" mean is the documented contract of
   RegisterHandler / RegisterRESTHandler (processor.go:48-58, 171-191): websocket: a
   protobuf message of the registered type sent to a registered service; REST:
   /v<version>/<namespace>/<resource> with the registered method and a version in
   range, POST/PUT with Content-Type application/json and a JSON object (or null) for
   the argument struct, GET with nothing, a decimal integer, or lower-case hex bytes as
   last path segment.  JSON values are read as encoding/json reads them ([body_plan]:
   a library, described in Api/Rest.v; it is used here on the zero message only). *)
From Coq Require Import List String Ascii ZArith NArith Bool.
Import ListNotations.
From Onet Require Export Api.Rest.
Local Open Scope string_scope.

Inductive sreply :=
| SOk (tag : nat) (m : msg)          (* the handler's reply *)
| SError (tok : option string).      (* an error; Some tok: this request's handler failed with tok *)

Definition of_handler (tag : nat) (h : hres) : sreply :=
  match h with
  | HOk m => SOk tag m
  | HErr t | HPanic t => SError (Some t)
  end.

(* the message a websocket request carries: absent fields are zero *)
Definition ws_content (b : wbody) : option msg :=
  match b with
  | WMsg p => Some (apply_writes zero_msg (pmsg_writes p))
  | WGarbage => None
  end.

(* is the REST request addressed to resource [r] the documented way? *)
Definition rest_addressed (r : reg) (q : rreq) : bool :=
  Nat.leb (r_vmin r) (q_ver q) && Nat.leb (q_ver q) (r_vmax r) &&
  meth_eqb (q_meth q) (reg_meth r) &&
  match r_kind r with
  | KInt | KBytes => true
  | _ => negb (nonempty (q_seg q))
  end.

(* the argument a REST request carries *)
Definition rest_content (r : reg) (q : rreq) : option msg :=
  match r_kind r with
  | KEmpty => Some zero_msg
  | KInt =>
      if nonempty (q_seg q) && str_forall is_digit (q_seg q) && Z.leb (dec_value (q_seg q)) max_int64
      then Some (upd zero_msg (WI (dec_value (q_seg q)))) else None
  | KBytes =>
      if nonempty (q_seg q) && str_forall is_lhex (q_seg q) && Nat.even (String.length (q_seg q))
      then Some (upd zero_msg (WD (q_seg q))) else None
  | KPost | KPut =>
      if q_json q then
        let (ws, bad) := body_plan (q_body q) in
        if bad then None else Some (apply_writes zero_msg ws)
      else None
  end.

(* [svc_ok]: the client names a registered service *)
Definition spec_reply (w : world) (svc_ok : bool) (rq : request) : sreply :=
  match rq with
  | QWs path b =>
      if svc_ok then
        match nth_error (w_ws w) path, ws_content b with
        | Some (h, tag), Some m => of_handler tag (handler h m)
        | _, _ => SError None
        end
      else SError None
  | QRest q =>
      match nth_error (w_regs w) (q_res q) with
      | Some r =>
          if rest_addressed r q then
            match rest_content r q with
            | Some m => of_handler (r_tag r) (handler (r_h r) m)
            | None => SError None
            end
          else SError None
      | None => SError None
      end
  end.

Definition req_is_ws (cr : creq) : bool := match c_req cr with QWs _ _ => true | QRest _ => false end.

Definition spec_of (w : world) (clients : list ckind) (cr : creq) : sreply :=
  spec_reply w (match nth_error clients (c_client cr) with Some ck => ck_svc ck | None => false end) (c_req cr).

(* ---------- when does a reply satisfy the specification? ------------------------------- *)

(* a reply that tells the client that its request failed (not: no reply at all) *)
Definition reports_error (ws : bool) (o : reply) : bool :=
  match o with
  | ROk _ _ => false
  | RErr ETransport _ | RErr EDeadConn _ => false      (* nothing came back / nothing was sent *)
  | RErr EAbnormal _ => ws                              (* a websocket closed without a reason *)
  | RErr _ _ => true
  end.

(* does the error name a handler failure? then it must be this request's *)
Definition names_failure (o : reply) : option string :=
  match o with
  | RErr EHandler t | RErr EPanic t => Some t
  | _ => None
  end.

Definition satisfies (ws : bool) (s : sreply) (o : reply) : bool :=
  match s with
  | SOk tag m => match o with ROk tag' m' => Nat.eqb tag tag' && msg_eqb m m' | RErr _ _ => false end
  | SError own =>
      reports_error ws o &&
      match names_failure o, own with
      | None, _ => true
      | Some t, Some t' => String.eqb t t'
      | Some _, None => false                 (* a handler failure reported for a request that reached no handler *)
      end
  end.

(* the model's replies, seen through the specification's eyes *)
Definition abs_reply (r : reply) : sreply :=
  match r with
  | ROk tag m => SOk tag m
  | RErr EHandler t | RErr EPanic t => SError (Some t)
  | RErr _ _ => SError None
  end.
