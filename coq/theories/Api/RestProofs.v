(* C14 -- proofs about the sequential model of Api/Rest.v.

   Main results
     run_fixed_spec            every history, repaired code: reply_i = fixed_reply(request_i)
     failure_contained         a failing request changes nobody else's reply
     handler_failure_reported  handler error / panic  ==>  error reply carrying its token
     rest_carryover_refuted    F17 witness (pinned code)
     keep_dead_refuted         F28 witness (pinned client)
     run_pinned_spec_restricted  pinned code, histories outside the two defects
     pinned_cell_is_merge      exact description of the pinned cell: merge of all earlier writes *)
From Coq Require Import List String Ascii ZArith NArith Bool Lia.
Import ListNotations.
From Onet Require Import Api.Rest.
Local Open Scope string_scope.

(* ---------- fields, writes -------------------------------------------------- *)

Lemma fld_eqb_eq a b : fld_eqb a b = true <-> a = b.
Proof. destruct a, b; simpl; split; intro H; try reflexivity; discriminate. Qed.

Lemma fld_eqb_refl a : fld_eqb a a = true.
Proof. now apply fld_eqb_eq. Qed.

Lemma fld_eqb_neq a b : fld_eqb a b = false <-> a <> b.
Proof.
  split.
  - intros H E. apply fld_eqb_eq in E. congruence.
  - intros H. destruct (fld_eqb a b) eqn:E; [apply fld_eqb_eq in E; contradiction|reflexivity].
Qed.

Lemma get_upd_same m w : get (fld_of w) (upd m w) = w.
Proof. destruct w; reflexivity. Qed.

Lemma get_upd_other m w k : fld_of w <> k -> get k (upd m w) = get k m.
Proof. destruct w, k; simpl; intro H; try reflexivity; contradiction. Qed.

Lemma fld_of_get k m : fld_of (get k m) = k.
Proof. destruct k; reflexivity. Qed.

Lemma msg_ext a b : (forall k, get k a = get k b) -> a = b.
Proof.
  destruct a as [s i b0 d], b as [s' i' b' d']; intro H.
  pose proof (H FS) as HS; pose proof (H FI) as HI; pose proof (H FB) as HB; pose proof (H FD) as HD.
  simpl in *. congruence.
Qed.

(* ---------- last write wins -------------------------------------------------- *)

Lemma last_opt_cons {A} (x : A) l :
  last_opt (x :: l) = match last_opt l with Some y => Some y | None => Some x end.
Proof.
  destruct l as [|y l]; [reflexivity|].
  change (last_opt (x :: y :: l)) with (last_opt (y :: l)).
  destruct (last_opt (y :: l)) eqn:E; [reflexivity|].
  exfalso. revert y E. induction l as [|z l IH]; intros y E; simpl in E; [discriminate|].
  apply (IH z). exact E.
Qed.

Lemma last_opt_in {A} (l : list A) x : last_opt l = Some x -> In x l.
Proof.
  induction l as [|y l IH]; [discriminate|].
  rewrite last_opt_cons. destruct (last_opt l) eqn:E.
  - intros [= <-]. right. now apply IH.
  - intros [= <-]. now left.
Qed.

Lemma last_opt_none {A} (l : list A) : last_opt l = None <-> l = [].
Proof.
  destruct l as [|y l]; [tauto|]. rewrite last_opt_cons.
  destruct (last_opt l); split; discriminate.
Qed.

Lemma last_write_cons k w ws :
  last_write k (w :: ws) =
  match last_write k ws with
  | Some y => Some y
  | None => if fld_eqb (fld_of w) k then Some w else None
  end.
Proof.
  unfold last_write, writes_to. simpl.
  destruct (fld_eqb (fld_of w) k).
  - apply last_opt_cons.
  - destruct (last_opt _); reflexivity.
Qed.

Lemma last_write_fld k ws x : last_write k ws = Some x -> fld_of x = k /\ In x ws.
Proof.
  unfold last_write, writes_to. intro H. apply last_opt_in in H.
  apply filter_In in H as [H1 H2]. apply fld_eqb_eq in H2. tauto.
Qed.

Theorem get_apply_writes k ws : forall m,
  get k (apply_writes m ws) = match last_write k ws with Some x => x | None => get k m end.
Proof.
  induction ws as [|w ws IH]; intro m; [reflexivity|].
  unfold apply_writes in *. simpl. rewrite IH, last_write_cons.
  destruct (last_write k ws); [reflexivity|].
  destruct (fld_eqb (fld_of w) k) eqn:E.
  - apply fld_eqb_eq in E. subst k. apply get_upd_same.
  - apply fld_eqb_neq in E. now apply get_upd_other.
Qed.

Lemma apply_writes_app m a b : apply_writes m (a ++ b)%list = apply_writes (apply_writes m a) b.
Proof. unfold apply_writes. apply fold_left_app. Qed.

(* ---------- what a handler reads --------------------------------------------- *)

Definition reads (h : hkind) : list fld :=
  match h with
  | HStrict | HLenient => [FS; FI; FB; FD]
  | HConst => []
  | HAck => []
  | HInt => [FI]
  | HBytes => [FD]
  end.

Lemma handler_reads h a b :
  (forall k, In k (reads h) -> get k a = get k b) -> handler h a = handler h b.
Proof.
  intro H. destruct h; simpl in H.
  - assert (a = b) as ->; [|reflexivity]. apply msg_ext. intros [| | |]; apply H; simpl; tauto.
  - assert (a = b) as ->; [|reflexivity]. apply msg_ext. intros [| | |]; apply H; simpl; tauto.
  - reflexivity.
  - pose proof (H FI (or_introl eq_refl)) as E. simpl in E. injection E as E.
    unfold handler. now rewrite E.
  - pose proof (H FD (or_introl eq_refl)) as E. simpl in E. injection E as E.
    unfold handler. now rewrite E.
  - reflexivity.
Qed.

(* ---------- closed form of the specification --------------------------------- *)

Definition rest_reply (regs : list reg) (q : rreq) : reply :=
  match nth_error regs (q_res q) with
  | Some r =>
      if routed r q
      then finish r (rest_plan r q) (apply_writes zero_msg (p_writes (rest_plan r q)))
      else RErr ENoRoute ""
  | None => RErr ENoRoute ""
  end.

Definition model_reply (w : world) (clients : list ckind) (cr : creq) : reply :=
  match c_req cr with
  | QRest q => rest_reply (w_regs w) q
  | QWs path b =>
      match nth_error clients (c_client cr) with
      | None => RErr EOther ""
      | Some ck => ws_handle (w_ws w) {| w_svc := ck_svc ck; w_path := path; w_body := b |}
      end
  end.

Lemma set_nth_length {A} (l : list A) n x : List.length (set_nth l n x) = List.length l.
Proof. revert n; induction l as [|a l IH]; intros [|n]; simpl; auto. Qed.

Lemma nth_error_set_nth_same {A} (l : list A) n x :
  n < List.length l -> nth_error (set_nth l n x) n = Some x.
Proof.
  revert n; induction l as [|a l IH]; intros [|n] H; simpl in *; try lia; auto. apply IH. lia.
Qed.

Lemma nth_error_set_nth_other {A} (l : list A) n k x :
  n <> k -> nth_error (set_nth l n x) k = nth_error l k.
Proof.
  revert n k; induction l as [|a l IH]; intros [|n] [|k] H; simpl; auto; try congruence.
Qed.

Lemma nth_error_same_length {A B} (l : list A) (l' : list B) n a :
  List.length l = List.length l' -> nth_error l n = Some a -> exists b, nth_error l' n = Some b.
Proof.
  intros HL H. assert (n < List.length l') as Hn.
  { rewrite <- HL. apply nth_error_Some. congruence. }
  destruct (nth_error l' n) eqn:E; [eauto|]. apply nth_error_None in E. lia.
Qed.

Lemma rest_handle_fixed r cell q :
  rest_handle true r cell q =
  (cell, finish r (rest_plan r q) (apply_writes zero_msg (p_writes (rest_plan r q)))).
Proof. reflexivity. Qed.

(* the repaired REST step: the reply does not depend on the cells, and the cells do not change *)
Lemma rest_step_fixed regs cells q :
  List.length cells = List.length regs ->
  snd (rest_step true regs cells q) = rest_reply regs q /\
  List.length (fst (rest_step true regs cells q)) = List.length regs.
Proof.
  intro HL. unfold rest_step, rest_reply.
  destruct (nth_error regs (q_res q)) as [r|] eqn:Er.
  - destruct (nth_error_same_length regs cells _ _ (eq_sym HL) Er) as [c Ec]. rewrite Ec.
    destruct (routed r q); [|now split].
    rewrite rest_handle_fixed. simpl. split; [reflexivity|]. now rewrite set_nth_length.
  - now split.
Qed.

Lemma map_const_length {A B} (l : list A) (b : B) : List.length (map (fun _ => b) l) = List.length l.
Proof. apply map_length. Qed.

Theorem spec_closed_form w clients cr : fixed_reply w clients cr = model_reply w clients cr.
Proof.
  unfold fixed_reply, model_reply, step. destruct (c_req cr) as [q|path b].
  - pose proof (rest_step_fixed (w_regs w) (s_cells (init_state w)) q) as H.
    destruct (rest_step (fix_f17 all_fixed) (w_regs w) (s_cells (init_state w)) q) as [cells rep] eqn:E.
    simpl. change (fix_f17 all_fixed) with true in E. rewrite E in H. simpl in H.
    apply H. simpl. apply map_length.
  - destruct (nth_error clients (c_client cr)) as [ck|]; [|reflexivity].
    simpl. unfold client_send. simpl.
    destruct (ck_keep ck); reflexivity.
Qed.

(* ---------- every history, repaired code ------------------------------------- *)

Definition wf_state (w : world) (st : state) : Prop :=
  List.length (s_cells st) = List.length (w_regs w) /\ s_dead st = [].

Lemma init_wf w : wf_state w (init_state w).
Proof. split; simpl; [apply map_length|reflexivity]. Qed.

Lemma step_fixed w clients st cr :
  wf_state w st ->
  snd (step all_fixed w clients st cr) = fixed_reply w clients cr /\
  wf_state w (fst (step all_fixed w clients st cr)).
Proof.
  intros [HL HD]. rewrite spec_closed_form. unfold step, model_reply.
  destruct (c_req cr) as [q|path b].
  - pose proof (rest_step_fixed (w_regs w) (s_cells st) q HL) as [H1 H2].
    change (fix_f17 all_fixed) with true.
    destruct (rest_step true (w_regs w) (s_cells st) q) as [cells rep]. simpl in *.
    split; [exact H1|]. split; assumption.
  - destruct (nth_error clients (c_client cr)) as [ck|]; [|split; [reflexivity|split; assumption]].
    rewrite HD. simpl. unfold client_send. simpl.
    destruct (ck_keep ck); simpl; (split; [reflexivity|split; [assumption|reflexivity]]).
Qed.

(* C14, sequential form: whatever the history and whatever state it left behind,
   every reply is the one computed from that request alone. *)
Theorem run_fixed_spec w clients : forall l st,
  wf_state w st -> snd (run all_fixed w clients st l) = map (fixed_reply w clients) l.
Proof.
  induction l as [|cr l IH]; intros st Hwf; [reflexivity|].
  simpl. pose proof (step_fixed w clients st cr Hwf) as [H1 H2].
  destruct (step all_fixed w clients st cr) as [st1 rep]. simpl in *.
  specialize (IH st1 H2). destruct (run all_fixed w clients st1 l) as [st2 reps]. simpl in *.
  now rewrite H1, IH.
Qed.

Lemma run_fixed_wf w clients : forall l st,
  wf_state w st -> wf_state w (fst (run all_fixed w clients st l)).
Proof.
  induction l as [|cr l IH]; intros st Hwf; [exact Hwf|].
  simpl. pose proof (step_fixed w clients st cr Hwf) as [H1 H2].
  destruct (step all_fixed w clients st cr) as [st1 rep]. simpl in *.
  specialize (IH st1 H2). destruct (run all_fixed w clients st1 l) as [st2 reps]. exact IH.
Qed.

Example run_fixed_spec_satisfiable w : wf_state w (init_state w).
Proof. apply init_wf. Qed.

(* a request -- failing, panicking, malformed or not -- does not change the reply of any other *)
Corollary failure_contained w clients l1 cr l2 :
  snd (run all_fixed w clients (init_state w) (l1 ++ cr :: l2)%list) =
  (snd (run all_fixed w clients (init_state w) l1) ++
   fixed_reply w clients cr :: snd (run all_fixed w clients (init_state w) l2))%list.
Proof.
  rewrite !run_fixed_spec by apply init_wf. rewrite map_app. reflexivity.
Qed.

(* the specification of a request looks at no other client *)
Theorem spec_local w clients clients' cr :
  nth_error clients (c_client cr) = nth_error clients' (c_client cr) ->
  fixed_reply w clients cr = fixed_reply w clients' cr.
Proof.
  intro H. rewrite !spec_closed_form. unfold model_reply. destruct (c_req cr); [reflexivity|].
  now rewrite H.
Qed.

(* ---------- handler failures are reported as errors, with their token ---------- *)

Definition failure_token (h : hres) : option string :=
  match h with HErr t | HPanic t => Some t | HOk _ => None end.

Theorem handler_failure_reported_rest tag h t :
  failure_token h = Some t ->
  exists c, hres_reply tag h = RErr c t /\ (c = EHandler \/ c = EPanic).
Proof.
  destruct h; simpl; intros [= <-]; eauto.
Qed.

Lemma ws_error_is_err c tok text : is_err (ws_error c tok text) = true.
Proof. unfold ws_error. destruct (close_reason_fits _); reflexivity. Qed.

Lemma ws_error_cases c tok text :
  ws_error c tok text = RErr c tok \/ ws_error c tok text = RErr EAbnormal "".
Proof. unfold ws_error. destruct (close_reason_fits _); auto. Qed.

(* websocket: the client gets an error; when the reason fits a close frame it
   carries the handler's token, otherwise the connection is closed without reason *)
Theorem handler_failure_reported_ws hs h tag path p t :
  nth_error hs path = Some (h, tag) ->
  failure_token (handler h (apply_writes zero_msg (pmsg_writes p))) = Some t ->
  let r := ws_handle hs {| w_svc := true; w_path := path; w_body := WMsg p |} in
  r = RErr EHandler t \/ r = RErr EPanic t \/ r = RErr EAbnormal "".
Proof.
  intros Hn Hf. cbv zeta. unfold ws_handle. cbn [w_svc w_path w_body negb]. rewrite Hn.
  destruct (handler h _) as [m|t'|t']; cbn [failure_token] in Hf; try discriminate; injection Hf as ->.
  - destruct (ws_error_cases EHandler t ("processing error: HE[" ++ t ++ "]")) as [E|E]; rewrite E; auto.
  - destruct (ws_error_cases EPanic t ("panic: HP[" ++ t ++ "]")) as [E|E]; rewrite E; auto.
Qed.

Theorem ws_success_only_from_handler hs q tag m :
  ws_handle hs q = ROk tag m ->
  exists h p, nth_error hs (w_path q) = Some (h, tag) /\ w_body q = WMsg p /\
              handler h (apply_writes zero_msg (pmsg_writes p)) = HOk m.
Proof.
  unfold ws_handle. destruct (w_svc q); cbn [negb]; [|discriminate].
  destruct (nth_error hs (w_path q)) as [[h tg]|]; [|discriminate].
  destruct (w_body q) as [p|]; [|discriminate].
  destruct (handler h _) as [m'|t|t] eqn:E.
  - intros [= <- <-]. eauto.
  - intro H. pose proof (ws_error_is_err EHandler t ("processing error: HE[" ++ t ++ "]")) as H1.
    rewrite H in H1. discriminate.
  - intro H. pose proof (ws_error_is_err EPanic t ("panic: HP[" ++ t ++ "]")) as H1.
    rewrite H in H1. discriminate.
Qed.

(* ---------- the pinned code: refutations -------------------------------------- *)

Definition demo_world : world :=
  {| w_regs := [Reg KPost HStrict 10 3 4]; w_ws := [(HStrict, 1)] |}.

Definition post (b : jbody) : creq := CReq 0 (QRest (RReq 0 3 MPost true "" b)).

(* F17: POST {"S":"42"} then POST {}: the second is answered as if it carried S="42" *)
Theorem rest_carryover_refuted :
  exists w clients l,
    snd (run pinned w clients (init_state w) l) <> map (fixed_reply w clients) l /\
    l = [post (BObj [("S", JStr "42" None)]); post (BObj [])] /\
    snd (run pinned w clients (init_state w) l) =
      [ROk 10 (Msg "42" 0 false ""); ROk 10 (Msg "42" 0 false "")] /\
    map (fixed_reply w clients) l = [ROk 10 (Msg "42" 0 false ""); RErr EHandler "empty"].
Proof.
  exists demo_world, [CKind true true], [post (BObj [("S", JStr "42" None)]); post (BObj [])].
  split; [vm_compute; discriminate|]. repeat split; vm_compute; reflexivity.
Qed.

(* F17 through a REJECTED request: the fields decoded before the type error stay *)
Theorem rest_carryover_from_rejected_refuted :
  let l := [post (BObj [("S", JStr "zz" None); ("I", JStr "x" None)]); post (BObj [("I", JNum 1)])] in
  snd (run pinned demo_world [CKind true true] (init_state demo_world) l) =
    [RErr EDecode ""; ROk 10 (Msg "zz" 1 false "")] /\
  map (fixed_reply demo_world [CKind true true]) l = [RErr EDecode ""; RErr EHandler "empty"].
Proof. split; vm_compute; reflexivity. Qed.

Definition wsreq (c : nat) (s : string) : creq :=
  CReq c (QWs 0 (WMsg (PMsg (Some s) None None None))).

(* F28: keeping client: reply, error, then every later request fails unsent;
   another client is served *)
Theorem keep_dead_refuted :
  let clients := [CKind true true; CKind true true] in
  let l := [wsreq 0 "a"; wsreq 0 "fail-1"; wsreq 0 "a"; wsreq 1 "a"] in
  snd (run pinned demo_world clients (init_state demo_world) l) =
    [ROk 1 (Msg "a" 0 false ""); RErr EHandler "fail-1"; RErr EDeadConn ""; ROk 1 (Msg "a" 0 false "")] /\
  map (fixed_reply demo_world clients) l =
    [ROk 1 (Msg "a" 0 false ""); RErr EHandler "fail-1"; ROk 1 (Msg "a" 0 false ""); ROk 1 (Msg "a" 0 false "")].
Proof. split; vm_compute; reflexivity. Qed.

(* ---------- the pinned code outside the two defects ---------------------------- *)

Definition is_some {A} (o : option A) : bool := match o with Some _ => true | None => false end.

(* the request writes every field its handler reads (or never reaches the handler) *)
Definition self_contained (r : reg) (q : rreq) : bool :=
  match p_out (rest_plan r q) with
  | PReply _ => true
  | PCall => forallb (fun k => is_some (last_write k (p_writes (rest_plan r q)))) (reads (r_h r))
  end.

Lemma rest_handle_pinned_self_contained r cell q :
  self_contained r q = true ->
  snd (rest_handle false r cell q) =
  finish r (rest_plan r q) (apply_writes zero_msg (p_writes (rest_plan r q))).
Proof.
  unfold self_contained, rest_handle, finish. simpl.
  destruct (p_out (rest_plan r q)); [|reflexivity].
  intro H. f_equal. apply handler_reads. intros k Hk.
  rewrite forallb_forall in H. specialize (H k Hk).
  rewrite !get_apply_writes. destruct (last_write k _); [reflexivity|discriminate].
Qed.

Definition safe (w : world) (clients : list ckind) (cr : creq) : bool :=
  match c_req cr with
  | QRest q =>
      match nth_error (w_regs w) (q_res q) with
      | Some r => negb (routed r q) || self_contained r q
      | None => true
      end
  | QWs path b =>
      match nth_error clients (c_client cr) with
      | Some ck => negb (ck_keep ck) ||
                   negb (is_err (ws_handle (w_ws w) {| w_svc := ck_svc ck; w_path := path; w_body := b |}))
      | None => true
      end
  end.

Lemma step_pinned_safe w clients st cr :
  wf_state w st -> safe w clients cr = true ->
  snd (step pinned w clients st cr) = fixed_reply w clients cr /\
  wf_state w (fst (step pinned w clients st cr)).
Proof.
  intros [HL HD] Hs. rewrite spec_closed_form. unfold step, model_reply, safe in *.
  destruct (c_req cr) as [q|path b].
  - change (fix_f17 pinned) with false. unfold rest_step, rest_reply.
    destruct (nth_error (w_regs w) (q_res q)) as [r|] eqn:Er.
    + destruct (nth_error_same_length _ (s_cells st) _ _ (eq_sym HL) Er) as [c Ec]. rewrite Ec.
      destruct (routed r q); simpl in Hs.
      * pose proof (rest_handle_pinned_self_contained r c q Hs) as H.
        destruct (rest_handle false r c q) as [c' rep]. cbn [fst snd] in *.
        split; [exact H|]. split; cbn [s_cells s_dead]; [now rewrite set_nth_length|exact HD].
      * simpl. split; [reflexivity|split; assumption].
    + simpl. split; [reflexivity|split; assumption].
  - destruct (nth_error clients (c_client cr)) as [ck|]; [|split; [reflexivity|split; assumption]].
    rewrite HD. simpl. unfold client_send. simpl.
    destruct (ck_keep ck); simpl in *.
    + apply negb_true_iff in Hs. rewrite Hs. simpl. split; [reflexivity|split; [assumption|reflexivity]].
    + split; [reflexivity|split; [assumption|reflexivity]].
Qed.

(* pinned code: histories in which every REST request writes every field its handler
   reads, and no keeping client's request fails, are answered per the specification *)
Theorem run_pinned_spec_restricted w clients : forall l st,
  wf_state w st -> forallb (safe w clients) l = true ->
  snd (run pinned w clients st l) = map (fixed_reply w clients) l.
Proof.
  induction l as [|cr l IH]; intros st Hwf Hs; [reflexivity|].
  simpl in Hs. apply andb_true_iff in Hs as [Hs1 Hs2].
  simpl. pose proof (step_pinned_safe w clients st cr Hwf Hs1) as [H1 H2].
  destruct (step pinned w clients st cr) as [st1 rep]. simpl in *.
  specialize (IH st1 H2 Hs2). destruct (run pinned w clients st1 l) as [st2 reps]. simpl in *.
  now rewrite H1, IH.
Qed.

Example run_pinned_spec_restricted_satisfiable :
  forallb (safe demo_world [CKind false true])
    [post (BObj [("S", JStr "a" None); ("I", JNum 5); ("B", JBool true); ("D", JNull)]); wsreq 0 "fail-1"] = true.
Proof. reflexivity. Qed.

(* ---------- exact description of the pinned cell ------------------------------- *)

(* writes that history [l] performs on the cell of registration [ri] *)
Definition history_writes (w : world) (ri : nat) (l : list creq) : list write :=
  flat_map (fun cr =>
    match c_req cr with
    | QRest q =>
        match nth_error (w_regs w) (q_res q) with
        | Some r => if routed r q && Nat.eqb (q_res q) ri then p_writes (rest_plan r q) else []
        | None => []
        end
    | QWs _ _ => []
    end) l.

Lemma step_pinned_cells w clients st cr ri :
  List.length (s_cells st) = List.length (w_regs w) ->
  List.length (s_cells (fst (step pinned w clients st cr))) = List.length (w_regs w) /\
  forall c, nth_error (s_cells st) ri = Some c ->
    nth_error (s_cells (fst (step pinned w clients st cr))) ri =
    Some (apply_writes c (history_writes w ri [cr])).
Proof.
  intro HL. unfold step, history_writes. simpl. rewrite app_nil_r.
  destruct (c_req cr) as [q|path b].
  - change (fix_f17 pinned) with false. unfold rest_step.
    destruct (nth_error (w_regs w) (q_res q)) as [r|] eqn:Er.
    + destruct (nth_error_same_length _ (s_cells st) _ _ (eq_sym HL) Er) as [c0 Ec]. rewrite Ec.
      destruct (routed r q); simpl.
      * split; [now rewrite set_nth_length|]. intros c Hc.
        destruct (Nat.eqb (q_res q) ri) eqn:En.
        -- apply Nat.eqb_eq in En. subst ri. rewrite Hc in Ec. injection Ec as <-.
           apply nth_error_set_nth_same. apply nth_error_Some. congruence.
        -- apply Nat.eqb_neq in En. rewrite nth_error_set_nth_other by exact En. exact Hc.
      * split; [exact HL|]. intros c Hc. exact Hc.
    + simpl. split; [exact HL|]. intros c Hc; exact Hc.
  - destruct (nth_error clients (c_client cr)) as [ck|]; simpl.
    + destruct (client_send _ _ _ _ _). simpl. split; [exact HL|]. intros c Hc; exact Hc.
    + split; [exact HL|]. intros c Hc; exact Hc.
Qed.

Lemma history_writes_cons w ri cr l :
  history_writes w ri (cr :: l) = (history_writes w ri [cr] ++ history_writes w ri l)%list.
Proof. unfold history_writes. simpl. now rewrite app_nil_r. Qed.

(* F17 in one line: after any history the cell of a REST resource is the field-wise
   merge of everything earlier requests to that resource decoded -- including what
   rejected requests decoded before their error *)
Theorem pinned_cell_is_merge w clients ri : forall l st c,
  List.length (s_cells st) = List.length (w_regs w) ->
  nth_error (s_cells st) ri = Some c ->
  nth_error (s_cells (fst (run pinned w clients st l))) ri =
  Some (apply_writes c (history_writes w ri l)).
Proof.
  induction l as [|cr l IH]; intros st c HL Hc; [exact Hc|].
  rewrite history_writes_cons, apply_writes_app.
  cbn [run]. pose proof (step_pinned_cells w clients st cr ri HL) as [H1 H2].
  specialize (H2 c Hc).
  destruct (step pinned w clients st cr) as [st1 rep]. cbn [fst] in *.
  specialize (IH st1 _ H1 H2). destruct (run pinned w clients st1 l) as [st2 reps]. cbn [fst] in *.
  exact IH.
Qed.

(* ---------- the boolean equalities are equalities ------------------------------ *)

Lemma msg_eqb_eq a b : msg_eqb a b = true <-> a = b.
Proof.
  destruct a as [s i b0 d], b as [s' i' b' d']. unfold msg_eqb. simpl.
  rewrite !andb_true_iff, !String.eqb_eq, Z.eqb_eq, Bool.eqb_true_iff.
  split; [intros [[[-> ->] ->] ->]; reflexivity|intros [= -> -> -> ->]; auto].
Qed.

Lemma write_eqb_eq a b : write_eqb a b = true <-> a = b.
Proof.
  destruct a, b; simpl; try (split; discriminate).
  - rewrite String.eqb_eq. split; [now intros ->|now intros [= ->]].
  - rewrite Z.eqb_eq. split; [now intros ->|now intros [= ->]].
  - rewrite Bool.eqb_true_iff. split; [now intros ->|now intros [= ->]].
  - rewrite String.eqb_eq. split; [now intros ->|now intros [= ->]].
Qed.

Lemma errc_eqb_eq a b : errc_eqb a b = true <-> a = b.
Proof. destruct a, b; simpl; split; intro H; try reflexivity; discriminate. Qed.

Lemma reply_eqb_eq a b : reply_eqb a b = true <-> a = b.
Proof.
  destruct a as [t m|c t], b as [t' m'|c' t']; simpl; try (split; discriminate).
  - rewrite andb_true_iff, Nat.eqb_eq, msg_eqb_eq. split; [now intros [-> ->]|now intros [= -> ->]].
  - rewrite andb_true_iff, errc_eqb_eq, String.eqb_eq. split; [now intros [-> ->]|now intros [= -> ->]].
Qed.

Lemma reply_eqb_refl a : reply_eqb a a = true.
Proof. now apply reply_eqb_eq. Qed.
