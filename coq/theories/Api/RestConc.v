(* C14 -- concurrent clients.  MODEL ONLY (no proofs).

   (1) An interleaving semantics for a ROUND of requests that are in flight at the
       same time.  A REST request that reaches the closure of its registration is a
       straight-line program: the field writes of its decoding, one atomic step
       each, then the handler call on the target as it is at that moment.  In the
       pinned code the target is the registration's shared [val0]; with fix_f17 it
       is private to the request.  A websocket request is one atomic step (the
       server side keeps nothing between messages; requests on one client
       connection are serialised by the client's per-destination lock).
       Data races proper (torn reads of one field) are not modelled.

   (2) An executable over-approximation of all interleavings, used by the
       correspondence check because the schedule of a real concurrent round is not
       observable: per registration and field, the set of values the handler of
       request i can find there ([cands]).  Sequential histories are rounds of one
       request, for which the sets are singletons and the relation is exact. *)
From Coq Require Import List String Ascii ZArith NArith Bool.
Import ListNotations.
From Onet Require Export Api.Rest.
Local Open Scope string_scope.

(* ====================== (1) interleaving semantics ========================= *)

Record thread := { th_req : creq; th_pc : nat; th_priv : msg; th_rep : option reply }.

Record gstate := { g_cells : list msg; g_dead : list (nat * nat); g_threads : list thread }.

Definition start_thread (cr : creq) : thread :=
  {| th_req := cr; th_pc := 0; th_priv := zero_msg; th_rep := None |}.

Definition start (st : state) (rd : list creq) : gstate :=
  {| g_cells := s_cells st; g_dead := s_dead st; g_threads := map start_thread rd |}.

Definition done_with (t : thread) (r : reply) : thread :=
  {| th_req := th_req t; th_pc := S (th_pc t); th_priv := th_priv t; th_rep := Some r |}.

(* one atomic step of thread [i] *)
Definition cstep (fl : flags) (w : world) (clients : list ckind) (g : gstate) (i : nat) : gstate :=
  match nth_error (g_threads g) i with
  | None => g
  | Some t =>
      match th_rep t with
      | Some _ => g
      | None =>
          match c_req (th_req t) with
          | QWs path b =>
              let (st', rep) := step fl w clients {| s_cells := g_cells g; s_dead := g_dead g |} (th_req t) in
              {| g_cells := g_cells g; g_dead := s_dead st'; g_threads := set_nth (g_threads g) i (done_with t rep) |}
          | QRest q =>
              match nth_error (w_regs w) (q_res q), nth_error (g_cells g) (q_res q) with
              | Some r, Some cell =>
                  if routed r q then
                    let p := rest_plan r q in
                    let target := if fix_f17 fl then th_priv t else cell in
                    match nth_error (p_writes p) (th_pc t) with
                    | Some wr =>
                        let target' := upd target wr in
                        let t' := {| th_req := th_req t; th_pc := S (th_pc t);
                                     th_priv := if fix_f17 fl then target' else th_priv t; th_rep := None |} in
                        {| g_cells := if fix_f17 fl then g_cells g else set_nth (g_cells g) (q_res q) target';
                           g_dead := g_dead g; g_threads := set_nth (g_threads g) i t' |}
                    | None =>
                        {| g_cells := g_cells g; g_dead := g_dead g;
                           g_threads := set_nth (g_threads g) i (done_with t (finish r p target)) |}
                    end
                  else {| g_cells := g_cells g; g_dead := g_dead g;
                          g_threads := set_nth (g_threads g) i (done_with t (RErr ENoRoute "")) |}
              | _, _ => {| g_cells := g_cells g; g_dead := g_dead g;
                           g_threads := set_nth (g_threads g) i (done_with t (RErr ENoRoute "")) |}
              end
          end
      end
  end.

Definition crun (fl : flags) (w : world) (clients : list ckind) (g : gstate) (sched : list nat) : gstate :=
  fold_left (cstep fl w clients) sched g.

Definition replies (g : gstate) : list (option reply) := map th_rep (g_threads g).

Definition all_done (g : gstate) : bool :=
  forallb (fun t => match th_rep t with Some _ => true | None => false end) (g_threads g).

(* the schedule that runs the requests one after the other, each to completion
   (fuel: a request takes at most |writes| + 1 steps) *)
Definition steps_of (w : world) (cr : creq) : nat :=
  match c_req cr with
  | QWs _ _ => 1
  | QRest q =>
      match nth_error (w_regs w) (q_res q) with
      | Some r => S (List.length (p_writes (rest_plan r q)))
      | None => 1
      end
  end.

Fixpoint seq_sched (w : world) (rd : list creq) (i : nat) : list nat :=
  match rd with
  | [] => []
  | cr :: r => repeat i (steps_of w cr) ++ seq_sched w r (S i)
  end.

(* ====================== (2) candidate sets =================================== *)

Definition all_flds : list fld := [FS; FI; FB; FD].

(* abstract cell: every (field, value) the registration's val0 may hold *)
Definition acell := list write.
Definition acell_of (m : msg) : acell := map (fun k => get k m) all_flds.

Record astate := { a_cells : list acell; a_dead : list (nat * nat) }.

Definition ainit (w : world) : astate :=
  {| a_cells := map (fun _ => acell_of zero_msg) (w_regs w); a_dead := [] |}.

Definition mem_write (x : write) (l : list write) : bool := existsb (write_eqb x) l.

(* the REST plan of a request, if it is routed to a registration *)
Definition routed_plan (w : world) (cr : creq) : option (nat * reg * plan) :=
  match c_req cr with
  | QRest q =>
      match nth_error (w_regs w) (q_res q) with
      | Some r => if routed r q then Some (q_res q, r, rest_plan r q) else None
      | None => None
      end
  | QWs _ _ => None
  end.

(* writes of the requests of the round, other than number [i], that go to registration [ri] *)
Fixpoint other_writes (w : world) (rd : list creq) (ri i : nat) (j : nat) : list write :=
  match rd with
  | [] => []
  | cr :: r =>
      (if Nat.eqb i j then [] else
         match routed_plan w cr with
         | Some (rj, _, p) => if Nat.eqb rj ri then p_writes p else []
         | None => []
         end) ++ other_writes w r ri i (S j)
  end.

(* what request i's handler may find in field k *)
Definition cands (fix17 : bool) (cell : acell) (own others : list write) (k : fld) : list write :=
  match last_write k own with
  | Some x => [x]
  | None => if fix17 then [get k zero_msg] else writes_to k cell
  end ++ (if fix17 then [] else writes_to k others).

(* field constraints on the handler's argument that an observed reply implies
   (None: this handler never produces that reply) *)
Definition inv_handler (h : hkind) (o : reply) : option (list write) :=
  match h, o with
  | HStrict, ROk _ m => Some [WS (mS m); WI (mI m); WB (mB m); WD (mD m)]
  | HStrict, RErr EHandler t => Some [WS (if String.eqb t "empty" then "" else t)]
  | HStrict, RErr EPanic t => Some [WS t]
  | HLenient, ROk _ m => Some [WS (mS m); WI (mI m); WB (negb (mB m)); WD (mD m)]
  | HLenient, RErr EHandler t => Some [WS t]
  | HLenient, RErr EPanic t => Some [WS t]
  | HConst, ROk _ _ => Some []
  | HAck, ROk _ _ => Some []
  | HInt, ROk _ m => Some [WI (mI m)]
  | HInt, RErr EHandler _ => Some [WI 13%Z]
  | HInt, RErr EPanic _ => Some [WI 666%Z]
  | HBytes, ROk _ m => Some [WD (mD m)]
  | HBytes, RErr EHandler t => Some [WD t]
  | HBytes, RErr EPanic t => Some [WD t]
  | _, _ => None
  end.

(* A torn value.  Go writes and reads a string or a slice as several words; when two
   requests write the same field of the shared argument concurrently, a reader can
   see the pointer of one value with the length of another: a prefix of one
   candidate, cut or extended to the length of another candidate.  This is a data
   race proper and lies outside the interleaving semantics of part (1); the relation
   accepts it (only where other requests write the same cell concurrently) so that
   the correspondence check does not mistake it for a disagreement, and the property
   checker reports it under its own clause. *)
Definition torn_of (a b x : string) : bool :=
  String.prefix (String.substring 0 (Nat.min (String.length a) (String.length b)) a) x.

Definition torn_in (x : write) (l : list write) : bool :=
  match x with
  | WS s => existsb (fun a => existsb (fun b => match a, b with
                                                | WS sa, WS sb => torn_of sa sb s
                                                | _, _ => false end) l) l
  | WD d => existsb (fun a => existsb (fun b => match a, b with
                                                | WD da, WD db => torn_of da db d
                                                | _, _ => false end) l) l
  | _ => false
  end.

Definition cand_ok (tornable : bool) (x : write) (l : list write) : bool :=
  mem_write x l || (tornable && torn_in x l).

(* some argument with every field among [cs] makes the handler answer [o] *)
Definition explained (r : reg) (tornable : bool) (cs : fld -> list write) (o : reply) : bool :=
  match inv_handler (r_h r) o with
  | None => false
  | Some constr =>
      forallb (fun x => cand_ok tornable x (cs (fld_of x))) constr &&
      match cs FS, cs FI, cs FB, cs FD with
      | s :: _, i :: _, b :: _, d :: _ =>
          let arg := apply_writes (apply_writes zero_msg [s; i; b; d]) constr in
          reply_eqb (hres_reply (r_tag r) (handler (r_h r) arg)) o
      | _, _, _, _ => false
      end
  end.

(* model-vs-observation equality on the projected observables *)
Definition agree_reply (m o : reply) : bool :=
  reply_eqb m o ||
  match m, o with
  | RErr EDecode _, RErr EAbnormal _ => true      (* reason text of a decode error is the library's *)
  | RErr EDeadConn _, RErr EAbnormal _ => true    (* how a dead connection fails is the library's / kernel's *)
  | RErr EDeadConn _, RErr ETransport _ => true
  | _, _ => false
  end.

Definition ws_req_of (clients : list ckind) (cr : creq) : option (nat * nat * bool * wreq) :=
  match c_req cr with
  | QWs path b =>
      match nth_error clients (c_client cr) with
      | Some ck => Some (c_client cr, path, ck_keep ck, {| w_svc := ck_svc ck; w_path := path; w_body := b |})
      | None => None
      end
  | QRest _ => None
  end.

(* does another request of the round, on the same client connection, fail? *)
Fixpoint other_ws_fails (w : world) (clients : list ckind) (rd : list creq) (c p i : nat) (j : nat) : bool :=
  match rd with
  | [] => false
  | cr :: r =>
      (negb (Nat.eqb i j) &&
       match ws_req_of clients cr with
       | Some (c', p', _, q) => Nat.eqb c c' && Nat.eqb p p' && is_err (ws_handle (w_ws w) q)
       | None => false
       end) || other_ws_fails w clients r c p i (S j)
  end.

(* is observation [o] possible for request number [i] of round [rd]? *)
Definition admissible (fl : flags) (w : world) (clients : list ckind) (a : astate)
           (rd : list creq) (i : nat) (cr : creq) (o : reply) : bool :=
  match c_req cr with
  | QRest q =>
      match routed_plan w cr with
      | None => agree_reply (RErr ENoRoute "") o
      | Some (ri, r, p) =>
          match p_out p with
          | PReply rep => agree_reply rep o
          | PCall =>
              match nth_error (a_cells a) ri with
              | None => false
              | Some cell =>
                  let others := other_writes w rd ri i 0 in
                  explained r (negb (fix_f17 fl) && match others with [] => false | _ => true end)
                            (cands (fix_f17 fl) cell (p_writes p) others) o
              end
          end
      end
  | QWs _ _ =>
      match ws_req_of clients cr with
      | None => agree_reply (RErr EOther "") o
      | Some (c, p, keep, q) =>
          if is_dead (a_dead a) c p then agree_reply (RErr EDeadConn "") o
          else agree_reply (ws_handle (w_ws w) q) o ||
               (keep && negb (fix_keep fl) && other_ws_fails w clients rd c p i 0 &&
                agree_reply (RErr EDeadConn "") o)
      end
  end.

Fixpoint round_ok_from (fl : flags) (w : world) (clients : list ckind) (a : astate)
         (rd : list creq) (rest : list creq) (obs : list reply) (i : nat) : bool :=
  match rest, obs with
  | [], [] => true
  | cr :: r, o :: os => admissible fl w clients a rd i cr o && round_ok_from fl w clients a rd r os (S i)
  | _, _ => false
  end.

Definition round_ok (fl : flags) (w : world) (clients : list ckind) (a : astate)
           (rd : list creq) (obs : list reply) : bool :=
  round_ok_from fl w clients a rd rd obs 0.

(* all writes of the round that go to registration [ri] *)
Definition round_writes (w : world) (rd : list creq) (ri : nat) : list (list write) :=
  flat_map (fun cr => match routed_plan w cr with
                      | Some (rj, _, p) => if Nat.eqb rj ri then [p_writes p] else []
                      | None => []
                      end) rd.

(* the cell after the round: a field written by some request holds the last write of one of them *)
Definition next_field (cell : acell) (wss : list (list write)) (k : fld) : list write :=
  match flat_map (fun ws => match last_write k ws with Some x => [x] | None => [] end) wss with
  | [] => writes_to k cell
  | l => l
  end.

Definition next_cell (cell : acell) (wss : list (list write)) : acell :=
  flat_map (next_field cell wss) all_flds.

Fixpoint map_idx {A B} (f : nat -> A -> B) (l : list A) (i : nat) : list B :=
  match l with [] => [] | x :: r => f i x :: map_idx f r (S i) end.

Definition newly_dead (fl : flags) (w : world) (clients : list ckind) (rd : list creq) : list (nat * nat) :=
  flat_map (fun cr => match ws_req_of clients cr with
                      | Some (c, p, keep, q) =>
                          if keep && negb (fix_keep fl) && is_err (ws_handle (w_ws w) q) then [(c, p)] else []
                      | None => []
                      end) rd.

Definition round_next (fl : flags) (w : world) (clients : list ckind) (a : astate) (rd : list creq) : astate :=
  {| a_cells := if fix_f17 fl then a_cells a
                else map_idx (fun ri cell => next_cell cell (round_writes w rd ri)) (a_cells a) 0;
     a_dead := newly_dead fl w clients rd ++ a_dead a |}.

(* a scenario: rounds, each observed *)
Fixpoint scenario_ok (fl : flags) (w : world) (clients : list ckind) (a : astate)
         (rounds : list (list creq)) (obs : list (list reply)) : bool :=
  match rounds, obs with
  | [], [] => true
  | rd :: r, o :: os =>
      round_ok fl w clients a rd o && scenario_ok fl w clients (round_next fl w clients a rd) r os
  | _, _ => false
  end.
