(* C14 -- executable mirror of the client-request path of onet:

     processor.go   RegisterRESTHandler (the closure [h]: method / path / content-type
                    checks, decoding into [val0], callInterfaceFunc, JSON reply)
                    ProcessClientRequest (fresh message, protobuf decode, callInterfaceFunc)
                    callInterfaceFunc (copy of the argument, reflection call, panic barrier)
     websocket.go   wsHandler.ServeHTTP (one reply per message; an error ends the loop and
                    closes with code 1002 and the error text as reason)
     websocket_client.go  Client.Send / newConnIfNotExist / closeSingleUseConn
                    (per-destination connection, kept or single-use)

   MODEL ONLY (no proofs).  A Go panic inside a handler is the explicit outcome
   [HPanic]; the panic barrier of callInterfaceFunc turns it into an error reply.

   The decoded request object.  Before commit 599dc98 (F17) the code allocated ONE
   value [val0] per REST registration and decoded every request into it; since then
   it is allocated per request.  [fix_f17 = false] is the code before the repair:
   the registration owns a cell [msg] that survives from request to request.
   encoding/json decodes an object INTO an existing struct as a sequence of
   field writes (absent fields are left alone), which is what [resolve] /
   [apply_writes] say.

   Message contents.  The harness service uses one argument shape
     struct { S string; I int; B bool; D []byte }
   ([msg]; bytes are written in lower-case hex), which is enough to express
   "valid, partial, malformed, failing, panicking" requests. *)
From Coq Require Import List String Ascii ZArith NArith Bool.
Import ListNotations.
Local Open Scope string_scope.

(* ---------- message values ------------------------------------------------ *)

Record msg := Msg { mS : string; mI : Z; mB : bool; mD : string }.
Definition zero_msg : msg := Msg "" 0%Z false "".

Inductive fld := FS | FI | FB | FD.
(* a typed field write; the constructor names the field *)
Inductive write := WS (s : string) | WI (z : Z) | WB (b : bool) | WD (d : string).

Definition fld_of (w : write) : fld :=
  match w with WS _ => FS | WI _ => FI | WB _ => FB | WD _ => FD end.

Definition upd (m : msg) (w : write) : msg :=
  match w with
  | WS s => Msg s (mI m) (mB m) (mD m)
  | WI z => Msg (mS m) z (mB m) (mD m)
  | WB b => Msg (mS m) (mI m) b (mD m)
  | WD d => Msg (mS m) (mI m) (mB m) d
  end.

Definition get (k : fld) (m : msg) : write :=
  match k with FS => WS (mS m) | FI => WI (mI m) | FB => WB (mB m) | FD => WD (mD m) end.

Definition apply_writes (m : msg) (ws : list write) : msg := fold_left upd ws m.

Definition fld_eqb (a b : fld) : bool :=
  match a, b with FS, FS | FI, FI | FB, FB | FD, FD => true | _, _ => false end.

(* the writes of a list that go to field k; the last of them (json: the later key wins) *)
Definition writes_to (k : fld) (ws : list write) : list write :=
  filter (fun x => fld_eqb (fld_of x) k) ws.

Fixpoint last_opt {A} (l : list A) : option A :=
  match l with [] => None | [x] => Some x | _ :: r => last_opt r end.

Definition last_write (k : fld) (ws : list write) : option write := last_opt (writes_to k ws).

Definition write_eqb (a b : write) : bool :=
  match a, b with
  | WS x, WS y => String.eqb x y
  | WI x, WI y => Z.eqb x y
  | WB x, WB y => Bool.eqb x y
  | WD x, WD y => String.eqb x y
  | _, _ => false
  end.

Definition msg_eqb (a b : msg) : bool :=
  String.eqb (mS a) (mS b) && Z.eqb (mI a) (mI b) && Bool.eqb (mB a) (mB b) && String.eqb (mD a) (mD b).

(* ---------- small string helpers (ASCII) ---------------------------------- *)

Definition ascii_between (lo hi c : ascii) : bool :=
  (N.leb (N_of_ascii lo) (N_of_ascii c)) && (N.leb (N_of_ascii c) (N_of_ascii hi)).

Definition is_digit (c : ascii) : bool := ascii_between "0" "9" c.
Definition is_lhex (c : ascii) : bool := is_digit c || ascii_between "a" "f" c.

Definition lower_ascii (c : ascii) : ascii :=
  if ascii_between "A" "Z" c then ascii_of_N (N_of_ascii c + 32) else c.

Fixpoint lower (s : string) : string :=
  match s with EmptyString => EmptyString | String c r => String (lower_ascii c) (lower r) end.

Fixpoint str_forall (p : ascii -> bool) (s : string) : bool :=
  match s with EmptyString => true | String c r => p c && str_forall p r end.

Definition nonempty (s : string) : bool := match s with EmptyString => false | _ => true end.

(* bytes given in lower-case hex (used for observed strings that are not printable) *)
Definition hex_digit (c : ascii) : N :=
  if is_digit c then N_of_ascii c - 48 else N_of_ascii c - 87.
Fixpoint unhex (s : string) : string :=
  match s with
  | String a (String b r) => String (ascii_of_N (16 * hex_digit a + hex_digit b)) (unhex r)
  | _ => EmptyString
  end.

(* value of a string of decimal digits (only used after [str_forall is_digit]) *)
Fixpoint dec_value_acc (s : string) (acc : Z) : Z :=
  match s with
  | EmptyString => acc
  | String c r => dec_value_acc r (10 * acc + (Z.of_N (N_of_ascii c) - 48))%Z
  end.
Definition dec_value (s : string) : Z := dec_value_acc s 0%Z.

Definition max_int64 : Z := 9223372036854775807%Z.
Definition min_int64 : Z := (-9223372036854775808)%Z.
Definition in_int64 (z : Z) : bool := (Z.leb min_int64 z) && (Z.leb z max_int64).

(* ---------- the harness service's handlers --------------------------------- *)

(* what a registered handler does with its (copied) argument *)
Inductive hres := HOk (r : msg) | HErr (tok : string) | HPanic (tok : string).

Inductive hkind := HStrict | HLenient | HConst | HInt | HBytes
  | HAck.   (* acknowledge only: the handler returns (nil, nil); the reply is encoded to zero bytes,
               which a client decodes to the zero reply (tag 0, zero message) *)

Definition by_S (m : msg) (k : hres) : hres :=
  if String.prefix "fail" (mS m) then HErr (mS m)
  else if String.prefix "panic" (mS m) then HPanic (mS m)
  else k.

Definition handler (h : hkind) (m : msg) : hres :=
  match h with
  | HStrict  => by_S m (if String.eqb (mS m) "" then HErr "empty" else HOk m)
  | HLenient => by_S m (HOk (Msg (mS m) (mI m) (negb (mB m)) (mD m)))
  | HConst   => HOk (Msg "const" 42%Z true "")
  | HAck     => HOk zero_msg
  | HInt     => if Z.eqb (mI m) 13 then HErr "n13"
                else if Z.eqb (mI m) 666 then HPanic "n666"
                else HOk (Msg "" (mI m) false "")
  | HBytes   => if String.prefix "ff" (mD m) then HErr (mD m)
                else if String.prefix "ee" (mD m) then HPanic (mD m)
                else HOk (Msg "" (Z.of_nat (String.length (mD m))) false (mD m))
  end.

(* ---------- replies -------------------------------------------------------- *)

Inductive errc :=
| ENoRoute        (* no REST pattern matches: catch-all handler, failed websocket upgrade (400 "Bad Request") *)
| EMethod         (* 405 unsupported method *)
| ECtype          (* 400 content type needs to be application/json *)
| ENotFound       (* 404 invalid path *)
| ENotNumber      (* 400 not a number *)
| EHex            (* 400 hex decoding error *)
| EDecode         (* REST 400 decoding error ... / websocket close 1002 "decoding: ..." *)
| EHandler        (* the handler's error, carrying the handler's token *)
| EPanic          (* the handler's panic, caught by the barrier, carrying the token *)
| ENoService      (* websocket close 4001 *)
| ENotRegistered  (* websocket close 1002 "... hasn't been registered" *)
| EAbnormal       (* websocket closed without a close frame (1006) *)
| EDeadConn       (* client side: the kept connection is no longer usable *)
| ETransport      (* observation only: no response at all *)
| EOther.         (* observation only: unclassified *)

Inductive reply := ROk (tag : nat) (m : msg) | RErr (c : errc) (tok : string).

Definition errc_eqb (a b : errc) : bool :=
  match a, b with
  | ENoRoute, ENoRoute | EMethod, EMethod | ECtype, ECtype | ENotFound, ENotFound
  | ENotNumber, ENotNumber | EHex, EHex | EDecode, EDecode | EHandler, EHandler
  | EPanic, EPanic | ENoService, ENoService | ENotRegistered, ENotRegistered
  | EAbnormal, EAbnormal | EDeadConn, EDeadConn | ETransport, ETransport | EOther, EOther => true
  | _, _ => false
  end.

Definition reply_eqb (a b : reply) : bool :=
  match a, b with
  | ROk t m, ROk t' m' => Nat.eqb t t' && msg_eqb m m'
  | RErr c t, RErr c' t' => errc_eqb c c' && String.eqb t t'
  | _, _ => false
  end.

Definition is_err (r : reply) : bool := match r with RErr _ _ => true | ROk _ _ => false end.

Definition hres_reply (tag : nat) (h : hres) : reply :=
  match h with HOk m => ROk tag m | HErr t => RErr EHandler t | HPanic t => RErr EPanic t end.

(* ---------- JSON bodies and encoding/json's decode-into-struct -------------- *)

Inductive jval :=
| JStr (s : string) (b64 : option string)
      (* a JSON string; [b64] = the bytes (hex) base64.StdEncoding decodes it to,
         None if it rejects it (pointwise description of the library function) *)
| JNum (z : Z)        (* an integer literal *)
| JFrac               (* a number that is not an integer literal (1.5, 1e2) *)
| JBool (b : bool)
| JNull
| JEmptyArr           (* [] *)
| JObjV.              (* {} *)

Inductive jbody :=
| BObj (kvs : list (string * jval))
| BNull               (* the document null: a no-op for Unmarshal *)
| BOther              (* a valid document that is neither an object nor null *)
| BBad.               (* not valid JSON: rejected before the target is touched *)

(* field selected by an object key: exact or ASCII case-insensitive match *)
Definition key_field (k : string) : option fld :=
  let l := lower k in
  if String.eqb l "s" then Some FS
  else if String.eqb l "i" then Some FI
  else if String.eqb l "b" then Some FB
  else if String.eqb l "d" then Some FD
  else None.

Inductive setres := SetW (w : write) | SetNone | SetErr.

Definition set_of (f : fld) (v : jval) : setres :=
  match f, v with
  | FS, JStr s _ => SetW (WS s)
  | FI, JNum z => if in_int64 z then SetW (WI z) else SetErr
  | FB, JBool b => SetW (WB b)
  | FD, JStr _ (Some h) => SetW (WD h)
  | FD, JNull => SetW (WD "")          (* null resets a slice *)
  | FD, JEmptyArr => SetW (WD "")
  | _, JNull => SetNone                (* null leaves string / int / bool alone *)
  | _, _ => SetErr                     (* UnmarshalTypeError / base64 error: recorded, decoding goes on *)
  end.

(* the writes an object performs, in order, and whether an error was recorded *)
Fixpoint resolve (kvs : list (string * jval)) : list write * bool :=
  match kvs with
  | [] => ([], false)
  | (k, v) :: r =>
      let (ws, e) := resolve r in
      match key_field k with
      | None => (ws, e)
      | Some f =>
          match set_of f v with
          | SetW w => (w :: ws, e)
          | SetNone => (ws, e)
          | SetErr => (ws, true)
          end
      end
  end.

Definition body_plan (b : jbody) : list write * bool (* error *) :=
  match b with
  | BObj kvs => resolve kvs
  | BNull => ([], false)
  | BOther => ([], true)
  | BBad => ([], true)
  end.

(* ---------- REST registrations and requests --------------------------------- *)

Inductive meth := MGet | MPost | MPut | MDelete.
Definition meth_eqb (a b : meth) : bool :=
  match a, b with MGet, MGet | MPost, MPost | MPut, MPut | MDelete, MDelete => true | _, _ => false end.

(* kind of the registration: GET with an empty / int / byte-slice argument, POST, PUT *)
Inductive rkind := KEmpty | KInt | KBytes | KPost | KPut.

Record reg := Reg { r_kind : rkind; r_h : hkind; r_tag : nat; r_vmin : nat; r_vmax : nat }.

Definition reg_meth (r : reg) : meth :=
  match r_kind r with KPost => MPost | KPut => MPut | _ => MGet end.

(* URL /v<q_ver>/<namespace>/<resource q_res>[/<q_seg>]; for KInt / KBytes
   registrations the mux pattern ends in "/" and q_seg is what follows it *)
Record rreq := RReq { q_res : nat; q_ver : nat; q_meth : meth; q_json : bool; q_seg : string; q_body : jbody }.

(* What one request does once it is routed to the closure [h] of its
   registration: the field writes it performs on the decode target, in order,
   and how it ends. *)
Inductive outcome := PCall | PReply (r : reply).
Record plan := { p_writes : list write; p_out : outcome }.

Definition rest_plan (r : reg) (q : rreq) : plan :=
  if negb (meth_eqb (q_meth q) (reg_meth r)) then {| p_writes := []; p_out := PReply (RErr EMethod "") |} else
  match r_kind r with
  | KEmpty => {| p_writes := []; p_out := PCall |}
  | KInt =>
      if nonempty (q_seg q) && str_forall is_digit (q_seg q) then
        if Z.leb (dec_value (q_seg q)) max_int64
        then {| p_writes := [WI (dec_value (q_seg q))]; p_out := PCall |}
        else {| p_writes := []; p_out := PReply (RErr ENotNumber "") |}
      else {| p_writes := []; p_out := PReply (RErr ENotFound "") |}
  | KBytes =>
      if nonempty (q_seg q) && str_forall is_lhex (q_seg q) then
        if Nat.even (String.length (q_seg q))
        then {| p_writes := [WD (q_seg q)]; p_out := PCall |}
        else {| p_writes := []; p_out := PReply (RErr EHex "") |}
      else {| p_writes := []; p_out := PReply (RErr ENotFound "") |}
  | KPost | KPut =>
      if negb (q_json q) then {| p_writes := []; p_out := PReply (RErr ECtype "") |} else
      let (ws, e) := body_plan (q_body q) in
      {| p_writes := ws; p_out := if e then PReply (RErr EDecode "") else PCall |}
  end.

Definition finish (r : reg) (p : plan) (t : msg) : reply :=
  match p_out p with
  | PCall => hres_reply (r_tag r) (handler (r_h r) t)   (* callInterfaceFunc copies t, calls, recovers *)
  | PReply rep => rep
  end.

(* the closure [h]: [cell] is val0.  Returns the new cell and the reply. *)
Definition rest_handle (fix_f17 : bool) (r : reg) (cell : msg) (q : rreq) : msg * reply :=
  let p := rest_plan r q in
  let target := if fix_f17 then zero_msg else cell in
  let t := apply_writes target (p_writes p) in
  ((if fix_f17 then cell else t), finish r p t).

(* routing by http.ServeMux: exact pattern for KEmpty / KPost / KPut, subtree
   pattern for KInt / KBytes; everything else reaches the catch-all *)
Definition routed (r : reg) (q : rreq) : bool :=
  (Nat.leb (r_vmin r) (q_ver q)) && (Nat.leb (q_ver q) (r_vmax r)) &&
  match r_kind r with
  | KInt | KBytes => true
  | _ => negb (nonempty (q_seg q))
  end.

Fixpoint set_nth {A} (l : list A) (n : nat) (x : A) : list A :=
  match l, n with
  | [], _ => []
  | _ :: r, O => x :: r
  | a :: r, S k => a :: set_nth r k x
  end.

Definition rest_step (fix_f17 : bool) (regs : list reg) (cells : list msg) (q : rreq) : list msg * reply :=
  match nth_error regs (q_res q), nth_error cells (q_res q) with
  | Some r, Some c =>
      if routed r q then
        let (c', rep) := rest_handle fix_f17 r c q in (set_nth cells (q_res q) c', rep)
      else (cells, RErr ENoRoute "")
  | _, _ => (cells, RErr ENoRoute "")
  end.

(* ---------- websocket requests ----------------------------------------------- *)

(* a protobuf message with every field optional (absent = zero value) *)
Record pmsg := PMsg { pS : option string; pI : option Z; pB : option bool; pD : option string }.

Inductive wbody := WMsg (p : pmsg) | WGarbage.

Definition opt_write {A} (f : A -> write) (o : option A) : list write :=
  match o with Some a => [f a] | None => [] end.

Definition pmsg_writes (p : pmsg) : list write :=
  opt_write WS (pS p) ++ opt_write WI (pI p) ++ opt_write WB (pB p) ++ opt_write WD (pD p).

(* w_svc: the client names a registered service; w_path: index of the message
   name among the websocket handlers (out of range = not registered) *)
Record wreq := { w_svc : bool; w_path : nat; w_body : wbody }.

(* a close frame carries at most 123 bytes of reason *)
Definition close_reason_fits (s : string) : bool := Nat.leb (String.length s) 123.

Definition ws_error (c : errc) (tok text : string) : reply :=
  if close_reason_fits ("unexpected error: " ++ text) then RErr c tok else RErr EAbnormal "".

(* wsHandler.ServeHTTP + ProcessClientRequest for one message *)
Definition ws_handle (hs : list (hkind * nat)) (q : wreq) : reply :=
  if negb (w_svc q) then RErr ENoService "" else
  match nth_error hs (w_path q) with
  | None => RErr ENotRegistered ""
  | Some (h, tag) =>
      match w_body q with
      | WGarbage => RErr EDecode ""
      | WMsg p =>
          match handler h (apply_writes zero_msg (pmsg_writes p)) with   (* msg := reflect.New(...) per request *)
          | HOk m => ROk tag m
          | HErr t => ws_error EHandler t ("processing error: HE[" ++ t ++ "]")
          | HPanic t => ws_error EPanic t ("panic: HP[" ++ t ++ "]")
          end
      end
  end.

(* Client.Send on a destination whose kept connection is in state [dead].
   Before commit d8eab8f (F28) the client left a connection that the server closed in its table, so
   a keeping client fails every later request on it ("close sent") without
   reaching the server; [fix_keep] drops the connection after a failed request. *)
Definition client_send (fix_keep keep : bool) (hs : list (hkind * nat)) (dead : bool) (q : wreq) : bool * reply :=
  if dead then (true, RErr EDeadConn "")
  else let r := ws_handle hs q in
       (keep && negb fix_keep && is_err r, r).

(* ---------- sequential histories ----------------------------------------------- *)

Record world := { w_regs : list reg; w_ws : list (hkind * nat) }.

(* a client: does it keep connections; does it name the registered service *)
Record ckind := CKind { ck_keep : bool; ck_svc : bool }.

Inductive request := QRest (q : rreq) | QWs (path : nat) (b : wbody).

Record creq := CReq { c_client : nat; c_req : request }.

Record flags := Flags { fix_f17 : bool; fix_keep : bool }.

(* server + clients: REST cells, and the dead kept connections (client, path) *)
Record state := { s_cells : list msg; s_dead : list (nat * nat) }.

Definition init_state (w : world) : state :=
  {| s_cells := map (fun _ => zero_msg) (w_regs w); s_dead := [] |}.

Definition pair_eqb (a b : nat * nat) : bool := Nat.eqb (fst a) (fst b) && Nat.eqb (snd a) (snd b).
Definition is_dead (d : list (nat * nat)) (c p : nat) : bool := existsb (pair_eqb (c, p)) d.

Definition step (fl : flags) (w : world) (clients : list ckind) (st : state) (cr : creq) : state * reply :=
  match c_req cr with
  | QRest q =>
      let (cells, rep) := rest_step (fix_f17 fl) (w_regs w) (s_cells st) q in
      ({| s_cells := cells; s_dead := s_dead st |}, rep)
  | QWs path b =>
      match nth_error clients (c_client cr) with
      | None => (st, RErr EOther "")
      | Some ck =>
          let dead := is_dead (s_dead st) (c_client cr) path in
          let (dead', rep) := client_send (fix_keep fl) (ck_keep ck) (w_ws w) dead
                                {| w_svc := ck_svc ck; w_path := path; w_body := b |} in
          ({| s_cells := s_cells st;
              s_dead := if dead' && negb dead then (c_client cr, path) :: s_dead st else s_dead st |}, rep)
      end
  end.

Fixpoint run (fl : flags) (w : world) (clients : list ckind) (st : state) (l : list creq) : state * list reply :=
  match l with
  | [] => (st, [])
  | cr :: r =>
      let (st1, rep) := step fl w clients st cr in
      let (st2, reps) := run fl w clients st1 r in
      (st2, rep :: reps)
  end.

(* ---------- the repaired model's reply from the initial state ------------------------- *)

(* [fixed_reply]: what the model with all repairs answers to one request in the initial
   state.  It is a MODEL quantity (defined through [step]); the specification of the
   property is Api/Spec.v:spec_reply, and Api/SpecProofs.v relates the two. *)
Definition all_fixed : flags := {| fix_f17 := true; fix_keep := true |}.
Definition pinned : flags := {| fix_f17 := false; fix_keep := false |}.

Definition fixed_reply (w : world) (clients : list ckind) (cr : creq) : reply :=
  snd (step all_fixed w clients (init_state w) cr).
