(* C14 -- proofs about concurrent rounds (Api/RestConc.v).

     conc_fixed_spec        repaired code: for EVERY interleaving of the atomic steps of the
                            requests of a round, a finished request carries fixed_reply(request)
     conc_pinned_refuted    pinned code: two complete, different POSTs; one interleaving
                            answers the first with the second's content
     seq_sched_is_run       the one-after-the-other schedule is the sequential model
     conc_pinned_sound      pinned code: whatever the interleaving, every reply is
                            accepted by [admissible] (the relation used by the correspondence
                            check over-approximates the interleaving semantics)
     conc_pinned_next_abstracts, scenario_ok_sound
                            ... and [round_next] describes the state every interleaving leaves,
                            so [scenario_ok] accepts every execution of a whole scenario
     scenario_ok_fixed_spec repaired code: [scenario_ok] accepts the specification *)
From Coq Require Import List String Ascii ZArith NArith Bool Lia.
Import ListNotations.
From Onet Require Import Api.Rest Api.RestConc Api.RestProofs.
Local Open Scope string_scope.

(* ---------- list helpers ------------------------------------------------------ *)

Lemma firstn_S_nth {A} (l : list A) n x :
  nth_error l n = Some x -> firstn (S n) l = (firstn n l ++ [x])%list.
Proof.
  revert n; induction l as [|a l IH]; intros [|n] H; simpl in *; try discriminate.
  - now injection H as ->.
  - f_equal. now apply IH.
Qed.

Lemma firstn_nth_none {A} (l : list A) n : nth_error l n = None -> firstn n l = l.
Proof. intro H. apply firstn_all2. now apply nth_error_None. Qed.

Lemma nth_error_map_some {A B} (f : A -> B) l n b :
  nth_error (map f l) n = Some b -> exists a, nth_error l n = Some a /\ b = f a.
Proof.
  revert n; induction l as [|a l IH]; intros [|n] H; simpl in *; try discriminate.
  - injection H as <-. eauto.
  - now apply IH.
Qed.

Lemma nth_error_set_nth {A} (l : list A) i j x y :
  nth_error (set_nth l i x) j = Some y ->
  (i = j /\ y = x /\ i < List.length l) \/ (i <> j /\ nth_error l j = Some y).
Proof.
  intro H. destruct (Nat.eq_dec i j) as [<-|N].
  - left. assert (i < List.length l) as Hl.
    { rewrite <- (set_nth_length l i x). apply nth_error_Some. congruence. }
    rewrite nth_error_set_nth_same in H by exact Hl. injection H as <-. auto.
  - right. rewrite nth_error_set_nth_other in H by exact N. auto.
Qed.

(* ---------- repaired code: every interleaving ---------------------------------- *)

Section Fixed.
Variables (w : world) (clients : list ckind) (rd : list creq).

(* what is known about one thread *)
Definition tinv (cr : creq) (t : thread) : Prop :=
  th_req t = cr /\
  match th_rep t with
  | Some rep => rep = fixed_reply w clients cr
  | None =>
      match c_req cr with
      | QRest q =>
          match nth_error (w_regs w) (q_res q) with
          | Some r => th_priv t = apply_writes zero_msg (firstn (th_pc t) (p_writes (rest_plan r q)))
          | None => True
          end
      | QWs _ _ => True
      end
  end.

Definition ginv (g : gstate) : Prop :=
  List.length (g_cells g) = List.length (w_regs w) /\ g_dead g = [] /\
  forall i t, nth_error (g_threads g) i = Some t -> exists cr, nth_error rd i = Some cr /\ tinv cr t.

Lemma ginv_start st : wf_state w st -> ginv (start st rd).
Proof.
  intros [HL HD]. split; [exact HL|]. split; [exact HD|].
  intros i t H. simpl in H. apply nth_error_map_some in H as [cr [H ->]].
  exists cr. split; [exact H|]. split; [reflexivity|]. simpl.
  destruct (c_req cr) as [q|]; [|exact I]. destruct (nth_error (w_regs w) (q_res q)); [reflexivity|exact I].
Qed.

Lemma ginv_update g i t t' cr :
  ginv g -> nth_error (g_threads g) i = Some t -> nth_error rd i = Some cr -> tinv cr t' ->
  ginv {| g_cells := g_cells g; g_dead := g_dead g; g_threads := set_nth (g_threads g) i t' |}.
Proof.
  intros [HL [HD HT]] Hi Hcr Ht'. split; [exact HL|]. split; [exact HD|].
  intros j u Hj. simpl in Hj. apply nth_error_set_nth in Hj as [[<- [-> _]]|[N Hj]].
  - eauto.
  - now apply HT.
Qed.

Lemma cstep_ginv g i : ginv g -> ginv (cstep all_fixed w clients g i).
Proof.
  intros Hg. pose proof Hg as [HL [HD HT]]. unfold cstep.
  destruct (nth_error (g_threads g) i) as [t|] eqn:Et; [|exact Hg].
  destruct (th_rep t) as [rep|] eqn:Er; [exact Hg|].
  destruct (HT i t Et) as [cr [Hcr [Hreq Hti]]]. rewrite Er in Hti. rewrite Hreq.
  destruct (c_req cr) as [q|path b] eqn:Ec.
  - (* REST *)
    assert (fixed_reply w clients cr = rest_reply (w_regs w) q) as Hspec.
    { rewrite spec_closed_form. unfold model_reply. now rewrite Ec. }
    unfold rest_reply in Hspec.
    destruct (nth_error (w_regs w) (q_res q)) as [r|] eqn:Ereg.
    + destruct (nth_error_same_length _ (g_cells g) _ _ (eq_sym HL) Ereg) as [cell Ecell]. rewrite Ecell.
      destruct (routed r q) eqn:Ert.
      * change (fix_f17 all_fixed) with true. cbv iota.
        destruct (nth_error (p_writes (rest_plan r q)) (th_pc t)) as [wr|] eqn:Ew.
        -- eapply ginv_update; eauto. split; [reflexivity|].
           cbn [th_rep th_priv th_pc th_req]. rewrite Ec, Ereg.
           rewrite (firstn_S_nth _ _ _ Ew), apply_writes_app, <- Hti. reflexivity.
        -- eapply ginv_update; eauto. split; [exact Hreq|].
           unfold done_with. cbn [th_rep th_priv th_pc th_req].
           rewrite Hspec, Hti, (firstn_nth_none _ _ Ew). reflexivity.
      * eapply ginv_update; eauto. split; [exact Hreq|].
        unfold done_with. cbn [th_rep th_priv th_pc th_req]. now rewrite Hspec.
    + eapply ginv_update; eauto. split; [exact Hreq|].
      unfold done_with. cbn [th_rep th_priv th_pc th_req]. now rewrite Hspec.
  - (* websocket *)
    pose proof (step_fixed w clients {| s_cells := g_cells g; s_dead := g_dead g |} cr) as Hs.
    destruct Hs as [Hs1 [Hs2 Hs3]]; [split; assumption|].
    destruct (step all_fixed w clients {| s_cells := g_cells g; s_dead := g_dead g |} cr) as [st' rep] eqn:Est.
    cbn [fst snd] in *.
    split; [exact HL|]. split; [exact Hs3|].
    intros j u Hj. cbn [g_threads] in Hj. apply nth_error_set_nth in Hj as [[<- [-> _]]|[N Hj]].
    + exists cr. split; [exact Hcr|]. split; [exact Hreq|]. simpl. exact Hs1.
    + now apply HT.
Qed.

Lemma crun_ginv sched : forall g, ginv g -> ginv (crun all_fixed w clients g sched).
Proof.
  induction sched as [|i sched IH]; intros g Hg; [exact Hg|].
  simpl. apply IH. now apply cstep_ginv.
Qed.

End Fixed.

(* C14, concurrent form.  Repaired code, any state left by any earlier history, any
   requests in flight together, ANY interleaving of their atomic steps (field
   writes of the decoding, handler call): a request that has been answered has
   been answered with the reply computed from that request alone. *)
Theorem conc_fixed_spec w clients st rd sched i t rep :
  wf_state w st ->
  nth_error (g_threads (crun all_fixed w clients (start st rd) sched)) i = Some t ->
  th_rep t = Some rep ->
  exists cr, nth_error rd i = Some cr /\ rep = fixed_reply w clients cr.
Proof.
  intros Hwf Ht Hr.
  pose proof (crun_ginv w clients rd sched _ (ginv_start w clients rd st Hwf)) as [_ [_ HT]].
  destruct (HT i t Ht) as [cr [Hcr [_ Hti]]]. rewrite Hr in Hti. eauto.
Qed.

(* ... and the state it leaves behind is again a state from which this holds *)
Theorem conc_fixed_state w clients st rd sched :
  wf_state w st ->
  let g := crun all_fixed w clients (start st rd) sched in
  wf_state w {| s_cells := g_cells g; s_dead := g_dead g |}.
Proof.
  intros Hwf.
  pose proof (crun_ginv w clients rd sched _ (ginv_start w clients rd st Hwf)) as [HL [HD _]].
  split; assumption.
Qed.

(* the hypotheses are satisfiable and the conclusion is not vacuous: a round of
   three requests, an interleaved schedule, all three answered *)
Definition demo_round : list creq :=
  [ post (BObj [("S", JStr "one" None); ("I", JNum 1)]);
    post (BObj [("S", JStr "fail-2" None)]);
    wsreq 0 "three" ].

Example conc_fixed_example :
  replies (crun all_fixed demo_world [CKind true true] (start (init_state demo_world) demo_round)
                [0; 1; 0; 2; 1; 0]) =
  [Some (ROk 10 (Msg "one" 1 false "")); Some (RErr EHandler "fail-2"); Some (ROk 1 (Msg "three" 0 false ""))].
Proof. vm_compute. reflexivity. Qed.

(* ---------- pinned code: a refuting interleaving -------------------------------- *)

Definition full_post (s : string) (i : Z) : creq :=
  post (BObj [("S", JStr s None); ("I", JNum i); ("B", JBool true); ("D", JNull)]).

(* Both requests set every field (no omission anywhere); thread 0 decodes, thread 1
   decodes, then both call their handler: request 0 is answered with request 1's content. *)
Theorem conc_pinned_refuted :
  let rd := [full_post "alice" 1; full_post "bob" 2] in
  let g := crun pinned demo_world [CKind true true] (start (init_state demo_world) rd)
                [0; 0; 0; 0; 1; 1; 1; 1; 0; 1] in
  replies g = [Some (ROk 10 (Msg "bob" 2 true "")); Some (ROk 10 (Msg "bob" 2 true ""))] /\
  map (fixed_reply demo_world [CKind true true]) rd =
    [ROk 10 (Msg "alice" 1 true ""); ROk 10 (Msg "bob" 2 true "")].
Proof. split; vm_compute; reflexivity. Qed.

(* the same round on the repaired code, same interleaving *)
Example conc_fixed_same_schedule :
  replies (crun all_fixed demo_world [CKind true true]
                (start (init_state demo_world) [full_post "alice" 1; full_post "bob" 2])
                [0; 0; 0; 0; 1; 1; 1; 1; 0; 1]) =
  [Some (ROk 10 (Msg "alice" 1 true "")); Some (ROk 10 (Msg "bob" 2 true ""))].
Proof. vm_compute. reflexivity. Qed.

(* ====================== pinned code: [admissible] is sound ====================== *)

(* ---------- helpers ------------------------------------------------------------- *)

Lemma skipn_nth_some {A} (l : list A) n x :
  nth_error l n = Some x -> skipn n l = x :: skipn (S n) l.
Proof.
  revert n; induction l as [|a l IH]; intros [|n] H; simpl in *; try discriminate.
  - now injection H as ->.
  - now apply IH.
Qed.

Lemma skipn_nth_none {A} (l : list A) n : nth_error l n = None -> skipn n l = [].
Proof. intro H. apply skipn_all2. now apply nth_error_None. Qed.

Lemma last_opt_app_single {A} (l : list A) x : last_opt (l ++ [x]) = Some x.
Proof.
  induction l as [|a l IH]; [reflexivity|].
  change ((a :: l) ++ [x])%list with (a :: (l ++ [x]))%list. rewrite last_opt_cons, IH. reflexivity.
Qed.

Lemma writes_to_app k a b : writes_to k (a ++ b) = (writes_to k a ++ writes_to k b)%list.
Proof. apply filter_app. Qed.

Lemma writes_to_in k ws x : In x (writes_to k ws) <-> In x ws /\ fld_of x = k.
Proof. unfold writes_to. rewrite filter_In, fld_eqb_eq. tauto. Qed.

Lemma last_write_of_suffix k ws pc wr :
  nth_error ws pc = Some wr -> fld_of wr = k -> writes_to k (skipn (S pc) ws) = [] ->
  last_write k ws = Some wr.
Proof.
  intros Hn Hk Hs. unfold last_write.
  rewrite <- (firstn_skipn pc ws), (skipn_nth_some _ _ _ Hn), writes_to_app.
  change (wr :: skipn (S pc) ws) with ([wr] ++ skipn (S pc) ws)%list.
  rewrite writes_to_app, Hs, app_nil_r.
  unfold writes_to at 2. simpl. rewrite Hk, fld_eqb_refl. apply last_opt_app_single.
Qed.

Lemma last_write_none_writes k ws : last_write k ws = None -> writes_to k ws = [].
Proof. unfold last_write. apply last_opt_none. Qed.

Lemma mem_write_in x l : mem_write x l = true <-> In x l.
Proof.
  unfold mem_write. rewrite existsb_exists. split.
  - intros [y [Hy E]]. apply write_eqb_eq in E. now subst.
  - intro H. exists x. split; [exact H|now apply write_eqb_eq].
Qed.

Lemma agree_reply_refl r : agree_reply r r = true.
Proof. unfold agree_reply. now rewrite reply_eqb_refl. Qed.

(* ---------- the handler's reply determines enough of its argument ----------------- *)

Lemma prefix_not_empty p s : String.prefix p s = true -> String.prefix p "empty" = false -> String.eqb s "empty" = false.
Proof.
  intros H1 H2. destruct (String.eqb s "empty") eqn:E; [|reflexivity].
  apply String.eqb_eq in E. subst. congruence.
Qed.

Lemma apply_four base m :
  apply_writes base [WS (mS m); WI (mI m); WB (mB m); WD (mD m)] = m.
Proof. destruct m, base; reflexivity. Qed.

Lemma inv_handler_complete h tag arg base :
  exists constr,
    inv_handler h (hres_reply tag (handler h arg)) = Some constr /\
    (forall x, In x constr -> x = get (fld_of x) arg) /\
    hres_reply tag (handler h (apply_writes base constr)) = hres_reply tag (handler h arg).
Proof.
  destruct h.
  - (* strict *)
    unfold handler, by_S.
    destruct (String.prefix "fail" (mS arg)) eqn:Ef.
    { exists [WS (mS arg)]. cbn -[apply_writes]. rewrite (prefix_not_empty _ _ Ef eq_refl).
      split; [reflexivity|]. split; [intros x [<-|[]]; reflexivity|].
      destruct base; unfold apply_writes; simpl. now rewrite Ef. }
    destruct (String.prefix "panic" (mS arg)) eqn:Ep.
    { exists [WS (mS arg)]. cbn -[apply_writes].
      split; [reflexivity|]. split; [intros x [<-|[]]; reflexivity|].
      destruct base; unfold apply_writes; simpl. now rewrite Ef, Ep. }
    destruct (String.eqb (mS arg) "") eqn:Ee.
    { apply String.eqb_eq in Ee. exists [WS ""]. cbn -[apply_writes].
      split; [reflexivity|]. split; [intros x [<-|[]]; simpl; now rewrite Ee|].
      destruct base; reflexivity. }
    exists [WS (mS arg); WI (mI arg); WB (mB arg); WD (mD arg)]. cbn -[apply_writes].
    split; [reflexivity|]. split.
    { intros x [<-|[<-|[<-|[<-|[]]]]]; reflexivity. }
    rewrite apply_four. now rewrite Ef, Ep, Ee.
  - (* lenient *)
    unfold handler, by_S.
    destruct (String.prefix "fail" (mS arg)) eqn:Ef.
    { exists [WS (mS arg)]. cbn -[apply_writes].
      split; [reflexivity|]. split; [intros x [<-|[]]; reflexivity|].
      destruct base; unfold apply_writes; simpl. now rewrite Ef. }
    destruct (String.prefix "panic" (mS arg)) eqn:Ep.
    { exists [WS (mS arg)]. cbn -[apply_writes].
      split; [reflexivity|]. split; [intros x [<-|[]]; reflexivity|].
      destruct base; unfold apply_writes; simpl. now rewrite Ef, Ep. }
    exists [WS (mS arg); WI (mI arg); WB (mB arg); WD (mD arg)]. cbn -[apply_writes].
    rewrite negb_involutive.
    split; [reflexivity|]. split.
    { intros x [<-|[<-|[<-|[<-|[]]]]]; reflexivity. }
    rewrite apply_four. now rewrite Ef, Ep.
  - (* const *)
    exists []. simpl. split; [reflexivity|]. split; [intros x []|reflexivity].
  - (* int *)
    unfold handler.
    destruct (Z.eqb (mI arg) 13) eqn:E13.
    { apply Z.eqb_eq in E13. exists [WI 13%Z]. cbn -[apply_writes].
      split; [reflexivity|]. split; [intros x [<-|[]]; simpl; now rewrite E13|].
      destruct base; reflexivity. }
    destruct (Z.eqb (mI arg) 666) eqn:E666.
    { apply Z.eqb_eq in E666. exists [WI 666%Z]. cbn -[apply_writes].
      split; [reflexivity|]. split; [intros x [<-|[]]; simpl; now rewrite E666|].
      destruct base; reflexivity. }
    exists [WI (mI arg)]. cbn -[apply_writes].
    split; [reflexivity|]. split; [intros x [<-|[]]; reflexivity|].
    destruct base; unfold apply_writes; simpl. now rewrite E13, E666.
  - (* bytes *)
    unfold handler.
    destruct (String.prefix "ff" (mD arg)) eqn:Ef.
    { exists [WD (mD arg)]. cbn -[apply_writes].
      split; [reflexivity|]. split; [intros x [<-|[]]; reflexivity|].
      destruct base; unfold apply_writes; simpl. now rewrite Ef. }
    destruct (String.prefix "ee" (mD arg)) eqn:Ee.
    { exists [WD (mD arg)]. cbn -[apply_writes].
      split; [reflexivity|]. split; [intros x [<-|[]]; reflexivity|].
      destruct base; unfold apply_writes; simpl. now rewrite Ef, Ee. }
    exists [WD (mD arg)]. cbn -[apply_writes].
    split; [reflexivity|]. split; [intros x [<-|[]]; reflexivity|].
    destruct base; unfold apply_writes; simpl. now rewrite Ef, Ee.
  - (* acknowledge only *)
    exists []. simpl. split; [reflexivity|]. split; [intros x []|reflexivity].
Qed.

(* if every field of the argument the handler saw is among the candidates, the reply is [explained] *)
Lemma explained_complete r tornable cs arg :
  (forall k, In (get k arg) (cs k)) ->
  explained r tornable cs (hres_reply (r_tag r) (handler (r_h r) arg)) = true.
Proof.
  intro H. unfold explained.
  pose proof (H FS) as HS; pose proof (H FI) as HI; pose proof (H FB) as HB; pose proof (H FD) as HD.
  destruct (cs FS) as [|s ls] eqn:ES; [destruct HS|].
  destruct (cs FI) as [|i li] eqn:EI; [destruct HI|].
  destruct (cs FB) as [|b lb] eqn:EB; [destruct HB|].
  destruct (cs FD) as [|d ld] eqn:ED; [destruct HD|].
  destruct (inv_handler_complete (r_h r) (r_tag r) arg (apply_writes zero_msg [s; i; b; d]))
    as [constr [E1 [E2 E3]]].
  rewrite E1. apply andb_true_iff. split.
  - apply forallb_forall. intros x Hx. unfold cand_ok. apply orb_true_iff. left. apply mem_write_in.
    pose proof (H (fld_of x)) as Hk. rewrite <- (E2 x Hx) in Hk. exact Hk.
  - rewrite E3. apply reply_eqb_refl.
Qed.

(* ---------- the invariant of a pinned round --------------------------------------- *)

Section Pinned.
Variables (w : world) (clients : list ckind) (rd : list creq) (a : astate).
Hypothesis Ha_len : List.length (a_cells a) = List.length (w_regs w).

(* request number j of the round is routed to registration ri and performs write x *)
Definition wrote_by (j ri : nat) (x : write) : Prop :=
  exists cr r p, nth_error rd j = Some cr /\ routed_plan w cr = Some (ri, r, p) /\ In x (p_writes p).

Lemma other_writes_in_gen : forall l ri i j0 x,
  In x (other_writes w l ri i j0) <->
  exists j cr r p, nth_error l j = Some cr /\ j0 + j <> i /\
                   routed_plan w cr = Some (ri, r, p) /\ In x (p_writes p).
Proof.
  induction l as [|cr l IH]; intros ri i j0 x; simpl.
  - split; [intros []|]. intros [j [cr [r [p [H _]]]]]. destruct j; discriminate.
  - rewrite in_app_iff, IH. split.
    + intros [H|[j [cr' [r [p [H1 [H2 [H3 H4]]]]]]]].
      * destruct (Nat.eqb i j0) eqn:E; [destruct H|]. apply Nat.eqb_neq in E.
        destruct (routed_plan w cr) as [[[rj r] p]|] eqn:Ep; [|destruct H].
        destruct (Nat.eqb rj ri) eqn:Er; [|destruct H]. apply Nat.eqb_eq in Er. subst rj.
        exists 0, cr, r, p. repeat split; auto. lia.
      * exists (S j), cr', r, p. repeat split; auto. lia.
    + intros [[|j] [cr' [r [p [H1 [H2 [H3 H4]]]]]]].
      * simpl in H1. injection H1 as <-. left.
        destruct (Nat.eqb i j0) eqn:E; [apply Nat.eqb_eq in E; lia|].
        rewrite H3, Nat.eqb_refl. exact H4.
      * right. exists j, cr', r, p. repeat split; auto. lia.
Qed.

Lemma other_writes_in ri i x :
  In x (other_writes w rd ri i 0) <-> exists j, j <> i /\ wrote_by j ri x.
Proof.
  rewrite other_writes_in_gen. unfold wrote_by. split.
  - intros [j [cr [r [p [H1 [H2 [H3 H4]]]]]]]. exists j. split; [lia|]. exists cr, r, p. auto.
  - intros [j [Hj [cr [r [p [H1 [H3 H4]]]]]]]. exists j, cr, r, p. repeat split; auto.
Qed.

Lemma routed_plan_rest cr q r :
  c_req cr = QRest q -> nth_error (w_regs w) (q_res q) = Some r -> routed r q = true ->
  routed_plan w cr = Some (q_res q, r, rest_plan r q).
Proof. intros H1 H2 H3. unfold routed_plan. now rewrite H1, H2, H3. Qed.

Lemma routed_plan_inv cr ri r p :
  routed_plan w cr = Some (ri, r, p) ->
  exists q, c_req cr = QRest q /\ ri = q_res q /\ nth_error (w_regs w) ri = Some r /\
            routed r q = true /\ p = rest_plan r q.
Proof.
  unfold routed_plan. destruct (c_req cr) as [q|]; [|discriminate].
  destruct (nth_error (w_regs w) (q_res q)) as [r'|] eqn:E; [|discriminate].
  destruct (routed r' q) eqn:Er; [|discriminate].
  intros [= <- <- <-]. exists q. auto.
Qed.

Lemma routed_plan_ws cr path b : c_req cr = QWs path b -> routed_plan w cr = None.
Proof. intro H. unfold routed_plan. now rewrite H. Qed.

(* the invariant of a pinned round *)
Definition done (t : thread) : Prop := th_rep t <> None.

Record pinv (g : gstate) : Prop := {
  pi_len : List.length (g_cells g) = List.length (w_regs w);
  pi_nthreads : List.length (g_threads g) = List.length rd;
  pi_req : forall i t, nth_error (g_threads g) i = Some t -> nth_error rd i = Some (th_req t);
  pi_cell : forall ri cell ac k,
      nth_error (g_cells g) ri = Some cell -> nth_error (a_cells a) ri = Some ac ->
      In (get k cell) (writes_to k ac) \/ exists j, wrote_by j ri (get k cell);
  pi_last : forall i t ri r p cell k x,
      nth_error (g_threads g) i = Some t -> routed_plan w (th_req t) = Some (ri, r, p) ->
      nth_error (g_cells g) ri = Some cell ->
      last_write k (p_writes p) = Some x -> writes_to k (skipn (th_pc t) (p_writes p)) = [] ->
      get k cell = x \/ exists j, j <> i /\ wrote_by j ri (get k cell);
  pi_adm : forall i t rep,
      nth_error (g_threads g) i = Some t -> th_rep t = Some rep ->
      admissible pinned w clients a rd i (th_req t) rep = true;
  pi_dead : forall c p, is_dead (g_dead g) c p = true ->
      is_dead (a_dead a) c p = true \/
      exists j t q, nth_error (g_threads g) j = Some t /\ done t /\
                    ws_req_of clients (th_req t) = Some (c, p, true, q) /\
                    is_err (ws_handle (w_ws w) q) = true;
  pi_dead_mono : forall c p, is_dead (a_dead a) c p = true -> is_dead (g_dead g) c p = true;
  (* an answered REST request has performed all its writes *)
  pi_pc : forall i t ri r p, nth_error (g_threads g) i = Some t -> done t ->
      routed_plan w (th_req t) = Some (ri, r, p) -> List.length (p_writes p) <= th_pc t;
  (* an answered failing request of a keeping client has left its connection dead *)
  pi_wsdead : forall i t c p q, nth_error (g_threads g) i = Some t -> done t ->
      ws_req_of clients (th_req t) = Some (c, p, true, q) -> is_err (ws_handle (w_ws w) q) = true ->
      is_dead (g_dead g) c p = true;
  (* a cell field holds its initial value while no thread has written it, and otherwise
     the last write to it that some thread has executed so far *)
  pi_final : forall ri cell ac k,
      nth_error (g_cells g) ri = Some cell -> nth_error (a_cells a) ri = Some ac ->
      (In (get k cell) (writes_to k ac) /\
       forall j t r p, nth_error (g_threads g) j = Some t -> routed_plan w (th_req t) = Some (ri, r, p) ->
                       writes_to k (firstn (th_pc t) (p_writes p)) = []) \/
      (exists j t r p, nth_error (g_threads g) j = Some t /\ routed_plan w (th_req t) = Some (ri, r, p) /\
                       last_write k (firstn (th_pc t) (p_writes p)) = Some (get k cell))
}.


Definition abstracts (st : state) : Prop :=
  List.length (s_cells st) = List.length (w_regs w) /\
  (forall ri cell ac k, nth_error (s_cells st) ri = Some cell -> nth_error (a_cells a) ri = Some ac ->
                        In (get k cell) (writes_to k ac)) /\
  (forall c p, is_dead (s_dead st) c p = is_dead (a_dead a) c p).

Lemma pinv_start st : abstracts st -> pinv (start st rd).
Proof.
  intros [HL [HC HD]]. constructor; simpl.
  - exact HL.
  - apply map_length.
  - intros i t H. apply nth_error_map_some in H as [cr [H ->]]. exact H.
  - intros ri cell ac k H1 H2. left. eapply HC; eauto.
  - intros i t ri r p cell k x H _ _ Hl Hs. apply nth_error_map_some in H as [cr [H ->]].
    simpl in Hs. unfold last_write in Hl. rewrite Hs in Hl. discriminate.
  - intros i t rep H Hr. apply nth_error_map_some in H as [cr [H ->]]. discriminate.
  - intros c p H. left. now rewrite <- HD.
  - intros c p H. now rewrite HD.
  - intros i t ri r p H Hd. apply nth_error_map_some in H as [cr [H ->]]. now destruct Hd.
  - intros i t c p q H Hd. apply nth_error_map_some in H as [cr [H ->]]. now destruct Hd.
  - intros ri cell ac k H1 H2. left. split; [eapply HC; eauto|].
    intros j t r p H _. apply nth_error_map_some in H as [cr [H ->]]. reflexivity.
Qed.

(* a step that touches one thread, no cell, and possibly the dead-connection table *)
Lemma pinv_thread_update g i t t' dead' :
  pinv g -> nth_error (g_threads g) i = Some t -> th_rep t = None -> th_req t' = th_req t ->
  (forall ri r p k, routed_plan w (th_req t) = Some (ri, r, p) ->
     writes_to k (skipn (th_pc t') (p_writes p)) = [] -> writes_to k (skipn (th_pc t) (p_writes p)) = []) ->
  (forall rep, th_rep t' = Some rep -> admissible pinned w clients a rd i (th_req t) rep = true) ->
  (forall c p, is_dead dead' c p = true -> is_dead (g_dead g) c p = true \/
     (done t' /\ exists q, ws_req_of clients (th_req t) = Some (c, p, true, q) /\
                           is_err (ws_handle (w_ws w) q) = true)) ->
  (forall c p, is_dead (g_dead g) c p = true -> is_dead dead' c p = true) ->
  (forall ri r p, routed_plan w (th_req t) = Some (ri, r, p) ->
     firstn (th_pc t') (p_writes p) = firstn (th_pc t) (p_writes p) /\
     (done t' -> List.length (p_writes p) <= th_pc t')) ->
  (forall c p q, done t' -> ws_req_of clients (th_req t) = Some (c, p, true, q) ->
     is_err (ws_handle (w_ws w) q) = true -> is_dead dead' c p = true) ->
  pinv {| g_cells := g_cells g; g_dead := dead'; g_threads := set_nth (g_threads g) i t' |}.
Proof.
  intros Hg Hi Hnd Hreq Hlast Hadm Hdead Hmono Hpc Hws.
  destruct Hg as [HL HN HR HC HLa HA HD HM HP HW HF].
  constructor; cbn [g_cells g_dead g_threads].
  - exact HL.
  - now rewrite set_nth_length.
  - intros j u Hj. apply nth_error_set_nth in Hj as [[<- [-> _]]|[N Hj]].
    + rewrite Hreq. now apply HR.
    + now apply HR.
  - exact HC.
  - intros j u ri r p cell k x Hj Hp Hcell Hl Hs.
    apply nth_error_set_nth in Hj as [[<- [-> _]]|[N Hj]].
    + rewrite Hreq in Hp. eapply HLa; eauto.
    + eapply HLa; eauto.
  - intros j u rep Hj Hr. apply nth_error_set_nth in Hj as [[<- [-> _]]|[N Hj]].
    + rewrite Hreq. now apply Hadm.
    + eapply HA; eauto.
  - intros c p H. destruct (Hdead c p H) as [H1|[Hdn [q [Hq He]]]].
    + destruct (HD c p H1) as [H2|[j [u [q [Hj [Hdu [Hq He]]]]]]]; [now left|].
      right. exists j, u, q. repeat split; auto.
      rewrite nth_error_set_nth_other; [exact Hj|].
      intros <-. rewrite Hi in Hj. injection Hj as <-. now apply Hdu.
    + right. exists i, t', q. repeat split; auto.
      * apply nth_error_set_nth_same. apply nth_error_Some. congruence.
      * now rewrite Hreq.
  - intros c p H. apply Hmono. now apply HM.
  - intros j u ri r p Hj Hdu Hp. apply nth_error_set_nth in Hj as [[<- [-> _]]|[N Hj]].
    + rewrite Hreq in Hp. now apply (Hpc ri r p Hp).
    + eapply HP; eauto.
  - intros j u c p q Hj Hdu Hq He. apply nth_error_set_nth in Hj as [[<- [-> _]]|[N Hj]].
    + rewrite Hreq in Hq. eapply Hws; eauto.
    + apply Hmono. eapply HW; eauto.
  - intros ri cell ac k Hcell Hac. destruct (HF ri cell ac k Hcell Hac) as [[Hin Hall]|[j [u [r [p [Hj [Hp Hl]]]]]]].
    + left. split; [exact Hin|]. intros j u r p Hj Hp.
      apply nth_error_set_nth in Hj as [[<- [-> _]]|[N Hj]].
      * rewrite Hreq in Hp. rewrite (proj1 (Hpc ri r p Hp)). eapply Hall; eauto.
      * eapply Hall; eauto.
    + right. destruct (Nat.eq_dec i j) as [<-|N].
      * rewrite Hi in Hj. injection Hj as <-. exists i, t', r, p. split; [|split].
        -- apply nth_error_set_nth_same. apply nth_error_Some. congruence.
        -- now rewrite Hreq.
        -- now rewrite (proj1 (Hpc ri r p Hp)).
      * exists j, u, r, p. split; [|split; assumption]. now rewrite nth_error_set_nth_other.
Qed.

Lemma writes_to_cons_other k x l : fld_of x <> k -> writes_to k (x :: l) = writes_to k l.
Proof. intro H. unfold writes_to. simpl. apply fld_eqb_neq in H. now rewrite H. Qed.

(* one field write of thread i on the shared cell of its registration *)
Lemma pinv_write g i t ri r p cell wr :
  pinv g -> nth_error (g_threads g) i = Some t -> th_rep t = None ->
  routed_plan w (th_req t) = Some (ri, r, p) -> nth_error (g_cells g) ri = Some cell ->
  nth_error (p_writes p) (th_pc t) = Some wr ->
  pinv {| g_cells := set_nth (g_cells g) ri (upd cell wr); g_dead := g_dead g;
          g_threads := set_nth (g_threads g) i
             {| th_req := th_req t; th_pc := S (th_pc t); th_priv := th_priv t; th_rep := None |} |}.
Proof.
  intros Hg Hi Hnd Hp Hcell Hw. destruct Hg as [HL HN HR HC HLa HA HD HM HP HW HF].
  assert (wrote_by i ri wr) as Hwb.
  { exists (th_req t), r, p. repeat split; auto. eapply nth_error_In; eauto. }
  assert (ri < List.length (g_cells g)) as Hri by (apply nth_error_Some; congruence).
  constructor; cbn [g_cells g_dead g_threads].
  - now rewrite set_nth_length.
  - now rewrite set_nth_length.
  - intros j u Hj. apply nth_error_set_nth in Hj as [[<- [-> _]]|[N Hj]]; [cbn [th_req]; now apply HR|now apply HR].
  - intros ri' cell' ac k H1 H2. apply nth_error_set_nth in H1 as [[<- [-> _]]|[N H1]].
    + destruct (fld_eqb (fld_of wr) k) eqn:E.
      * apply fld_eqb_eq in E. subst k. rewrite get_upd_same. right. exists i. exact Hwb.
      * apply fld_eqb_neq in E. rewrite get_upd_other by exact E. eapply HC; eauto.
    + eapply HC; eauto.
  - intros j u ri' r' p' cell' k x Hj Hp' Hcell' Hl Hs.
    apply nth_error_set_nth in Hj as [[<- [-> _]]|[N Hj]].
    + (* the writing thread itself *)
      cbn [th_req th_pc] in *. rewrite Hp in Hp'. injection Hp' as <- <- <-.
      rewrite nth_error_set_nth_same in Hcell' by exact Hri. injection Hcell' as <-.
      destruct (fld_eqb (fld_of wr) k) eqn:E.
      * apply fld_eqb_eq in E. rewrite (last_write_of_suffix _ _ _ _ Hw E Hs) in Hl. injection Hl as <-.
        left. subst k. apply get_upd_same.
      * apply fld_eqb_neq in E. rewrite get_upd_other by exact E.
        eapply HLa; eauto. rewrite (skipn_nth_some _ _ _ Hw), writes_to_cons_other by exact E. exact Hs.
    + (* another thread *)
      apply nth_error_set_nth in Hcell' as [[<- [-> _]]|[N' Hcell']].
      * destruct (fld_eqb (fld_of wr) k) eqn:E.
        -- apply fld_eqb_eq in E. subst k. rewrite get_upd_same. right. exists i. split; [exact N|exact Hwb].
        -- apply fld_eqb_neq in E. rewrite get_upd_other by exact E. eapply HLa; eauto.
      * eapply HLa; eauto.
  - intros j u rep Hj Hr. apply nth_error_set_nth in Hj as [[<- [-> _]]|[N Hj]]; [discriminate|eapply HA; eauto].
  - intros c p0 H. destruct (HD c p0 H) as [H2|[j [u [q [Hj [Hdu [Hq He]]]]]]]; [now left|].
    right. exists j, u, q. repeat split; auto.
    rewrite nth_error_set_nth_other; [exact Hj|].
    intros <-. rewrite Hi in Hj. injection Hj as <-. now apply Hdu.
  - exact HM.
  - intros j u ri' r' p' Hj Hdu Hp'. apply nth_error_set_nth in Hj as [[<- [-> _]]|[N Hj]].
    + now destruct Hdu.
    + eapply HP; eauto.
  - intros j u c p0 q Hj Hdu Hq He. apply nth_error_set_nth in Hj as [[<- [-> _]]|[N Hj]].
    + now destruct Hdu.
    + eapply HW; eauto.
  - intros ri' cell' ac k Hcell' Hac.
    assert (i < List.length (g_threads g)) as Hil by (apply nth_error_Some; congruence).
    apply nth_error_set_nth in Hcell' as [[<- [-> _]]|[N' Hcell']].
    + (* the written cell *)
      destruct (fld_eqb (fld_of wr) k) eqn:E.
      * right. eexists i, _, r, p. split; [now apply nth_error_set_nth_same|]. split; [exact Hp|].
        cbn [th_pc]. rewrite (firstn_S_nth _ _ _ Hw). unfold last_write. rewrite writes_to_app.
        unfold writes_to at 2. simpl. rewrite E. rewrite last_opt_app_single.
        apply fld_eqb_eq in E. subst k. now rewrite get_upd_same.
      * pose proof E as E'. apply fld_eqb_neq in E'. rewrite get_upd_other by exact E'.
        destruct (HF ri cell ac k Hcell Hac) as [[Hin Hall]|[j [u [r0 [p0 [Hj [Hp0 Hl]]]]]]].
        -- left. split; [exact Hin|]. intros j u r0 p0 Hj Hp0.
           apply nth_error_set_nth in Hj as [[<- [-> _]]|[N Hj]].
           ++ cbn [th_req th_pc] in *. rewrite Hp in Hp0. injection Hp0 as <- <-.
              rewrite (firstn_S_nth _ _ _ Hw), writes_to_app, (Hall i t r p Hi Hp).
              unfold writes_to. simpl. now rewrite E.
           ++ eapply Hall; eauto.
        -- right. destruct (Nat.eq_dec i j) as [<-|N].
           ++ rewrite Hi in Hj. injection Hj as <-. rewrite Hp in Hp0. injection Hp0 as <- <-.
              eexists i, _, r, p. split; [now apply nth_error_set_nth_same|]. split; [exact Hp|].
              cbn [th_pc]. rewrite (firstn_S_nth _ _ _ Hw). unfold last_write. rewrite writes_to_app.
              unfold writes_to at 2. simpl. rewrite E, app_nil_r. exact Hl.
           ++ exists j, u, r0, p0. split; [now rewrite nth_error_set_nth_other|]. split; assumption.
    + (* another cell *)
      destruct (HF ri' cell' ac k Hcell' Hac) as [[Hin Hall]|[j [u [r0 [p0 [Hj [Hp0 Hl]]]]]]].
      * left. split; [exact Hin|]. intros j u r0 p0 Hj Hp0.
        apply nth_error_set_nth in Hj as [[<- [-> _]]|[N Hj]].
        -- cbn [th_req] in Hp0. rewrite Hp in Hp0. injection Hp0 as E1 _ _. contradiction.
        -- eapply Hall; eauto.
      * right. destruct (Nat.eq_dec i j) as [<-|N].
        -- rewrite Hi in Hj. injection Hj as <-. rewrite Hp in Hp0. injection Hp0 as E1 _ _. contradiction.
        -- exists j, u, r0, p0. split; [now rewrite nth_error_set_nth_other|]. split; assumption.
Qed.


Lemma other_ws_fails_intro : forall l c p i j0 j cr k q,
  nth_error l j = Some cr -> j0 + j <> i -> ws_req_of clients cr = Some (c, p, k, q) ->
  is_err (ws_handle (w_ws w) q) = true -> other_ws_fails w clients l c p i j0 = true.
Proof.
  induction l as [|cr0 l IH]; intros c p i j0 j cr k q Hn Hj Hq He; [destruct j; discriminate|].
  simpl. destruct j as [|j]; simpl in Hn.
  - injection Hn as ->. rewrite Hq, !Nat.eqb_refl, He. simpl.
    replace (Nat.eqb i j0) with false; [reflexivity|]. symmetry. apply Nat.eqb_neq. lia.
  - apply orb_true_iff. right. eapply IH; eauto. lia.
Qed.

Lemma is_dead_cons x l c p : is_dead (x :: l) c p = pair_eqb (c, p) x || is_dead l c p.
Proof. reflexivity. Qed.

Lemma pair_eqb_eq x y : pair_eqb x y = true <-> x = y.
Proof.
  destruct x, y. unfold pair_eqb. simpl. rewrite andb_true_iff, !Nat.eqb_eq.
  split; [intros [-> ->]; reflexivity|intros [= -> ->]; auto].
Qed.

(* what thread i's handler can find in its cell at the moment of the call *)
Lemma call_cands g i t ri r p cell ac :
  pinv g -> nth_error (g_threads g) i = Some t ->
  routed_plan w (th_req t) = Some (ri, r, p) -> nth_error (g_cells g) ri = Some cell ->
  nth_error (a_cells a) ri = Some ac -> nth_error (p_writes p) (th_pc t) = None ->
  forall k, In (get k cell) (cands false ac (p_writes p) (other_writes w rd ri i 0) k).
Proof.
  intros Hg Hi Hp Hcell Hac Hw k. destruct Hg as [HL HN HR HC HLa HA HD HM HP HW HF].
  unfold cands. destruct (last_write k (p_writes p)) as [x|] eqn:El.
  - destruct (HLa i t ri r p cell k x Hi Hp Hcell El) as [E|[j [Nj Hj]]].
    + now rewrite (skipn_nth_none _ _ Hw).
    + left. now symmetry.
    + right. apply writes_to_in. split; [|apply fld_of_get]. apply other_writes_in. eauto.
  - apply in_app_iff. destruct (HC ri cell ac k Hcell Hac) as [H|[j Hj]]; [now left|].
    right. apply writes_to_in. split; [|apply fld_of_get]. apply other_writes_in.
    exists j. split; [|exact Hj]. intros ->.
    destruct Hj as [cr' [r' [p' [H1 [H2 H3]]]]].
    rewrite (HR i t Hi) in H1. injection H1 as <-. rewrite Hp in H2. injection H2 as <- <-.
    apply last_write_none_writes in El.
    assert (In (get k cell) (writes_to k (p_writes p))) as Hin.
    { apply writes_to_in. split; [exact H3|apply fld_of_get]. }
    rewrite El in Hin. destruct Hin.
Qed.

Lemma ws_req_of_rest cr q : c_req cr = QRest q -> ws_req_of clients cr = None.
Proof. intro H. unfold ws_req_of. now rewrite H. Qed.

Lemma cstep_pinv g i : pinv g -> pinv (cstep pinned w clients g i).
Proof.
  intros Hg. pose proof Hg as [HL HN HR HC HLa HA HD HM HP HW HF]. unfold cstep.
  destruct (nth_error (g_threads g) i) as [t|] eqn:Et; [|exact Hg].
  destruct (th_rep t) as [rep|] eqn:Er; [exact Hg|].
  destruct (c_req (th_req t)) as [q|path b] eqn:Ec.
  - (* REST *)
    pose proof (ws_req_of_rest _ _ Ec) as Hnows.
    destruct (nth_error (w_regs w) (q_res q)) as [r|] eqn:Ereg.
    + destruct (nth_error_same_length _ (g_cells g) _ _ (eq_sym HL) Ereg) as [cell Ecell]. rewrite Ecell.
      destruct (routed r q) eqn:Ert.
      * pose proof (routed_plan_rest _ _ _ Ec Ereg Ert) as Hp.
        change (fix_f17 pinned) with false. cbv iota.
        destruct (nth_error (p_writes (rest_plan r q)) (th_pc t)) as [wr|] eqn:Ew.
        -- eapply pinv_write; eauto.
        -- apply pinv_thread_update with (t := t); auto.
           ++ intros ri' r' p' k Hp' _. rewrite Hp in Hp'. injection Hp' as <- <- <-.
              now rewrite (skipn_nth_none _ _ Ew).
           ++ intros rep0 [= <-]. unfold admissible. rewrite Ec, Hp.
              unfold finish. destruct (p_out (rest_plan r q)) as [|rep0]; [|apply agree_reply_refl].
              destruct (nth_error_same_length _ (a_cells a) _ _ (eq_sym Ha_len) Ereg) as [ac Eac]. rewrite Eac.
              apply explained_complete. eapply call_cands; eauto.
           ++ intros ri' r' p' Hp'. rewrite Hp in Hp'. injection Hp' as <- <- <-.
              cbn [done_with th_pc]. pose proof Ew as Ew'. apply nth_error_None in Ew'. split.
              ** rewrite !firstn_all2 by lia. reflexivity.
              ** intros _. lia.
           ++ intros c p0 q0 _ Hq0. rewrite Hnows in Hq0. discriminate.
      * assert (routed_plan w (th_req t) = None) as Hp.
        { unfold routed_plan. now rewrite Ec, Ereg, Ert. }
        apply pinv_thread_update with (t := t); auto.
        -- intros ri' r' p' k Hp'. rewrite Hp in Hp'. discriminate.
        -- intros rep0 [= <-]. unfold admissible. rewrite Ec, Hp. apply agree_reply_refl.
        -- intros ri' r' p' Hp'. rewrite Hp in Hp'. discriminate.
        -- intros c p0 q0 _ Hq0. rewrite Hnows in Hq0. discriminate.
    + assert (routed_plan w (th_req t) = None) as Hp.
      { unfold routed_plan. now rewrite Ec, Ereg. }
      apply pinv_thread_update with (t := t); auto.
      * intros ri' r' p' k Hp'. rewrite Hp in Hp'. discriminate.
      * intros rep0 [= <-]. unfold admissible. rewrite Ec, Hp. apply agree_reply_refl.
      * intros ri' r' p' Hp'. rewrite Hp in Hp'. discriminate.
      * intros c p0 q0 _ Hq0. rewrite Hnows in Hq0. discriminate.
  - (* websocket *)
    pose proof (routed_plan_ws _ _ _ Ec) as Hp.
    unfold step. rewrite Ec. cbn [s_cells s_dead].
    destruct (nth_error clients (c_client (th_req t))) as [ck|] eqn:Eck.
    + set (c := c_client (th_req t)) in *.
      set (qq := {| w_svc := ck_svc ck; w_path := path; w_body := b |}).
      assert (ws_req_of clients (th_req t) = Some (c, path, ck_keep ck, qq)) as Hq.
      { unfold ws_req_of. rewrite Ec. fold c. now rewrite Eck. }
      unfold client_send. change (fix_keep pinned) with false.
      destruct (is_dead (g_dead g) c path) eqn:Edead.
      * (* the kept connection is dead: the request fails unsent *)
        cbn [fst snd andb negb s_dead s_cells].
        apply pinv_thread_update with (t := t); auto.
        -- intros ri' r' p' k Hp'. rewrite Hp in Hp'. discriminate.
        -- intros rep0 [= <-]. unfold admissible. rewrite Ec, Hq.
           destruct (is_dead (a_dead a) c path) eqn:Ea; [apply agree_reply_refl|].
           destruct (HD c path Edead) as [H|[j [u [q' [Hj [Hdu [Hq' He]]]]]]]; [congruence|].
           assert (j <> i) as Nj. { intros ->. rewrite Et in Hj. injection Hj as <-. now apply Hdu. }
           assert (ck_keep ck = true) as Hk.
           { unfold ws_req_of in Hq'. destruct (c_req (th_req u)) as [?|path' b']; [discriminate|].
             destruct (nth_error clients (c_client (th_req u))) as [ck'|] eqn:E'; [|discriminate].
             injection Hq' as Hc _ Hk _. unfold c in *. rewrite <- Hc, E' in Eck. injection Eck as ->. exact Hk. }
           rewrite Hk. cbn [andb negb].
           assert (other_ws_fails w clients rd c path i 0 = true) as Hof.
           { apply (other_ws_fails_intro rd c path i 0 j (th_req u) true q'); auto. }
           rewrite Hof, agree_reply_refl. apply orb_true_r.
        -- intros ri' r' p' Hp'. rewrite Hp in Hp'. discriminate.
        -- intros c0 p0 q0 _ Hq0. rewrite Hq in Hq0. injection Hq0 as <- <- _ _. intros _. exact Edead.
      * (* the request reaches the server *)
        cbn [fst snd s_dead s_cells].
        rewrite andb_true_r. cbn [negb]. rewrite andb_true_r.
        apply pinv_thread_update with (t := t); auto.
        -- intros ri' r' p' k Hp'. rewrite Hp in Hp'. discriminate.
        -- intros rep0 [= <-]. unfold admissible. rewrite Ec, Hq.
           destruct (is_dead (a_dead a) c path) eqn:Ea.
           { apply HM in Ea. congruence. }
           rewrite agree_reply_refl. reflexivity.
        -- intros c' p'. destruct (ck_keep ck && is_err (ws_handle (w_ws w) qq)) eqn:Ek; [|auto].
           rewrite is_dead_cons. intro H. apply orb_true_iff in H as [H|H]; [|auto].
           apply pair_eqb_eq in H. injection H as -> ->.
           apply andb_true_iff in Ek as [Ek1 Ek2]. right. split; [unfold done, done_with; simpl; discriminate|].
           exists qq. rewrite Hq, Ek1. auto.
        -- intros c' p' H. destruct (ck_keep ck && is_err (ws_handle (w_ws w) qq)); [|exact H].
           rewrite is_dead_cons, H. apply orb_true_r.
        -- intros ri' r' p' Hp'. rewrite Hp in Hp'. discriminate.
        -- intros c0 p0 q0 _ Hq0 He0. rewrite Hq in Hq0. injection Hq0 as <- <- Hk <-.
           rewrite Hk, He0. cbn [andb]. rewrite is_dead_cons.
           replace (pair_eqb (c, path) (c, path)) with true; [reflexivity|].
           symmetry. now apply pair_eqb_eq.
    + cbn [fst snd s_dead s_cells].
      apply pinv_thread_update with (t := t); auto.
      * intros ri' r' p' k Hp'. rewrite Hp in Hp'. discriminate.
      * intros rep0 [= <-]. unfold admissible. rewrite Ec. unfold ws_req_of. rewrite Ec, Eck.
        apply agree_reply_refl.
      * intros ri' r' p' Hp'. rewrite Hp in Hp'. discriminate.
      * intros c0 p0 q0 _ Hq0. unfold ws_req_of in Hq0. rewrite Ec, Eck in Hq0. discriminate.
Qed.


(* [abstracts] for an arbitrary abstract state (the section fixes [a]) *)
Definition abstracts_next (a' : astate) (st : state) : Prop :=
  List.length (s_cells st) = List.length (w_regs w) /\
  (forall ri cell ac k, nth_error (s_cells st) ri = Some cell -> nth_error (a_cells a') ri = Some ac ->
                        In (get k cell) (writes_to k ac)) /\
  (forall c p, is_dead (s_dead st) c p = is_dead (a_dead a') c p).

(* ---------- the state a fully answered round leaves behind ------------------------- *)

Lemma all_done_done g : all_done g = true -> forall j t, nth_error (g_threads g) j = Some t -> done t.
Proof.
  unfold all_done. rewrite forallb_forall. intros H j t Hj. apply nth_error_In in Hj.
  specialize (H t Hj). unfold done. destruct (th_rep t); [discriminate|discriminate].
Qed.

Lemma in_round_writes ri ws :
  In ws (round_writes w rd ri) <->
  exists j cr r p, nth_error rd j = Some cr /\ routed_plan w cr = Some (ri, r, p) /\ ws = p_writes p.
Proof.
  unfold round_writes. rewrite in_flat_map. split.
  - intros [cr [Hin H]]. apply In_nth_error in Hin as [j Hj].
    destruct (routed_plan w cr) as [[[rj r] p]|] eqn:Ep; [|destruct H].
    destruct (Nat.eqb rj ri) eqn:E; [|destruct H]. apply Nat.eqb_eq in E. subst rj.
    destruct H as [<-|[]]. exists j, cr, r, p. auto.
  - intros [j [cr [r [p [Hj [Hp ->]]]]]]. exists cr. split; [eapply nth_error_In; eauto|].
    rewrite Hp, Nat.eqb_refl. now left.
Qed.

Lemma thread_of_request g j cr :
  pinv g -> nth_error rd j = Some cr -> exists t, nth_error (g_threads g) j = Some t /\ th_req t = cr.
Proof.
  intros Hg Hj. destruct (nth_error_same_length rd (g_threads g) j cr) as [t Ht]; auto.
  { symmetry. apply (pi_nthreads _ Hg). }
  exists t. split; [exact Ht|]. pose proof (pi_req _ Hg j t Ht) as H. rewrite Hj in H. now injection H.
Qed.

Lemma flat_map_nil {A B} (f : A -> list B) l : (forall x, In x l -> f x = []) -> flat_map f l = [].
Proof.
  induction l as [|x l IH]; intro H; [reflexivity|]. simpl. rewrite (H x (or_introl eq_refl)). simpl.
  apply IH. intros y Hy. apply H. now right.
Qed.

Lemma next_field_fld ac wss k x : In x (next_field ac wss k) -> fld_of x = k.
Proof.
  unfold next_field.
  destruct (flat_map _ wss) as [|y l] eqn:E.
  - intro H. now apply writes_to_in in H.
  - rewrite <- E. intro H. apply in_flat_map in H as [ws [_ H]].
    destruct (last_write k ws) as [z|] eqn:El; [|destruct H]. destruct H as [<-|[]].
    now apply last_write_fld in El.
Qed.

Lemma writes_to_next_cell ac wss k x :
  In x (writes_to k (next_cell ac wss)) <-> In x (next_field ac wss k).
Proof.
  rewrite writes_to_in. unfold next_cell. rewrite in_flat_map. split.
  - intros [[k' [_ H]] Hk]. pose proof (next_field_fld _ _ _ _ H) as E. congruence.
  - intro H. split; [|now apply next_field_fld in H]. exists k. split; [destruct k; simpl; tauto|exact H].
Qed.

Lemma is_dead_app l1 l2 c p : is_dead (l1 ++ l2) c p = is_dead l1 c p || is_dead l2 c p.
Proof. unfold is_dead. apply existsb_app. Qed.

Lemma is_dead_in l c p : is_dead l c p = true <-> In (c, p) l.
Proof.
  unfold is_dead. rewrite existsb_exists. split.
  - intros [x [Hx E]]. apply pair_eqb_eq in E. now subst.
  - intro H. exists (c, p). split; [exact H|now apply pair_eqb_eq].
Qed.

Lemma in_newly_dead c p :
  In (c, p) (newly_dead pinned w clients rd) <->
  exists j cr q, nth_error rd j = Some cr /\ ws_req_of clients cr = Some (c, p, true, q) /\
                 is_err (ws_handle (w_ws w) q) = true.
Proof.
  unfold newly_dead. rewrite in_flat_map. change (fix_keep pinned) with false. split.
  - intros [cr [Hin H]]. apply In_nth_error in Hin as [j Hj].
    destruct (ws_req_of clients cr) as [[[[c' p'] keep] q]|] eqn:Eq; [|destruct H].
    destruct keep; cbn [andb negb] in H; [|destruct H].
    destruct (is_err (ws_handle (w_ws w) q)) eqn:Ee; [|destruct H].
    destruct H as [[= <- <-]|[]]. exists j, cr, q. auto.
  - intros [j [cr [q [Hj [Hq He]]]]]. exists cr. split; [eapply nth_error_In; eauto|].
    rewrite Hq, He. now left.
Qed.

Lemma nth_error_map_idx_inv {A B} (f : nat -> A -> B) : forall l i0 n y,
  nth_error (map_idx f l i0) n = Some y -> exists x, nth_error l n = Some x /\ y = f (i0 + n) x.
Proof.
  induction l as [|x l IH]; intros i0 [|n] y H; simpl in *; try discriminate.
  - injection H as <-. exists x. rewrite Nat.add_0_r. auto.
  - destruct (IH _ _ _ H) as [x' [H1 H2]]. exists x'. split; [exact H1|]. now rewrite Nat.add_succ_r.
Qed.

Lemma map_idx_length {A B} (f : nat -> A -> B) : forall l i0, List.length (map_idx f l i0) = List.length l.
Proof. induction l as [|x l IH]; intro i0; simpl; [reflexivity|]. now rewrite IH. Qed.

Lemma pinv_next_abstracts g :
  pinv g -> all_done g = true ->
  abstracts_next (round_next pinned w clients a rd) {| s_cells := g_cells g; s_dead := g_dead g |}.
Proof.
  intros Hg Hdone. pose proof (all_done_done g Hdone) as Hd.
  split; [exact (pi_len _ Hg)|]. split.
  - (* cells *)
    intros ri cell ac' k Hcell Hac'. cbn [s_cells] in Hcell.
    unfold round_next in Hac'. change (fix_f17 pinned) with false in Hac'. cbn [a_cells] in Hac'.
    apply nth_error_map_idx_inv in Hac' as [ac [Hac ->]]. simpl.
    apply writes_to_next_cell. unfold next_field.
    assert (forall j t r p, nth_error (g_threads g) j = Some t -> routed_plan w (th_req t) = Some (ri, r, p) ->
              firstn (th_pc t) (p_writes p) = p_writes p) as Hall.
    { intros j t r p Hj Hp. apply firstn_all2. eapply (pi_pc _ Hg); eauto. }
    destruct (pi_final _ Hg ri cell ac k Hcell Hac) as [[Hin Hno]|[j [t [r [p [Hj [Hp Hl]]]]]]].
    + rewrite flat_map_nil; [exact Hin|].
      intros ws Hws. apply in_round_writes in Hws as [j [cr [r [p [Hj [Hp ->]]]]]].
      destruct (thread_of_request g j cr Hg Hj) as [t [Ht <-]].
      pose proof (Hno j t r p Ht Hp) as H0. rewrite (Hall j t r p Ht Hp) in H0.
      unfold last_write. now rewrite H0.
    + rewrite (Hall j t r p Hj Hp) in Hl.
      assert (In (get k cell)
                 (flat_map (fun ws => match last_write k ws with Some x => [x] | None => [] end)
                           (round_writes w rd ri))) as Hin.
      { apply in_flat_map. exists (p_writes p). split.
        - apply in_round_writes. exists j, (th_req t), r, p. split; [now apply (pi_req _ Hg)|auto].
        - rewrite Hl. now left. }
      destruct (flat_map _ (round_writes w rd ri)); [destruct Hin|exact Hin].
  - (* dead connections *)
    intros c p. cbn [s_dead]. unfold round_next. cbn [a_dead]. rewrite is_dead_app.
    destruct (is_dead (g_dead g) c p) eqn:E.
    + symmetry. destruct (pi_dead _ Hg c p E) as [H|[j [t [q [Hj [_ [Hq He]]]]]]].
      * rewrite H. apply orb_true_r.
      * apply orb_true_iff. left. apply is_dead_in, in_newly_dead.
        exists j, (th_req t), q. split; [now apply (pi_req _ Hg)|auto].
    + symmetry. apply orb_false_iff. split.
      * destruct (is_dead (newly_dead pinned w clients rd) c p) eqn:En; [|reflexivity].
        apply is_dead_in, in_newly_dead in En as [j [cr [q [Hj [Hq He]]]]].
        destruct (thread_of_request g j cr Hg Hj) as [t [Ht <-]].
        rewrite (pi_wsdead _ Hg j t c p q Ht (Hd j t Ht) Hq He) in E. discriminate.
      * destruct (is_dead (a_dead a) c p) eqn:Ea; [|reflexivity].
        apply (pi_dead_mono _ Hg) in Ea. congruence.
Qed.

Lemma crun_pinv sched : forall g, pinv g -> pinv (crun pinned w clients g sched).
Proof.
  induction sched as [|i sched IH]; intros g Hg; [exact Hg|].
  simpl. apply IH. now apply cstep_pinv.
Qed.

End Pinned.

(* Pinned code, any state [st] described by the abstract state [a], any requests in
   flight together, ANY interleaving: every reply that is produced is accepted by
   [admissible].  So a disagreement reported by the correspondence check
   (Corr.C14.agree) on a round is never an artefact of the unobservable schedule. *)
Theorem conc_pinned_sound w clients rd a st sched i t rep :
  List.length (a_cells a) = List.length (w_regs w) ->
  abstracts w a st ->
  nth_error (g_threads (crun pinned w clients (start st rd) sched)) i = Some t ->
  th_rep t = Some rep ->
  exists cr, nth_error rd i = Some cr /\ admissible pinned w clients a rd i cr rep = true.
Proof.
  intros Hlen Habs Ht Hr.
  pose proof (crun_pinv w clients rd a Hlen sched _ (pinv_start w clients rd a st Habs)) as Hg.
  exists (th_req t). split; [now apply (pi_req _ _ _ _ _ Hg)|now apply (pi_adm _ _ _ _ _ Hg)].
Qed.

(* the initial state is described by the initial abstract state *)
Lemma abstracts_init w : abstracts w (ainit w) (init_state w).
Proof.
  split; [simpl; apply map_length|]. split.
  - intros ri cell ac k H1 H2. simpl in *.
    apply nth_error_map_some in H1 as [r1 [_ ->]]. apply nth_error_map_some in H2 as [r2 [_ ->]].
    destruct k; simpl; auto.
  - reflexivity.
Qed.

(* when the whole round has been answered, the observation passes [round_ok] *)
Lemma round_ok_from_intro fl w clients a rd : forall rest obs i0,
  List.length rest = List.length obs ->
  (forall j cr o, nth_error rest j = Some cr -> nth_error obs j = Some o ->
                  admissible fl w clients a rd (i0 + j) cr o = true) ->
  round_ok_from fl w clients a rd rest obs i0 = true.
Proof.
  induction rest as [|cr rest IH]; intros [|o obs] i0 HL H; simpl in *; try discriminate; [reflexivity|].
  apply andb_true_iff. split.
  - specialize (H 0 cr o eq_refl eq_refl). now rewrite Nat.add_0_r in H.
  - apply IH; [lia|]. intros j cr' o' H1 H2. specialize (H (S j) cr' o' H1 H2).
    now replace (S i0 + j) with (i0 + S j) by lia.
Qed.

Theorem conc_pinned_round_ok w clients rd a st sched obs :
  List.length (a_cells a) = List.length (w_regs w) ->
  abstracts w a st ->
  replies (crun pinned w clients (start st rd) sched) = map Some obs ->
  round_ok pinned w clients a rd obs = true.
Proof.
  intros Hlen Habs Hrep. unfold round_ok.
  pose proof (crun_pinv w clients rd a Hlen sched _ (pinv_start w clients rd a st Habs)) as Hg.
  set (g := crun pinned w clients (start st rd) sched) in *.
  assert (forall j o, nth_error obs j = Some o ->
            exists t, nth_error (g_threads g) j = Some t /\ th_rep t = Some o) as Hth.
  { intros j o Ho. unfold replies in Hrep.
    assert (nth_error (map th_rep (g_threads g)) j = Some (Some o)) as H.
    { rewrite Hrep. now apply map_nth_error. }
    apply nth_error_map_some in H as [t [H1 H2]]. eauto. }
  apply round_ok_from_intro.
  - (* one observation per request *)
    assert (List.length (g_threads g) = List.length obs) as H1.
    { unfold replies in Hrep. rewrite <- (map_length th_rep), Hrep. apply map_length. }
    rewrite <- H1. symmetry. apply (pi_nthreads _ _ _ _ _ Hg).
  - intros j cr o H1 H2. destruct (Hth j o H2) as [t [Ht Hr]]. simpl.
    pose proof (pi_req _ _ _ _ _ Hg j t Ht) as Hq. rewrite H1 in Hq. injection Hq as ->.
    now apply (pi_adm _ _ _ _ _ Hg).
Qed.

(* ---------- whole scenarios ------------------------------------------------------------ *)

(* the abstract state after a round describes the state EVERY interleaving that answers
   the whole round leaves behind *)
Theorem conc_pinned_next_abstracts w clients rd a st sched :
  List.length (a_cells a) = List.length (w_regs w) ->
  abstracts w a st ->
  all_done (crun pinned w clients (start st rd) sched) = true ->
  abstracts w (round_next pinned w clients a rd)
             {| s_cells := g_cells (crun pinned w clients (start st rd) sched);
                s_dead := g_dead (crun pinned w clients (start st rd) sched) |} /\
  List.length (a_cells (round_next pinned w clients a rd)) = List.length (w_regs w).
Proof.
  intros Hlen Habs Hdone.
  pose proof (crun_pinv w clients rd a Hlen sched _ (pinv_start w clients rd a st Habs)) as Hg.
  split.
  - exact (pinv_next_abstracts w clients rd a _ Hg Hdone).
  - unfold round_next. change (fix_f17 pinned) with false. cbn [a_cells]. now rewrite map_idx_length.
Qed.

Lemma replies_all_done g obs : replies g = map Some obs -> all_done g = true.
Proof.
  unfold replies, all_done. revert obs. induction (g_threads g) as [|t l IH]; intros [|o obs] H; simpl in *;
    try discriminate; [reflexivity|].
  injection H as H1 H2. rewrite H1. simpl. eapply IH; eauto.
Qed.

(* an execution of a scenario on the pinned code: every round runs under some schedule
   that answers all its requests, from the state the previous round left *)
Inductive scen_run (w : world) (clients : list ckind) : state -> list (list creq) -> list (list reply) -> Prop :=
| SR_nil : forall st, scen_run w clients st [] []
| SR_cons : forall st rd sched obs rest robs,
    replies (crun pinned w clients (start st rd) sched) = map Some obs ->
    scen_run w clients {| s_cells := g_cells (crun pinned w clients (start st rd) sched);
                          s_dead := g_dead (crun pinned w clients (start st rd) sched) |} rest robs ->
    scen_run w clients st (rd :: rest) (obs :: robs).

(* The relation evaluated by the correspondence check accepts every execution of the
   interleaving model of the pinned code, whatever the schedules. *)
Theorem scenario_ok_sound w clients : forall st rounds obs,
  scen_run w clients st rounds obs -> forall a,
  List.length (a_cells a) = List.length (w_regs w) -> abstracts w a st ->
  scenario_ok pinned w clients a rounds obs = true.
Proof.
  induction 1 as [st|st rd sched obs rest robs Hrep Hrun IH]; intros a Hlen Habs; [reflexivity|].
  simpl. apply andb_true_iff. split.
  - eapply conc_pinned_round_ok; eauto.
  - destruct (conc_pinned_next_abstracts w clients rd a st sched Hlen Habs (replies_all_done _ _ Hrep)) as [H1 H2].
    now apply IH.
Qed.

Corollary scenario_ok_sound_init w clients rounds obs :
  scen_run w clients (init_state w) rounds obs ->
  scenario_ok pinned w clients (ainit w) rounds obs = true.
Proof.
  intro H. eapply scenario_ok_sound; eauto.
  - simpl. apply map_length.
  - apply abstracts_init.
Qed.

(* the hypothesis is satisfiable: the F17 witness, run sequentially *)
Example scen_run_example :
  scen_run demo_world [CKind true true] (init_state demo_world)
    [[post (BObj [("S", JStr "42" None)])]; [post (BObj [])]]
    [[ROk 10 (Msg "42" 0 false "")]; [ROk 10 (Msg "42" 0 false "")]].
Proof.
  eapply (SR_cons _ _ _ _ [0; 0]); [vm_compute; reflexivity|].
  eapply (SR_cons _ _ _ _ [0]); [vm_compute; reflexivity|]. constructor.
Qed.

(* ---------- repaired code: the relation accepts exactly the specification ---------------- *)

Lemma admissible_fixed_spec w clients a rd i cr :
  List.length (a_cells a) = List.length (w_regs w) -> a_dead a = [] ->
  admissible all_fixed w clients a rd i cr (fixed_reply w clients cr) = true.
Proof.
  intros Hlen Hdead. rewrite spec_closed_form. unfold admissible, model_reply, routed_plan.
  destruct (c_req cr) as [q|path b] eqn:Ec.
  - unfold rest_reply. destruct (nth_error (w_regs w) (q_res q)) as [r|] eqn:Er; [|apply agree_reply_refl].
    destruct (routed r q); [|apply agree_reply_refl].
    unfold finish. destruct (p_out (rest_plan r q)); [|apply agree_reply_refl].
    destruct (nth_error_same_length _ (a_cells a) _ _ (eq_sym Hlen) Er) as [ac Eac]. rewrite Eac.
    apply explained_complete. intro k. change (fix_f17 all_fixed) with true. unfold cands.
    rewrite get_apply_writes, app_nil_r. destruct (last_write k _); now left.
  - unfold ws_req_of. rewrite Ec. destruct (nth_error clients (c_client cr)) as [ck|]; [|apply agree_reply_refl].
    rewrite Hdead. simpl. rewrite agree_reply_refl. reflexivity.
Qed.

Lemma round_next_fixed w clients a rd :
  a_dead a = [] -> round_next all_fixed w clients a rd = a.
Proof.
  intro H. unfold round_next. change (fix_f17 all_fixed) with true. change (fix_keep all_fixed) with true.
  cbv iota. assert (newly_dead all_fixed w clients rd = []) as ->.
  { unfold newly_dead. apply flat_map_nil. intros cr _.
    destruct (ws_req_of clients cr) as [[[[c p] keep] q]|]; [|reflexivity].
    change (fix_keep all_fixed) with true. destruct keep; reflexivity. }
  destruct a; simpl in *. now rewrite H.
Qed.

(* Repaired code: the observation in which every request gets fixed_reply(request) -- which by
   conc_fixed_spec is the only one any interleaving can produce -- is accepted. *)
Theorem scenario_ok_fixed_spec w clients : forall rounds a,
  List.length (a_cells a) = List.length (w_regs w) -> a_dead a = [] ->
  scenario_ok all_fixed w clients a rounds (map (map (fixed_reply w clients)) rounds) = true.
Proof.
  induction rounds as [|rd rest IH]; intros a Hlen Hdead; [reflexivity|].
  simpl. apply andb_true_iff. split.
  - unfold round_ok. apply round_ok_from_intro; [now rewrite map_length|].
    intros j cr o H1 H2. rewrite (map_nth_error _ _ _ H1) in H2. injection H2 as <-.
    now apply admissible_fixed_spec.
  - rewrite round_next_fixed by exact Hdead. now apply IH.
Qed.
