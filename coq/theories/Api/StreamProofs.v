(* C15 -- proofs about the streaming transition system of Api/Stream.v.
   [run fx (init m0 n) acts] ranges over every interleaving of client, service,
   reader, write loop, adapter, stoppers and forwarders of one session, [srun]
   over several sessions on one server. *)
From Coq Require Import List Arith Bool Lia.
Import ListNotations.
From Onet Require Import Api.Stream.

(* ---------------------------------------------------------------- tactics *)

(* case analysis on everything [step] inspects *)
Ltac dmatch H :=
  repeat match type of H with
  | context[match ?x with _ => _ end] =>
      let E := fresh "E" in destruct x eqn:E; try discriminate H
  | context[if ?x then _ else _] =>
      let E := fresh "E" in destruct x eqn:E; try discriminate H
  end.

Ltac inv H := inversion H; subst; clear H.

Lemma run_app fx a1 : forall s a2 s1,
  run fx s a1 = Some s1 -> run fx s (a1 ++ a2) = run fx s1 a2.
Proof.
  induction a1 as [|a r IH]; intros s a2 s1 H; cbn in *.
  - now inv H.
  - destruct (step fx s a); [|discriminate]. now apply IH.
Qed.

Lemma run_inv (fx : fixes) (P : st -> Prop) :
  (forall s a s', P s -> step fx s a = Some s' -> P s') ->
  forall acts s s', P s -> run fx s acts = Some s' -> P s'.
Proof.
  intros Hstep acts. induction acts as [|a r IH]; intros s s' Hs H; cbn in H.
  - now inv H.
  - destruct (step fx s a) as [s1|] eqn:E; [|discriminate]. eapply IH; [|exact H]. eapply Hstep; eauto.
Qed.

(* ---------------------------------------------------------------- lists *)

Lemma nth_error_upd_same {A} (l : list A) i x :
  i < length l -> nth_error (upd l i x) i = Some x.
Proof.
  revert i; induction l as [|y r IH]; intros [|i] H; cbn in *; try lia; auto.
  apply IH. lia.
Qed.

Lemma nth_error_upd_other {A} (l : list A) i j x :
  i <> j -> nth_error (upd l i x) j = nth_error l j.
Proof.
  revert i j; induction l as [|y r IH]; intros [|i] [|j] H; cbn; auto; try congruence.
Qed.

Lemma upd_length {A} (l : list A) i x : length (upd l i x) = length l.
Proof. revert i; induction l as [|y r IH]; intros [|i]; cbn; auto. Qed.

Lemma nth_error_upd {A} (l : list A) i j x y :
  nth_error (upd l i x) j = Some y ->
  (i = j /\ y = x /\ i < length l) \/ (i <> j /\ nth_error l j = Some y).
Proof.
  intros H. destruct (Nat.eq_dec i j) as [->|Hne].
  - left. assert (Hl : j < length l).
    { rewrite <- (upd_length l j x). apply nth_error_Some. congruence. }
    rewrite nth_error_upd_same in H by assumption. inv H. auto.
  - right. rewrite nth_error_upd_other in H by assumption. auto.
Qed.

(* forwarders that have not returned *)
Definition is_live (r : req) : bool := match fw r with FExit => false | _ => true end.

Fixpoint live (rs : list req) : nat :=
  match rs with
  | [] => 0
  | r :: t => (if is_live r then 1 else 0) + live t
  end.

Lemma live_app a b : live (a ++ b) = live a + live b.
Proof. induction a as [|x a IH]; cbn; auto. rewrite IH. lia. Qed.

Lemma live_upd rs : forall k r r',
  nth_error rs k = Some r ->
  live (upd rs k r') + (if is_live r then 1 else 0) = live rs + (if is_live r' then 1 else 0).
Proof.
  induction rs as [|x t IH]; intros [|k] r r' H; cbn in *; try discriminate.
  - inv H. lia.
  - specialize (IH k r r' H). lia.
Qed.

Lemma live_zero rs : live rs = 0 -> forall k r, nth_error rs k = Some r -> fw r = FExit.
Proof.
  induction rs as [|x t IH]; intros H [|k] r Hk; cbn in *; try discriminate.
  - inv Hk. unfold is_live in H. destruct (fw r); auto; lia.
  - apply (IH ltac:(lia) k r Hk).
Qed.

Lemma live_zero_conv rs : (forall k r, nth_error rs k = Some r -> fw r = FExit) -> live rs = 0.
Proof.
  induction rs as [|x t IH]; intros H; cbn; auto.
  rewrite IH by (intros k r Hk; apply (H (S k) r Hk)).
  unfold is_live. rewrite (H 0 x eq_refl). reflexivity.
Qed.

(* ================================================================ 1. no crash *)

(* input side, needs f19: clientInputs is closed by the reader alone, at its end *)
Record InvIn (s : st) : Prop := {
  in_closed : cin_closed (wk s) = true <-> rd (wk s) = RExit;
  in_done : wr (wk s) = WLoop <-> done (wk s) = false;
  in_closing : closing (wk s) = true -> (rd (wk s) = RFin \/ rd (wk s) = RExit);
  in_gone : (rd (wk s) = RFin \/ rd (wk s) = RExit) -> closing (wk s) = true \/ done (wk s) = true;
  in_wsclosed : wsclosed (nt s) = true <-> wr (wk s) = WExit }.

(* output side, needs f18: the counter counts the goroutines that may still send *)
Definition busy (a : astate) : nat := match a with ABusy _ => 1 | _ => 0 end.

Record InvOut (s : st) : Prop := {
  out_count : active (pc s) = busy (ad (pc s)) + live (reqs (pc s));
  out_zero : out_closed (pc s) = true -> active (pc s) = 0;
  out_open : out_closed (pc s) = false -> active (pc s) = 0 ->
             reqs (pc s) = [] /\ ad (pc s) = ALoop /\ cin (wk s) <> [];
  out_stopall : stopall (pc s) = true <-> ad (pc s) = AExit }.

Lemma InvIn_init m0 n : InvIn (init m0 n).
Proof. constructor; cbn; intuition (try discriminate; try congruence). Qed.

Lemma InvOut_init m0 n : InvOut (init m0 n).
Proof. constructor; cbn; intuition (try discriminate; try congruence). Qed.

Ltac split_iffs :=
  repeat match goal with
  | H : _ <-> _ |- _ => destruct H
  end.

Ltac fin := cbn in *; try solve [ intuition (try discriminate; try congruence; try lia) ].

Lemma step_InvIn fx s a s' : f19 fx = true -> InvIn s -> step fx s a = Some s' -> InvIn s'.
Proof.
  intros Hf [H1 H2 H3 H3' H4] H. unfold step in H. destruct (crashed s) eqn:Ec; [discriminate|].
  destruct a; cbn in H; unfold wr_release in H; rewrite ?Hf in H; dmatch H; inv H;
    try (constructor; cbn; rewrite ?Hf; cbn; split_iffs; try split; intros; fin; fail).
  all: constructor; cbn; rewrite ?Hf; cbn; split_iffs; try split; intros; fin.
Qed.

Lemma app_cons_not_nil' {A} (l : list A) x : l ++ [x] <> [].
Proof. destruct l; discriminate. Qed.

Ltac use_live s :=
  try match goal with
  | Hk : nth_error (reqs (pc s)) ?k = Some ?r |- context[upd (reqs (pc s)) ?k ?r'] =>
      let Hl := fresh "Hl" in
      pose proof (live_upd _ k r r' Hk) as Hl; unfold is_live in Hl; cbn in Hl
  end.

Ltac rw_state s :=
  repeat match goal with
  | E : ad (pc s) = _ |- _ => rewrite E in *; clear E
  | E : fw _ = _ |- _ => rewrite E in *; clear E
  | E : (_ =? _) = true |- _ => apply Nat.eqb_eq in E
  | E : (_ =? _) = false |- _ => apply Nat.eqb_neq in E
  end.

Lemma step_InvOut fx s a s' : f18 fx = true -> InvOut s -> step fx s a = Some s' -> InvOut s'.
Proof.
  intros Hf [H1 H2 H3 H4] H. unfold step in H. destruct (crashed s) eqn:Ec; [discriminate|].
  destruct fx as [a18 a19]. cbn in Hf. subst a18.
  destruct a; cbn in H; unfold wr_release, leave in H; cbn in H; destruct a19; dmatch H; inv H;
    try (constructor; cbn; split_iffs; try split; intros; fin; fail).
  all: use_live s; rw_state s.
  all: constructor; cbn; rewrite ?live_app; cbn; split_iffs; try split; intros; fin.
  all: try (exfalso; eapply app_cons_not_nil'; eauto; fail).
  all: try match goal with
       | H3 : _ -> active (pc ?s0) = 0 -> _ /\ _ |- _ =>
           let Hr := fresh in let Ha := fresh in let Hc := fresh in
           destruct H3 as (Hr & Ha & Hc); [first [assumption|reflexivity]|lia|]
       end.
  all: try (split; [assumption|apply app_cons_not_nil']).
  all: try match goal with
       | Hr : reqs (pc ?s0) = [], Hk : nth_error (reqs (pc ?s0)) ?k = Some _ |- _ =>
           rewrite Hr in Hk; destruct k; discriminate
       end.
Qed.

Lemma step_no_crash fx s a s' :
  f18 fx = true -> f19 fx = true -> InvIn s -> InvOut s ->
  step fx s a = Some s' -> crashed s' = false.
Proof.
  intros Hf8 Hf9 [I1 I2 I3 I3' I4] [O1 O2 O3 O4] H. unfold step in H.
  destruct (crashed s) eqn:Ec; [discriminate|].
  destruct fx as [a18 a19]. cbn in Hf8, Hf9. subst a18 a19.
  destruct a; cbn in H; unfold wr_release, leave in H; cbn in H; dmatch H; inv H; cbn; auto.
  all: exfalso; split_iffs; rw_state s.
  all: try (intuition (try discriminate; try congruence); fail).
  specialize (O2 eq_refl). assert (Hz : live (reqs (pc s)) = 0) by lia.
  pose proof (live_zero _ Hz k r E). congruence.
Qed.

Record Inv (s : st) : Prop := { inv_in : InvIn s; inv_out : InvOut s; inv_ok : crashed s = false }.

Lemma step_Inv s a s' : Inv s -> step fixed s a = Some s' -> Inv s'.
Proof.
  intros [Hi Ho Hc] H. constructor.
  - exact (step_InvIn fixed s a s' eq_refl Hi H).
  - exact (step_InvOut fixed s a s' eq_refl Ho H).
  - exact (step_no_crash fixed s a s' eq_refl eq_refl Hi Ho H).
Qed.

Lemma Inv_init m0 n : Inv (init m0 n).
Proof. constructor; [apply InvIn_init|apply InvOut_init|reflexivity]. Qed.

Lemma reachable_Inv m0 n acts s : run fixed (init m0 n) acts = Some s -> Inv s.
Proof. apply (run_inv fixed Inv step_Inv), Inv_init. Qed.

(* no send on a closed channel and no second close, whatever the timing of further
   client messages (valid or not), client close / drop and service termination *)
Theorem no_crash m0 n acts s : run fixed (init m0 n) acts = Some s -> crashed s = false.
Proof. intros H. apply (inv_ok s (reachable_Inv m0 n acts s H)). Qed.

(* each fix removes its own crash: with f19 alone clientInputs is never hit, ... *)

(* ---- the pinned code: refutations by concrete schedules ------------------ *)

(* F19: the reader holds a follow-up message when the write loop, seeing outChan
   closed, closes clientInputs *)
Theorem send_on_closed_refuted :
  exists acts s, run pinned (init (MReq 0) 1) acts = Some s /\ crashed s = true.
Proof.
  exists [AdTake; AdHandle; CSend (MReq 0); RdMsg; SEnd 0; FwRecv 0; WrOutClosed; RdSend].
  eexists. split; vm_compute; reflexivity.
Qed.

(* F18: an undecodable follow-up makes the adapter close outChan directly; the
   forwarder of the first request then closes it again ... *)
Theorem double_close_refuted :
  exists acts s, run pinned (init (MReq 0) 1) acts = Some s /\ crashed s = true.
Proof.
  exists [AdTake; AdHandle; CSend MBad; RdMsg; RdSend; AdTake; AdBad; SEnd 0; FwRecv 0].
  eexists. split; vm_compute; reflexivity.
Qed.

(* ... or sends the next value of the service on it *)
Theorem send_on_closed_out_refuted :
  exists acts s, run pinned (init (MReq 0) 1) acts = Some s /\ crashed s = true.
Proof.
  exists [AdTake; AdHandle; CSend MBad; RdMsg; RdSend; AdTake; AdBad; SEmit 0 7; FwRecv 0; FwSend 0].
  eexists. split; vm_compute; reflexivity.
Qed.

(* C15-N1: two requests on two service channels; the forwarder of the first one
   to end closes outChan under the other *)
Theorem first_end_refuted :
  exists acts s, run pinned (init (MReq 0) 2) acts = Some s /\ crashed s = true.
Proof.
  exists [AdTake; AdHandle; CSend (MReq 1); RdMsg; RdSend; AdTake; AdHandle;
          SEnd 0; FwRecv 0; SEmit 1 5; FwRecv 1; FwSend 1].
  eexists. split; vm_compute; reflexivity.
Qed.

(* the same schedules are harmless in the fixed variant *)
Example fixed_survives_witnesses :
  (option_map crashed (run fixed (init (MReq 0) 1)
    [AdTake; AdHandle; CSend (MReq 0); RdMsg; SEnd 0; FwRecv 0; WrOutClosed; RdSend]) = Some false) /\
  (option_map crashed (run fixed (init (MReq 0) 1)
    [AdTake; AdHandle; CSend MBad; RdMsg; RdSend; AdTake; AdBad; SEnd 0; FwRecv 0]) = Some false) /\
  (option_map crashed (run fixed (init (MReq 0) 2)
    [AdTake; AdHandle; CSend (MReq 1); RdMsg; RdSend; AdTake; AdHandle;
     SEnd 0; FwRecv 0; SEmit 1 5; FwRecv 1; FwSend 1]) = Some false).
Proof. vm_compute. auto. Qed.

(* ================================================================ 2. stop, no blocking *)

(* nothing internal (reader, write loop, adapter incl. the handler call, stoppers,
   forwarders) can move: the session waits for the client or the service *)
Definition quiescent (fx : fixes) (s : st) : Prop :=
  forall a, internal a = true -> step fx s a = None.

(* instantiate quiescence with action A and simplify with the equations at hand *)
Ltac stuck Hq A :=
  let H := fresh "Hs" in
  pose proof (Hq A eq_refl) as H; unfold step, wr_release, leave, handler_ok in H; cbn -[Nat.ltb] in H;
  repeat match goal with
  | E : ?x = ?y |- _ =>
      lazymatch y with context[x] => fail | _ => idtac end;
      tryif constr_eq E H then fail else (progress rewrite E in H; cbn -[Nat.ltb] in H)
  end;
  try discriminate H.

Lemma quiescent_adapter_exited s :
  Inv s -> quiescent fixed s -> cleft (nt s) = true -> ad (pc s) = AExit.
Proof.
  intros [[I1 I2 I3 I3' I4] [O1 O2 O3 O4] Hc] Hq Hl.
  destruct (ad (pc s)) as [|m|] eqn:Ea; auto; exfalso.
  - (* ALoop *)
    assert (Hsa : stopall (pc s) = false).
    { destruct (stopall (pc s)) eqn:E; auto. destruct O4 as [O4a _]. specialize (O4a eq_refl). discriminate. }
    destruct (cin (wk s)) as [|m r] eqn:Ecin.
    + destruct (cin_closed (wk s)) eqn:Ecc.
      * stuck Hq AdEnd.
      * destruct (rd (wk s)) as [|m| |] eqn:Er.
        -- stuck Hq RdErr.
        -- stuck Hq RdSend.
        -- stuck Hq RdFinish.
        -- destruct I1 as [_ I1b]. specialize (I1b eq_refl). discriminate.
    + destruct (out_closed (pc s)) eqn:Eoc; stuck Hq AdTake.
  - (* ABusy *)
    destruct (handler_ok s m) eqn:Eh.
    + destruct m as [c|]; [|discriminate]. unfold handler_ok in Eh. stuck Hq AdHandle.
    + unfold handler_ok in Eh. destruct m as [c|]; stuck Hq AdBad.
Qed.

(* when the client closes or disappears, the service is told to stop: in every
   state in which nothing internal is left to do, every request of the session has
   its stop channel closed *)
Theorem stop_signalled m0 n acts s :
  run fixed (init m0 n) acts = Some s -> quiescent fixed s -> cleft (nt s) = true ->
  forall k r, nth_error (reqs (pc s)) k = Some r -> stp r = true.
Proof.
  intros Hr Hq Hl k r Hk. pose proof (reachable_Inv _ _ _ _ Hr) as Hinv.
  pose proof (quiescent_adapter_exited s Hinv Hq Hl) as Ha.
  destruct Hinv as [_ [O1 O2 O3 O4] Hc].
  assert (Hsa : stopall (pc s) = true) by (apply O4; exact Ha).
  destruct (stp r) eqn:Es; auto. exfalso. stuck Hq (StStop k).
Qed.

(* ================================================================ 3. what the client gets *)

Definition closes (l : list sframe) : list ccode :=
  flat_map (fun f => match f with SClose c => [c] | SMsg _ => [] end) l.

Lemma wmsgs_app a b : wmsgs (a ++ b) = wmsgs a ++ wmsgs b.
Proof. unfold wmsgs. now rewrite flat_map_app. Qed.
Lemma closes_app a b : closes (a ++ b) = closes a ++ closes b.
Proof. unfold closes. now rewrite flat_map_app. Qed.

(* the write side, any variant: data frames, then at most one close frame; a
   protocol-error close only towards a client that has left *)
Record InvW (s : st) : Prop := {
  w_shape : wsout (nt s) = map SMsg (wmsgs (wsout (nt s))) ++ map SClose (closes (wsout (nt s)));
  w_closes : match wr (wk s) with
             | WLoop | WFin (Some _) => closes (wsout (nt s)) = []
             | WFin None => closes (wsout (nt s)) = [CNormal]
             | WExit => closes (wsout (nt s)) = [CNormal] \/
                        (closes (wsout (nt s)) = [CProto] /\ cleft (nt s) = true)
             end;
  w_proto : forall c, wr (wk s) = WFin (Some c) -> c = CProto /\ cleft (nt s) = true;
  w_dropped_loop : wr (wk s) = WLoop -> dropped (nt s) = [];
  w_dropped : dropped (nt s) <> [] -> cleft (nt s) = true;
  w_closing : closing (wk s) = true -> cleft (nt s) = true \/ wsclosed (nt s) = true;
  w_wsclosed : wsclosed (nt s) = true <-> wr (wk s) = WExit;
  w_normal : In CNormal (closes (wsout (nt s))) -> out_closed (pc s) = true /\ out (pc s) = [] }.

Lemma InvW_init m0 n : InvW (init m0 n).
Proof. constructor; cbn; intuition (try discriminate; try congruence). Qed.

Lemma wmsgs_msg l x : wmsgs (l ++ [SMsg x]) = wmsgs l ++ [x].
Proof. now rewrite wmsgs_app. Qed.
Lemma wmsgs_close l c : wmsgs (l ++ [SClose c]) = wmsgs l.
Proof. rewrite wmsgs_app. cbn. now rewrite app_nil_r. Qed.
Lemma closes_msg l x : closes (l ++ [SMsg x]) = closes l.
Proof. rewrite closes_app. cbn. now rewrite app_nil_r. Qed.
Lemma closes_close l c : closes (l ++ [SClose c]) = closes l ++ [c].
Proof. now rewrite closes_app. Qed.

Ltac proj :=
  cbn [nt wk pc svc crashed wsin cleft wsout crecv wsclosed dropped rd wr cin cin_closed closing done
       ad out out_closed once active stopall reqs set_nt set_wk set_pc set_svc crash rc fw stp set_fw
       buf sclosed emitted] in *.

Ltac wsimp := rewrite ?wmsgs_msg, ?wmsgs_close, ?closes_msg, ?closes_close, ?map_app in *; cbn [map app] in *.

Definition shape (l : list sframe) : Prop := l = map SMsg (wmsgs l) ++ map SClose (closes l).

Lemma shape_msg l x : closes l = [] -> shape l -> shape (l ++ [SMsg x]).
Proof.
  unfold shape. intros Hc Hs. rewrite wmsgs_msg, closes_msg, Hc, map_app. cbn. rewrite app_nil_r.
  rewrite Hc in Hs. cbn in Hs. rewrite app_nil_r in Hs. now rewrite <- Hs.
Qed.

Lemma shape_close l c : closes l = [] -> shape l -> shape (l ++ [SClose c]).
Proof.
  unfold shape. intros Hc Hs. rewrite wmsgs_close, closes_close, Hc. cbn.
  rewrite Hc in Hs. cbn in Hs. rewrite app_nil_r in Hs. now rewrite <- Hs.
Qed.

Lemma step_InvW fx s a s' : InvW s -> step fx s a = Some s' -> InvW s'.
Proof.
  intros [W1 W2 W3 W4 W5 W6 W7 W8] H. fold (shape (wsout (nt s))) in W1.
  unfold step in H. destruct (crashed s) eqn:Ec; [discriminate|].
  destruct fx as [a18 a19].
  destruct a; cbn in H; unfold wr_release, leave in H; cbn in H; destruct a18, a19; dmatch H; inv H;
    try (constructor; proj; auto; fail).
  all: constructor; proj; try fold (shape (wsout (nt s) ++ [SMsg o])); auto.
  all: repeat match goal with
       | E : (_ || _) = true |- _ => apply orb_true_iff in E
       | E : wr (wk ?s0) = _ |- _ => rewrite E in *; clear E
       end; proj.
  all: try (apply shape_msg; assumption).
  all: try (apply shape_close; assumption).
  all: wsimp.
  all: try match goal with
       | |- context[match wr (wk ?s0) with _ => _ end] => destruct (wr (wk s0)) as [|[?|]|] eqn:?
       end.
  all: repeat match goal with
       | H : closes _ = _ |- _ => rewrite H in *
       end; cbn [map app] in *.
  all: try (intuition (try discriminate; try congruence); fail).
  all: try (intros c Hc; destruct (W3 c Hc) as [-> _]; auto; fail).
  all: try match goal with
       | W3 : forall c, WFin (Some ?c0) = WFin (Some c) -> _ |- _ =>
           destruct (W3 c0 eq_refl) as [-> ?]; auto
       end.
  all: intros [Hx|[]]; discriminate.
Qed.

(* ---- the pipeline service channel -> forwarder -> outChan -> connection ---- *)

Definition count_rc (c : nat) (rs : list req) : nat := length (filter (fun r => rc r =? c) rs).

Definition contrib (c : nat) (r : req) : list nat :=
  if rc r =? c then match fw r with FHave v => [v] | _ => [] end else [].

Lemma held_cons c r rs : held c (r :: rs) = contrib c r ++ held c rs.
Proof. reflexivity. Qed.

Lemma held_app c a b : held c (a ++ b) = held c a ++ held c b.
Proof. unfold held. now rewrite flat_map_app. Qed.

Lemma count_rc_app c a b : count_rc c (a ++ b) = count_rc c a + count_rc c b.
Proof. unfold count_rc. now rewrite filter_app, app_length. Qed.

Lemma count_rc_upd c rs : forall k r r',
  nth_error rs k = Some r -> rc r' = rc r -> count_rc c (upd rs k r') = count_rc c rs.
Proof.
  induction rs as [|x t IH]; intros [|k] r r' H Hrc; cbn in *; try discriminate.
  - inv H. unfold count_rc. cbn. rewrite Hrc. destruct (rc r =? c); reflexivity.
  - unfold count_rc in *. cbn. specialize (IH k r r' H Hrc). destruct (rc x =? c); cbn; auto.
Qed.

(* no request of the list answers on channel c *)
Lemma held_none c rs : count_rc c rs = 0 -> held c rs = [].
Proof.
  induction rs as [|x t IH]; intros H; auto. rewrite held_cons. unfold count_rc in *. cbn in H.
  unfold contrib. destruct (rc x =? c); cbn in H; [discriminate|]. now rewrite IH.
Qed.

(* the only request on channel c *)
Lemma count_rc_in c rs : forall k r, nth_error rs k = Some r -> rc r = c -> count_rc c rs >= 1.
Proof.
  induction rs as [|y t IH]; intros [|k] r H Hr; cbn in *; try discriminate.
  - inv H. unfold count_rc. cbn. rewrite Nat.eqb_refl. cbn. lia.
  - unfold count_rc in *. cbn. specialize (IH k r H Hr). destruct (rc y =? c); cbn; lia.
Qed.

Lemma held_upd_one c rs : forall k r r',
  count_rc c rs <= 1 -> nth_error rs k = Some r -> rc r = c -> rc r' = c ->
  held c rs = contrib c r /\ held c (upd rs k r') = contrib c r'.
Proof.
  induction rs as [|x t IH]; intros [|k] r r' Hc H Hr Hr'; cbn [nth_error upd] in *; try discriminate.
  - inv H. rewrite !held_cons. unfold count_rc in Hc. cbn in Hc. rewrite Nat.eqb_refl in Hc. cbn in Hc.
    assert (Hz : count_rc (rc r) t = 0) by (unfold count_rc; lia).
    rewrite (held_none (rc r) t Hz). now rewrite !app_nil_r.
  - rewrite !held_cons. pose proof (count_rc_in c t k r H Hr) as Hin.
    unfold count_rc in Hc, Hin. cbn in Hc.
    unfold contrib at 1 3. destruct (rc x =? c) eqn:E; cbn in Hc; [lia|].
    cbn. apply IH; auto.
Qed.

Lemma held_upd_same c rs : forall k r r',
  nth_error rs k = Some r -> contrib c r' = contrib c r -> held c (upd rs k r') = held c rs.
Proof.
  induction rs as [|x t IH]; intros [|k] r r' H Hc; cbn [nth_error upd] in *; try discriminate.
  - inv H. rewrite !held_cons. now rewrite Hc.
  - rewrite !held_cons. f_equal. eapply IH; eauto.
Qed.

Lemma on_chan_app c a b : on_chan c (a ++ b) = on_chan c a ++ on_chan c b.
Proof. unfold on_chan. now rewrite filter_app, map_app. Qed.

Lemma on_chan_one_same c v : on_chan c [(c, v)] = [v].
Proof. unfold on_chan. cbn. now rewrite Nat.eqb_refl. Qed.

Lemma on_chan_one_other c c' v : c' <> c -> on_chan c [(c', v)] = [].
Proof. intros H. unfold on_chan. cbn. apply Nat.eqb_neq in H. now rewrite H. Qed.

Record InvP (s : st) : Prop := {
  p_exit : forall k r, nth_error (reqs (pc s)) k = Some r -> fw r = FExit ->
           exists ch, nth_error (svc s) (rc r) = Some ch /\ buf ch = [] /\ sclosed ch = true;
  p_pipe : forall c ch, nth_error (svc s) c = Some ch -> count_rc c (reqs (pc s)) <= 1 ->
           on_chan c (wmsgs (wsout (nt s)) ++ dropped (nt s) ++ out (pc s)) ++
           held c (reqs (pc s)) ++ buf ch = emitted ch }.

Lemma InvP_init m0 n : InvP (init m0 n).
Proof.
  constructor; cbn.
  - intros [|k] r H; discriminate.
  - intros c ch H _. apply nth_error_In, repeat_spec in H. subst. reflexivity.
Qed.

Ltac norm_eqs :=
  repeat match goal with
  | E : ?f (?g ?s0) = _ |- _ => progress rewrite E
  end.

(* an exited forwarder's channel is closed and drained, so no step changes it *)
Lemma svc_upd_exit (sv : list chan_st) c (c0 x ch : chan_st) i :
  nth_error sv c = Some c0 -> (buf c0 <> [] \/ sclosed c0 = false) ->
  nth_error sv i = Some ch -> buf ch = [] -> sclosed ch = true ->
  nth_error (upd sv c x) i = Some ch.
Proof.
  intros Hc Hne Hi Hb Hs. destruct (Nat.eq_dec c i) as [->|Hn].
  - rewrite Hc in Hi. inv Hi. destruct Hne; congruence.
  - now rewrite nth_error_upd_other.
Qed.

Lemma step_p_exit fx s a s' :
  InvP s -> step fx s a = Some s' ->
  forall k r, nth_error (reqs (pc s')) k = Some r -> fw r = FExit ->
  exists ch, nth_error (svc s') (rc r) = Some ch /\ buf ch = [] /\ sclosed ch = true.
Proof.
  intros [P1 P2] H. unfold step in H. destruct (crashed s) eqn:Ec; [discriminate|].
  destruct fx as [a18 a19].
  destruct a; cbn in H; unfold wr_release, leave in H; cbn in H; dmatch H; inv H; proj; auto.
  all: intros k0 r0 Hk Hf.
  (* the service sends on / closes an open channel *)
  1-2: destruct (P1 k0 r0 Hk Hf) as (ch & Hn & Hb & Hs); exists ch; split; [|auto];
       eapply svc_upd_exit; eauto.
  - (* a new request *)
    destruct (Nat.lt_ge_cases k0 (length (reqs (pc s)))) as [Hlt|Hge].
    + rewrite nth_error_app1 in Hk by assumption. eauto.
    + rewrite nth_error_app2 in Hk by assumption.
      destruct (k0 - length (reqs (pc s))) as [|[|j]]; cbn in Hk; try discriminate. inv Hk. discriminate.
  - (* stopper *)
    apply nth_error_upd in Hk as [(<- & -> & _)|(Hne & Hk)]; proj; eauto.
  - (* forwarder leaves: its channel is closed and drained *)
    apply nth_error_upd in Hk as [(<- & -> & _)|(Hne & Hk)]; proj; eauto.
  - apply nth_error_upd in Hk as [(<- & -> & _)|(Hne & Hk)]; proj; eauto.
  - apply nth_error_upd in Hk as [(<- & -> & _)|(Hne & Hk)]; proj; eauto.
  - apply nth_error_upd in Hk as [(<- & -> & _)|(Hne & Hk)]; proj; eauto.
  - (* forwarder takes a value *)
    apply nth_error_upd in Hk as [(<- & -> & _)|(Hne & Hk)]; [discriminate|].
    destruct (P1 k0 r0 Hk Hf) as (ch & Hn & Hb & Hs). exists ch. split; [|auto].
    eapply svc_upd_exit; eauto. left. congruence.
  - (* forwarder sends *)
    apply nth_error_upd in Hk as [(<- & -> & _)|(Hne & Hk)]; [discriminate|]. eauto.
Qed.


Lemma step_p_pipe fx s a s' :
  InvW s -> InvP s -> step fx s a = Some s' ->
  forall c ch, nth_error (svc s') c = Some ch -> count_rc c (reqs (pc s')) <= 1 ->
  on_chan c (wmsgs (wsout (nt s')) ++ dropped (nt s') ++ out (pc s')) ++
  held c (reqs (pc s')) ++ buf ch = emitted ch.
Proof.
  intros HW [P1 P2] H. pose proof (w_dropped_loop s HW) as WD.
  unfold step in H. destruct (crashed s) eqn:Ec; [discriminate|].
  destruct fx as [a18 a19].
  destruct a; cbn in H; unfold wr_release, leave in H; cbn in H; dmatch H; inv H; proj; wsimp; auto.
  all: intros c1 ch1 Hn Hcnt.
  all: repeat match goal with
       | E : out (pc ?s0) = _ |- context[out (pc ?s0)] => rewrite E
       end.
  - (* service emits *)
    apply nth_error_upd in Hn as [(<- & -> & _)|(Hne & Hn)]; [|auto]. proj.
    rewrite <- (P2 c c0 E Hcnt). now rewrite !app_assoc.
  - (* service closes *)
    apply nth_error_upd in Hn as [(<- & -> & _)|(Hne & Hn)]; [|auto]. proj. auto.
  - (* write loop forwards *)
    rewrite <- (P2 c1 ch1 Hn Hcnt). rewrite (WD eq_refl). cbn. now rewrite <- app_assoc.
  - rewrite <- (P2 c1 ch1 Hn Hcnt). reflexivity.
  - (* write fails *)
    rewrite <- (P2 c1 ch1 Hn Hcnt). rewrite (WD eq_refl). reflexivity.
  - rewrite <- (P2 c1 ch1 Hn Hcnt). reflexivity.
  - rewrite <- (P2 c1 ch1 Hn Hcnt). reflexivity.
  - (* new request *)
    rewrite count_rc_app in Hcnt. rewrite held_app. cbn [held flat_map]. proj.
    destruct (c =? c1); rewrite !app_nil_r; apply P2; auto; lia.
  - (* stopper *)
    erewrite count_rc_upd in Hcnt; [|exact E|reflexivity].
    erewrite held_upd_same; [|exact E|reflexivity]. auto.
  - erewrite count_rc_upd in Hcnt; [|exact E|reflexivity].
    erewrite held_upd_same; [auto|exact E|]. unfold contrib. proj. match goal with Hf : fw r = _ |- _ => now rewrite Hf end.
  - erewrite count_rc_upd in Hcnt; [|exact E|reflexivity].
    erewrite held_upd_same; [auto|exact E|]. unfold contrib. proj. match goal with Hf : fw r = _ |- _ => now rewrite Hf end.
  - erewrite count_rc_upd in Hcnt; [|exact E|reflexivity].
    erewrite held_upd_same; [auto|exact E|]. unfold contrib. proj. match goal with Hf : fw r = _ |- _ => now rewrite Hf end.
  - erewrite count_rc_upd in Hcnt; [|exact E|reflexivity].
    erewrite held_upd_same; [auto|exact E|]. unfold contrib. proj. match goal with Hf : fw r = _ |- _ => now rewrite Hf end.
  - (* forwarder takes a value *)
    erewrite count_rc_upd in Hcnt; [|exact E|reflexivity].
    apply nth_error_upd in Hn as [(<- & -> & _)|(Hne & Hn)]; proj.
    + destruct (held_upd_one (rc r) _ k r (set_fw r (FHave n)) Hcnt E eq_refl eq_refl) as [Ho Hnw].
      rewrite Hnw. rewrite <- (P2 (rc r) c E1 Hcnt). rewrite Ho, E2. unfold contrib. proj.
      rewrite Nat.eqb_refl, E0. reflexivity.
    + erewrite held_upd_same; [auto|exact E|].
      unfold contrib. proj. apply Nat.eqb_neq in Hne. now rewrite Hne.
  - (* forwarder sends *)
    erewrite count_rc_upd in Hcnt; [|exact E|reflexivity].
    rewrite !app_assoc, on_chan_app, <- !app_assoc.
    destruct (Nat.eq_dec (rc r) c1) as [<-|Hne].
    + destruct (held_upd_one (rc r) _ k r (set_fw r FRecv) Hcnt E eq_refl eq_refl) as [Ho Hnw].
      rewrite Hnw, on_chan_one_same. rewrite <- (P2 (rc r) ch1 Hn Hcnt). rewrite Ho. unfold contrib. proj.
      rewrite Nat.eqb_refl, E0. reflexivity.
    + rewrite on_chan_one_other by assumption. erewrite held_upd_same; [|exact E|].
      * cbn [app]. apply P2; auto.
      * unfold contrib. proj. apply Nat.eqb_neq in Hne. now rewrite Hne.
Qed.

Record InvH (s : st) : Prop := { hw : InvW s; hp : InvP s }.

Lemma step_InvH fx s a s' : InvH s -> step fx s a = Some s' -> InvH s'.
Proof.
  intros [HW HP] H. constructor.
  - eapply step_InvW; eauto.
  - constructor.
    + eapply step_p_exit; eauto.
    + eapply step_p_pipe; eauto.
Qed.

Lemma reachable_InvH fx m0 n acts s : run fx (init m0 n) acts = Some s -> InvH s.
Proof.
  apply (run_inv fx InvH (step_InvH fx)). constructor; [apply InvW_init|apply InvP_init].
Qed.

(* Order, no duplication, no invention -- in every reachable state of the pinned
   and of the fixed code alike: on a service channel c that a single request
   answers on, what was written to the client, what is still in outChan, in the
   forwarder's hand and in the service channel is, in this order, exactly what
   the service emitted on c. In particular the client-side sequence on c is a
   prefix of the emission sequence (when nothing was dropped: equal up to the
   part still in flight). *)
Theorem order_pipeline fx m0 n acts s c ch :
  run fx (init m0 n) acts = Some s ->
  nth_error (svc s) c = Some ch -> count_rc c (reqs (pc s)) <= 1 ->
  on_chan c (wmsgs (wsout (nt s)) ++ dropped (nt s) ++ out (pc s)) ++
  held c (reqs (pc s)) ++ buf ch = emitted ch.
Proof. intros H. apply (p_pipe s (hp s (reachable_InvH _ _ _ _ _ H))). Qed.

Fixpoint prefix_of (a b : list nat) : Prop :=
  match a, b with
  | [], _ => True
  | x :: a', y :: b' => x = y /\ prefix_of a' b'
  | _ :: _, [] => False
  end.

Lemma prefix_of_app a b : prefix_of a (a ++ b).
Proof. induction a; cbn; auto. Qed.

Corollary order_prefix fx m0 n acts s c ch :
  run fx (init m0 n) acts = Some s ->
  nth_error (svc s) c = Some ch -> count_rc c (reqs (pc s)) <= 1 ->
  prefix_of (on_chan c (wmsgs (wsout (nt s)))) (emitted ch).
Proof.
  intros H Hn Hc. rewrite <- (order_pipeline fx m0 n acts s c ch H Hn Hc).
  rewrite !on_chan_app, <- !app_assoc. apply prefix_of_app.
Qed.

(* C15-N2: with two requests answered on ONE service channel two forwarders race
   and the client gets the values in the wrong order (both variants) *)
Theorem order_shared_refuted :
  exists acts s ch, run fixed (init (MReq 0) 1) acts = Some s /\
    nth_error (svc s) 0 = Some ch /\ emitted ch = [1; 2] /\
    on_chan 0 (wmsgs (wsout (nt s))) = [2; 1].
Proof.
  exists [AdTake; AdHandle; CSend (MReq 0); RdMsg; RdSend; AdTake; AdHandle;
          SEmit 0 1; SEmit 0 2; FwRecv 0; FwRecv 1; FwSend 1; FwSend 0; WrFwd; WrFwd].
  eexists. eexists. vm_compute. repeat split.
Qed.

(* every request answers on a channel the service has *)
Definition InvC (s : st) : Prop :=
  forall k r, nth_error (reqs (pc s)) k = Some r -> rc r < length (svc s).

Lemma step_InvC fx s a s' : InvC s -> step fx s a = Some s' -> InvC s'.
Proof.
  intros HC H. unfold InvC in *. unfold step in H. destruct (crashed s) eqn:Ec; [discriminate|].
  destruct fx as [a18 a19].
  destruct a; cbn in H; unfold wr_release, leave, handler_ok in H; cbn -[Nat.ltb] in H; dmatch H; inv H; proj;
    rewrite ?upd_length; auto.
  all: intros k0 r0 Hk.
  all: try (apply nth_error_upd in Hk as [(<- & -> & _)|(Hne & Hk)]; proj; eauto; fail).
  destruct (Nat.lt_ge_cases k0 (length (reqs (pc s)))) as [Hlt|Hge].
  - rewrite nth_error_app1 in Hk by assumption. eauto.
  - rewrite nth_error_app2 in Hk by assumption.
    destruct (k0 - length (reqs (pc s))) as [|[|j]]; cbn in Hk; try discriminate. inv Hk. proj.
    now apply Nat.ltb_lt.
Qed.

Lemma reachable_InvC fx m0 n acts s : run fx (init m0 n) acts = Some s -> InvC s.
Proof. apply (run_inv fx InvC (step_InvC fx)). intros [|k] r H; discriminate. Qed.

Lemma filter_nil {A} (p : A -> bool) l : (forall x, In x l -> p x = false) -> filter p l = [].
Proof.
  induction l as [|x t IH]; intros H; cbn; auto. rewrite (H x (or_introl eq_refl)). apply IH.
  intros y Hy. apply H. now right.
Qed.

Lemma held_all_exit c rs : (forall k r, nth_error rs k = Some r -> fw r = FExit) -> held c rs = [].
Proof.
  induction rs as [|x t IH]; intros H; auto. rewrite held_cons, IH.
  - unfold contrib. rewrite (H 0 x eq_refl). now destruct (rc x =? c).
  - intros k r Hk. apply (H (S k) r Hk).
Qed.

(* Nothing stays blocked: once every service has ended its channels and nothing
   internal is left to do, every goroutine of the session has returned -- unless
   outChan is full (100 undelivered messages behind a client that is gone), the
   one residual case in which forwarders stay parked in their send. *)
Theorem no_block m0 n acts s :
  run fixed (init m0 n) acts = Some s -> quiescent fixed s ->
  (forall c ch, nth_error (svc s) c = Some ch -> sclosed ch = true) ->
  length (out (pc s)) < out_cap ->
  rd (wk s) = RExit /\ wr (wk s) = WExit /\ ad (pc s) = AExit /\
  (forall k r, nth_error (reqs (pc s)) k = Some r -> fw r = FExit /\ stp r = true) /\
  census s = 0.
Proof.
  intros Hr Hq Hsv Hcap. pose proof (reachable_Inv _ _ _ _ Hr) as [[I1 I2 I3 I3' I4] [O1 O2 O3 O4] Hc].
  pose proof (reachable_InvC _ _ _ _ _ Hr) as HC.
  (* forwarders *)
  assert (Hfw : forall k r, nth_error (reqs (pc s)) k = Some r -> fw r = FExit).
  { intros k r Hk. destruct (fw r) as [|v|] eqn:Ef; auto; exfalso.
    - pose proof (HC k r Hk) as Hlt. apply nth_error_Some in Hlt.
      destruct (nth_error (svc s) (rc r)) as [ch|] eqn:Ech; [|congruence].
      pose proof (Hsv _ _ Ech) as Hcl. destruct (buf ch) as [|v b] eqn:Eb; stuck Hq (FwRecv k).
    - destruct (out_closed (pc s)) eqn:Eoc; [stuck Hq (FwSend k)|].
      apply Nat.ltb_lt in Hcap. stuck Hq (FwSend k). }
  assert (Hlive : live (reqs (pc s)) = 0) by (apply live_zero_conv; exact Hfw).
  (* write loop *)
  assert (Hwr : wr (wk s) = WExit).
  { destruct (wr (wk s)) as [|oc|] eqn:Ew; auto; exfalso.
    - destruct (out (pc s)) as [|x o] eqn:Eo; [|stuck Hq WrFwd].
      destruct (ad (pc s)) as [|m|] eqn:Ea.
      + destruct (out_closed (pc s)) eqn:Eoc.
        * destruct (done (wk s)) eqn:Ed; [destruct I2 as [I2a _]; specialize (I2a eq_refl); discriminate|].
          stuck Hq WrOutClosed.
        * cbn in O1. destruct (O3 eq_refl ltac:(lia)) as (_ & _ & Hcin).
          destruct (cin (wk s)) as [|m r] eqn:Ecin; [congruence|]. stuck Hq AdTake.
      + destruct (handler_ok s m) eqn:Eh.
        * destruct m as [c|]; [|discriminate]. unfold handler_ok in Eh. stuck Hq AdHandle.
        * unfold handler_ok in Eh. destruct m as [c|]; stuck Hq AdBad.
      + destruct (out_closed (pc s)) eqn:Eoc.
        * destruct (done (wk s)) eqn:Ed; [destruct I2 as [I2a _]; specialize (I2a eq_refl); discriminate|].
          stuck Hq WrOutClosed.
        * cbn in O1. destruct (O3 eq_refl ltac:(lia)) as (_ & Hx & _). discriminate.
    - stuck Hq WrFinish. }
  assert (Hdone : done (wk s) = true).
  { destruct (done (wk s)) eqn:Ed; auto. destruct I2 as [_ I2b]. specialize (I2b eq_refl). congruence. }
  assert (Hws : wsclosed (nt s) = true) by (apply I4; exact Hwr).
  (* reader *)
  assert (Hrd : rd (wk s) = RExit).
  { destruct (rd (wk s)) as [|m| |] eqn:Er; auto; exfalso.
    - stuck Hq RdErr. rewrite orb_true_r in Hs. discriminate.
    - stuck Hq RdDone.
    - destruct (cin_closed (wk s)) eqn:Ecc.
      + destruct I1 as [I1a _]. specialize (I1a eq_refl). discriminate.
      + stuck Hq RdFinish. }
  assert (Hcc : cin_closed (wk s) = true) by (apply I1; exact Hrd).
  (* adapter *)
  assert (Had : ad (pc s) = AExit).
  { destruct (ad (pc s)) as [|m|] eqn:Ea; auto; exfalso.
    - assert (Hsa : stopall (pc s) = false).
      { destruct (stopall (pc s)) eqn:E; auto. destruct O4 as [O4a _]. specialize (O4a eq_refl). discriminate. }
      destruct (cin (wk s)) as [|m r] eqn:Ecin; [stuck Hq AdEnd|].
      destruct (out_closed (pc s)) eqn:Eoc; stuck Hq AdTake.
    - destruct (handler_ok s m) eqn:Eh.
      + destruct m as [c|]; [|discriminate]. unfold handler_ok in Eh. stuck Hq AdHandle.
      + unfold handler_ok in Eh. destruct m as [c|]; stuck Hq AdBad. }
  assert (Hsa : stopall (pc s) = true) by (apply O4; exact Had).
  assert (Hst : forall k r, nth_error (reqs (pc s)) k = Some r -> stp r = true).
  { intros k r Hk. destruct (stp r) eqn:Es; auto. exfalso. stuck Hq (StStop k). }
  split; [exact Hrd|]. split; [exact Hwr|]. split; [exact Had|].
  split; [intros k r Hk; split; eauto|].
  unfold census. rewrite Hrd, Hwr, Had. cbn.
  rewrite !filter_nil; auto.
  - intros x Hx. apply In_nth_error in Hx as [k Hk]. now rewrite (Hfw k x Hk).
  - intros x Hx. apply In_nth_error in Hx as [k Hk]. now rewrite (Hst k x Hk).
Qed.

(* When the service ends the stream and the client stays: the client has been sent
   every message the service emitted, per service channel in emission order,
   followed by the normal close, and nothing else. *)
Theorem order_complete m0 n acts s :
  run fixed (init m0 n) acts = Some s -> quiescent fixed s ->
  cleft (nt s) = false ->
  (forall c ch, nth_error (svc s) c = Some ch -> sclosed ch = true) ->
  exists msgs,
    wsout (nt s) = map SMsg msgs ++ [SClose CNormal] /\
    forall c ch, nth_error (svc s) c = Some ch -> count_rc c (reqs (pc s)) = 1 ->
                 on_chan c msgs = emitted ch.
Proof.
  intros Hr Hq Hl Hsv.
  pose proof (reachable_InvH _ _ _ _ _ Hr) as [[W1 W2 W3 W4 W5 W6 W7 W8] [P1 P2]].
  pose proof (reachable_Inv _ _ _ _ Hr) as [[I1 I2 I3 I3' I4] [O1 O2 O3 O4] Hc].
  (* a client that stays is never the reason for the write loop to stop: outChan drains *)
  assert (Hwl : wr (wk s) = WLoop -> out (pc s) = []).
  { intros Ew. destruct (out (pc s)) as [|x o] eqn:Eo; auto. exfalso. stuck Hq WrFwd. }
  assert (Hcap : length (out (pc s)) < out_cap).
  { destruct (wr (wk s)) as [|oc|] eqn:Ew.
    - rewrite Hwl by reflexivity. cbn. unfold out_cap. lia.
    - exfalso. stuck Hq WrFinish.
    - destruct W2 as [Hn|[_ Hx]]; [|congruence].
      destruct W8 as [_ ->]; [rewrite Hn; now left|]. cbn. unfold out_cap. lia. }
  destruct (no_block m0 n acts s Hr Hq Hsv Hcap) as (Hrd & Hwr & Had & Hreq & _).
  rewrite Hwr in W2. destruct W2 as [Hn|[_ Hx]]; [|congruence].
  destruct W8 as [_ Hout]; [rewrite Hn; now left|].
  assert (Hdr : dropped (nt s) = []).
  { destruct (dropped (nt s)) eqn:Ed; auto. assert (cleft (nt s) = true) by (apply W5; discriminate). congruence. }
  exists (wmsgs (wsout (nt s))). split.
  - rewrite W1 at 1. now rewrite Hn.
  - intros c ch Hch Hcnt.
    rewrite <- (P2 c ch Hch ltac:(lia)). rewrite Hdr, Hout, !app_nil_r.
    rewrite held_all_exit by (intros k r Hk; apply (Hreq k r Hk)). cbn.
    (* the one forwarder of c has left: the channel is drained *)
    assert (Hex : exists k r, nth_error (reqs (pc s)) k = Some r /\ rc r = c).
    { clear - Hcnt. unfold count_rc in Hcnt. induction (reqs (pc s)) as [|x t IH]; cbn in Hcnt; [discriminate|].
      destruct (rc x =? c) eqn:E.
      - exists 0, x. split; auto. now apply Nat.eqb_eq.
      - destruct (IH Hcnt) as (k & r & Hk & Hrc). exists (S k), r. auto. }
    destruct Hex as (k & r & Hk & Hrc). destruct (Hreq k r Hk) as [Hf _].
    destruct (P1 k r Hk Hf) as (ch' & Hch' & Hb & _). rewrite Hrc, Hch in Hch'. inv Hch'.
    now rewrite Hb, app_nil_r.
Qed.

(* hypotheses of order_complete / no_block / stop_signalled are satisfiable: a
   three-message stream that the service ends; and one where the client drops *)
Example order_complete_example :
  exists acts s, run fixed (init (MReq 0) 1) acts = Some s /\ quiescentb fixed s = true /\
    cleft (nt s) = false /\ forallb sclosed (svc s) = true /\
    wsout (nt s) = [SMsg (0, 1); SMsg (0, 2); SMsg (0, 3); SClose CNormal] /\ census s = 0.
Proof.
  exists [AdTake; AdHandle; SEmit 0 1; FwRecv 0; FwSend 0; WrFwd; SEmit 0 2; SEmit 0 3; FwRecv 0; FwSend 0;
          FwRecv 0; FwSend 0; WrFwd; WrFwd; SEnd 0; FwRecv 0; WrOutClosed; WrFinish; RdErr; RdFinish; AdEnd; StStop 0].
  eexists. vm_compute. repeat split.
Qed.

Example stop_signalled_example :
  exists acts s, run fixed (init (MReq 0) 1) acts = Some s /\ quiescentb fixed s = true /\
    cleft (nt s) = true /\ map stp (reqs (pc s)) = [true].
Proof.
  exists [AdTake; AdHandle; SEmit 0 1; CLeave; RdErr; RdFinish; WrClosing; WrFinish; AdEnd; StStop 0; FwRecv 0; FwSend 0].
  eexists. vm_compute. repeat split.
Qed.

(* pinned code: after an undecodable follow-up the adapter returns without closing
   stopAll; the client leaves, nothing is left to do, the request was never told *)
Theorem stop_refuted :
  exists acts s, run pinned (init (MReq 0) 1) acts = Some s /\ quiescentb pinned s = true /\
    cleft (nt s) = true /\ crashed s = false /\ map stp (reqs (pc s)) = [false].
Proof.
  exists [AdTake; AdHandle; CSend MBad; RdMsg; RdSend; AdTake; AdBad; WrOutClosed; WrFinish; CLeave; RdErr].
  eexists. vm_compute. repeat split.
Qed.

(* the boolean used by the correspondence is the Prop used by the theorems *)
Lemma quiescentb_sound fx s : quiescentb fx s = true -> quiescent fx s.
Proof.
  unfold quiescentb, quiescent. rewrite forallb_forall. intros H a Ha.
  assert (Hin : In a (AdHandle :: tau_actions s) \/
                (exists k, length (reqs (pc s)) <= k /\ (a = StStop k \/ a = FwRecv k \/ a = FwSend k))).
  { unfold tau_actions. destruct a; try discriminate.
    all: try (left; cbn;
              repeat match goal with
                     | |- ?x = ?x \/ _ => left; reflexivity
                     | |- _ \/ _ => right
                     end; fail).
    all: destruct (Nat.lt_ge_cases k (length (reqs (pc s)))) as [Hlt|Hge]; [left|right; eauto].
    all: cbn; do 14 right; apply in_flat_map; exists k; split; [apply in_seq; lia|cbn; auto]. }
  destruct Hin as [Hin|(k & Hk & Hak)].
  - specialize (H a Hin). destruct (step fx s a); [discriminate|reflexivity].
  - apply nth_error_None in Hk. unfold step. destruct (crashed s); auto.
    destruct Hak as [->|[->| ->]]; cbn; now rewrite Hk.
Qed.

(* ================================================================ 4. several sessions *)

Lemma sstep_other fx s i a s' j :
  sstep fx s (i, a) = Some s' -> i <> j -> nth_error s' j = nth_error s j.
Proof.
  unfold sstep. cbn [fst snd]. destruct (sys_crashed s); [discriminate|].
  destruct (nth_error s i) as [c|]; [|discriminate].
  destruct (step fx c a) as [c'|]; [|discriminate]. intros H Hne. inv H.
  now apply nth_error_upd_other.
Qed.

Definition SInv (s : sys) : Prop := forall i c, nth_error s i = Some c -> Inv c.

Lemma SInv_alive s : SInv s -> sys_crashed s = false.
Proof.
  intros H. unfold sys_crashed. destruct (existsb crashed s) eqn:E; auto.
  apply existsb_exists in E as (c & Hin & Hc). apply In_nth_error in Hin as [i Hi].
  pose proof (inv_ok c (H i c Hi)). congruence.
Qed.

Lemma sstep_SInv s ia s' : SInv s -> sstep fixed s ia = Some s' -> SInv s'.
Proof.
  intros Hs H. destruct ia as [i a]. unfold sstep in H. cbn [fst snd] in H.
  destruct (sys_crashed s); [discriminate|].
  destruct (nth_error s i) as [c|] eqn:Ec; [|discriminate].
  destruct (step fixed c a) as [c'|] eqn:Est; [|discriminate]. inv H.
  intros j d Hj. apply nth_error_upd in Hj as [(<- & -> & _)|(Hne & Hj)]; eauto.
  eapply step_Inv; eauto.
Qed.

Definition sinit (l : list (cmsg * nat)) : sys := map (fun p => init (fst p) (snd p)) l.

Lemma SInv_init l : SInv (sinit l).
Proof.
  intros i c H. unfold sinit in H. apply nth_error_In, in_map_iff in H as (p & <- & _). apply Inv_init.
Qed.

Lemma srun_SInv acts : forall s s', SInv s -> srun fixed s acts = Some s' -> SInv s'.
Proof.
  induction acts as [|a r IH]; intros s s' Hs H; cbn in H.
  - now inv H.
  - destruct (sstep fixed s a) as [s1|] eqn:E; [|discriminate]. eapply IH; [|exact H]. eapply sstep_SInv; eauto.
Qed.

(* no session of a server ever crashes it, whatever all the clients and services do *)
Theorem sys_no_crash l acts s : srun fixed (sinit l) acts = Some s -> sys_crashed s = false.
Proof. intros H. apply SInv_alive. eapply srun_SInv; eauto. apply SInv_init. Qed.

(* other clients are unaffected: whatever the other sessions have done and are in
   the middle of, everything session j can do on its own it can do on the server,
   and that leaves every other session untouched *)
Theorem sessions_independent l acts s j c racts c' :
  srun fixed (sinit l) acts = Some s -> nth_error s j = Some c ->
  run fixed c racts = Some c' ->
  exists s', srun fixed s (map (pair j) racts) = Some s' /\ nth_error s' j = Some c' /\
             forall i, i <> j -> nth_error s' i = nth_error s i.
Proof.
  intros Hr. assert (Hs : SInv s) by (eapply srun_SInv; eauto; apply SInv_init). clear Hr.
  revert s c Hs. induction racts as [|a r IH]; intros s c Hs Hc H; cbn in H.
  - inv H. exists s. cbn. auto.
  - destruct (step fixed c a) as [c1|] eqn:E; [|discriminate].
    assert (Hlen : j < length s) by (apply nth_error_Some; congruence).
    assert (Hst : sstep fixed s (j, a) = Some (upd s j c1)).
    { unfold sstep. cbn [fst snd]. now rewrite (SInv_alive s Hs), Hc, E. }
    destruct (IH (upd s j c1) c1) as (s' & Hrun & Hj & Ho); auto.
    + eapply sstep_SInv; eauto.
    + now apply nth_error_upd_same.
    + exists s'. cbn [map srun]. rewrite Hst. split; [exact Hrun|]. split; [exact Hj|].
      intros i Hi. rewrite Ho by assumption. apply nth_error_upd_other. congruence.
Qed.

(* pinned code: one client's undecodable follow-up takes the process down and a
   bystander session whose next message is ready in outChan never gets it *)
Theorem bystander_refuted :
  exists acts s c1 c1', srun pinned (sinit [(MReq 0, 1); (MReq 0, 1)]) acts = Some s /\
    nth_error s 1 = Some c1 /\ step pinned c1 WrFwd = Some c1' /\
    sstep pinned s (1, WrFwd) = None.
Proof.
  exists [(1, AdTake); (1, AdHandle); (1, SEmit 0 9); (1, FwRecv 0); (1, FwSend 0);
          (0, AdTake); (0, AdHandle); (0, CSend MBad); (0, RdMsg); (0, RdSend); (0, AdTake); (0, AdBad);
          (0, SEnd 0); (0, FwRecv 0)].
  eexists. eexists. eexists. vm_compute. repeat split.
Qed.

(* ================================================================ 5. the trace validator *)

(* every model state the validator ever holds is a state of the transition system
   reachable from the initial state of the session: what it accepts, some run of
   the model does *)
Definition reach (fx : fixes) (s0 s : st) : Prop := exists acts, run fx s0 acts = Some s.

Lemma reach_refl fx s : reach fx s s.
Proof. exists []. reflexivity. Qed.

Lemma reach_step fx s0 s a s' : reach fx s0 s -> step fx s a = Some s' -> reach fx s0 s'.
Proof.
  intros [acts H] Hs. exists (acts ++ [a]). rewrite (run_app fx acts s0 [a] s H). cbn. now rewrite Hs.
Qed.

Lemma steps_reach fx s0 s l : reach fx s0 s -> forall x, In x (steps fx s l) -> reach fx s0 x.
Proof.
  intros Hr. induction l as [|a r IH]; intros x Hx; cbn in Hx; [contradiction|].
  destruct (step fx s a) as [s'|] eqn:E; auto. destruct Hx as [<-|Hx]; auto. eapply reach_step; eauto.
Qed.

Lemma closure_unfold fx f s r seen :
  closure fx (S f) (s :: r) seen =
  match (match eager_action fx s with Some a => step fx s a | None => None end) with
  | Some s' => closure fx f (s' :: r) seen
  | None => if existsb (st_eqb s) seen then closure fx f r seen
            else closure fx f (succs fx s ++ r) (s :: seen)
  end.
Proof. reflexivity. Qed.

Lemma closure_nil fx fuel seen : closure fx fuel [] seen = Some seen.
Proof. destruct fuel; reflexivity. Qed.

Lemma closure_reach fx s0 fuel : forall todo seen res,
  (forall x, In x todo -> reach fx s0 x) -> (forall x, In x seen -> reach fx s0 x) ->
  closure fx fuel todo seen = Some res -> forall x, In x res -> reach fx s0 x.
Proof.
  induction fuel as [|f IH]; intros todo seen res Ht Hs H; destruct todo as [|s r].
  - rewrite closure_nil in H. inv H. auto.
  - discriminate H.
  - rewrite closure_nil in H. inv H. auto.
  - rewrite closure_unfold in H.
    assert (Hrs : reach fx s0 s) by (apply Ht; now left).
    assert (Hr : forall x, In x r -> reach fx s0 x) by (intros x Hx; apply Ht; now right).
    remember (match eager_action fx s with Some a => step fx s a | None => None end) as eg eqn:Ee.
    destruct eg as [s'|].
    + apply (IH (s' :: r) seen res); auto. intros x [<-|Hx]; auto.
      destruct (eager_action fx s) as [a|]; [|discriminate]. eapply reach_step; eauto.
    + remember (existsb (st_eqb s) seen) as ex eqn:Ex. destruct ex.
      * apply (IH r seen res); auto.
      * apply (IH (succs fx s ++ r) (s :: seen) res); auto.
        -- intros x Hx. apply in_app_or in Hx as [Hx|Hx]; auto. unfold succs in Hx. eapply steps_reach; eauto.
        -- intros x [<-|Hx]; auto.
Qed.

Lemma event_steps_reach fx s0 s e : reach fx s0 s -> forall x, In x (event_steps fx s e) -> reach fx s0 x.
Proof.
  intros Hr x Hx. destruct e as [m1| |c1 v1|cc1|c1 v1|c1|c1|k1| |]; cbn [event_steps] in Hx.
  1-2, 5-6: eapply steps_reach; eauto.
  - destruct (nth_error (wsout (nt s)) (crecv (nt s))) as [[m2|c2]|]; try contradiction.
    destruct (omsg_eqb m2 (c1, v1)); [|contradiction]. eapply steps_reach; eauto.
  - destruct (nth_error (wsout (nt s)) (crecv (nt s))) as [[m2|c2]|]; try contradiction.
    destruct (ccode_eqb c2 cc1); [|contradiction]. eapply steps_reach; eauto.
  - destruct (ad (pc s)) as [|[c2|]|]; try contradiction.
    destruct (c2 =? c1); [|contradiction]. eapply steps_reach; eauto.
  - destruct (nth_error (reqs (pc s)) k1) as [r|]; [|contradiction].
    destruct (stp r); [|contradiction]. destruct (crashed s); [contradiction|].
    destruct Hx as [<-|[]]. exact Hr.
  - destruct (rd (wk s)); try contradiction.
    match type of Hx with In _ (if ?b then _ else _) => destruct b end; [|contradiction].
    destruct Hx as [<-|[]]. exact Hr.
  - destruct (wr (wk s)); try contradiction. destruct (crashed s); [contradiction|].
    destruct Hx as [<-|[]]. exact Hr.
Qed.

Lemma explain_from_reach fx s0 fuel evs : forall cur res,
  (forall x, In x cur -> reach fx s0 x) ->
  explain_from fx fuel cur evs = Some res -> forall x, In x res -> reach fx s0 x.
Proof.
  induction evs as [|e r IH]; intros cur res Hc H; cbn in H.
  - inv H. auto.
  - destruct (closure fx fuel (flat_map (fun s => event_steps fx s e) cur) []) as [nxt|] eqn:Ec; [|discriminate].
    apply (IH nxt res); auto.
    eapply closure_reach; [| |exact Ec].
    + intros x Hx. apply in_flat_map in Hx as (s & Hs & Hx). eapply event_steps_reach; eauto.
    + intros x [].
Qed.

Theorem explain_reachable fx m0 n evs res :
  explain fx m0 n evs = Some res -> forall s, In s res -> exists acts, run fx (init m0 n) acts = Some s.
Proof.
  unfold explain. intros H.
  destruct (closure fx (fuel_of (length evs)) [init m0 n] []) as [c0|] eqn:Ec; [|discriminate].
  eapply explain_from_reach; [|exact H].
  eapply closure_reach; [| |exact Ec].
  - intros x [<-|[]]. apply reach_refl.
  - intros x [].
Qed.

(* hence: when the (fixed-variant) validator is asked whether a crash is possible, it says no *)
Corollary explain_fixed_never_crashed m0 n evs res :
  explain fixed m0 n evs = Some res -> forall s, In s res -> crashed s = false.
Proof.
  intros H s Hs. destruct (explain_reachable fixed m0 n evs res H s Hs) as [acts Hr].
  eapply no_crash; eauto.
Qed.

(* ================================================================ 6. the pinned code away from the defects *)

(* A stream on which the client never sends a further message (it only reads,
   closes or drops) never crashes the pinned server: F18, F19 and C15-N1 all need
   a follow-up message. *)
Definition no_send (a : action) : Prop := match a with CSend _ => False | _ => True end.

Definition phase (s : st) : Prop :=
  (ad (pc s) = ALoop /\ (exists m, cin (wk s) = [m]) /\ reqs (pc s) = [] /\
   out_closed (pc s) = false /\ once (pc s) = false) \/
  ((exists m, ad (pc s) = ABusy m) /\ cin (wk s) = [] /\ reqs (pc s) = [] /\
   out_closed (pc s) = false /\ once (pc s) = false) \/
  (cin (wk s) = [] /\ (ad (pc s) = ALoop \/ ad (pc s) = AExit) /\
   ((reqs (pc s) = [] /\ once (pc s) = false) \/
    (exists r, reqs (pc s) = [r] /\
       ((fw r <> FExit /\ once (pc s) = false /\ out_closed (pc s) = false) \/
        (fw r = FExit /\ once (pc s) = true /\ out_closed (pc s) = true))))).

Record InvQ (s : st) : Prop := {
  q_wsin : wsin (nt s) = [];
  q_rd : rd (wk s) = RRead \/ rd (wk s) = RExit;
  q_wr : wr (wk s) = WLoop -> cin_closed (wk s) = false;
  q_stop : stopall (pc s) = true -> ad (pc s) = AExit;
  q_phase : phase s;
  q_ok : crashed s = false }.

Lemma InvQ_init m0 n : InvQ (init m0 n).
Proof.
  constructor; cbn; auto; try discriminate. left. cbn. repeat split; eauto.
Qed.

Lemma step_InvQ s a s' : no_send a -> InvQ s -> step pinned s a = Some s' -> InvQ s'.
Proof.
  intros Hns [Q1 Q2 Q3 Q4 Q5 Q6] H. unfold step in H. rewrite Q6 in H.
  destruct a; try contradiction; cbn in H; unfold wr_release, handler_ok in H; cbn -[Nat.ltb] in H; dmatch H; inv H.
  all: try (constructor; proj; auto; fail).
  all: try (destruct Q2; congruence).
  all: unfold phase in Q5;
       destruct Q5 as [(Ha & (m0' & Hc) & Hr & Ho & Hn) | [((m0' & Ha) & Hc & Hr & Ho & Hn) | (Hc & Ha & Hrq)]];
       try congruence.
  all: try (destruct Ha; congruence).
  all: try (destruct Hrq as [(Hr & Hn)|(r0 & Hr & [(Hf & Hn & Ho)|(Hf & Hn & Ho)])]); try congruence.
  all: try match goal with
       | Hr : reqs (pc ?s0) = [], Hk : nth_error (reqs (pc ?s0)) ?k = Some _ |- _ =>
           rewrite Hr in Hk; destruct k; discriminate
       | Hr : reqs (pc ?s0) = [?r0], Hk : nth_error (reqs (pc ?s0)) ?k = Some _ |- _ =>
           rewrite Hr in Hk; destruct k as [|[|?]]; try discriminate; inv Hk
       end; try congruence.
  all: try (specialize (Q3 eq_refl); discriminate).
  all: try (specialize (Q4 eq_refl); congruence).
  all: constructor; proj; auto; try discriminate; try congruence.
  all: try (intros; congruence).
  all: unfold phase; proj; rewrite ?Hr; cbn [upd app].
  all: first
       [ left; solve [repeat split; eauto; congruence]
       | right; left; solve [repeat split; eauto; congruence]
       | right; right; split; [solve [auto; congruence]|split; [solve [auto; tauto]|]];
         first [ left; solve [split; auto; congruence]
               | right; eexists; split; [reflexivity|]; proj;
                 first [ left; solve [repeat split; auto; congruence]
                       | right; solve [repeat split; auto; congruence] ] ]
       | idtac ].
  all: try (intros Hx; specialize (Q4 Hx); discriminate).
  all: intros Hx; specialize (Q3 Hx); discriminate.
Qed.

Lemma run_no_send acts : forall s s',
  Forall no_send acts -> InvQ s -> run pinned s acts = Some s' -> InvQ s'.
Proof.
  induction acts as [|a r IH]; intros s s' Hf Hs H; cbn in H.
  - now inv H.
  - inv Hf. destruct (step pinned s a) as [s1|] eqn:E; [|discriminate].
    apply (IH s1 s' H3); [|exact H]. eapply step_InvQ; eauto.
Qed.

Theorem pinned_no_crash_without_followups m0 n acts s :
  Forall no_send acts -> run pinned (init m0 n) acts = Some s -> crashed s = false.
Proof. intros Hf H. apply (q_ok s (run_no_send acts _ _ Hf (InvQ_init m0 n) H)). Qed.

Example pinned_no_followups_example :
  exists acts s, Forall no_send acts /\ run pinned (init (MReq 0) 1) acts = Some s /\ census s = 0.
Proof.
  exists [AdTake; AdHandle; SEmit 0 1; FwRecv 0; FwSend 0; WrFwd; CLeave; RdErr; WrClosing; WrFinish;
          AdEnd; StStop 0; SEnd 0; FwRecv 0].
  eexists. split; [repeat constructor|]. vm_compute. auto.
Qed.

(* ================================================================ 7. the write loop releases the reader *)

(* Whichever way the write loop leaves (client gone, failed write, service ended
   the stream), [done] is closed; a reader parked with a message in its hand --
   clientInputs full, nobody taking from it -- can then leave through [done], and
   closes clientInputs on its way out. Closing the connection would not wake it. *)
Theorem writer_gone_releases_reader m0 n acts s :
  run fixed (init m0 n) acts = Some s -> wr (wk s) <> WLoop ->
  done (wk s) = true /\
  (forall m, rd (wk s) = RHave m ->
     exists s1 s2, step fixed s RdDone = Some s1 /\ step fixed s1 RdFinish = Some s2 /\
                   rd (wk s2) = RExit /\ cin_closed (wk s2) = true).
Proof.
  intros Hr Hw. pose proof (reachable_Inv _ _ _ _ Hr) as [[I1 I2 I3 I3' I4] _ Hc].
  assert (Hd : done (wk s) = true).
  { destruct (done (wk s)) eqn:E; auto. destruct I2 as [_ I2b]. elim Hw. now apply I2b. }
  split; [exact Hd|]. intros m Hm.
  assert (Hcc : cin_closed (wk s) = false).
  { destruct (cin_closed (wk s)) eqn:E; auto. destruct I1 as [I1a _]. specialize (I1a eq_refl). congruence. }
  unfold step. rewrite Hc. cbn. rewrite Hm, Hd. cbn. eexists. eexists. split; [reflexivity|].
  cbn. rewrite Hc, Hcc. cbn. auto.
Qed.

Example writer_gone_releases_reader_example :
  exists acts s m, run fixed (init (MReq 0) 1) acts = Some s /\ wr (wk s) <> WLoop /\
    rd (wk s) = RHave m /\ length (cin (wk s)) = cin_cap /\ ad (pc s) = AExit.
Proof.
  exists ([AdTake; AdHandle; CSend MBad; RdMsg; RdSend; AdTake; AdBad] ++
          flat_map (fun _ => [CSend (MReq 0); RdMsg; RdSend]) (seq 0 10) ++
          [CSend (MReq 0); RdMsg; SEnd 0; FwRecv 0; WrOutClosed]).
  eexists. eexists. vm_compute. repeat split; discriminate.
Qed.
