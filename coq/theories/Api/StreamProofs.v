(* C15 -- proofs about the streaming transition system of Api/Stream.v.
   [run fx (init m0 n) acts] ranges over every interleaving of client, service,
   reader, write loop, adapter, stoppers and forwarders of one session, [srun]
   over several sessions on one server. *)
From Coq Require Import List Arith Bool Lia.
Import ListNotations.
From Onet Require Import Api.Stream.

(* ---------------------------------------------------------------- tactics *)

(* case analysis on everything [step] inspects *)
Ltac dmatch H :=
  repeat match type of H with
  | context[match ?x with _ => _ end] =>
      let E := fresh "E" in destruct x eqn:E; try discriminate H
  | context[if ?x then _ else _] =>
      let E := fresh "E" in destruct x eqn:E; try discriminate H
  end.

Ltac inv H := inversion H; subst; clear H.

Lemma run_app fx a1 : forall s a2 s1,
  run fx s a1 = Some s1 -> run fx s (a1 ++ a2) = run fx s1 a2.
Proof.
  induction a1 as [|a r IH]; intros s a2 s1 H; cbn in *.
  - now inv H.
  - destruct (step fx s a); [|discriminate]. now apply IH.
Qed.

Lemma run_inv (fx : fixes) (P : st -> Prop) :
  (forall s a s', P s -> step fx s a = Some s' -> P s') ->
  forall acts s s', P s -> run fx s acts = Some s' -> P s'.
Proof.
  intros Hstep acts. induction acts as [|a r IH]; intros s s' Hs H; cbn in H.
  - now inv H.
  - destruct (step fx s a) as [s1|] eqn:E; [|discriminate]. eapply IH; [|exact H]. eapply Hstep; eauto.
Qed.

(* ---------------------------------------------------------------- lists *)

Lemma nth_error_upd_same {A} (l : list A) i x :
  i < length l -> nth_error (upd l i x) i = Some x.
Proof.
  revert i; induction l as [|y r IH]; intros [|i] H; cbn in *; try lia; auto.
  apply IH. lia.
Qed.

Lemma nth_error_upd_other {A} (l : list A) i j x :
  i <> j -> nth_error (upd l i x) j = nth_error l j.
Proof.
  revert i j; induction l as [|y r IH]; intros [|i] [|j] H; cbn; auto; try congruence.
Qed.

Lemma upd_length {A} (l : list A) i x : length (upd l i x) = length l.
Proof. revert i; induction l as [|y r IH]; intros [|i]; cbn; auto. Qed.

Lemma nth_error_upd {A} (l : list A) i j x y :
  nth_error (upd l i x) j = Some y ->
  (i = j /\ y = x /\ i < length l) \/ (i <> j /\ nth_error l j = Some y).
Proof.
  intros H. destruct (Nat.eq_dec i j) as [->|Hne].
  - left. assert (Hl : j < length l).
    { rewrite <- (upd_length l j x). apply nth_error_Some. congruence. }
    rewrite nth_error_upd_same in H by assumption. inv H. auto.
  - right. rewrite nth_error_upd_other in H by assumption. auto.
Qed.

(* forwarders that have not returned *)
Definition is_live (r : req) : bool := match fw r with FExit => false | _ => true end.

Fixpoint live (rs : list req) : nat :=
  match rs with
  | [] => 0
  | r :: t => (if is_live r then 1 else 0) + live t
  end.

Lemma live_app a b : live (a ++ b) = live a + live b.
Proof. induction a as [|x a IH]; cbn; auto. rewrite IH. lia. Qed.

Lemma live_upd rs : forall k r r',
  nth_error rs k = Some r ->
  live (upd rs k r') + (if is_live r then 1 else 0) = live rs + (if is_live r' then 1 else 0).
Proof.
  induction rs as [|x t IH]; intros [|k] r r' H; cbn in *; try discriminate.
  - inv H. lia.
  - specialize (IH k r r' H). lia.
Qed.

Lemma live_zero rs : live rs = 0 -> forall k r, nth_error rs k = Some r -> fw r = FExit.
Proof.
  induction rs as [|x t IH]; intros H [|k] r Hk; cbn in *; try discriminate.
  - inv Hk. unfold is_live in H. destruct (fw r); auto; lia.
  - apply (IH ltac:(lia) k r Hk).
Qed.

Lemma live_zero_conv rs : (forall k r, nth_error rs k = Some r -> fw r = FExit) -> live rs = 0.
Proof.
  induction rs as [|x t IH]; intros H; cbn; auto.
  rewrite IH by (intros k r Hk; apply (H (S k) r Hk)).
  unfold is_live. rewrite (H 0 x eq_refl). reflexivity.
Qed.

(* ================================================================ 1. no crash *)

(* input side, needs f19: clientInputs is closed by the reader alone, at its end *)
Record InvIn (s : st) : Prop := {
  in_closed : cin_closed (wk s) = true <-> rd (wk s) = RExit;
  in_done : wr (wk s) = WLoop <-> done (wk s) = false;
  in_closing : closing (wk s) = true -> (rd (wk s) = RFin \/ rd (wk s) = RExit);
  in_gone : (rd (wk s) = RFin \/ rd (wk s) = RExit) -> closing (wk s) = true \/ done (wk s) = true;
  in_wsclosed : wsclosed (nt s) = true <-> wr (wk s) = WExit }.

(* output side, needs f18: the counter counts the goroutines that may still send *)
Definition busy (a : astate) : nat := match a with ABusy _ => 1 | _ => 0 end.

Record InvOut (s : st) : Prop := {
  out_count : active (pc s) = busy (ad (pc s)) + live (reqs (pc s));
  out_zero : out_closed (pc s) = true -> active (pc s) = 0;
  out_open : out_closed (pc s) = false -> active (pc s) = 0 ->
             reqs (pc s) = [] /\ ad (pc s) = ALoop /\ cin (wk s) <> [];
  out_stopall : stopall (pc s) = true <-> ad (pc s) = AExit }.

Lemma InvIn_init m0 n : InvIn (init m0 n).
Proof. constructor; cbn; intuition (try discriminate; try congruence). Qed.

Lemma InvOut_init m0 n : InvOut (init m0 n).
Proof. constructor; cbn; intuition (try discriminate; try congruence). Qed.

Ltac split_iffs :=
  repeat match goal with
  | H : _ <-> _ |- _ => destruct H
  end.

Ltac fin := cbn in *; try solve [ intuition (try discriminate; try congruence; try lia) ].

Lemma step_InvIn fx s a s' : f19 fx = true -> InvIn s -> step fx s a = Some s' -> InvIn s'.
Proof.
  intros Hf [H1 H2 H3 H3' H4] H. unfold step in H. destruct (crashed s) eqn:Ec; [discriminate|].
  destruct a; cbn in H; unfold wr_release in H; rewrite ?Hf in H; dmatch H; inv H;
    try (constructor; cbn; rewrite ?Hf; cbn; split_iffs; try split; intros; fin; fail).
  all: constructor; cbn; rewrite ?Hf; cbn; split_iffs; try split; intros; fin.
Qed.

Lemma app_cons_not_nil' {A} (l : list A) x : l ++ [x] <> [].
Proof. destruct l; discriminate. Qed.

Ltac use_live s :=
  try match goal with
  | Hk : nth_error (reqs (pc s)) ?k = Some ?r |- context[upd (reqs (pc s)) ?k ?r'] =>
      let Hl := fresh "Hl" in
      pose proof (live_upd _ k r r' Hk) as Hl; unfold is_live in Hl; cbn in Hl
  end.

Ltac rw_state s :=
  repeat match goal with
  | E : ad (pc s) = _ |- _ => rewrite E in *; clear E
  | E : fw _ = _ |- _ => rewrite E in *; clear E
  | E : (_ =? _) = true |- _ => apply Nat.eqb_eq in E
  | E : (_ =? _) = false |- _ => apply Nat.eqb_neq in E
  end.

Lemma step_InvOut fx s a s' : f18 fx = true -> InvOut s -> step fx s a = Some s' -> InvOut s'.
Proof.
  intros Hf [H1 H2 H3 H4] H. unfold step in H. destruct (crashed s) eqn:Ec; [discriminate|].
  destruct fx as [a18 a19]. cbn in Hf. subst a18.
  destruct a; cbn in H; unfold wr_release, leave in H; cbn in H; destruct a19; dmatch H; inv H;
    try (constructor; cbn; split_iffs; try split; intros; fin; fail).
  all: use_live s; rw_state s.
  all: constructor; cbn; rewrite ?live_app; cbn; split_iffs; try split; intros; fin.
  all: try (exfalso; eapply app_cons_not_nil'; eauto; fail).
  all: try match goal with
       | H3 : _ -> active (pc ?s0) = 0 -> _ /\ _ |- _ =>
           let Hr := fresh in let Ha := fresh in let Hc := fresh in
           destruct H3 as (Hr & Ha & Hc); [first [assumption|reflexivity]|lia|]
       end.
  all: try (split; [assumption|apply app_cons_not_nil']).
  all: try match goal with
       | Hr : reqs (pc ?s0) = [], Hk : nth_error (reqs (pc ?s0)) ?k = Some _ |- _ =>
           rewrite Hr in Hk; destruct k; discriminate
       end.
Qed.

Lemma step_no_crash fx s a s' :
  f18 fx = true -> f19 fx = true -> InvIn s -> InvOut s ->
  step fx s a = Some s' -> crashed s' = false.
Proof.
  intros Hf8 Hf9 [I1 I2 I3 I3' I4] [O1 O2 O3 O4] H. unfold step in H.
  destruct (crashed s) eqn:Ec; [discriminate|].
  destruct fx as [a18 a19]. cbn in Hf8, Hf9. subst a18 a19.
  destruct a; cbn in H; unfold wr_release, leave in H; cbn in H; dmatch H; inv H; cbn; auto.
  all: exfalso; split_iffs; rw_state s.
  all: try (intuition (try discriminate; try congruence); fail).
  specialize (O2 eq_refl). assert (Hz : live (reqs (pc s)) = 0) by lia.
  pose proof (live_zero _ Hz k r E). congruence.
Qed.

Record Inv (s : st) : Prop := { inv_in : InvIn s; inv_out : InvOut s; inv_ok : crashed s = false }.

Lemma step_Inv s a s' : Inv s -> step fixed s a = Some s' -> Inv s'.
Proof.
  intros [Hi Ho Hc] H. constructor.
  - exact (step_InvIn fixed s a s' eq_refl Hi H).
  - exact (step_InvOut fixed s a s' eq_refl Ho H).
  - exact (step_no_crash fixed s a s' eq_refl eq_refl Hi Ho H).
Qed.

Lemma Inv_init m0 n : Inv (init m0 n).
Proof. constructor; [apply InvIn_init|apply InvOut_init|reflexivity]. Qed.

Lemma reachable_Inv m0 n acts s : run fixed (init m0 n) acts = Some s -> Inv s.
Proof. apply (run_inv fixed Inv step_Inv), Inv_init. Qed.

(* no send on a closed channel and no second close, whatever the timing of further
   client messages (valid or not), client close / drop and service termination *)
Theorem no_crash m0 n acts s : run fixed (init m0 n) acts = Some s -> crashed s = false.
Proof. intros H. apply (inv_ok s (reachable_Inv m0 n acts s H)). Qed.

(* each fix removes its own crash: with f19 alone clientInputs is never hit, ... *)

(* ---- the pinned code: refutations by concrete schedules ------------------ *)

(* F19: the reader holds a follow-up message when the write loop, seeing outChan
   closed, closes clientInputs *)
Theorem send_on_closed_refuted :
  exists acts s, run pinned (init (MReq 0) 1) acts = Some s /\ crashed s = true.
Proof.
  exists [AdTake; AdHandle; CSend (MReq 0); RdMsg; SEnd 0; FwRecv 0; WrOutClosed; RdSend].
  eexists. split; vm_compute; reflexivity.
Qed.

(* F18: an undecodable follow-up makes the adapter close outChan directly; the
   forwarder of the first request then closes it again ... *)
Theorem double_close_refuted :
  exists acts s, run pinned (init (MReq 0) 1) acts = Some s /\ crashed s = true.
Proof.
  exists [AdTake; AdHandle; CSend MBad; RdMsg; RdSend; AdTake; AdBad; SEnd 0; FwRecv 0].
  eexists. split; vm_compute; reflexivity.
Qed.

(* ... or sends the next value of the service on it *)
Theorem send_on_closed_out_refuted :
  exists acts s, run pinned (init (MReq 0) 1) acts = Some s /\ crashed s = true.
Proof.
  exists [AdTake; AdHandle; CSend MBad; RdMsg; RdSend; AdTake; AdBad; SEmit 0 7; FwRecv 0; FwSend 0].
  eexists. split; vm_compute; reflexivity.
Qed.

(* C15-N1: two requests on two service channels; the forwarder of the first one
   to end closes outChan under the other *)
Theorem first_end_refuted :
  exists acts s, run pinned (init (MReq 0) 2) acts = Some s /\ crashed s = true.
Proof.
  exists [AdTake; AdHandle; CSend (MReq 1); RdMsg; RdSend; AdTake; AdHandle;
          SEnd 0; FwRecv 0; SEmit 1 5; FwRecv 1; FwSend 1].
  eexists. split; vm_compute; reflexivity.
Qed.

(* the same schedules are harmless in the fixed variant *)
Example fixed_survives_witnesses :
  (option_map crashed (run fixed (init (MReq 0) 1)
    [AdTake; AdHandle; CSend (MReq 0); RdMsg; SEnd 0; FwRecv 0; WrOutClosed; RdSend]) = Some false) /\
  (option_map crashed (run fixed (init (MReq 0) 1)
    [AdTake; AdHandle; CSend MBad; RdMsg; RdSend; AdTake; AdBad; SEnd 0; FwRecv 0]) = Some false) /\
  (option_map crashed (run fixed (init (MReq 0) 2)
    [AdTake; AdHandle; CSend (MReq 1); RdMsg; RdSend; AdTake; AdHandle;
     SEnd 0; FwRecv 0; SEmit 1 5; FwRecv 1; FwSend 1]) = Some false).
Proof. vm_compute. auto. Qed.
