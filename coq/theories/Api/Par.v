(* C14 -- the client's parallel sender (websocket_client.go:
   ParallelOptions.GetList, Client.SendProtobufParallelWithDecoder) and the streaming
   side of callInterfaceFunc's panic barrier.  MODEL ONLY (no proofs).

   SendProtobufParallelWithDecoder sends one request to several nodes, [parallel] at
   a time, and returns the FIRST successful answer: a worker that gets a reply takes
   the [decoding] mutex and, if [done] is still open, decodes the reply into the
   caller's single [ret], reports its node and closes [done]; replies that arrive
   later are dropped undecoded.  [decode_every = false] is the code as it is; [true]
   is the variant in which every reply is decoded into [ret] before [done] is looked
   at (kept for the refutation).

   The transition system has one action, [complete n]: the Send of in-flight node [n]
   returns, its worker deals with the outcome under the lock and, unless [done] is
   closed, takes the next node of the queue.  The order of completions is the
   arrival order of the replies; it is the only nondeterminism. *)
From Coq Require Import List String Ascii ZArith NArith Bool Arith.
Import ListNotations.
From Onet Require Export Api.Rest.
Local Open Scope string_scope.

(* ---------- nodes ---------------------------------------------------------------- *)

(* what the service on one node does with the request *)
Inductive nbehav :=
| NOk         (* answers: echo of the request plus its own identity *)
| NFail       (* handler error *)
| NPanic      (* handler panic *)
| NBad.       (* answers, but the caller's decoder rejects the answer *)

Inductive pout := POk (r : msg) | PBadReply (r : msg) | PErr (c : errc) (tok : string).

(* the reply of node i for request [q]: echo, with the node's identity in field I *)
Definition node_reply (q : msg) (i : nat) : msg := Msg (mS q) (Z.of_nat i) (mB q) (mD q).

Definition node_out (bs : list nbehav) (use_decoder : bool) (q : msg) (i : nat) : pout :=
  match nth_error bs i with
  | None => PErr EOther ""
  | Some NOk => POk (node_reply q i)
  | Some NBad => if use_decoder then PBadReply (node_reply q i) else POk (node_reply q i)
  | Some NFail => PErr EHandler "node-fails"
  | Some NPanic => PErr EPanic "node-panics"
  end.

(* ---------- ParallelOptions.GetList ------------------------------------------------- *)

Record popts := POpts { o_nil : bool;          (* opt == nil *)
                        o_parallel : nat; o_ask : nat; o_start : nat;
                        o_quit : bool; o_ignore : list nat; o_noshuffle : bool }.

Definition mem_nat (x : nat) (l : list nat) : bool := existsb (Nat.eqb x) l.

(* (number of workers, nodes that will be asked, in order); [order] is the
   permutation used: the identity for DontShuffle, anything otherwise *)
Definition getlist (n : nat) (o : popts) (perm : list nat) : nat * list nat :=
  let par0 := (n + 1) / 2 in
  if o_nil o then (par0, perm) else
  let par1 := if (Nat.ltb 0 (o_parallel o)) && (Nat.ltb (o_parallel o) par0) then o_parallel o else par0 in
  let start := if (Nat.ltb 0 (o_start o)) && (Nat.ltb (o_start o) n) then o_start o else 0 in
  let ask0 := n - start in
  let ask := if (Nat.ltb 0 (o_ask o)) && (Nat.ltb (o_ask o) n) then o_ask o else ask0 in
  let par := if Nat.ltb ask par1 then ask else par1 in
  let order := map (fun p => (start + p) mod n) perm in
  (par, firstn ask (filter (fun x => negb (mem_nat x (o_ignore o))) order)).

Definition quit_of (o : popts) : bool := negb (o_nil o) && o_quit o.

(* ---------- the transition system ----------------------------------------------------- *)

Inductive presult :=
| RNode (n : nat)                  (* returned (node, nil) *)
| RError (c : errc) (tok : string) (* returned (nil, err) *)
| RCrash.                          (* index out of range on errs[0]: nobody to ask *)

Record pstate := { ps_queue : list nat;         (* nodesChan *)
                   ps_infl : list nat;          (* nodes whose Send is running *)
                   ps_acc : option nat;         (* node sent on decodedChan *)
                   ps_ret : option msg;         (* the caller's ret: None = untouched *)
                   ps_errs : list (errc * string);
                   ps_done : bool;              (* [done] is closed *)
                   ps_nbr : nat;                (* nodesNbr *)
                   ps_result : option (presult * option msg) }.
                                                (* what the call returned, and ret at that moment *)

Definition pinit (par : nat) (chosen : list nat) : pstate :=
  {| ps_queue := skipn par chosen; ps_infl := firstn par chosen; ps_acc := None; ps_ret := None;
     ps_errs := []; ps_done := false; ps_nbr := List.length chosen;
     ps_result := match chosen with [] => Some (RCrash, None) | _ => None end |}.

Definition remove_nat (x : nat) (l : list nat) : list nat := filter (fun y => negb (Nat.eqb x y)) l.

(* the worker's next iteration of contactNode *)
Definition take_next (s : pstate) : pstate :=
  if ps_done s then s else
  match ps_queue s with
  | [] => s
  | n :: q => {| ps_queue := q; ps_infl := (ps_infl s ++ [n])%list; ps_acc := ps_acc s; ps_ret := ps_ret s;
                 ps_errs := ps_errs s; ps_done := ps_done s; ps_nbr := ps_nbr s; ps_result := ps_result s |}
  end.

(* an error reaches the main goroutine *)
Definition add_err (quit : bool) (s : pstate) (e : errc * string) : pstate :=
  let errs := (ps_errs s ++ [e])%list in
  let returns_now := quit || Nat.eqb (List.length errs) (ps_nbr s) in
  {| ps_queue := ps_queue s; ps_infl := ps_infl s; ps_acc := ps_acc s; ps_ret := ps_ret s;
     ps_errs := errs;
     ps_done := ps_done s || quit;          (* QuitError: main closes [done] *)
     ps_nbr := ps_nbr s;
     ps_result := match ps_result s with
                  | Some r => Some r
                  | None => if returns_now
                            then Some (match errs with
                                       | (c, t) :: _ => if quit then RError (fst e) (snd e) else RError c t
                                       | [] => RCrash end, ps_ret s)
                            else None
                  end |}.

Definition set_ret (s : pstate) (r : msg) : pstate :=
  {| ps_queue := ps_queue s; ps_infl := ps_infl s; ps_acc := ps_acc s; ps_ret := Some r;
     ps_errs := ps_errs s; ps_done := ps_done s; ps_nbr := ps_nbr s; ps_result := ps_result s |}.

Definition accept (s : pstate) (n : nat) : pstate :=
  {| ps_queue := ps_queue s; ps_infl := ps_infl s; ps_acc := Some n; ps_ret := ps_ret s;
     ps_errs := ps_errs s; ps_done := true; ps_nbr := ps_nbr s;
     ps_result := match ps_result s with Some r => Some r | None => Some (RNode n, ps_ret s) end |}.

Definition leave (s : pstate) (n : nat) : pstate :=
  {| ps_queue := ps_queue s; ps_infl := remove_nat n (ps_infl s); ps_acc := ps_acc s; ps_ret := ps_ret s;
     ps_errs := ps_errs s; ps_done := ps_done s; ps_nbr := ps_nbr s; ps_result := ps_result s |}.

(* [want_ret]: the caller passed a non-nil ret.  [out]: what each node does. *)
Definition complete (decode_every want_ret quit : bool) (out : nat -> pout) (s : pstate) (n : nat) : pstate :=
  if negb (mem_nat n (ps_infl s)) then s else
  let s1 := leave s n in
  match out n with
  | PErr c t => take_next (add_err quit s1 (c, t))
  | POk r =>
      let s2 := if decode_every && want_ret then set_ret s1 r else s1 in
      if ps_done s2 then take_next s2
      else accept (if want_ret then set_ret s2 r else s2) n
  | PBadReply r =>
      (* the decoder fails before it writes *)
      if want_ret then
        (if decode_every then take_next (add_err quit s1 (EDecode, ""))
         else if ps_done s1 then take_next s1 else take_next (add_err quit s1 (EDecode, "")))
      else (if ps_done s1 then take_next s1 else accept s1 n)
  end.

Definition prun (decode_every want_ret quit : bool) (out : nat -> pout) (s : pstate) (arrivals : list nat) : pstate :=
  fold_left (complete decode_every want_ret quit out) arrivals s.

(* ---------- a schedule from priorities ---------------------------------------------------- *)

(* position of x in the priority list (earlier = released earlier) *)
Fixpoint pos_in (x : nat) (prio : list nat) (k : nat) : nat :=
  match prio with
  | [] => k
  | y :: r => if Nat.eqb x y then k else pos_in x r (S k)
  end.

Fixpoint best (prio : list nat) (l : list nat) : option nat :=
  match l with
  | [] => None
  | x :: r => match best prio r with
              | None => Some x
              | Some y => if Nat.leb (pos_in x prio 0) (pos_in y prio 0) then Some x else Some y
              end
  end.

(* complete the in-flight node of highest priority until nothing is in flight *)
Fixpoint drive (fuel : nat) (decode_every want_ret quit : bool) (out : nat -> pout) (prio : list nat) (s : pstate) : pstate :=
  match fuel with
  | O => s
  | S f => match best prio (ps_infl s) with
           | None => s
           | Some n => drive f decode_every want_ret quit out prio (complete decode_every want_ret quit out s n)
           end
  end.

(* what the caller observes: the result, ret when the call returned, ret after all workers finished *)
Record pobs := PObs { po_result : presult; po_ret_first : option msg; po_ret_final : option msg }.

Definition observe (s : pstate) : option pobs :=
  match ps_result s with
  | Some (r, first) => Some (PObs r first (ps_ret s))
  | None => None
  end.

(* ---------- callInterfaceFunc for both kinds of handler ---------------------------------- *)

(* outcome of callInterfaceFunc; CCrash = the panic leaves the function (the goroutine,
   and with it the process, dies) *)
Inductive cres := CReply (r : msg) | CStreaming (r : msg) | CError (c : errc) (tok : string) | CCrash.

(* [barrier_on_streaming]: the deferred recover is installed before the streaming
   branch is taken (true = the code as it is) *)
Definition call_interface (barrier_on_streaming streaming : bool) (h : hkind) (m : msg) : cres :=
  match handler h m with
  | HOk r => if streaming then CStreaming r else CReply r
  | HErr t => CError EHandler t
  | HPanic t => if streaming && negb barrier_on_streaming then CCrash else CError EPanic t
  end.

(* one conversation on a streaming path: the messages the client sends on one websocket
   connection, each answered by the stream of its own handler call.  The harness
   handler answers a good request with 1 + (I mod 3) copies of the echo (tag 4) and an
   end marker (tag 5), and then keeps its channel open until told to stop. *)
Inductive smsg := SMsg (p : pmsg) | SGarbage.
Inductive sstatus := SOpen | SClosed | SDead.

Definition stream_replies (r : msg) : list reply :=
  (repeat (ROk 4 r) (S (Z.to_nat (Z.modulo (mI r) 3))) ++ [ROk 5 r])%list.

Fixpoint conversation (barrier : bool) (msgs : list smsg) : list (list reply) * sstatus :=
  match msgs with
  | [] => ([], SOpen)
  | SGarbage :: _ => ([[]], SClosed)            (* undecodable: the adapter ends the stream *)
  | SMsg p :: rest =>
      match call_interface barrier true HLenient (apply_writes zero_msg (pmsg_writes p)) with
      | CStreaming r => let (os, st) := conversation barrier rest in (stream_replies r :: os, st)
      | CCrash => ([[]], SDead)
      | _ => ([[]], SClosed)                    (* error / recovered panic: no reply, stream closed *)
      end
  end.
