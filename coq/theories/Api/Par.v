(* C14 -- the client's parallel sender (websocket_client.go:
   ParallelOptions.GetList, Client.SendProtobufParallelWithDecoder) and the streaming
   side of callInterfaceFunc's panic barrier.  MODEL ONLY (no proofs).

   SendProtobufParallelWithDecoder sends one request to several nodes, [parallel] at
   a time, and returns the FIRST successful answer: a worker that gets a reply takes
   the [decoding] mutex and, if [done] is still open, decodes the reply into the
   caller's single [ret], reports its node and closes [done]; replies that arrive
   later are dropped undecoded.  [decode_every = false] is the code as it is; [true]
   is the variant in which every reply is decoded into [ret] before [done] is looked
   at (kept for the refutation).

   The transition system has the workers and the main goroutine of the call as actors
   (see below); the order of their steps is the only nondeterminism. *)
From Coq Require Import List String Ascii ZArith NArith Bool Arith.
Import ListNotations.
From Onet Require Export Api.Rest.
Local Open Scope string_scope.

(* ---------- nodes ---------------------------------------------------------------- *)

(* what the service on one node does with the request *)
Inductive nbehav :=
| NOk         (* answers: echo of the request plus its own identity *)
| NFail       (* handler error *)
| NPanic      (* handler panic *)
| NBad.       (* answers, but the caller's decoder rejects the answer *)

Inductive pout := POk (r : msg) | PBadReply (r : msg) | PErr (c : errc) (tok : string).

(* the reply of node i for request [q]: echo, with the node's identity in field I *)
Definition node_reply (q : msg) (i : nat) : msg := Msg (mS q) (Z.of_nat i) (mB q) (mD q).

Definition node_out (bs : list nbehav) (use_decoder : bool) (q : msg) (i : nat) : pout :=
  match nth_error bs i with
  | None => PErr EOther ""
  | Some NOk => POk (node_reply q i)
  | Some NBad => if use_decoder then PBadReply (node_reply q i) else POk (node_reply q i)
  | Some NFail => PErr EHandler "node-fails"
  | Some NPanic => PErr EPanic "node-panics"
  end.

(* ---------- ParallelOptions.GetList ------------------------------------------------- *)

Record popts := POpts { o_nil : bool;          (* opt == nil *)
                        o_parallel : nat; o_ask : nat; o_start : nat;
                        o_quit : bool; o_ignore : list nat; o_noshuffle : bool }.

Definition mem_nat (x : nat) (l : list nat) : bool := existsb (Nat.eqb x) l.

(* (number of workers, nodes that will be asked, in order); [order] is the
   permutation used: the identity for DontShuffle, anything otherwise *)
Definition getlist (n : nat) (o : popts) (perm : list nat) : nat * list nat :=
  let par0 := (n + 1) / 2 in
  if o_nil o then (par0, perm) else
  let par1 := if (Nat.ltb 0 (o_parallel o)) && (Nat.ltb (o_parallel o) par0) then o_parallel o else par0 in
  let start := if (Nat.ltb 0 (o_start o)) && (Nat.ltb (o_start o) n) then o_start o else 0 in
  let ask0 := n - start in
  let ask := if (Nat.ltb 0 (o_ask o)) && (Nat.ltb (o_ask o) n) then o_ask o else ask0 in
  let par := if Nat.ltb ask par1 then ask else par1 in
  let order := map (fun p => (start + p) mod n) perm in
  (par, firstn ask (filter (fun x => negb (mem_nat x (o_ignore o))) order)).

Definition quit_of (o : popts) : bool := negb (o_nil o) && o_quit o.

(* ---------- the transition system ----------------------------------------------------- *)

(* Actors: the workers, and the main goroutine of the call.  A worker whose Send
   returned an error puts it on errChan.  A worker whose Send returned a reply takes the
   [decoding] mutex and looks at [done]: closed - the reply is dropped; open - it decodes
   the reply into ret ([ACheck]) and then, still holding the mutex, puts its node on
   decodedChan and closes [done] ([ACommit]).  The main goroutine takes events from
   decodedChan ([AMainDecoded]: return the node) and errChan ([AMainErr]); on an error
   with QuitError it closes [done] and returns the error -- in the code as it is WITHOUT
   taking the mutex and without looking whether [done] is closed already
   ([fix_quit = false]).  Closing a closed channel is a Go panic: in a worker it kills
   the client process ([ps_dead]); in the main goroutine it unwinds the caller
   ([RCrash]).  With [fix_quit] the main goroutine takes the mutex, closes [done] only
   if it is open, and returns the node if one was accepted in the meantime. *)

Inductive presult :=
| RNode (n : nat)                  (* returned (node, nil) *)
| RError (c : errc) (tok : string) (* returned (nil, err) *)
| RCrash.                          (* the call panicked in the caller's goroutine *)

Inductive paction := ACheck (n : nat) | ACommit | AMainErr | AMainDecoded.

Record pstate := { ps_queue : list nat;         (* nodesChan *)
                   ps_infl : list nat;          (* nodes whose Send is running *)
                   ps_commit : option nat;      (* the worker that holds [decoding], past the [done] check *)
                   ps_acc : option nat;         (* the worker that closed [done] *)
                   ps_decoded : option nat;     (* decodedChan *)
                   ps_ret : option msg;         (* the caller's ret: None = untouched *)
                   ps_pending : list (errc * string);   (* errChan *)
                   ps_errs : list (errc * string);      (* errs of the main goroutine *)
                   ps_done : bool;              (* [done] is closed *)
                   ps_nbr : nat;                (* nodesNbr *)
                   ps_result : option (presult * option msg);
                                                (* what the call returned, and ret at that moment *)
                   ps_dead : bool }.            (* a worker panicked: the process is gone *)

Definition pinit (par : nat) (chosen : list nat) : pstate :=
  {| ps_queue := skipn par chosen; ps_infl := firstn par chosen; ps_commit := None; ps_acc := None;
     ps_decoded := None; ps_ret := None; ps_pending := []; ps_errs := []; ps_done := false;
     ps_nbr := List.length chosen;
     ps_result := match chosen with [] => Some (RCrash, None) | _ => None end;   (* errs[0] of an empty list *)
     ps_dead := false |}.

Definition remove_nat (x : nat) (l : list nat) : list nat := filter (fun y => negb (Nat.eqb x y)) l.

Definition upd_work (s : pstate) (queue infl : list nat) : pstate :=
  {| ps_queue := queue; ps_infl := infl; ps_commit := ps_commit s; ps_acc := ps_acc s; ps_decoded := ps_decoded s;
     ps_ret := ps_ret s; ps_pending := ps_pending s; ps_errs := ps_errs s; ps_done := ps_done s; ps_nbr := ps_nbr s;
     ps_result := ps_result s; ps_dead := ps_dead s |}.

(* the worker's next iteration of contactNode *)
Definition take_next (s : pstate) : pstate :=
  if ps_done s then s else
  match ps_queue s with
  | [] => s
  | n :: q => upd_work s q (ps_infl s ++ [n])%list
  end.

Definition leave (s : pstate) (n : nat) : pstate := upd_work s (ps_queue s) (remove_nat n (ps_infl s)).

Definition push_err (s : pstate) (e : errc * string) : pstate :=
  {| ps_queue := ps_queue s; ps_infl := ps_infl s; ps_commit := ps_commit s; ps_acc := ps_acc s; ps_decoded := ps_decoded s;
     ps_ret := ps_ret s; ps_pending := (ps_pending s ++ [e])%list; ps_errs := ps_errs s; ps_done := ps_done s;
     ps_nbr := ps_nbr s; ps_result := ps_result s; ps_dead := ps_dead s |}.

Definition set_ret (s : pstate) (r : msg) : pstate :=
  {| ps_queue := ps_queue s; ps_infl := ps_infl s; ps_commit := ps_commit s; ps_acc := ps_acc s; ps_decoded := ps_decoded s;
     ps_ret := Some r; ps_pending := ps_pending s; ps_errs := ps_errs s; ps_done := ps_done s;
     ps_nbr := ps_nbr s; ps_result := ps_result s; ps_dead := ps_dead s |}.

Definition set_commit (s : pstate) (c : option nat) : pstate :=
  {| ps_queue := ps_queue s; ps_infl := ps_infl s; ps_commit := c; ps_acc := ps_acc s; ps_decoded := ps_decoded s;
     ps_ret := ps_ret s; ps_pending := ps_pending s; ps_errs := ps_errs s; ps_done := ps_done s;
     ps_nbr := ps_nbr s; ps_result := ps_result s; ps_dead := ps_dead s |}.

(* decodedChan <- node; close(done) *)
Definition commit (s : pstate) (n : nat) : pstate :=
  {| ps_queue := ps_queue s; ps_infl := ps_infl s; ps_commit := None; ps_acc := Some n; ps_decoded := Some n;
     ps_ret := ps_ret s; ps_pending := ps_pending s; ps_errs := ps_errs s; ps_done := true;
     ps_nbr := ps_nbr s; ps_result := ps_result s;
     ps_dead := ps_dead s || ps_done s |}.          (* close of a closed channel *)

Definition main_state (s : pstate) (pending errs : list (errc * string)) (done : bool)
           (res : option (presult * option msg)) : pstate :=
  {| ps_queue := ps_queue s; ps_infl := ps_infl s; ps_commit := ps_commit s; ps_acc := ps_acc s; ps_decoded := ps_decoded s;
     ps_ret := ps_ret s; ps_pending := pending; ps_errs := errs; ps_done := done;
     ps_nbr := ps_nbr s; ps_result := res; ps_dead := ps_dead s |}.

Definition is_none {A} (o : option A) : bool := match o with None => true | Some _ => false end.

(* [want_ret]: the caller passed a non-nil ret.  [out]: what each node does. *)
Definition pstep (decode_every fix_quit want_ret quit : bool) (out : nat -> pout) (s : pstate) (a : paction) : pstate :=
  if ps_dead s then s else
  match a with
  | ACheck n =>
      if negb (mem_nat n (ps_infl s)) then s else
      match out n with
      | PErr c t => take_next (push_err (leave s n) (c, t))
      | POk r =>
          if negb (is_none (ps_commit s)) then s else       (* [decoding] is held by another worker *)
          let s1 := leave s n in
          let s2 := if decode_every && want_ret then set_ret s1 r else s1 in
          if ps_done s2 then take_next s2
          else set_commit (if want_ret then set_ret s2 r else s2) (Some n)
      | PBadReply r =>
          if negb (is_none (ps_commit s)) then s else
          let s1 := leave s n in
          if want_ret then
            (if decode_every then take_next (push_err s1 (EDecode, ""))
             else if ps_done s1 then take_next s1 else take_next (push_err s1 (EDecode, "")))
          else (if ps_done s1 then take_next s1 else set_commit s1 (Some n))
      end
  | ACommit =>
      match ps_commit s with
      | Some n => commit s n
      | None => s
      end
  | AMainDecoded =>
      match ps_result s, ps_decoded s with
      | None, Some n => main_state s (ps_pending s) (ps_errs s) (ps_done s) (Some (RNode n, ps_ret s))
      | _, _ => s
      end
  | AMainErr =>
      match ps_result s, ps_pending s with
      | None, e :: rest =>
          if quit then
            if fix_quit then
              (if negb (is_none (ps_commit s)) then s          (* waits for [decoding] *)
               else match ps_decoded s with
                    | Some n => main_state s rest (ps_errs s) true (Some (RNode n, ps_ret s))
                    | None => main_state s rest (ps_errs s) true (Some (RError (fst e) (snd e), ps_ret s))
                    end)
            else
              (if ps_done s then main_state s rest (ps_errs s) true (Some (RCrash, ps_ret s))   (* close of a closed channel *)
               else main_state s rest (ps_errs s) true (Some (RError (fst e) (snd e), ps_ret s)))
          else
            let errs := (ps_errs s ++ [e])%list in
            main_state s rest errs (ps_done s)
              (if Nat.eqb (List.length errs) (ps_nbr s)
               then match errs with (c, t) :: _ => Some (RError c t, ps_ret s) | [] => None end
               else None)
      | _, _ => s
      end
  end.

Definition prun (decode_every fix_quit want_ret quit : bool) (out : nat -> pout) (s : pstate) (acts : list paction) : pstate :=
  fold_left (pstep decode_every fix_quit want_ret quit out) acts s.

(* ---------- a schedule from the order in which the harness lets the nodes answer -------------- *)

(* position of x in the priority list (earlier = released earlier) *)
Fixpoint pos_in (x : nat) (prio : list nat) (k : nat) : nat :=
  match prio with
  | [] => k
  | y :: r => if Nat.eqb x y then k else pos_in x r (S k)
  end.

Fixpoint best (prio : list nat) (l : list nat) : option nat :=
  match l with
  | [] => None
  | x :: r => match best prio r with
              | None => Some x
              | Some y => if Nat.leb (pos_in x prio 0) (pos_in y prio 0) then Some x else Some y
              end
  end.

(* the main goroutine deals with what has arrived *)
Definition main_drain (de fq want_ret quit : bool) (out : nat -> pout) (s : pstate) : list paction :=
  AMainDecoded :: repeat AMainErr (S (List.length (ps_pending s))).

(* Let the in-flight node of highest priority answer; its worker and the main goroutine
   run at once -- except that the worker of node [hold] (if any) stays between its [done]
   check and its close until every other node has answered. *)
Fixpoint drive_acts (fuel : nat) (de fq want_ret quit : bool) (out : nat -> pout) (prio : list nat)
         (hold : option nat) (s : pstate) : list paction :=
  match fuel with
  | O => []
  | S f =>
      match best prio (ps_infl s) with
      | None =>
          let acts := ACommit :: main_drain de fq want_ret quit out (pstep de fq want_ret quit out s ACommit) in
          match ps_commit s with Some _ => acts | None => [] end
      | Some n =>
          let held := match hold with Some h => Nat.eqb h n | None => false end in
          let mine := match ps_commit (pstep de fq want_ret quit out s (ACheck n)) with
                      | Some c => Nat.eqb c n && is_none (ps_commit s)
                      | None => false
                      end in
          let a1 := if mine && negb held then [ACheck n; ACommit] else [ACheck n] in
          let s1 := fold_left (pstep de fq want_ret quit out) a1 s in
          let a2 := main_drain de fq want_ret quit out s1 in
          let s2 := fold_left (pstep de fq want_ret quit out) a2 s1 in
          (* a node that cannot be handled while the mutex is held would come back for ever *)
          if andb (negb (is_none (ps_commit s))) (mem_nat n (ps_infl s2)) then
            let acts := ACommit :: main_drain de fq want_ret quit out (pstep de fq want_ret quit out s ACommit) in
            (acts ++ drive_acts f de fq want_ret quit out prio hold (fold_left (pstep de fq want_ret quit out) acts s))%list
          else (a1 ++ a2 ++ drive_acts f de fq want_ret quit out prio hold s2)%list
      end
  end.

Definition drive (fuel : nat) (de fq want_ret quit : bool) (out : nat -> pout) (prio : list nat)
           (hold : option nat) (s : pstate) : pstate :=
  prun de fq want_ret quit out s (drive_acts fuel de fq want_ret quit out prio hold s).

(* what the caller observes: the result, ret when the call returned, ret after all workers
   finished, and whether the process died in between *)
Record pobs := PObs { po_result : option presult; po_ret_first : option msg; po_ret_final : option msg; po_died : bool }.

Definition observe (s : pstate) : pobs :=
  match ps_result s with
  | Some (r, first) => PObs (Some r) first (ps_ret s) (ps_dead s)
  | None => PObs None None (ps_ret s) (ps_dead s)
  end.

(* ---------- Client.SendProtobuf and the caller's reply variable ------------------------- *)

(* SendProtobuf(dst, msg, ret) sends the request, and on success decodes the reply bytes
   into the caller's [ret]; protobuf.Decode RESETS the target before it fills in the
   fields found on the wire, so after a successful call [ret] is the decoding of this
   call's reply from scratch -- also when the reply is encoded to zero bytes (a handler
   without reply, [HAck]): then it is the zero reply.  On an error [ret] is not touched.
   [skip_empty = true] is the variant that does not decode a reply of zero bytes (kept
   for the refutation).  [ret]: what the variable holds (None: never written = zero). *)
Definition zero_reply : reply := ROk 0 zero_msg.

Definition wire_empty (r : reply) : bool :=
  match r with ROk 0 m => msg_eqb m zero_msg | _ => false end.

Definition ret_content (ret : option reply) : reply :=
  match ret with Some r => r | None => zero_reply end.

(* (the variable afterwards, what the caller sees: the error, or the content of the variable) *)
Definition sendpb (skip_empty : bool) (ret : option reply) (server : reply) : option reply * reply :=
  match server with
  | RErr c t => (ret, RErr c t)
  | ROk _ _ => if skip_empty && wire_empty server then (ret, ret_content ret)
               else (Some server, server)
  end.

(* a sequence of calls that reuse one variable *)
Fixpoint sendpb_seq (skip_empty : bool) (ret : option reply) (servers : list reply) : list reply :=
  match servers with
  | [] => []
  | r :: rest => let (ret', seen) := sendpb skip_empty ret r in seen :: sendpb_seq skip_empty ret' rest
  end.

(* ---------- Client.SendToAll ---------------------------------------------------------------- *)

(* SendToAll(roster, path, buf) sends the request to every server of the roster, one after
   the other, and returns one slot per server: msgs[i] is the reply of server i, or stays
   empty when the request to server i failed (the errors are concatenated into one error).
   [outs]: per server the reply, or None for an error. *)
Fixpoint to_all_loop (i : nat) (outs : list (option reply)) (msgs : list (option reply)) : list (option reply) :=
  match outs with
  | [] => msgs
  | o :: r => to_all_loop (S i) r (match o with Some _ => set_nth msgs i o | None => msgs end)
  end.

Definition send_to_all (outs : list (option reply)) : list (option reply) * bool (* err != nil *) :=
  (to_all_loop 0 outs (repeat None (List.length outs)), existsb is_none outs).

(* the variant that appends the successful replies only (kept for the refutation) *)
Definition send_to_all_compact (outs : list (option reply)) : list (option reply) * bool :=
  (flat_map (fun o => match o with Some r => [Some r] | None => [] end) outs, existsb is_none outs).

(* ---------- a handler that keeps what it received ------------------------------------------- *)

(* A store: Put(key, data) keeps the byte slice of its argument, Get(key) returns what is
   kept.  The server hands every request to the handler in a buffer of its own
   (ws.ReadMessage allocates per message), and the protobuf decoder lets []byte fields
   point INTO that buffer; so what a handler keeps stays what the request carried.
   [reuse_buf = true] is the variant with one read buffer per connection (kept for the
   refutation): the next request on the same kept connection overwrites what earlier
   requests of that connection left in the handler's hands.
   An operation is issued by a client; [keeps]: does client c keep its connection. *)
Inductive sopk := SPut (key data : string) | SGet (key : string).
Record sop := SOp { so_client : nat; so_kind : sopk }.

Inductive sval := VData (d : string) | VClobbered.
(* key -> (value, the kept connection it arrived on, if any) *)
Definition sstore := list (string * (sval * option nat)).

Fixpoint slookup (k : string) (st : sstore) : option (sval * option nat) :=
  match st with
  | [] => None
  | (k', v) :: r => if String.eqb k k' then Some v else slookup k r
  end.

Definition clobber (c : nat) (st : sstore) : sstore :=
  map (fun e => match e with
                | (k, (v, Some c')) => if Nat.eqb c c' then (k, (VClobbered, Some c')) else e
                | _ => e end) st.

Definition put_reply (k : string) : reply := ROk 7 (Msg k 0%Z false "").
Definition get_reply (k : string) (d : string) : reply := ROk 8 (Msg k 0%Z false d).

Definition store_step (reuse_buf : bool) (keeps : list bool) (st : sstore) (o : sop) : sstore * reply :=
  let conn := match nth_error keeps (so_client o) with Some true => Some (so_client o) | _ => None end in
  (* the request is read: with one buffer per connection, this overwrites the previous one *)
  let st1 := match conn with Some c => if reuse_buf then clobber c st else st | None => st end in
  match so_kind o with
  | SPut k d => ((k, (VData d, conn)) :: st1, put_reply k)
  | SGet k => (st1, match slookup k st1 with
                    | Some (VData d, _) => get_reply k d
                    | Some (VClobbered, _) => RErr EOther "clobbered"     (* some other bytes *)
                    | None => get_reply k ""
                    end)
  end.

Fixpoint store_run (reuse_buf : bool) (keeps : list bool) (st : sstore) (ops : list sop) : list reply :=
  match ops with
  | [] => []
  | o :: r => let (st', rep) := store_step reuse_buf keeps st o in rep :: store_run reuse_buf keeps st' r
  end.

(* the specification of the store: Get returns the data of the last Put of that key; no
   connection, no buffer *)
Fixpoint store_spec (m : list (string * string)) (ops : list sop) : list reply :=
  match ops with
  | [] => []
  | o :: r =>
      match so_kind o with
      | SPut k d => put_reply k :: store_spec ((k, d) :: m) r
      | SGet k => get_reply k (match find (fun e => String.eqb k (fst e)) m with Some e => snd e | None => "" end)
                  :: store_spec m r
      end
  end.

(* ---------- callInterfaceFunc for both kinds of handler ---------------------------------- *)

(* outcome of callInterfaceFunc; CCrash = the panic leaves the function (the goroutine,
   and with it the process, dies) *)
Inductive cres := CReply (r : msg) | CStreaming (r : msg) | CError (c : errc) (tok : string) | CCrash.

(* [barrier_on_streaming]: the deferred recover is installed before the streaming
   branch is taken (true = the code as it is) *)
Definition call_interface (barrier_on_streaming streaming : bool) (h : hkind) (m : msg) : cres :=
  match handler h m with
  | HOk r => if streaming then CStreaming r else CReply r
  | HErr t => CError EHandler t
  | HPanic t => if streaming && negb barrier_on_streaming then CCrash else CError EPanic t
  end.

(* one conversation on a streaming path: the messages the client sends on one websocket
   connection, each answered by the stream of its own handler call.  The harness
   handler answers a good request with 1 + (I mod 3) copies of the echo (tag 4) and an
   end marker (tag 5), and then keeps its channel open until told to stop. *)
Inductive smsg := SMsg (p : pmsg) | SGarbage.
Inductive sstatus := SOpen | SClosed | SDead.

Definition stream_replies (r : msg) : list reply :=
  (repeat (ROk 4 r) (S (Z.to_nat (Z.modulo (mI r) 3))) ++ [ROk 5 r])%list.

Fixpoint conversation (barrier : bool) (msgs : list smsg) : list (list reply) * sstatus :=
  match msgs with
  | [] => ([], SOpen)
  | SGarbage :: _ => ([[]], SClosed)            (* undecodable: the adapter ends the stream *)
  | SMsg p :: rest =>
      match call_interface barrier true HLenient (apply_writes zero_msg (pmsg_writes p)) with
      | CStreaming r => let (os, st) := conversation barrier rest in (stream_replies r :: os, st)
      | CCrash => ([[]], SDead)
      | _ => ([[]], SClosed)                    (* error / recovered panic: no reply, stream closed *)
      end
  end.
