(* C15 -- the per-request stopper goroutines of ProcessClientStreamRequest in detail.

   processor.go:   go func() { <-stopAll
                               closing.Lock(); defer closing.Unlock()        SLock
                               select { case <-stopServiceChan: return       STest
                                        default: close(stopServiceChan) } }  SClose

   Several requests of one streaming connection may have been given the SAME stop
   channel by the handler (the documented bidirectional use). Api/Stream.v treats
   "test whether it is closed, else close it" as one step (StStop); this file is
   the justification: with the mutex the steps of two stoppers cannot interleave
   between test and close. [mutex = false] is the variant without the lock: a
   second close of a closed channel is the outcome [scrash]. stopAll is taken as
   closed (the stoppers do nothing before). *)
From Coq Require Import List Arith Bool Lia.
Import ListNotations.

Inductive spc := PWait | PTest | PClose | PDone.

Record sst := {
  stoppers : list (nat * spc);   (* per request: its stop channel, program counter *)
  closes : list nat;             (* history: the channels closed, in order *)
  holder : option nat;           (* stopper holding the mutex *)
  scrash : bool }.

Inductive saction := SLock (k : nat) | STest (k : nat) | SClose (k : nat).

Fixpoint supd {A} (l : list A) (i : nat) (x : A) : list A :=
  match l, i with
  | [], _ => []
  | _ :: r, 0 => x :: r
  | y :: r, S j => y :: supd r j x
  end.

Definition is_closed (c : nat) (s : sst) : bool := existsb (Nat.eqb c) (closes s).

Definition sstep1 (mutex : bool) (s : sst) (a : saction) : option sst :=
  if scrash s then None else
  match a with
  | SLock k =>
      match nth_error (stoppers s) k with
      | Some (c, PWait) =>
          if mutex then
            match holder s with
            | None => Some {| stoppers := supd (stoppers s) k (c, PTest); closes := closes s;
                              holder := Some k; scrash := false |}
            | Some _ => None                          (* blocked in Lock *)
            end
          else Some {| stoppers := supd (stoppers s) k (c, PTest); closes := closes s;
                       holder := holder s; scrash := false |}
      | _ => None
      end
  | STest k =>
      match nth_error (stoppers s) k with
      | Some (c, PTest) =>
          if is_closed c s then
            Some {| stoppers := supd (stoppers s) k (c, PDone); closes := closes s;
                    holder := if mutex then None else holder s; scrash := false |}
          else
            Some {| stoppers := supd (stoppers s) k (c, PClose); closes := closes s;
                    holder := holder s; scrash := false |}
      | _ => None
      end
  | SClose k =>
      match nth_error (stoppers s) k with
      | Some (c, PClose) =>
          if is_closed c s then
            Some {| stoppers := stoppers s; closes := closes s; holder := holder s; scrash := true |}
          else
            Some {| stoppers := supd (stoppers s) k (c, PDone); closes := closes s ++ [c];
                    holder := if mutex then None else holder s; scrash := false |}
      | _ => None
      end
  end.

Fixpoint srun1 (mutex : bool) (s : sst) (acts : list saction) : option sst :=
  match acts with
  | [] => Some s
  | a :: r => match sstep1 mutex s a with None => None | Some s' => srun1 mutex s' r end
  end.

(* one stopper per request; chans gives the stop channel of each request *)
Definition sinit1 (chans : list nat) : sst :=
  {| stoppers := map (fun c => (c, PWait)) chans; closes := []; holder := None; scrash := false |}.
