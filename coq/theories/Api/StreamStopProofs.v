(* C15 -- stoppers sharing stop channels: with the mutex a stop channel is closed
   at most once and nothing crashes, for any number of requests and any sharing;
   without it two stoppers of one channel crash the server. *)
From Coq Require Import List Arith Bool Lia.
Import ListNotations.
From Onet Require Import Api.StreamStop.

Lemma nth_supd_same {A} (l : list A) i x : i < length l -> nth_error (supd l i x) i = Some x.
Proof.
  revert i; induction l as [|y r IH]; intros [|i] H; cbn in *; try lia; auto. apply IH. lia.
Qed.

Lemma nth_supd_other {A} (l : list A) i j x : i <> j -> nth_error (supd l i x) j = nth_error l j.
Proof.
  revert i j; induction l as [|y r IH]; intros [|i] [|j] H; cbn; auto; congruence.
Qed.

Lemma nth_supd {A} (l : list A) i j x y :
  nth_error (supd l i x) j = Some y -> (i = j /\ y = x) \/ (i <> j /\ nth_error l j = Some y).
Proof.
  intros H. destruct (Nat.eq_dec i j) as [->|Hne].
  - left. destruct (Nat.lt_ge_cases j (length l)) as [Hl|Hl].
    + rewrite nth_supd_same in H by assumption. inversion H. auto.
    + exfalso. assert (Hn : nth_error (supd l j x) j = None).
      { apply nth_error_None. clear -Hl. revert j Hl. induction l as [|z r IH]; intros [|j] Hl; cbn in *; try lia.
        apply le_n_S, IH. lia. }
      congruence.
  - right. rewrite nth_supd_other in H by assumption. auto.
Qed.

Record SInv1 (s : sst) : Prop := {
  s_hold : forall k c, nth_error (stoppers s) k = Some (c, PTest) \/
                       nth_error (stoppers s) k = Some (c, PClose) -> holder s = Some k;
  s_open : forall k c, nth_error (stoppers s) k = Some (c, PClose) -> is_closed c s = false;
  s_once : NoDup (closes s);
  s_ok : scrash s = false }.

Lemma is_closed_In c s : is_closed c s = false -> ~ In c (closes s).
Proof.
  unfold is_closed. intros H Hin. assert (existsb (Nat.eqb c) (closes s) = true).
  { apply existsb_exists. exists c. split; auto. apply Nat.eqb_refl. }
  congruence.
Qed.

Lemma NoDup_snoc {A} (l : list A) x : NoDup l -> ~ In x l -> NoDup (l ++ [x]).
Proof.
  induction l as [|y t IH]; intros Hn Hx; cbn.
  - repeat constructor; auto.
  - inversion Hn; subst. constructor.
    + intros Hin. apply in_app_or in Hin as [Hin|[->|[]]]; auto. apply Hx. now left.
    + apply IH; auto. intros Hin. apply Hx. now right.
Qed.

Lemma sstep1_inv s a s' : SInv1 s -> sstep1 true s a = Some s' -> SInv1 s'.
Proof.
  intros [H1 H2 H3 H4] H. unfold sstep1 in H. rewrite H4 in H.
  destruct a as [k|k|k]; destruct (nth_error (stoppers s) k) as [[c p]|] eqn:Ek; try discriminate H;
    destruct p; try discriminate H.
  - (* lock *)
    destruct (holder s) eqn:Eh; [discriminate|]. inversion H; subst; clear H. constructor; cbn; auto.
    + intros j d Hj. destruct Hj as [Hj|Hj]; apply nth_supd in Hj as [(-> & _)|(Hne & Hj)]; auto.
      * discriminate (H1 j d (or_introl Hj)).
      * discriminate (H1 j d (or_intror Hj)).
    + intros j d Hj. apply nth_supd in Hj as [(_ & Hx)|(Hne & Hj)]; [discriminate|]. apply (H2 j d Hj).
  - (* test *)
    pose proof (H1 k c (or_introl Ek)) as Hk.
    destruct (is_closed c s) eqn:Ec; inversion H; subst; clear H; constructor; cbn; auto.
    + intros j d Hj. destruct Hj as [Hj|Hj]; apply nth_supd in Hj as [(_ & Hx)|(Hne & Hj)]; try discriminate.
      * rewrite (H1 j d (or_introl Hj)) in Hk. congruence.
      * rewrite (H1 j d (or_intror Hj)) in Hk. congruence.
    + intros j d Hj. apply nth_supd in Hj as [(_ & Hx)|(Hne & Hj)]; [discriminate|]. apply (H2 j d Hj).
    + intros j d Hj. destruct Hj as [Hj|Hj]; apply nth_supd in Hj as [(-> & Hx)|(Hne & Hj)]; auto; try discriminate.
      * apply (H1 j d (or_introl Hj)).
      * apply (H1 j d (or_intror Hj)).
    + intros j d Hj. apply nth_supd in Hj as [(-> & Hx)|(Hne & Hj)].
      * inversion Hx; subst. exact Ec.
      * apply (H2 j d Hj).
  - (* close *)
    pose proof (H1 k c (or_intror Ek)) as Hk. rewrite (H2 k c Ek) in H.
    inversion H; subst; clear H. constructor; cbn; auto.
    + intros j d Hj. destruct Hj as [Hj|Hj]; apply nth_supd in Hj as [(_ & Hx)|(Hne & Hj)]; try discriminate.
      * rewrite (H1 j d (or_introl Hj)) in Hk. congruence.
      * rewrite (H1 j d (or_intror Hj)) in Hk. congruence.
    + intros j d Hj. apply nth_supd in Hj as [(_ & Hx)|(Hne & Hj)]; [discriminate|].
      rewrite (H1 j d (or_intror Hj)) in Hk. congruence.
    + apply NoDup_snoc; auto. apply is_closed_In. apply (H2 k c Ek).
Qed.

Lemma SInv1_init chans : SInv1 (sinit1 chans).
Proof.
  constructor; cbn; auto; try constructor.
  all: intros k c H; try destruct H as [H|H]; rewrite nth_error_map in H;
       destruct (nth_error chans k); discriminate.
Qed.

Lemma srun1_inv acts : forall s s', SInv1 s -> srun1 true s acts = Some s' -> SInv1 s'.
Proof.
  induction acts as [|a r IH]; intros s s' Hs H; cbn in H.
  - now inversion H; subst.
  - destruct (sstep1 true s a) as [s1|] eqn:E; [|discriminate]. eapply IH; [|exact H]. eapply sstep1_inv; eauto.
Qed.

(* any number of requests, any sharing of stop channels, any interleaving of the
   stoppers: no second close, every stop channel is closed at most once *)
Theorem stop_closed_once chans acts s :
  srun1 true (sinit1 chans) acts = Some s -> scrash s = false /\ NoDup (closes s).
Proof.
  intros H. pose proof (srun1_inv acts _ _ (SInv1_init chans) H) as [_ _ H3 H4]. auto.
Qed.

(* without the mutex two stoppers of one channel both see it open and both close it *)
Theorem stop_closed_twice_refuted :
  exists acts s, srun1 false (sinit1 [0; 0]) acts = Some s /\ scrash s = true.
Proof.
  exists [SLock 0; SLock 1; STest 0; STest 1; SClose 0; SClose 1]. eexists. vm_compute. auto.
Qed.

(* non-vacuity: with the mutex both stoppers of a shared channel finish, one close *)
Example stop_shared_example :
  exists acts s, srun1 true (sinit1 [0; 0]) acts = Some s /\ closes s = [0] /\
    map snd (stoppers s) = [PDone; PDone].
Proof.
  exists [SLock 0; STest 0; SClose 0; SLock 1; STest 1]. eexists. vm_compute. auto.
Qed.
