(* C14 -- the models against the specification of Api/Spec.v.

     fixed_satisfies_spec   the repaired model's reply to a request satisfies spec_reply
     seq_refines_spec       every history: every reply of the repaired model satisfies the
                            specification of its own request
     conc_refines_spec      every round, every interleaving: the same
     *_violates_spec        the code before each repair: a reply that does not *)
From Coq Require Import List String Ascii ZArith NArith Bool Lia.
Import ListNotations.
From Onet Require Import Api.Rest Api.RestConc Api.RestProofs Api.RestConcProofs Api.Spec.
Local Open Scope string_scope.

Lemma msg_eqb_refl m : msg_eqb m m = true.
Proof. now apply msg_eqb_eq. Qed.

Lemma sat_hres ws tag h : satisfies ws (of_handler tag h) (hres_reply tag h) = true.
Proof.
  destruct h as [m|t|t]; simpl.
  - now rewrite Nat.eqb_refl, msg_eqb_refl.
  - apply String.eqb_refl.
  - apply String.eqb_refl.
Qed.

Lemma sat_ws_error c text own :
  (c = EHandler \/ c = EPanic) -> satisfies true (SError (Some own)) (ws_error c own text) = true.
Proof.
  intros Hc. unfold ws_error. destruct (close_reason_fits _); [|reflexivity].
  destruct Hc as [-> | ->]; simpl; apply String.eqb_refl.
Qed.

Lemma apply_one w0 : apply_writes zero_msg [w0] = upd zero_msg w0.
Proof. reflexivity. Qed.

(* REST: the closure of the repaired model answers as the specification demands *)
Lemma rest_satisfies regs q :
  satisfies false
    (match nth_error regs (q_res q) with
     | Some r => if rest_addressed r q then
                   match rest_content r q with
                   | Some m => of_handler (r_tag r) (handler (r_h r) m)
                   | None => SError None end
                 else SError None
     | None => SError None end)
    (rest_reply regs q) = true.
Proof.
  unfold rest_reply. destruct (nth_error regs (q_res q)) as [r|]; [|reflexivity].
  unfold rest_addressed, routed.
  destruct (Nat.leb (r_vmin r) (q_ver q) && Nat.leb (q_ver q) (r_vmax r)); [|reflexivity]. cbn [andb].
  unfold finish, rest_plan, rest_content.
  destruct (meth_eqb (q_meth q) (reg_meth r)) eqn:Em; cbn [andb negb].
  - destruct (r_kind r) eqn:Ek; cbn [andb].
    + destruct (negb (nonempty (q_seg q))); [|reflexivity]. cbn [p_out p_writes]. apply sat_hres.
    + destruct (nonempty (q_seg q) && str_forall is_digit (q_seg q)); cbn [andb]; [|reflexivity].
      destruct (Z.leb (dec_value (q_seg q)) max_int64); cbn [p_out p_writes]; [|reflexivity].
      rewrite apply_one. apply sat_hres.
    + destruct (nonempty (q_seg q) && str_forall is_lhex (q_seg q)); cbn [andb]; [|reflexivity].
      destruct (Nat.even (String.length (q_seg q))); cbn [p_out p_writes]; [|reflexivity].
      rewrite apply_one. apply sat_hres.
    + destruct (negb (nonempty (q_seg q))); [|reflexivity].
      destruct (q_json q); cbn [negb]; [|reflexivity].
      destruct (body_plan (q_body q)) as [ws e]. cbn [p_out p_writes].
      destruct e; [reflexivity|apply sat_hres].
    + destruct (negb (nonempty (q_seg q))); [|reflexivity].
      destruct (q_json q); cbn [negb]; [|reflexivity].
      destruct (body_plan (q_body q)) as [ws e]. cbn [p_out p_writes].
      destruct e; [reflexivity|apply sat_hres].
  - destruct (match r_kind r with KInt | KBytes => true | _ => negb (nonempty (q_seg q)) end); reflexivity.
Qed.

Theorem fixed_satisfies_spec w clients cr :
  satisfies (req_is_ws cr) (spec_of w clients cr) (fixed_reply w clients cr) = true.
Proof.
  rewrite spec_closed_form. unfold model_reply, spec_of, spec_reply, req_is_ws.
  destruct (c_req cr) as [q|path b].
  - apply rest_satisfies.
  - destruct (nth_error clients (c_client cr)) as [ck|]; [|reflexivity].
    unfold ws_handle. cbn [w_svc w_path w_body]. destruct (ck_svc ck); cbn [negb]; [|reflexivity].
    destruct (nth_error (w_ws w) path) as [[h tag]|]; [|reflexivity].
    destruct b as [p|]; [|reflexivity]. cbn [ws_content].
    destruct (handler h (apply_writes zero_msg (pmsg_writes p))) as [m|t|t]; cbn [of_handler].
    + simpl. now rewrite Nat.eqb_refl, msg_eqb_refl.
    + apply sat_ws_error. now left.
    + apply sat_ws_error. now right.
Qed.

(* C14 as a refinement statement, sequential form: whatever the history and whatever
   state an earlier history left, every reply of the repaired model satisfies the
   specification of the request it answers. *)
Theorem seq_refines_spec w clients l st :
  wf_state w st ->
  Forall2 (fun cr o => satisfies (req_is_ws cr) (spec_of w clients cr) o = true)
          l (snd (run all_fixed w clients st l)).
Proof.
  intro Hwf. rewrite (run_fixed_spec w clients l st Hwf).
  induction l as [|cr l IH]; simpl; constructor; [apply fixed_satisfies_spec|exact IH].
Qed.

(* ... concurrent form: any requests in flight together, any interleaving of the field
   writes of their decodings and of their handler calls. *)
Theorem conc_refines_spec w clients st rd sched i t rep :
  wf_state w st ->
  nth_error (g_threads (crun all_fixed w clients (start st rd) sched)) i = Some t ->
  th_rep t = Some rep ->
  exists cr, nth_error rd i = Some cr /\ satisfies (req_is_ws cr) (spec_of w clients cr) rep = true.
Proof.
  intros Hwf Ht Hr. destruct (conc_fixed_spec w clients st rd sched i t rep Hwf Ht Hr) as [cr [H1 ->]].
  exists cr. split; [exact H1|apply fixed_satisfies_spec].
Qed.

(* ---------- the code before the repairs, against the same specification ---------------- *)

Definition violates (w : world) (clients : list ckind) (cr : creq) (o : reply) : Prop :=
  satisfies (req_is_ws cr) (spec_of w clients cr) o = false.

(* F17: POST {"S":"42"} then POST {}: the second request's content makes its handler fail,
   and it is answered with a success built from the first request's field *)
Theorem rest_carryover_violates_spec :
  let l := [post (BObj [("S", JStr "42" None)]); post (BObj [])] in
  exists cr o, nth_error l 1 = Some cr /\
               nth_error (snd (run pinned demo_world [CKind true true] (init_state demo_world) l)) 1 = Some o /\
               violates demo_world [CKind true true] cr o.
Proof. eexists _, _. split; [reflexivity|]. split; [vm_compute; reflexivity|vm_compute; reflexivity]. Qed.

(* F17 under concurrency, both requests complete: request "alice" answered with "bob" *)
Theorem conc_crosstalk_violates_spec :
  let rd := [full_post "alice" 1; full_post "bob" 2] in
  let g := crun pinned demo_world [CKind true true] (start (init_state demo_world) rd)
                [0; 0; 0; 0; 1; 1; 1; 1; 0; 1] in
  exists cr t o, nth_error rd 0 = Some cr /\ nth_error (g_threads g) 0 = Some t /\ th_rep t = Some o /\
                 violates demo_world [CKind true true] cr o.
Proof.
  eexists _, _, _. split; [reflexivity|]. split; [vm_compute; reflexivity|].
  split; [reflexivity|vm_compute; reflexivity].
Qed.

(* F28: the valid request after a failed one on a kept connection gets no reply at all *)
Theorem keep_dead_violates_spec :
  let clients := [CKind true true; CKind true true] in
  let l := [wsreq 0 "a"; wsreq 0 "fail-1"; wsreq 0 "a"; wsreq 1 "a"] in
  exists cr o, nth_error l 2 = Some cr /\
               nth_error (snd (run pinned demo_world clients (init_state demo_world) l)) 2 = Some o /\
               violates demo_world clients cr o.
Proof. eexists _, _. split; [reflexivity|]. split; [vm_compute; reflexivity|vm_compute; reflexivity]. Qed.

(* what [satisfies] means *)
Theorem satisfies_ok ws tag m o : satisfies ws (SOk tag m) o = true <-> o = ROk tag m.
Proof.
  destruct o as [t' m'|c t]; simpl; [|split; discriminate].
  rewrite andb_true_iff, Nat.eqb_eq, msg_eqb_eq. split; [intros [-> ->]; reflexivity|intros [= -> ->]; auto].
Qed.

Theorem satisfies_error ws own o :
  satisfies ws (SError own) o = true <->
  reports_error ws o = true /\
  (forall t, names_failure o = Some t -> own = Some t).
Proof.
  unfold satisfies. rewrite andb_true_iff. split.
  - intros [H1 H2]. split; [exact H1|]. intros t Ht. rewrite Ht in H2.
    destruct own as [t'|]; [|discriminate]. apply String.eqb_eq in H2. now subst.
  - intros [H1 H2]. split; [exact H1|]. destruct (names_failure o) as [t|]; [|reflexivity].
    rewrite (H2 t eq_refl). apply String.eqb_refl.
Qed.
