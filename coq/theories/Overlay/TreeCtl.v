(* C06 -- the tree/roster control plane of ONE server as a sequential state
   machine over histories of local operations and peer messages.  Mirrors

     overlay.go   requestTree (park, IsRegistered, Register, send, Unregister)
                  RegisterTree / checkPendingMessages (Set, flush of parked messages)
                  handleRequestTree (+Deprecated), handleSendTree,
                  handleSendTreeMarshal, addPendingTreeMarshal,
                  handleRequestRoster, handleSendRoster, checkPendingTreeMarshal
     treestorage.go  Register / Unregister / IsRegistered / Get / Set / GetRoster

   as the code is NOW.  Every handler runs to completion before the next
   operation (the harness drives the server that way); interleavings of the
   tree store with message threads and timers are the subject of C01 / C11.

   Fix flags (false = code as it is, true = repaired variant):
     fix_f06  MakeTree checks that the description has a root      (C07-F06)
     fix_f07  GetRoster skips requested-but-absent entries          (C07-F07)
     fix_f08  checkPendingTreeMarshal unlocks on its early return   (C07-F08)
     fix_n1   a tree response / bare description is accepted only while its id is
              requested and not yet received; pending descriptions are used once
              and never replace a tree that is present               (C06-N1)
     fix_n2   MakeTree returns an error for a nil roster (no effect on the
              handlers, which never pass one)                        (C06-N2)

   Model only, no proofs. *)
From Coq Require Import List Arith Bool.
Import ListNotations.
From Onet Require Export Tree.TreeMarshal.

Record fixes := mkFx { fix_f06 : bool; fix_f07 : bool; fix_f08 : bool; fix_n1 : bool; fix_n2 : bool }.

Inductive outcome := Fine | Crashed | Blocked.

Section Ctl.
Variable G : Type.
Variable gadd : G -> G -> G.

Notation stree := (stree G).
Notation roster := (roster G).

(* messages this server sends to the peer *)
Inductive out :=
| ORequestTree (tid : nat)
| OResponseTree (tm : tmarshal) (ro : option roster)
| OTreeMarshal (tm : tmarshal)
| ORequestRoster (rid : nat)
| ORoster (ro : option roster).          (* None = the empty Roster{} *)

Record cst := mkC {
  c_store : list (nat * option stree);    (* treeStorage.trees: id -> nil | tree *)
  c_pend : list (nat * list tmarshal);    (* pendingTreeMarshal: roster id -> descriptions *)
  c_plock : bool;                         (* pendingTreeLock is held by nobody alive *)
  c_insts : list nat;                     (* tree ids of the live instances *)
  c_parked : list (nat * nat) }.          (* parked protocol messages: tree id, addressed node *)

Definition init : cst := mkC [] [] false [] [].

Inductive op :=
| LRegister (t : stree)                   (* a local service calls RegisterTree *)
| LCreate (t : stree)                     (* CreateProtocol: new instance, then RegisterTree *)
| LDone (tid : nat)                       (* an instance on tid finishes *)
| LMsg (tid nid : nat) (sendok : bool)    (* a protocol message for (tid, node nid) arrives *)
| Expire (tid : nat)                      (* the removal timer deletes an unused tree *)
| PRequestTree (tid : nat) (version : nat)
| PResponseTree (tm : option tmarshal) (ro : option roster)
| PTreeMarshal (tm : tmarshal) (pick : nat)        (* pick: which of the live instances' rosters
                                                      carrying the id the map iteration met last *)
| PRequestRoster (rid : nat) (nil_first : bool)   (* nil_first: the map iteration met a
                                                      nil entry before a matching tree *)
| PRoster (ro : roster).

Definition is_peer (o : op) : bool :=
  match o with
  | PRequestTree _ _ | PResponseTree _ _ | PTreeMarshal _ _ | PRequestRoster _ _ | PRoster _ => true
  | _ => false
  end.

(* ---------- association lists ------------------------------------------------ *)

Fixpoint lookup {A} (l : list (nat * A)) (k : nat) : option A :=
  match l with
  | [] => None
  | (k', v) :: r => if k' =? k then Some v else lookup r k
  end.

Fixpoint update {A} (l : list (nat * A)) (k : nat) (v : A) : list (nat * A) :=
  match l with
  | [] => [(k, v)]
  | (k', v') :: r => if k' =? k then (k, v) :: r else (k', v') :: update r k v
  end.

Fixpoint remove_key {A} (l : list (nat * A)) (k : nat) : list (nat * A) :=
  match l with
  | [] => []
  | (k', v') :: r => if k' =? k then remove_key r k else (k', v') :: remove_key r k
  end.

Fixpoint remove_one (k : nat) (l : list nat) : list nat :=
  match l with
  | [] => []
  | x :: r => if x =? k then r else x :: remove_one k r
  end.

Definition mem (k : nat) (l : list nat) : bool := existsb (Nat.eqb k) l.

(* ---------- tree store -------------------------------------------------------- *)

Inductive tstate := Absent | Requested | Present.

Definition tree_state (s : cst) (tid : nat) : tstate :=
  match lookup (c_store s) tid with
  | None => Absent
  | Some None => Requested
  | Some (Some _) => Present
  end.

Definition get_tree (s : cst) (tid : nat) : option stree :=
  match lookup (c_store s) tid with
  | Some (Some t) => Some t
  | _ => None
  end.

(* RegisterTree: Set, then the flush goroutine re-transmits the parked messages
   of this tree; each finds the tree and creates its instance when the
   addressed node exists in it *)
Definition register_tree (s : cst) (t : stree) : cst :=
  let tid := t_id t in
  let mine := filter (fun p => fst p =? tid) (c_parked s) in
  let rest := filter (fun p => negb (fst p =? tid)) (c_parked s) in
  let born := filter (fun p => match find_node (t_root t) (snd p) with Some _ => true | None => false end) mine in
  mkC (update (c_store s) tid (Some t)) (c_pend s) (c_plock s)
      (c_insts s ++ map fst born) rest.

(* handleSendTree *)
Definition handle_send_tree (fx : fixes) (s : cst) (otm : option tmarshal) (oro : option roster)
  : cst * outcome :=
  match otm with
  | None => (s, Fine)
  | Some tm =>
      if tm_tid tm =? 0 then (s, Fine) else
      match oro with
      | None => (s, Fine)
      | Some ro =>
          let accept := match tree_state s (tm_tid tm) with
                        | Absent => false
                        | Requested => true
                        | Present => negb (fix_n1 fx)
                        end in
          if negb accept then (s, Fine) else
          match make_tree gadd (fix_f06 fx) (fix_n2 fx) tm (Some ro) with
          | Ok t => (register_tree s t, Fine)
          | Err => (s, Fine)
          | Crash => (s, Crashed)
          end
      end
  end.

(* inst.Roster() of every live instance (a missing tree or roster panics); the loop
   keeps the LAST one whose id matches, in the iteration order of a Go map: when several
   live instances carry different rosters under that id, [pick] says which one was met
   last (0 = the youngest instance's; out of range = 0) *)
Fixpoint inst_rosters (s : cst) (insts : list nat) (rid : nat) : res (list roster) :=
  match insts with
  | [] => Ok []
  | i :: r =>
      match get_tree s i with
      | None => Crash
      | Some t =>
          match t_ro t with
          | None => Crash
          | Some ro =>
              match inst_rosters s r rid with
              | Ok l => Ok (if r_id ro =? rid then ro :: l else l)
              | e => e
              end
          end
      end
  end.

Definition pick_roster (l : list roster) (pick : nat) : option roster :=
  match rev l with
  | [] => None
  | r0 :: _ => match nth_error (rev l) pick with Some r => Some r | None => Some r0 end
  end.

Definition inst_roster (s : cst) (insts : list nat) (rid pick : nat) : res (option roster) :=
  match inst_rosters s insts rid with
  | Ok l => Ok (pick_roster l pick)
  | Err => Err
  | Crash => Crash
  end.

(* checkPendingTreeMarshal's loop *)
Fixpoint make_pending (fx : fixes) (s : cst) (sl : list tmarshal) (ro : roster) : cst * outcome :=
  match sl with
  | [] => (s, Fine)
  | tm :: r =>
      (* N1: a tree that is present is never replaced *)
      let skip := fix_n1 fx && (match tree_state s (tm_tid tm) with Present => true | _ => false end) in
      if skip then make_pending fx s r ro else
      match make_tree gadd (fix_f06 fx) (fix_n2 fx) tm (Some ro) with
      | Ok t => make_pending fx (register_tree s t) r ro
      | Err => make_pending fx s r ro
      | Crash => (s, Crashed)
      end
  end.

(* GetRoster walks the map: a nil tree (or a tree without roster) is dereferenced *)
Definition bad_entry (e : nat * option stree) : bool :=
  match snd e with
  | None => true
  | Some t => match t_ro t with None => true | Some _ => false end
  end.

Definition entry_roster (rid : nat) (e : nat * option stree) : option roster :=
  match snd e with
  | Some t => match t_ro t with
              | Some ro => if r_id ro =? rid then Some ro else None
              | None => None
              end
  | None => None
  end.

Fixpoint first_some {A B} (f : A -> option B) (l : list A) : option B :=
  match l with
  | [] => None
  | x :: r => match f x with Some y => Some y | None => first_some f r end
  end.

Definition set_store (s : cst) (st : list (nat * option stree)) : cst :=
  mkC st (c_pend s) (c_plock s) (c_insts s) (c_parked s).
Definition set_pend (s : cst) (p : list (nat * list tmarshal)) : cst :=
  mkC (c_store s) p (c_plock s) (c_insts s) (c_parked s).
Definition set_plock (s : cst) (b : bool) : cst :=
  mkC (c_store s) (c_pend s) b (c_insts s) (c_parked s).
Definition set_insts (s : cst) (l : list nat) : cst :=
  mkC (c_store s) (c_pend s) (c_plock s) l (c_parked s).
Definition set_parked (s : cst) (l : list (nat * nat)) : cst :=
  mkC (c_store s) (c_pend s) (c_plock s) (c_insts s) l.

Definition step (fx : fixes) (s : cst) (o : op) : cst * list out * outcome :=
  match o with
  | LRegister t => (register_tree s t, [], Fine)
  | LCreate t =>
      match t_ro t with
      | None => (s, [], Crashed)                       (* t.Roster.ID *)
      | Some _ => (register_tree (set_insts s (c_insts s ++ [t_id t])) t, [], Fine)
      end
  | LDone tid => (set_insts s (remove_one tid (c_insts s)), [], Fine)
  | LMsg tid nid sendok =>
      match lookup (c_store s) tid with
      | Some (Some t) =>
          match find_node (t_root t) nid with
          | Some _ => (set_insts s (c_insts s ++ [tid]), [], Fine)
          | None => (s, [], Fine)                      (* "No TreeNode defined in this tree here" *)
          end
      | Some None =>                                   (* parked; request already sent *)
          (set_parked s (c_parked s ++ [(tid, nid)]), [], Fine)
      | None =>
          let s1 := set_parked s (c_parked s ++ [(tid, nid)]) in
          if sendok then (set_store s1 (update (c_store s1) tid None), [ORequestTree tid], Fine)
          else (s1, [], Fine)                          (* Register, failed send, Unregister *)
      end
  | Expire tid =>
      if mem tid (c_insts s) then (s, [], Fine)
      else (set_store s (remove_key (c_store s) tid), [], Fine)
  | PRequestTree tid version =>
      match get_tree s tid with
      | None => (s, [], Fine)
      | Some t =>
          if version =? 0 then (s, [OTreeMarshal (to_marshal t)], Fine)
          else (s, [OResponseTree (to_marshal t) (t_ro t)], Fine)
      end
  | PResponseTree otm oro =>
      let '(s', oc) := handle_send_tree fx s otm oro in (s', [], oc)
  | PTreeMarshal tm pick =>
      if tm_tid tm =? 0 then (s, [], Fine) else
      let awaited := match tree_state s (tm_tid tm) with
                     | Absent => false
                     | Requested => true
                     | Present => negb (fix_n1 fx)
                     end in
      if negb awaited then (s, [], Fine) else
          match inst_roster s (c_insts s) (tm_rid tm) pick with
          | Crash | Err => (s, [], Crashed)
          | Ok None =>
              (* RequestRoster is sent first, then addPendingTreeMarshal takes the lock *)
              if c_plock s then (s, [ORequestRoster (tm_rid tm)], Blocked) else
              let old := match lookup (c_pend s) (tm_rid tm) with Some l => l | None => [] end in
              (set_pend s (update (c_pend s) (tm_rid tm) (old ++ [tm])), [ORequestRoster (tm_rid tm)], Fine)
          | Ok (Some ro) =>
              let '(s', oc) := handle_send_tree fx s (Some tm) (Some ro) in (s', [], oc)
          end
  | PRequestRoster rid nil_first =>
      let has_bad := existsb bad_entry (c_store s) in
      let found := first_some (entry_roster rid) (c_store s) in
      let forced := has_bad && match found with None => true | Some _ => false end in
      if negb (fix_f07 fx) && (forced || (nil_first && has_bad)) then (s, [], Crashed)
      else (s, [ORoster found], Fine)
  | PRoster ro =>
      if r_id ro =? 0 then (s, [], Fine) else
      if c_plock s then (s, [], Blocked) else
      match lookup (c_pend s) (r_id ro) with
      | None => (if fix_f08 fx then s else set_plock s true, [], Fine)
      | Some sl =>
          let s0 := if fix_n1 fx then set_pend s (remove_key (c_pend s) (r_id ro)) else s in
          let '(s', oc) := make_pending fx s0 sl ro in
          match oc with
          | Fine => (s', [], Fine)
          | _ => (set_plock s' true, [], oc)            (* the panic leaves the lock held *)
          end
      end
  end.

(* a history stops at the first crash or deadlock *)
Fixpoint run (fx : fixes) (s : cst) (ops : list op) : cst * outcome :=
  match ops with
  | [] => (s, Fine)
  | o :: r =>
      let '(s', _, oc) := step fx s o in
      match oc with
      | Fine => run fx s' r
      | _ => (s', oc)
      end
  end.

(* the ids this server registered itself or asked a peer for, in a history; asking means
   that the tree request was actually sent: a message whose request could not be sent
   (sendok = false) asks nobody *)
Definition asks (o : op) : list nat :=
  match o with
  | LRegister t | LCreate t => [t_id t]
  | LMsg tid _ true => [tid]
  | _ => []
  end.

Definition asked (ops : list op) : list nat := flat_map asks ops.

End Ctl.

Arguments ORequestTree {G}.
Arguments OResponseTree {G}.
Arguments OTreeMarshal {G}.
Arguments ORequestRoster {G}.
Arguments ORoster {G}.
Arguments mkC {G}.
Arguments c_store {G}.
Arguments c_pend {G}.
Arguments c_plock {G}.
Arguments c_insts {G}.
Arguments c_parked {G}.
Arguments init {G}.
Arguments LRegister {G}.
Arguments LCreate {G}.
Arguments LDone {G}.
Arguments LMsg {G}.
Arguments Expire {G}.
Arguments PRequestTree {G}.
Arguments PResponseTree {G}.
Arguments PTreeMarshal {G}.
Arguments PRequestRoster {G}.
Arguments PRoster {G}.
Arguments is_peer {G}.
Arguments tree_state {G}.
Arguments get_tree {G}.
Arguments register_tree {G}.
Arguments handle_send_tree {G}.
Arguments inst_roster {G}.
Arguments inst_rosters {G}.
Arguments pick_roster {G}.
Arguments make_pending {G}.
Arguments step {G}.
Arguments run {G}.
Arguments asks {G}.
Arguments asked {G}.
Arguments set_store {G}.
Arguments set_pend {G}.
Arguments set_plock {G}.
Arguments set_insts {G}.
Arguments set_parked {G}.
Arguments bad_entry {G}.
Arguments entry_roster {G}.
