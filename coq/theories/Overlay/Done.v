(* C11 -- instance life cycle and the tree store of one server, as a
   transition system. One action = one critical section of the Go code
   (overlay.go: TransmitMsg, requestTree, nodeDelete/cleanTreeStorage,
   CreateProtocol/RegisterTree, handleSendTree, handleRequestTree;
   treestorage.go: getAndRefresh, Register, Set, Remove and its timer goroutine).

   Token = (tree id, run id). The fix flags select between the pinned code
   (false) and the repaired behaviour (true):
     f12  the timer goroutine deletes only if its own removal is still the scheduled one
     f13  Register never overwrites a stored tree
     f27  the critical section that registers an instance created for a message stores
          the looked-up tree again (Set: cancels a removal scheduled since the lookup)
     f28  dropping a message for a finished instance re-arms the removal that
          the lookup cancelled *)
From Coq Require Import List Arith Bool Lia.
Import ListNotations.

Definition tok := (nat * nat)%type.
Definition tree_of (k : tok) : nat := fst k.
Definition tok_eqb (a b : tok) : bool := (fst a =? fst b) && (snd a =? snd b).

Inductive tstate := TAbsent | TRequested | TPresent.
Inductive istate := INone | IStarting | IActive | IDone.
Inductive tpc := Armed | Fired.

Record timer := mkTimer { t_chan : nat; t_tree : nat; t_pc : tpc }.

Record fixes := mkFixes { f12 : bool; f13 : bool; f27 : bool; f28 : bool }.

Record st := mkSt {
  trees : nat -> tstate;
  cancel : nat -> option nat;        (* tree -> channel of the scheduled removal *)
  chclosed : list nat;               (* cancellation channels that were closed *)
  timers : list timer;               (* timer goroutines *)
  inst : tok -> istate;
  known : list tok;                  (* tokens that ever had an instance here *)
  created : tok -> nat;              (* protocol constructor calls per token *)
  hits : list tok;                   (* message threads between lookup (hit) and delivery *)
  misses : list nat;                 (* message threads after a miss, before the registered-check *)
  regs : list nat;                   (* ... after the registered-check said no, before Register *)
  delivered : list tok;              (* log: messages handed to an instance *)
  answers : list (nat * bool);       (* log: peers' tree requests and whether they were answered *)
  next : nat }.

Definition upd {A} (f : nat -> A) (k : nat) (v : A) : nat -> A :=
  fun x => if x =? k then v else f x.
Definition updk {A} (f : tok -> A) (k : tok) (v : A) : tok -> A :=
  fun x => if tok_eqb x k then v else f x.

Definition init : st :=
  {| trees := fun _ => TAbsent; cancel := fun _ => None; chclosed := []; timers := []; inst := fun _ => INone;
     known := []; created := fun _ => 0; hits := []; misses := []; regs := [];
     delivered := []; answers := []; next := 0 |}.

Inductive act :=
| LocalTree (i : nat)          (* a service registers a tree: RegisterTree *)
| LocalCreate (k : tok)        (* CreateProtocol: the instance is entered in the table ... *)
| LocalSet (k : tok)           (* ... then RegisterTree stores the tree *)
| MsgLookup (k : tok)          (* TransmitMsg: getAndRefresh *)
| MsgDeliver (k : tok)         (* TransmitMsg after a hit: done? drop : create if absent; deliver *)
| MissCheck (i : nat)          (* requestTree: park, then IsRegistered *)
| MissRegister (i : nat)       (* requestTree: Register (and send the request) *)
| TreeArrive (i : nat)         (* handleSendTree: accepted only while requested and missing; Set *)
| Done (k : tok)               (* nodeDone -> nodeDelete -> cleanTreeStorage -> Remove *)
| TimerFire (c : nat)          (* the timer goroutine's select takes timer.C *)
| TimerCancel (c : nat)        (* ... or takes the closed cancellation channel *)
| TimerDelete (c : nat)        (* the timer goroutine's locked section *)
| ReqTree (i : nat).           (* a peer asks for the tree: Get, no refresh *)

Definition uses (s : st) (i : nat) (k : tok) : bool :=
  (tree_of k =? i) && match inst s k with IActive | IStarting => true | _ => false end.

(* cleanTreeStorage's loop over o.instances *)
Definition in_use (s : st) (i : nat) : bool := existsb (uses s i) (known s).

Fixpoint remove_tok (k : tok) (l : list tok) : list tok :=
  match l with
  | [] => []
  | x :: r => if tok_eqb x k then r else x :: remove_tok k r
  end.

Fixpoint remove_nat (k : nat) (l : list nat) : list nat :=
  match l with
  | [] => []
  | x :: r => if x =? k then r else x :: remove_nat k r
  end.

Definition find_timer (c : nat) (l : list timer) : option timer :=
  find (fun t => t_chan t =? c) l.
Definition del_timer (c : nat) (l : list timer) : list timer :=
  filter (fun t => negb (t_chan t =? c)) l.
Definition set_pc (c : nat) (p : tpc) (l : list timer) : list timer :=
  map (fun t => if t_chan t =? c then mkTimer (t_chan t) (t_tree t) p else t) l.

(* treeStorage.cancelDeletion: close the channel of the scheduled removal and forget it *)
Definition cancel_deletion (s : st) (i : nat) : nat -> option nat := upd (cancel s) i None.
Definition closed_after_cancel (s : st) (i : nat) : list nat :=
  match cancel s i with Some c => c :: chclosed s | None => chclosed s end.

(* treeStorage.Remove *)
Definition remove_tree (s : st) (i : nat) : st :=
  match cancel s i with
  | Some _ => s                                     (* already planned *)
  | None =>
      mkSt (trees s) (upd (cancel s) i (Some (next s))) (chclosed s)
           (mkTimer (next s) i Armed :: timers s)
           (inst s) (known s) (created s) (hits s) (misses s) (regs s)
           (delivered s) (answers s) (S (next s))
  end.

Definition mem_tok (k : tok) (l : list tok) : bool := existsb (tok_eqb k) l.
Definition mem_nat (k : nat) (l : list nat) : bool := existsb (Nat.eqb k) l.

Definition add_known (k : tok) (l : list tok) : list tok := if mem_tok k l then l else k :: l.

Definition step (fx : fixes) (s : st) (a : act) : option st :=
  match a with
  | LocalTree i =>
      Some (mkSt (upd (trees s) i TPresent) (cancel_deletion s i) (closed_after_cancel s i) (timers s) (inst s) (known s)
                 (created s) (hits s) (misses s) (regs s) (delivered s) (answers s) (next s))
  | LocalCreate k =>
      match inst s k with
      | INone =>
          Some (mkSt (trees s) (cancel s) (chclosed s) (timers s) (updk (inst s) k IStarting) (add_known k (known s))
                     (updk (created s) k (S (created s k))) (hits s) (misses s) (regs s)
                     (delivered s) (answers s) (next s))
      | _ => None                                   (* run ids are fresh *)
      end
  | LocalSet k =>
      match inst s k with
      | IStarting =>
          Some (mkSt (upd (trees s) (tree_of k) TPresent) (cancel_deletion s (tree_of k)) (closed_after_cancel s (tree_of k)) (timers s)
                     (updk (inst s) k IActive) (known s) (created s) (hits s) (misses s) (regs s)
                     (delivered s) (answers s) (next s))
      | _ => None
      end
  | MsgLookup k =>
      let i := tree_of k in
      match trees s i with
      | TPresent =>
          Some (mkSt (trees s) (cancel_deletion s i) (closed_after_cancel s i) (timers s) (inst s) (known s) (created s)
                     (k :: hits s) (misses s) (regs s) (delivered s) (answers s) (next s))
      | _ =>
          Some (mkSt (trees s) (cancel_deletion s i) (closed_after_cancel s i) (timers s) (inst s) (known s) (created s)
                     (hits s) (i :: misses s) (regs s) (delivered s) (answers s) (next s))
      end
  | MsgDeliver k =>
      if negb (mem_tok k (hits s)) then None else
      let h := remove_tok k (hits s) in
      match inst s k with
      | IDone =>
          (* "Message for TreeNodeInstance that is already finished" *)
          let s1 := mkSt (trees s) (cancel s) (chclosed s) (timers s) (inst s) (known s) (created s) h
                         (misses s) (regs s) (delivered s) (answers s) (next s) in
          if f28 fx && negb (in_use s1 (tree_of k)) then Some (remove_tree s1 (tree_of k)) else Some s1
      | INone =>
          (* newTreeNodeInstanceFromToken: one instancesLock section registers the instance and,
             with the repair, stores the looked-up tree again *)
          let i := tree_of k in
          Some (mkSt (if f27 fx then upd (trees s) i TPresent else trees s)
                     (if f27 fx then cancel_deletion s i else cancel s)
                     (if f27 fx then closed_after_cancel s i else chclosed s)
                     (timers s) (updk (inst s) k IActive) (add_known k (known s))
                     (updk (created s) k (S (created s k))) h (misses s) (regs s)
                     (k :: delivered s) (answers s) (next s))
      | IActive =>
          Some (mkSt (trees s) (cancel s) (chclosed s) (timers s) (inst s) (known s) (created s) h (misses s) (regs s)
                     (k :: delivered s) (answers s) (next s))
      | IStarting => None                           (* the run id is not on the wire before Start *)
      end
  | MissCheck i =>
      if negb (mem_nat i (misses s)) then None else
      let m := remove_nat i (misses s) in
      match trees s i with
      | TAbsent =>
          Some (mkSt (trees s) (cancel s) (chclosed s) (timers s) (inst s) (known s) (created s) (hits s) m
                     (i :: regs s) (delivered s) (answers s) (next s))
      | _ =>
          Some (mkSt (trees s) (cancel s) (chclosed s) (timers s) (inst s) (known s) (created s) (hits s) m
                     (regs s) (delivered s) (answers s) (next s))
      end
  | MissRegister i =>
      if negb (mem_nat i (regs s)) then None else
      let r := remove_nat i (regs s) in
      let keep := f13 fx && match trees s i with TPresent => true | _ => false end in
      Some (mkSt (if keep then trees s else upd (trees s) i TRequested) (cancel s) (chclosed s) (timers s) (inst s)
                 (known s) (created s) (hits s) (misses s) r (delivered s) (answers s) (next s))
  | TreeArrive i =>
      match trees s i with
      | TRequested =>                               (* requested and not yet received: stored *)
          Some (mkSt (upd (trees s) i TPresent) (cancel_deletion s i) (closed_after_cancel s i) (timers s) (inst s) (known s)
                     (created s) (hits s) (misses s) (regs s) (delivered s) (answers s) (next s))
      | _ => Some s                                 (* "ignoring tree that is not awaited" *)
      end
  | Done k =>
      match inst s k with
      | IActive =>
          let s1 := mkSt (trees s) (cancel s) (chclosed s) (timers s) (updk (inst s) k IDone) (known s) (created s)
                         (hits s) (misses s) (regs s) (delivered s) (answers s) (next s) in
          if in_use s1 (tree_of k) then Some s1 else Some (remove_tree s1 (tree_of k))
      | _ => None
      end
  | TimerFire c =>
      match find_timer c (timers s) with
      | Some (mkTimer _ _ Armed) =>
          Some (mkSt (trees s) (cancel s) (chclosed s) (set_pc c Fired (timers s)) (inst s) (known s) (created s)
                     (hits s) (misses s) (regs s) (delivered s) (answers s) (next s))
      | _ => None
      end
  | TimerCancel c =>
      match find_timer c (timers s) with
      | Some (mkTimer _ i Armed) =>
          if mem_nat c (chclosed s) then
            Some (mkSt (trees s) (cancel s) (chclosed s) (del_timer c (timers s)) (inst s) (known s) (created s)
                       (hits s) (misses s) (regs s) (delivered s) (answers s) (next s))
          else None
      | _ => None
      end
  | TimerDelete c =>
      match find_timer c (timers s) with
      | Some (mkTimer _ i Fired) =>
          let mine := match cancel s i with Some c' => c' =? c | None => false end in
          if f12 fx && negb mine then
            Some (mkSt (trees s) (cancel s) (chclosed s) (del_timer c (timers s)) (inst s) (known s) (created s)
                       (hits s) (misses s) (regs s) (delivered s) (answers s) (next s))
          else
            Some (mkSt (upd (trees s) i TAbsent) (upd (cancel s) i None) (chclosed s) (del_timer c (timers s))
                       (inst s) (known s) (created s) (hits s) (misses s) (regs s)
                       (delivered s) (answers s) (next s))
      | _ => None
      end
  | ReqTree i =>
      Some (mkSt (trees s) (cancel s) (chclosed s) (timers s) (inst s) (known s) (created s) (hits s) (misses s)
                 (regs s) (delivered s)
                 ((i, match trees s i with TPresent => true | _ => false end) :: answers s) (next s))
  end.

Fixpoint run (fx : fixes) (s : st) (acts : list act) : option st :=
  match acts with
  | [] => Some s
  | a :: r => match step fx s a with None => None | Some s' => run fx s' r end
  end.

Definition pinned : fixes := mkFixes false false false false.
Definition all_fixed : fixes := mkFixes true true true true.
