(* C06 -- the history checker of Corr/C06.v and the control model agree on the
   "never replaces a tree" clause: snapshots taken from the model with repair N1 before
   and after ANY peer message pass clause 5 of [check_step], whatever the state and the
   set of observed tree ids. (The pinned model fails it: overwrite_refuted.) *)
From Coq Require Import List Arith Bool ZArith Lia.
Import ListNotations.
From Onet Require Import Tree.TreeMarshal Tree.TreeMarshalProofs Overlay.TreeCtl Overlay.TreeCtlProofs
     Corr.C06 Tree.C06CheckProofs.

Lemma opt_eqb_refl : forall A (e : A -> A -> bool) (x : option A),
  (forall a, e a a = true) -> opt_eqb e x x = true.
Proof. intros A e [a|] H; cbn; auto. Qed.

Lemma node_eqb_refl : forall n : znode, node_eqb n n = true.
Proof.
  induction n as [id srv i g ch IH] using tnode_ind2. cbn [node_eqb].
  rewrite Nat.eqb_refl, server_eqb_refl, Nat.eqb_refl. cbn [andb].
  rewrite (opt_eqb_refl _ Z.eqb g Z.eqb_refl). cbn [andb].
  induction IH as [|c r Hc _ IHr]; [reflexivity|]. rewrite Hc. exact IHr.
Qed.

Lemma tree_eqb_refl : forall t : ztree, tree_eqb t t = true.
Proof.
  intros t. unfold tree_eqb. rewrite Nat.eqb_refl, node_eqb_refl.
  rewrite (opt_eqb_refl _ roster_eqb (t_ro t) roster_eqb_refl). reflexivity.
Qed.

(* the snapshot of the store the harness takes, for the tree ids U it watches *)
Definition store_snap (U : list nat) (s : zst) : list (nat * option (option ztree)) :=
  map (fun tid => (tid, lookup (c_store s) tid)) U.

Definition snap_of (U : list nat) (s : zst) (outs : list zout) (oc : outcome) : snap :=
  mkSnap (store_snap U s) (c_pend s) (c_plock s) (c_insts s) (c_parked s) outs oc.

Lemma lookup_store_snap : forall U s tid, In tid U ->
  lookup (store_snap U s) tid = Some (lookup (c_store s) tid).
Proof.
  induction U as [|u r IH]; intros s tid Hin; [destruct Hin|]. cbn.
  destruct (u =? tid) eqn:E.
  - apply Nat.eqb_eq in E. subst. reflexivity.
  - destruct Hin as [->|Hin]; [rewrite Nat.eqb_refl in E; discriminate|]. apply IH. exact Hin.
Qed.

(* clause 5 of check_step, isolated *)
Definition clause5_ok (p : option snap) (n : snap) : bool :=
  forallb (fun e => negb (changed p e) || negb (is_present (prev_store p (fst e)))) (sn_store n).

Theorem repaired_model_never_replaces_checked : forall fx U (s : zst) (o : zop) s' outs oc outs0 oc0,
  fix_n1 fx = true -> is_peer o = true ->
  step Z.add fx s o = (s', outs, oc) ->
  clause5_ok (Some (snap_of U s outs0 oc0)) (snap_of U s' outs oc) = true.
Proof.
  intros fx U s o s' outs oc outs0 oc0 Hn Hp Hst. unfold clause5_ok. cbn [sn_store snap_of].
  apply forallb_forall. intros [tid v] Hin. unfold store_snap in Hin.
  apply in_map_iff in Hin as (tid' & E & HinU). inversion E; subst tid' v. clear E.
  cbn [fst]. unfold changed, prev_store. cbn [fst snd sn_store snap_of].
  rewrite (lookup_store_snap U s tid HinU).
  destruct (opt_eqb (opt_eqb tree_eqb) (lookup (c_store s) tid) (lookup (c_store s') tid)) eqn:Eq; [reflexivity|].
  cbn [negb orb].
  assert (Hne : lookup (c_store s') tid <> lookup (c_store s) tid).
  { intros Heq. rewrite Heq in Eq.
    rewrite (opt_eqb_refl _ _ _ (fun a => opt_eqb_refl _ tree_eqb a tree_eqb_refl)) in Eq. discriminate. }
  destruct (peer_never_replaces Z Z.add fx s o s' outs oc tid Hn Hp Hst Hne) as [Hnp _].
  unfold tree_state in Hnp. destruct (lookup (c_store s) tid) as [[t|]|]; cbn; try reflexivity.
  exfalso. apply Hnp. reflexivity.
Qed.

(* and the checker does see the pinned model's defect: the overwrite witness fails clause 5 *)
Definition zA : zserver := mkSrv 1 10%Z [] false.
Definition zB : zserver := mkSrv 2 20%Z [] false.
Definition z_ro : zroster := mkRo 7 [zA; zB].
Definition z_t : ztree := mkTree 9 (Some z_ro) (Node 100 zA 0 (Some 30%Z) [Node 101 zB 1 (Some 20%Z) []]).
Definition z_b : ztree := mkTree 9 (Some z_ro) (Node 101 zB 1 (Some 30%Z) [Node 100 zA 0 (Some 10%Z) []]).

Theorem pinned_model_fails_clause5 :
  let s := fst (run Z.add pinned init [LRegister z_t]) in
  let '(s', outs, oc) := step Z.add pinned s (PResponseTree (Some (to_marshal z_b)) (Some z_ro)) in
  check_step [] (Some (snap_of [9] s [] Fine)) (PResponseTree (Some (to_marshal z_b)) (Some z_ro)) (snap_of [9] s' outs oc) = [5].
Proof. vm_compute. reflexivity. Qed.

(* ---------- clause 5 of the checker IS [clause5_ok] ---------------------------------------------- *)

Lemma in_clause : forall x k b, In x (clause k b) <-> x = k /\ b = false.
Proof.
  intros x k b. unfold clause. destruct b; cbn.
  - split; [intros []|intros [_ H]; discriminate].
  - split; [intros [<-|[]]; auto|intros [-> _]; auto].
Qed.

Lemma step_tail_6_7 : forall aw p o n x, In x (step_tail aw p o n) -> x = 6 \/ x = 7.
Proof.
  intros aw p o n x H. unfold step_tail in H.
  destruct o as [t|t|tid|tid nid sendok|tid|tid ver|otm oro|tm pick|rid nf|ro]; try (destruct H; fail).
  - destruct otm as [m|]; [destruct oro as [ro|]|].
    + destruct (malformed m ro || (tm_tid m =? 0)); [apply in_clause in H as [-> _]; auto|].
      destruct (is_requested _ || mem _ _); [apply in_clause in H as [-> _]; auto|destruct H].
    + apply in_clause in H as [-> _]; auto.
    + apply in_clause in H as [-> _]; auto.
  - destruct (tm_children tm); [apply in_clause in H as [-> _]; auto|destruct H].
  - apply in_app_iff in H as [H|H]; apply in_clause in H as [-> _]; auto.
Qed.

(* the checker reports clause 5 for a step exactly when the step is a peer's and
   [clause5_ok] fails: the theorem about [clause5_ok] above is a theorem about [check_step] *)
Theorem check_step_clause5 : forall aw p o n,
  In 5 (check_step aw p o n) <-> is_peer o = true /\ clause5_ok p n = false.
Proof.
  intros aw p o n. unfold check_step, clause5_ok. destruct (is_peer o); cbn [negb].
  - rewrite !in_app_iff, !in_clause. split.
    + intros [[E _]|[[_ H]|[[E _]|H]]]; try discriminate; [auto|].
      apply step_tail_6_7 in H as [E|E]; discriminate.
    + intros [_ H]. right. left. auto.
  - split; [intros []|intros [E _]; discriminate].
Qed.

Corollary repaired_model_never_reports_clause5 : forall fx U (s : zst) (o : zop) s' outs oc outs0 oc0 aw,
  fix_n1 fx = true ->
  step Z.add fx s o = (s', outs, oc) ->
  ~ In 5 (check_step aw (Some (snap_of U s outs0 oc0)) o (snap_of U s' outs oc)).
Proof.
  intros fx U s o s' outs oc outs0 oc0 aw Hn Hst H. apply check_step_clause5 in H as [Hp Hc].
  rewrite (repaired_model_never_replaces_checked fx U s o s' outs oc outs0 oc0 Hn Hp Hst) in Hc. discriminate.
Qed.

(* ---------- ... but the repaired model does NOT pass the whole checker ------------------------------ *)

(* the snapshots of a model run, as the harness would take them *)
Fixpoint model_snaps (U : list nat) (fx : fixes) (s : zst) (ops : list zop) : list snap :=
  match ops with
  | [] => []
  | o :: r => let '(s', outs, oc) := step Z.add fx s o in snap_of U s' outs oc :: model_snaps U fx s' r
  end.

Definition z_late_roster_ops : list zop :=
  [LMsg 9 555 true; PTreeMarshal (to_marshal z_t) 0; PResponseTree (Some (to_marshal z_t)) (Some z_ro);
   Expire 9; PRoster z_ro].

(* N3, the residue that repair N1 leaves: on the late-roster history the repaired model itself
   is flagged by the checker, with clause 8 (a tree stored under an id that was absent) *)
Theorem repaired_model_fails_clause8_on_late_roster :
  check (CHist z_late_roster_ops (model_snaps [9] repaired init z_late_roster_ops)) = [8].
Proof. vm_compute. reflexivity. Qed.
