(* C06 -- the history checker of Corr/C06.v and the control model agree on the
   "never replaces a tree" clause: snapshots taken from the model with repair N1 before
   and after ANY peer message pass clause 5 of [check_step], whatever the state and the
   set of observed tree ids. (The pinned model fails it: overwrite_refuted.) *)
From Coq Require Import List Arith Bool ZArith Lia.
Import ListNotations.
From Onet Require Import Tree.TreeMarshal Tree.TreeMarshalProofs Overlay.TreeCtl Overlay.TreeCtlProofs
     Corr.C06 Tree.C06CheckProofs.

Lemma opt_eqb_refl : forall A (e : A -> A -> bool) (x : option A),
  (forall a, e a a = true) -> opt_eqb e x x = true.
Proof. intros A e [a|] H; cbn; auto. Qed.

Lemma node_eqb_refl : forall n : znode, node_eqb n n = true.
Proof.
  induction n as [id srv i g ch IH] using tnode_ind2. cbn [node_eqb].
  rewrite Nat.eqb_refl, server_eqb_refl, Nat.eqb_refl. cbn [andb].
  rewrite (opt_eqb_refl _ Z.eqb g Z.eqb_refl). cbn [andb].
  induction IH as [|c r Hc _ IHr]; [reflexivity|]. rewrite Hc. exact IHr.
Qed.

Lemma tree_eqb_refl : forall t : ztree, tree_eqb t t = true.
Proof.
  intros t. unfold tree_eqb. rewrite Nat.eqb_refl, node_eqb_refl.
  rewrite (opt_eqb_refl _ roster_eqb (t_ro t) roster_eqb_refl). reflexivity.
Qed.

(* the snapshot of the store the harness takes, for the tree ids U it watches *)
Definition store_snap (U : list nat) (s : zst) : list (nat * option (option ztree)) :=
  map (fun tid => (tid, lookup (c_store s) tid)) U.

Definition snap_of (U : list nat) (s : zst) (outs : list zout) (oc : outcome) : snap :=
  mkSnap (store_snap U s) (c_pend s) (c_plock s) (c_insts s) (c_parked s) outs oc.

Lemma lookup_store_snap : forall U s tid, In tid U ->
  lookup (store_snap U s) tid = Some (lookup (c_store s) tid).
Proof.
  induction U as [|u r IH]; intros s tid Hin; [destruct Hin|]. cbn.
  destruct (u =? tid) eqn:E.
  - apply Nat.eqb_eq in E. subst. reflexivity.
  - destruct Hin as [->|Hin]; [rewrite Nat.eqb_refl in E; discriminate|]. apply IH. exact Hin.
Qed.

(* clause 5 of check_step, isolated *)
Definition clause5_ok (p : option snap) (n : snap) : bool :=
  forallb (fun e => negb (changed p e) || negb (is_present (prev_store p (fst e)))) (sn_store n).

Theorem repaired_model_never_replaces_checked : forall fx U (s : zst) (o : zop) s' outs oc outs0 oc0,
  fix_n1 fx = true -> is_peer o = true ->
  step Z.add fx s o = (s', outs, oc) ->
  clause5_ok (Some (snap_of U s outs0 oc0)) (snap_of U s' outs oc) = true.
Proof.
  intros fx U s o s' outs oc outs0 oc0 Hn Hp Hst. unfold clause5_ok. cbn [sn_store snap_of].
  apply forallb_forall. intros [tid v] Hin. unfold store_snap in Hin.
  apply in_map_iff in Hin as (tid' & E & HinU). inversion E; subst tid' v. clear E.
  cbn [fst]. unfold changed, prev_store. cbn [fst snd sn_store snap_of].
  rewrite (lookup_store_snap U s tid HinU).
  destruct (opt_eqb (opt_eqb tree_eqb) (lookup (c_store s) tid) (lookup (c_store s') tid)) eqn:Eq; [reflexivity|].
  cbn [negb orb].
  assert (Hne : lookup (c_store s') tid <> lookup (c_store s) tid).
  { intros Heq. rewrite Heq in Eq.
    rewrite (opt_eqb_refl _ _ _ (fun a => opt_eqb_refl _ tree_eqb a tree_eqb_refl)) in Eq. discriminate. }
  destruct (peer_never_replaces Z Z.add fx s o s' outs oc tid Hn Hp Hst Hne) as [Hnp _].
  unfold tree_state in Hnp. destruct (lookup (c_store s) tid) as [[t|]|]; cbn; try reflexivity.
  exfalso. apply Hnp. reflexivity.
Qed.

(* and the checker does see the pinned model's defect: the overwrite witness fails clause 5 *)
Definition zA : zserver := mkSrv 1 10%Z [] false.
Definition zB : zserver := mkSrv 2 20%Z [] false.
Definition z_ro : zroster := mkRo 7 [zA; zB].
Definition z_t : ztree := mkTree 9 (Some z_ro) (Node 100 zA 0 (Some 30%Z) [Node 101 zB 1 (Some 20%Z) []]).
Definition z_b : ztree := mkTree 9 (Some z_ro) (Node 101 zB 1 (Some 30%Z) [Node 100 zA 0 (Some 10%Z) []]).

Theorem pinned_model_fails_clause5 :
  let s := fst (run Z.add pinned init [LRegister z_t]) in
  let '(s', outs, oc) := step Z.add pinned s (PResponseTree (Some (to_marshal z_b)) (Some z_ro)) in
  check_step [] (Some (snap_of [9] s [] Fine)) (PResponseTree (Some (to_marshal z_b)) (Some z_ro)) (snap_of [9] s' outs oc) = [5].
Proof. vm_compute. reflexivity. Qed.
