(* C06 -- proofs about Overlay/TreeCtlRace.v: what holds, and what does not, when the test
   and the store of handleSendTree are two critical sections and anything may run between. *)
From Coq Require Import List Arith Bool Lia.
Import ListNotations.
From Onet Require Import Tree.TreeMarshal Tree.TreeMarshalProofs Overlay.TreeCtl Overlay.TreeCtlProofs
     Overlay.TreeCtlRace.

Section Proofs.
Variable G : Type.
Variable gadd : G -> G -> G.

Notation cst := (cst G).
Notation stree := (stree G).
Notation rst := (rst G).
Notation ract := (ract G).

(* ---------- the test, case analysis ------------------------------------------------------ *)

Lemma arrival_test_some : forall fx (s : cst) otm oro t,
  arrival_test gadd fx s otm oro = Ok (Some t) ->
  exists tm ro, otm = Some tm /\ oro = Some ro /\
    make_tree gadd (fix_f06 fx) (fix_n2 fx) tm (Some ro) = Ok t /\ t_id t = tm_tid tm /\
    tree_state s (tm_tid tm) <> Absent /\
    (fix_n1 fx = true -> tree_state s (tm_tid tm) = Requested).
Proof.
  intros fx s otm oro t H. unfold arrival_test in H.
  destruct otm as [tm|]; [|discriminate].
  destruct (tm_tid tm =? 0); [discriminate|].
  destruct oro as [ro|]; [|discriminate].
  destruct (tree_state s (tm_tid tm)) eqn:Ets; cbn [negb] in H; [discriminate| |].
  - destruct (make_tree gadd (fix_f06 fx) (fix_n2 fx) tm (Some ro)) as [t'| |] eqn:Em; inversion H; subst t'.
    exists tm, ro. repeat split; auto; try congruence.
    apply make_tree_ok_inv in Em as (ro' & c & rest & n & _ & _ & _ & _ & ->). reflexivity.
  - destruct (fix_n1 fx) eqn:En; cbn [negb] in H; [discriminate|].
    destruct (make_tree gadd (fix_f06 fx) (fix_n2 fx) tm (Some ro)) as [t'| |] eqn:Em; inversion H; subst t'.
    exists tm, ro. repeat split; auto; try congruence; try discriminate.
    apply make_tree_ok_inv in Em as (ro' & c & rest & n & _ & _ & _ & _ & ->). reflexivity.
Qed.

(* ---------- the two sections back to back are the atomic handler --------------------------- *)

Theorem test_then_set_is_handler : forall fx n4 (r : rst) otm oro,
  n4 = false \/ fix_n1 fx = true ->
  let '(r1, _, oc1) := rstep gadd fx n4 r (RTest otm oro) in
  let '(s', oc) := handle_send_tree gadd fx (r_base r) otm oro in
  oc1 = oc /\
  match oc with
  | Fine => r_base (fst (fst (rstep gadd fx n4 r1 (RSet (length (r_fly r)))))) = s'
  | _ => r_base r1 = s'
  end.
Proof.
  intros fx n4 r otm oro Hor. cbn [rstep]. unfold handle_send_tree.
  assert (Hb : nth_error (r_fly r) (length (r_fly r)) = None) by (apply nth_error_None; lia).
  destruct (arrival_test gadd fx (r_base r) otm oro) as [[t|]| |] eqn:Ea.
  - destruct (arrival_test_some _ _ _ _ _ Ea) as (tm & ro & -> & -> & Hmk & Hid & Hne & Hreq).
    unfold arrival_test in Ea.
    destruct (tm_tid tm =? 0); [discriminate|].
    destruct (negb _); [discriminate|]. rewrite Hmk. split; [reflexivity|].
    cbn [rstep r_fly r_base fst]. rewrite nth_error_app2 by lia. rewrite Nat.sub_diag. cbn [nth_error r_base].
    unfold arrival_set. destruct Hor as [->|Hn]; [reflexivity|].
    rewrite Hid, (Hreq Hn). rewrite andb_false_r. reflexivity.
  - assert (Hfin : forall s0 : cst, s0 = r_base r -> Fine = Fine /\
        r_base (fst (fst (match nth_error (r_fly r) (length (r_fly r)) with
                          | Some t => (mkR (arrival_set n4 (r_base r) t) (remove_nth (length (r_fly r)) (r_fly r)), @nil (out G), Fine)
                          | None => (r, [], Fine)
                          end))) = s0).
    { intros s0 ->. rewrite Hb. split; reflexivity. }
    unfold arrival_test in Ea.
    destruct otm as [tm|]; [|apply Hfin; reflexivity].
    destruct (tm_tid tm =? 0); [apply Hfin; reflexivity|].
    destruct oro as [ro|]; [|apply Hfin; reflexivity].
    destruct (negb _); [apply Hfin; reflexivity|].
    destruct (make_tree gadd (fix_f06 fx) (fix_n2 fx) tm (Some ro)); try discriminate. apply Hfin; reflexivity.
  - unfold arrival_test in Ea.
    destruct otm as [tm|]; [|discriminate]. destruct (tm_tid tm =? 0); [discriminate|].
    destruct oro as [ro|]; [|discriminate]. destruct (negb _); [discriminate|].
    destruct (make_tree gadd (fix_f06 fx) (fix_n2 fx) tm (Some ro)); discriminate.
  - unfold arrival_test in Ea.
    destruct otm as [tm|]; [|discriminate]. destruct (tm_tid tm =? 0); [discriminate|].
    destruct oro as [ro|]; [|discriminate]. destruct (negb _); [discriminate|].
    destruct (make_tree gadd (fix_f06 fx) (fix_n2 fx) tm (Some ro)); try discriminate. split; reflexivity.
Qed.

(* ---------- only solicited trees, for every interleaving and every variant -------------------- *)

Definition RInv (A : list nat) (r : rst) : Prop :=
  Inv G A (r_base r) /\ (forall t, In t (r_fly r) -> In (t_id t) A).

Lemma in_remove_nth : forall A k (l : list A) x, In x (remove_nth k l) -> In x l.
Proof.
  intros A k l. revert k. induction l as [|y r IH]; intros k x H; cbn in H; [destruct k; exact H|].
  destruct k; [right; exact H|]. destruct H as [<-|H]; [left; reflexivity|right; eauto].
Qed.

Lemma RInv_step : forall fx n4 A (r : rst) (a : ract) r' outs oc,
  RInv A r -> rstep gadd fx n4 r a = (r', outs, oc) -> RInv (A ++ rasks a) r'.
Proof.
  intros fx n4 A r a r' outs oc [HI HF] Hst. destruct a as [o|otm oro|k]; cbn [rstep rasks] in *.
  - destruct (step gadd fx (r_base r) o) as [[s' outs'] oc'] eqn:Es. inversion Hst; subst. split; cbn.
    + eapply Inv_step; eauto.
    + intros t Ht. apply in_or_app. left. auto.
  - rewrite app_nil_r.
    destruct (arrival_test gadd fx (r_base r) otm oro) as [[t|]| |] eqn:Ea; inversion Hst; subst; try (split; assumption).
    split; cbn; [exact HI|]. intros t' Ht. apply in_app_or in Ht as [Ht|[<-|[]]]; [auto|].
    destruct (arrival_test_some _ _ _ _ _ Ea) as (tm & ro & _ & _ & _ & Hid & Hne & _).
    rewrite Hid. eapply state_in; eauto.
  - rewrite app_nil_r.
    destruct (nth_error (r_fly r) k) as [t|] eqn:En; inversion Hst; subst; [|split; assumption].
    split; cbn.
    + unfold arrival_set. destruct (n4 && _); [exact HI|].
      apply Inv_register; [exact HI|]. apply HF. eapply nth_error_In; eauto.
    + intros t' Ht. apply HF. eapply in_remove_nth; eauto.
Qed.

Theorem race_only_solicited : forall fx n4 acts (r : rst) oc,
  rrun gadd fx n4 rinit acts = (r, oc) ->
  (forall tid, tree_state (r_base r) tid <> Absent -> In tid (rasked acts)) /\
  (forall t, In t (r_fly r) -> In (t_id t) (rasked acts)).
Proof.
  intros fx n4 acts.
  assert (Hgen : forall acts A (r0 r : rst) oc, RInv A r0 -> rrun gadd fx n4 r0 acts = (r, oc) ->
                 RInv (A ++ rasked acts) r).
  { clear acts. induction acts as [|a rest IH]; intros A r0 r oc HI Hr; cbn [rrun rasked flat_map] in *.
    - inversion Hr; subst. rewrite app_nil_r. exact HI.
    - destruct (rstep gadd fx n4 r0 a) as [[r1 outs] oc1] eqn:Es.
      pose proof (RInv_step _ _ _ _ _ _ _ _ HI Es) as HI1.
      assert (Hm : forall r2, RInv (A ++ rasks a) r2 -> RInv (A ++ rasks a ++ flat_map (@rasks G) rest) r2).
      { intros r2 [H1 H2]. split.
        - eapply Inv_mono; [exact H1|]. rewrite app_assoc. apply incl_appl, incl_refl.
        - intros t Ht. rewrite app_assoc. apply in_or_app. left. auto. }
      destruct oc1; [rewrite app_assoc; eapply IH; eauto| |]; inversion Hr; subst; apply Hm; exact HI1. }
  intros r oc Hr.
  assert (H0 : RInv [] (@rinit G)).
  { split; [split; cbn; intros; discriminate|]. intros t []. }
  destruct (Hgen acts [] rinit r oc H0 Hr) as [HI HF]. cbn in HI, HF. split.
  - intros tid Hne. eapply state_in; eauto.
  - exact HF.
Qed.

(* ---------- the store of the second section ---------------------------------------------------- *)

(* it changes nothing but the id of the tree it stores *)
Theorem set_touches_own_id_only : forall n4 (s : cst) (t : stree) tid,
  tid <> t_id t -> lookup (c_store (arrival_set n4 s t)) tid = lookup (c_store s) tid.
Proof.
  intros n4 s t tid Hne. unfold arrival_set. destruct (n4 && _); [reflexivity|].
  rewrite register_store. destruct (t_id t =? tid) eqn:E; [apply Nat.eqb_eq in E; congruence|reflexivity].
Qed.

(* same-content responses (and a response racing a local registration of the same tree):
   when the tree in flight IS the stored one, the store's content does not change *)
Theorem set_same_content_harmless : forall n4 (s : cst) (t : stree) tid,
  lookup (c_store s) (t_id t) = Some (Some t) ->
  lookup (c_store (arrival_set n4 s t)) tid = lookup (c_store s) tid.
Proof.
  intros n4 s t tid H. unfold arrival_set. destruct (n4 && _); [reflexivity|].
  rewrite register_store. destruct (t_id t =? tid) eqn:E; [|reflexivity].
  apply Nat.eqb_eq in E. subst tid. symmetry. exact H.
Qed.

(* with repair N4 (and N1) no action a peer causes replaces a present tree, whatever runs
   between the test and the store; RTest never changes the store at all *)
Theorem race_never_replaces : forall fx (r : rst) (a : ract) r' outs oc tid,
  fix_n1 fx = true -> rpeer a = true ->
  rstep gadd fx true r a = (r', outs, oc) ->
  lookup (c_store (r_base r')) tid <> lookup (c_store (r_base r)) tid ->
  tree_state (r_base r) tid <> Present.
Proof.
  intros fx r a r' outs oc tid Hn Hp Hst Hch. destruct a as [o|otm oro|k]; cbn [rstep rpeer] in *.
  - destruct (step gadd fx (r_base r) o) as [[s' outs'] oc'] eqn:Es. inversion Hst; subst. cbn in Hch.
    exact (proj1 (peer_never_replaces G gadd fx _ o _ _ _ tid Hn Hp Es Hch)).
  - destruct (arrival_test gadd fx (r_base r) otm oro) as [[t|]| |]; inversion Hst; subst; cbn in Hch; congruence.
  - destruct (nth_error (r_fly r) k) as [t|]; inversion Hst; subst; cbn in Hch; [|congruence].
    unfold arrival_set in Hch. cbn [andb] in Hch.
    destruct (tree_state (r_base r) (t_id t)) eqn:Ets; cbn [negb] in Hch; try congruence.
    rewrite register_store in Hch. destruct (t_id t =? tid) eqn:E; [|congruence].
    apply Nat.eqb_eq in E. subst tid. rewrite Ets. discriminate.
Qed.

End Proofs.

(* ---------- the code as it is: a racing response replaces the tree just learnt --------------------- *)

(* one request; the solicited response and a second response carrying the same id (another
   tree) both pass the test before either stores: both are stored, the second replaces the
   first -- with repair N1 in place, on the code as it is (n4 = false) *)
Definition race_ops : list (ract nat) :=
  [RSeq (LMsg 9 555 true);
   RTest (Some (to_marshal w_t)) (Some w_ro); RTest (Some (to_marshal w_b)) (Some w_ro);
   RSet 0; RSet 0].

Theorem race_replaces_refuted :
  exists r4 r5, rrun Nat.add repaired false rinit (firstn 4 race_ops) = (r4, Fine) /\
                rrun Nat.add repaired false rinit race_ops = (r5, Fine) /\
                get_tree (r_base r4) 9 = Some w_t /\ get_tree (r_base r5) 9 = Some w_b /\ w_b <> w_t.
Proof. eexists. eexists. repeat split; try (vm_compute; reflexivity). discriminate. Qed.

(* the same with a local registration in the window *)
Definition race_local_ops : list (ract nat) :=
  [RSeq (LMsg 9 555 true); RTest (Some (to_marshal w_b)) (Some w_ro); RSeq (LRegister w_t); RSet 0].

Theorem race_replaces_local_refuted :
  exists r, rrun Nat.add repaired false rinit race_local_ops = (r, Fine) /\ get_tree (r_base r) 9 = Some w_b.
Proof. eexists. split; vm_compute; reflexivity. Qed.

(* with N4 the late store is dropped in both schedules *)
Theorem race_repaired :
  (exists r, rrun Nat.add repaired true rinit race_ops = (r, Fine) /\ get_tree (r_base r) 9 = Some w_t) /\
  (exists r, rrun Nat.add repaired true rinit race_local_ops = (r, Fine) /\ get_tree (r_base r) 9 = Some w_t).
Proof. split; eexists; split; vm_compute; reflexivity. Qed.
