(* C07 -- what one server does with ANY message a peer can send to its overlay.

   MODEL file: executable Gallina only.  It mirrors, statement by statement,
     overlay.go     Process, TransmitMsg, requestTree, savePendingMsg, checkPendingMessages,
                    RegisterTree, handleRequestTree(+Deprecated), handleSendTree,
                    handleSendTreeMarshal, handleRequestRoster, handleSendRoster,
                    checkPendingTreeMarshal, addPendingTreeMarshal, handleConfigMessage,
                    getConfig, nodeDone/nodeDelete/cleanTreeStorage,
                    newTreeNodeInstanceFromToken, RegisterProtocolInstance
     tree.go        TreeMarshal.MakeTree / MakeTreeFromList, Roster.Search, Tree.Search,
                    computeSubtreeAggregate
     treestorage.go Register, Unregister, IsRegistered, Get, getAndRefresh, Set, Remove, GetRoster
     treenode.go    ProcessProtocolMsg -> dispatchMsgReader -> dispatchMsgToProtocol ->
                    dispatchHandler -> createValueAndVerify
   One [op] = one envelope handed to Overlay.Process (or one local call of a
   service: RegisterTree, Done) run to quiescence: the goroutines it starts
   (flush of parked messages, the instance's reader) are run to completion
   inside the step ([spawn]).

   Every Go dereference / index is a partial operation: a nil dereference or an
   index out of range is the outcome [Crash site].  Mutexes are state: [acquire]
   of a mutex that an earlier step left locked is the outcome [Blocked] (the
   goroutine never returns); the mutexes a step still holds when it returns,
   panics or blocks stay in [leaked].  Every read or write of the instance
   tables, the parked list, the pending-tree table, the config table and the
   tree store emits [EAccess table held-locks].

   Fix flags (false = the code as it was when the defect was recorded):
     f05  TransmitMsg rejects a message without destination token
     f06  MakeTree rejects a description without nodes
     f07  GetRoster skips requested-but-not-received (nil) entries
     f08  checkPendingTreeMarshal unlocks on its early return
     f26  handleSendTreeMarshal takes instancesLock around its scan of the instances
     f70  MakeTree rejects a roster member without public key
     f71  a tree requested from a silent peer is requested again from the next sender
     f72  a tree sent by a peer is stored only while it is requested and missing
          (treeStorage.IsRequested in handleSendTree / handleSendTreeMarshal; a pending
          description is used once and skipped when its tree is present)
   Status in /repo: f05 f06 f07 f08 f26 f70 f72 landed; f71 is a recorded finding that is
   not going to be repaired (Corr/C07.v code_fixed_F71 = false: the compared variant).

   Not modelled: aggregating handlers and channels (treenode.go aggregate /
   dispatchChannel) - the model's protocol has one plain handler; Overlay.Close;
   the timers of the tree store.

   Abstraction: identifiers are [nat] (0 = the nil uuid); a TokenID is the tuple
   it hashes; server identities are numbers ([peer] p talks for identity p;
   identity 0 = nothing listens there, sends to it fail); protocol id 1 is the
   only registered protocol, its only handled message body is [BPing]. *)
From Coq Require Import List Arith Bool.
Import ListNotations.

(* ---- identifiers, messages ---------------------------------------------------- *)

Definition peer := nat.
Definition reachable (p : peer) : bool := negb (p =? 0).

Record token := mkTok {
  tk_roster : nat; tk_tree : nat; tk_proto : nat; tk_service : nat; tk_round : nat; tk_node : nat }.

Definition tok_eqb (a b : token) : bool :=
  (tk_roster a =? tk_roster b) && (tk_tree a =? tk_tree b) && (tk_proto a =? tk_proto b) &&
  (tk_service a =? tk_service b) && (tk_round a =? tk_round b) && (tk_node a =? tk_node b).

(* TreeMarshal below the top node: node id, server identity id, children *)
Inductive tmnode := TM (node : nat) (srv : nat) (ch : list tmnode).

(* the top TreeMarshal: tree id, roster id, children (the first one is the root) *)
Record tmarshal := mkTMar { tm_tree : nat; tm_roster : nat; tm_children : list tmnode }.

(* a roster member as decoded from the wire: identity, public key present or nil *)
Record member := mkMem { m_srv : nat; m_key : bool }.
Record roster := mkRo { ro_id : nat; ro_list : list member }.

(* a stored tree *)
Record stree := mkTree { t_id : nat; t_roster : roster; t_root : tmnode }.

(* body of a ProtocolMsg: decodable and handled by the protocol / decodable, not
   handled / not decodable (Unwrap fails) *)
Inductive body := BPing | BOther | BGarbage.

Inductive msg :=
| MProto (from to : option token) (b : body) (decl : nat)
    (* [b]: what MsgSlice decodes to.  [decl]: the MsgType field the sender wrote into the
       ProtocolMsg (0 = the type of the encoded message; other values = another registered
       or an unknown type).  Overlay.Process recomputes the type from the decoded message
       (network.MessageType(inner)): the declared field is never read. *)
| MReqTree (tree ver : nat)
| MRespTree (tm : option tmarshal) (ro : option roster)
| MTreeMarshal (tm : tmarshal)            (* deprecated SendTree *)
| MReqRoster (ro : nat)                   (* deprecated *)
| MRoster (ro : roster)                   (* deprecated SendRoster *)
| MConfig (dest : option token).          (* None = a TokenID that is no token's id *)

(* what the server sends back *)
Inductive reply :=
| RReqTree (tree : nat)
| RRespTree (tree ro root : nat)
| RTreeMarshal (tree ro root : nat)
| RReqRoster (ro : nat)
| RRoster (ro : nat).

Inductive lk := LInst | LPTree | LPMsg | LTransmit | LConf | LStore.
Inductive table := TInst | TParked | TPTM | TConf | TStore.
Definition owner (t : table) : lk :=
  match t with TInst => LInst | TParked => LPMsg | TPTM => LPTree | TConf => LConf | TStore => LStore end.

Definition lk_code (l : lk) : nat :=
  match l with LInst => 0 | LPTree => 1 | LPMsg => 2 | LTransmit => 3 | LConf => 4 | LStore => 5 end.
Definition lk_eqb (a b : lk) : bool := lk_code a =? lk_code b.
Definition mem_lk (l : lk) (ls : list lk) : bool := existsb (lk_eqb l) ls.
Definition remove_lk (l : lk) (ls : list lk) : list lk := filter (fun x => negb (lk_eqb l x)) ls.
(* unlocked by a [defer]: released while a panic unwinds *)
Definition deferred (l : lk) : bool :=
  match l with LTransmit | LConf | LStore => true | _ => false end.

Inductive crash :=
| CNilTo          (* onetMsg.To.TreeID, To == nil                       overlay.go TransmitMsg *)
| CNoChildren     (* tm.Children[0], len 0                             tree.go MakeTree *)
| CNilPublic      (* root.ServerIdentity.Public.Clone(), Public == nil tree.go computeSubtreeAggregate *)
| CNilTreeInStore (* tree.Roster, tree == nil                          treestorage.go GetRoster *)
| CTreeGone.      (* TreeNodeInstance.Tree() panics: tree not stored   treenode.go *)

Inductive event :=
| ESend (p : peer) (r : reply)
| EDeliver (k : token) (from : nat)       (* the protocol's handler is called *)
| EAccess (t : table) (held : list lk).

Record fixes := mkFixes {
  f05 : bool; f06 : bool; f07 : bool; f08 : bool; f26 : bool; f70 : bool; f71 : bool; f72 : bool }.
Definition all_fixed : fixes := mkFixes true true true true true true true true.
Definition none_fixed : fixes := mkFixes false false false false false false false false.

(* ---- state ------------------------------------------------------------------- *)

(* treeStorage.trees: key present with nil value (requested; [asked] = peers the
   request went to, used by f71 only) / tree present *)
Inductive entry := Req (asked : list peer) | Have (t : stree).

Record pmsg := mkP { p_peer : peer; p_from : option token; p_to : token; p_body : body }.

Record ostate := mkO {
  store : list (nat * entry);      (* treeStorage.trees *)
  removal : list nat;              (* treeStorage.cancellations: removal scheduled *)
  insts : list token;              (* o.instances / o.protocolInstances *)
  finished : list token;           (* o.instancesInfo[k] == true *)
  parked : list pmsg;              (* o.pendingMsg *)
  ptm : list tmarshal;             (* o.pendingTreeMarshal, all roster ids, arrival order *)
  configs : list token;            (* o.pendingConfigs (keys that are some token's id) *)
  leaked : list lk }.              (* mutexes left locked by earlier steps *)

Definition init : ostate := mkO [] [] [] [] [] [] [] [].

Definition set_store (s : ostate) v := mkO v (removal s) (insts s) (finished s) (parked s) (ptm s) (configs s) (leaked s).
Definition set_removal (s : ostate) v := mkO (store s) v (insts s) (finished s) (parked s) (ptm s) (configs s) (leaked s).
Definition set_insts (s : ostate) v := mkO (store s) (removal s) v (finished s) (parked s) (ptm s) (configs s) (leaked s).
Definition set_finished (s : ostate) v := mkO (store s) (removal s) (insts s) v (parked s) (ptm s) (configs s) (leaked s).
Definition set_parked (s : ostate) v := mkO (store s) (removal s) (insts s) (finished s) v (ptm s) (configs s) (leaked s).
Definition set_ptm (s : ostate) v := mkO (store s) (removal s) (insts s) (finished s) (parked s) v (configs s) (leaked s).
Definition set_configs (s : ostate) v := mkO (store s) (removal s) (insts s) (finished s) (parked s) (ptm s) v (leaked s).
Definition set_leaked (s : ostate) v := mkO (store s) (removal s) (insts s) (finished s) (parked s) (ptm s) (configs s) v.

Definition mem_nat (k : nat) (l : list nat) : bool := existsb (Nat.eqb k) l.
Definition remove_nat (k : nat) (l : list nat) : list nat := filter (fun x => negb (x =? k)) l.
Definition mem_tok (k : token) (l : list token) : bool := existsb (tok_eqb k) l.
Definition remove_tok (k : token) (l : list token) : list token := filter (fun x => negb (tok_eqb x k)) l.

Fixpoint lookup (id : nat) (l : list (nat * entry)) : option entry :=
  match l with
  | [] => None
  | (i, e) :: r => if i =? id then Some e else lookup id r
  end.
Fixpoint update (id : nat) (e : entry) (l : list (nat * entry)) : list (nat * entry) :=
  match l with
  | [] => [(id, e)]
  | (i, x) :: r => if i =? id then (i, e) :: r else (i, x) :: update id e r
  end.
Definition delete (id : nat) (l : list (nat * entry)) : list (nat * entry) :=
  filter (fun ie => negb (fst ie =? id)) l.

(* ---- the execution monad: overlay state, mutexes held by this goroutine, events -- *)

Record mst := mkM { os : ostate; held : list lk; evs : list event }.

Inductive stop := Crash (c : crash) | Blocked (l : lk).
Inductive res (A : Type) := Ret (a : A) (m : mst) | Stop (s : stop) (m : mst).
Arguments Ret {A}. Arguments Stop {A}.
Definition M (A : Type) := mst -> res A.

Definition ret {A} (a : A) : M A := fun m => Ret a m.
Definition bind {A B} (c : M A) (f : A -> M B) : M B :=
  fun m => match c m with Ret a m' => f a m' | Stop s m' => Stop s m' end.
Notation "x <- c1 ;; c2" := (bind c1 (fun x => c2)) (at level 61, c1 at next level, right associativity).
Notation "c1 ;; c2" := (bind c1 (fun _ => c2)) (at level 61, right associativity).

Definition get : M ostate := fun m => Ret (os m) m.
Definition modify (f : ostate -> ostate) : M unit := fun m => Ret tt (mkM (f (os m)) (held m) (evs m)).
Definition emit (e : event) : M unit := fun m => Ret tt (mkM (os m) (held m) (e :: evs m)).
Definition panic {A} (c : crash) : M A := fun m => Stop (Crash c) m.

(* sync.Mutex.Lock: not re-entrant; blocks for ever on a mutex nobody will unlock *)
Definition acquire (l : lk) : M unit := fun m =>
  if mem_lk l (leaked (os m)) || mem_lk l (held m) then Stop (Blocked l) m
  else Ret tt (mkM (os m) (l :: held m) (evs m)).
Definition release (l : lk) : M unit := fun m => Ret tt (mkM (os m) (remove_lk l (held m)) (evs m)).
Definition access (t : table) : M unit := fun m => Ret tt (mkM (os m) (held m) (EAccess t (held m) :: evs m)).

(* go func() { c }() run to completion: the new goroutine holds no mutex *)
Definition spawn (c : M unit) : M unit := fun m =>
  match c (mkM (os m) [] (evs m)) with
  | Ret _ m' => Ret tt (mkM (os m') (held m) (evs m'))
  | Stop s m' => Stop s m'
  end.

(* mu.Lock(); c; mu.Unlock() *)
Definition locked {A} (l : lk) (c : M A) : M A := acquire l ;; r <- c ;; release l ;; ret r.

Fixpoint miter {A} (f : A -> M unit) (l : list A) : M unit :=
  match l with
  | [] => ret tt
  | x :: r => f x ;; miter f r
  end.

Definition send (p : peer) (r : reply) : M bool :=     (* server.Send: false = error *)
  if reachable p then emit (ESend p r) ;; ret true else ret false.

(* ---- tree.go -------------------------------------------------------------------- *)

(* DFS pre-order (TreeNode.Visit) of (node id, server id) *)
Fixpoint nodes_of (n : tmnode) : list (nat * nat) :=
  match n with TM i s ch => (i, s) :: flat_map nodes_of ch end.

(* Roster.Search: first member with that identity *)
Definition ro_find (ro : roster) (srv : nat) : option member :=
  find (fun m => m_srv m =? srv) (ro_list ro).

(* Tree.Search: the LAST node of the DFS with that id; its server *)
Definition search (t : stree) (node : nat) : option nat :=
  fold_left (fun acc ns => if fst ns =? node then Some (snd ns) else acc) (nodes_of (t_root t)) None.

Inductive mkres := MTOk (t : stree) | MTErr | MTCrash (c : crash).

(* TreeMarshal.MakeTree *)
Definition make_tree (fx : fixes) (tm : tmarshal) (ro : roster) : mkres :=
  if negb (ro_id ro =? tm_roster tm) then MTErr
  else match tm_children tm with
       | [] => if f06 fx then MTErr else MTCrash CNoChildren
       | c :: _ =>
           let ns := nodes_of c in
           (* MakeTreeFromList: every node's server must be in the roster *)
           if forallb (fun n => match ro_find ro (snd n) with Some _ => true | None => false end) ns
           then (* computeSubtreeAggregate clones every node's public key *)
             if forallb (fun n => match ro_find ro (snd n) with Some m => m_key m | None => false end) ns
             then MTOk (mkTree (tm_tree tm) ro c)
             else if f70 fx then MTErr else MTCrash CNilPublic
           else MTErr
       end.

Definition root_node (t : stree) : nat := match t_root t with TM i _ _ => i end.

(* ---- treestorage.go (every method: ts.Lock(); defer ts.Unlock()) ------------------ *)

(* one method of the tree store: a function of the state under the store's mutex;
   [inr c] = the method panics (the deferred Unlock runs while the panic unwinds) *)
Definition with_store {A} (f : ostate -> (A * ostate) + crash) : M A :=
  acquire LStore ;; access TStore ;; s <- get ;;
  match f s with
  | inl (a, s') => modify (fun _ => s') ;; release LStore ;; ret a
  | inr c => panic c
  end.

(* Get / IsRegistered *)
Definition sf_lookup (id : nat) (s : ostate) : (option entry * ostate) + crash :=
  inl (lookup id (store s), s).
Definition st_lookup (id : nat) : M (option entry) := with_store (sf_lookup id).

(* getAndRefresh: cancelDeletion; lookup *)
Definition sf_get_refresh (id : nat) (s : ostate) : (option entry * ostate) + crash :=
  inl (lookup id (store s), set_removal s (remove_nat id (removal s))).
Definition st_get_refresh (id : nat) : M (option entry) := with_store (sf_get_refresh id).

(* Register: never overwrites *)
Definition sf_register (id : nat) (s : ostate) : (unit * ostate) + crash :=
  inl (tt, match lookup id (store s) with
           | None => set_store s (update id (Req []) (store s))
           | Some _ => s end).
Definition st_register (id : nat) : M unit := with_store (sf_register id).

(* Unregister: only a nil entry *)
Definition sf_unregister (id : nat) (s : ostate) : (unit * ostate) + crash :=
  inl (tt, match lookup id (store s) with
           | Some (Req _) => set_store s (delete id (store s))
           | _ => s end).
Definition st_unregister (id : nat) : M unit := with_store (sf_unregister id).

(* Set: cancelDeletion; store *)
Definition put_tree (t : stree) (s : ostate) : ostate :=
  set_store (set_removal s (remove_nat (t_id t) (removal s))) (update (t_id t) (Have t) (store s)).
Definition sf_set (t : stree) (s : ostate) : (unit * ostate) + crash := inl (tt, put_tree t s).
Definition st_set (t : stree) : M unit := with_store (sf_set t).

(* Remove: schedule the removal once *)
Definition sf_remove (id : nat) (s : ostate) : (unit * ostate) + crash :=
  inl (tt, if mem_nat id (removal s) then s else set_removal s (id :: removal s)).
Definition st_remove (id : nat) : M unit := with_store (sf_remove id).

(* f71 bookkeeping (noteAsked / forgetAsked): peers a tree was requested from *)
Definition sf_note_asked (id : nat) (p : peer) (add : bool) (s : ostate) : (unit * ostate) + crash :=
  inl (tt, match lookup id (store s) with
           | Some (Req asked) =>
               set_store s (update id (Req (if add then p :: asked else remove_nat p asked)) (store s))
           | _ => s end).
Definition st_note_asked (id : nat) (p : peer) (add : bool) : M unit := with_store (sf_note_asked id p add).

Definition is_req (ie : nat * entry) : bool := match snd ie with Req _ => true | Have _ => false end.
Definition has_roster (rid : nat) (ie : nat * entry) : bool :=
  match snd ie with Have t => ro_id (t_roster t) =? rid | Req _ => false end.

(* GetRoster: ranges over the map (Go: random order). [nil_first] is the order
   oracle: a nil entry is visited before the first matching tree. *)
Definition sf_get_roster (fx : fixes) (rid : nat) (nil_first : bool) (s : ostate) : (option roster * ostate) + crash :=
  let found := match find (has_roster rid) (store s) with
               | Some (_, Have t) => Some (t_roster t) | _ => None end in
  if f07 fx then inl (found, s)
  else if existsb is_req (store s) && (match found with None => true | Some _ => nil_first end)
       then inr CNilTreeInStore
       else inl (found, s).
Definition st_get_roster (fx : fixes) (rid : nat) (nil_first : bool) : M (option roster) :=
  with_store (sf_get_roster fx rid nil_first).

(* ---- treenode.go: the instance's reader goroutine -------------------------------- *)

Definition proto_known (p : nat) : bool := p =? 1.

(* dispatchMsgToProtocol for a non-aggregating handler *)
Definition dispatch (k : token) (sender : peer) (from : option token) (b : body) : M unit :=
  match from with
  | None => ret tt                                   (* message without sender token *)
  | Some f =>
      match b with
      | BPing =>
          e <- st_lookup (tk_tree k) ;;              (* createValueAndVerify: n.Tree() *)
          match e with
          | Some (Have t) =>
              match search t (tk_node f) with
              | None => ret tt                       (* sender not a node of the tree *)
              | Some srv => if srv =? sender then emit (EDeliver k (tk_node f)) else ret tt
              end
          | _ => panic CTreeGone
          end
      | _ => ret tt                                  (* message-type not handled *)
      end
  end.

(* ---- overlay.go ------------------------------------------------------------------- *)

Definition uses_tree (id : nat) (k : token) : bool := tk_tree k =? id.

(* cleanTreeStorage (caller holds instancesLock) *)
Definition clean_tree_storage (k : token) : M unit :=
  access TInst ;; s <- get ;;
  if existsb (uses_tree (tk_tree k)) (insts s) then ret tt else st_remove (tk_tree k).

(* nodeDelete (caller holds instancesLock) *)
Definition node_delete (k : token) : M unit :=
  access TInst ;; s <- get ;;
  if mem_tok k (insts s) then
    modify (fun s => set_insts s (remove_tok k (insts s))) ;;
    clean_tree_storage k ;;
    access TInst ;; modify (fun s => set_finished s (k :: finished s))
  else ret tt.

(* TransmitMsg after the tree was found *)
Definition deliver_hit (pm : pmsg) (t : stree) : M unit :=
  let k := p_to pm in
  locked LTransmit (                                          (* defer Unlock *)
    s <- locked LInst (access TInst ;; get) ;;
    if mem_tok k (finished s) then
      locked LInst (clean_tree_storage k)
    else if mem_tok k (insts s) then
      spawn (dispatch k (p_peer pm) (p_from pm) (p_body pm))  (* ProcessProtocolMsg *)
    else
      match search t (tk_node k) with
      | None => ret tt                                        (* No TreeNode defined in this tree here *)
      | Some _ =>
          (* newTreeNodeInstanceFromToken: list the instance and, in the same critical
             section, store the looked-up tree again (cancels a removal scheduled since
             the look-up; sequentially it is the tree that is stored already) *)
          locked LInst (access TInst ;; modify (fun s => set_insts s (k :: insts s)) ;; st_set t) ;;
          (* getConfig *)
          locked LConf (access TConf ;; modify (fun s => set_configs s (remove_tok k (configs s)))) ;;
          if proto_known (tk_proto k) then
            (* RegisterProtocolInstance *)
            locked LInst (access TInst) ;;
            spawn (dispatch k (p_peer pm) (p_from pm) (p_body pm))
          else
            (* newProtocol failed *)
            locked LInst (node_delete k)
      end).

(* requestTree. The re-check added by repair F01 (tree arrived between the miss and
   the parking) cannot succeed in a sequential run: the same goroutine has just seen
   the tree absent; that branch is C01's subject. *)
Definition request_tree (fx : fixes) (pm : pmsg) : M unit :=
  let id := tk_tree (p_to pm) in
  locked LPMsg (access TParked ;; modify (fun s => set_parked s (parked s ++ [pm]))) ;;
  e <- st_lookup id ;;                                        (* IsRegistered *)
  match e with
  | Some (Have _) => ret tt
  | Some (Req asked) =>
      if f71 fx then
        if mem_nat (p_peer pm) asked then ret tt             (* this peer was asked already *)
        else st_note_asked id (p_peer pm) true ;;
             ok <- send (p_peer pm) (RReqTree id) ;;
             if ok then ret tt else st_note_asked id (p_peer pm) false
      else ret tt                                            (* request already sent *)
  | None =>
      st_register id ;;
      (if f71 fx then st_note_asked id (p_peer pm) true else ret tt) ;;
      ok <- send (p_peer pm) (RReqTree id) ;;
      if ok then ret tt else st_unregister id
  end.

Definition transmit (fx : fixes) (sender : peer) (from to : option token) (b : body) : M unit :=
  match to with
  | None => if f05 fx then ret tt else panic CNilTo           (* onetMsg.To.TreeID *)
  | Some k =>
      e <- st_get_refresh (tk_tree k) ;;
      match e with
      | Some (Have t) => deliver_hit (mkP sender from k b) t
      | _ => request_tree fx (mkP sender from k b)
      end
  end.

(* checkPendingMessages: the flush goroutine *)
Definition flush (fx : fixes) (t : stree) : M unit :=
  mine <- locked LPMsg (
            access TParked ;; s <- get ;;
            modify (fun s => set_parked s (filter (fun pm => negb (tk_tree (p_to pm) =? t_id t)) (parked s))) ;;
            ret (filter (fun pm => tk_tree (p_to pm) =? t_id t) (parked s))) ;;
  miter (fun pm => transmit fx (p_peer pm) (p_from pm) (Some (p_to pm)) (p_body pm)) mine.

(* RegisterTree *)
Definition register_tree (fx : fixes) (t : stree) : M unit :=
  st_set t ;; spawn (flush fx t).

(* IsRegistered (pinned) / IsRequested (f72): may a peer's description be used for this id? *)
Definition awaited (fx : fixes) (e : option entry) : bool :=
  match e with
  | None => false
  | Some (Req _) => true
  | Some (Have _) => negb (f72 fx)
  end.

Definition handle_request_tree (p : peer) (id ver : nat) : M unit :=
  e <- st_lookup id ;;
  match e with
  | Some (Have t) =>
      (if ver =? 0 then send p (RTreeMarshal (t_id t) (ro_id (t_roster t)) (root_node t))
       else send p (RRespTree (t_id t) (ro_id (t_roster t)) (root_node t))) ;; ret tt
  | _ => ret tt                                               (* couldn't find the tree *)
  end.

Definition handle_send_tree (fx : fixes) (otm : option tmarshal) (oro : option roster) : M unit :=
  match otm with
  | None => ret tt
  | Some tm =>
      if tm_tree tm =? 0 then ret tt else
      match oro with
      | None => ret tt
      | Some ro =>
          e <- st_lookup (tm_tree tm) ;;                      (* IsRegistered / IsRequested *)
          if awaited fx e then
            match make_tree fx tm ro with
            | MTErr => ret tt
            | MTCrash c => panic c
            | MTOk t => register_tree fx t
            end
          else ret tt                                         (* ignoring tree that is not awaited *)
      end
  end.

(* the scan of o.instances in handleSendTreeMarshal: inst.Roster() = inst.Tree().Roster *)
Fixpoint scan_rosters (rid : nat) (l : list token) (acc : option roster) : M (option roster) :=
  match l with
  | [] => ret acc
  | k :: r =>
      e <- st_lookup (tk_tree k) ;;
      match e with
      | Some (Have t) => scan_rosters rid r (if ro_id (t_roster t) =? rid then Some (t_roster t) else acc)
      | _ => panic CTreeGone
      end
  end.

Definition handle_send_tree_marshal (fx : fixes) (p : peer) (tm : tmarshal) : M unit :=
  if tm_tree tm =? 0 then ret tt else
  e <- st_lookup (tm_tree tm) ;;
  if negb (awaited fx e) then ret tt else
      oro <- (let scan := access TInst ;; s <- get ;; scan_rosters (tm_roster tm) (insts s) None in
              if f26 fx then locked LInst scan else scan) ;;
      match oro with
      | None =>
          send p (RReqRoster (tm_roster tm)) ;;
          (* addPendingTreeMarshal *)
          locked LPTree (access TPTM ;; modify (fun s => set_ptm s (ptm s ++ [tm])))
      | Some ro => handle_send_tree fx (Some tm) (Some ro)
      end.

Definition handle_request_roster (fx : fixes) (p : peer) (rid : nat) (nil_first : bool) : M unit :=
  oro <- st_get_roster fx rid nil_first ;;
  send p (RRoster (match oro with Some ro => ro_id ro | None => 0 end)) ;; ret tt.

(* checkPendingTreeMarshal: one pending description. With f72 it is skipped when its
   tree has been received in the meantime. *)
Definition pending_one (fx : fixes) (ro : roster) (tm : tmarshal) : M unit :=
  e <- (if f72 fx then st_lookup (tm_tree tm) else ret None) ;;
  match e with
  | Some (Have _) => ret tt
  | _ =>
      match make_tree fx tm ro with
      | MTErr => ret tt
      | MTCrash c => panic c
      | MTOk t => register_tree fx t
      end
  end.

(* checkPendingTreeMarshal *)
Definition check_pending_tm (fx : fixes) (ro : roster) : M unit :=
  acquire LPTree ;; access TPTM ;;
  s <- get ;;
  match filter (fun tm => tm_roster tm =? ro_id ro) (ptm s) with
  | [] => if f08 fx then release LPTree else ret tt           (* "no tree for this roster": return *)
  | sl =>
      (* f72: every pending description is used once *)
      (if f72 fx then modify (fun s => set_ptm s (filter (fun tm => negb (tm_roster tm =? ro_id ro)) (ptm s)))
       else ret tt) ;;
      miter (pending_one fx ro) sl ;;
      release LPTree
  end.

Definition handle_send_roster (fx : fixes) (ro : roster) : M unit :=
  if ro_id ro =? 0 then ret tt else check_pending_tm fx ro.

Definition handle_config (dest : option token) : M unit :=
  locked LConf (
    access TConf ;;
    modify (fun s => match dest with Some k => set_configs s (k :: remove_tok k (configs s)) | None => s end)).

(* Overlay.Process. [cfgtype]: the envelope's MsgType is ConfigMsgID (through a
   connection this is the case exactly for MConfig). *)
Definition process (fx : fixes) (p : peer) (cfgtype : bool) (nil_first : bool) (m : msg) : M unit :=
  if cfgtype then
    match m with MConfig d => handle_config d | _ => ret tt end   (* wrong config type *)
  else
    match m with
    | MConfig _ => ret tt                                     (* Unwrap: unknown message type *)
    | MReqTree id ver => handle_request_tree p id ver
    | MRespTree tm ro => handle_send_tree fx tm ro
    | MTreeMarshal tm => handle_send_tree_marshal fx p tm
    | MReqRoster rid => handle_request_roster fx p rid nil_first
    | MRoster ro => handle_send_roster fx ro
    | MProto from to b _ =>                                    (* the declared type is not read *)
        match b with
        | BGarbage => ret tt                                  (* Unwrap: unmarshaling error *)
        | _ => transmit fx p from to b
        end
    end.

(* ---- operations and steps ----------------------------------------------------- *)

Inductive op :=
| Recv (p : peer) (cfgtype : bool) (nil_first : bool) (m : msg)   (* an envelope reaches Overlay.Process *)
| LocalTree (t : stree)                                     (* a service registers a tree *)
| LocalDone (k : token).                                    (* the instance calls Done() *)

Definition run_op (fx : fixes) (o : op) : M unit :=
  match o with
  | Recv p c nf m => process fx p c nf m
  | LocalTree t => register_tree fx t
  | LocalDone k => locked LInst (node_delete k)
  end.

Inductive outcome := Ok | Crashed (c : crash) | Wedged (l : lk).

Record result := mkR { r_state : ostate; r_events : list event; r_out : outcome }.

Definition step (fx : fixes) (s : ostate) (o : op) : result :=
  match run_op fx o (mkM s [] []) with
  | Ret _ m => mkR (set_leaked (os m) (leaked (os m) ++ held m)) (rev (evs m)) Ok
  | Stop (Crash c) m =>
      mkR (set_leaked (os m) (leaked (os m) ++ filter (fun l => negb (deferred l)) (held m))) (rev (evs m)) (Crashed c)
  | Stop (Blocked l) m =>
      mkR (set_leaked (os m) (leaked (os m) ++ held m)) (rev (evs m)) (Wedged l)
  end.

(* all results of a history, oldest first; the state threads through *)
Fixpoint trace (fx : fixes) (s : ostate) (ops : list op) : list result :=
  match ops with
  | [] => []
  | o :: r => let x := step fx s o in x :: trace fx (r_state x) r
  end.

Definition run (fx : fixes) (s : ostate) (ops : list op) : ostate :=
  fold_left (fun s o => r_state (step fx s o)) ops s.

(* the grace period of the tree store (treeStorage.timeout) elapses: every removal that
   is still scheduled fires (the goroutine of treeStorage.Remove deletes the tree and
   its cancellation entry) *)
Definition elapse (s : ostate) : ostate :=
  set_removal (set_store s (fold_left (fun st id => delete id st) (removal s) (store s))) [].

(* lock discipline of a list of events *)
Definition access_ok (e : event) : bool :=
  match e with EAccess t h => mem_lk (owner t) h | _ => true end.
Definition disciplined (l : list event) : bool := forallb access_ok l.

Definition delivered (k : token) (l : list event) : bool :=
  existsb (fun e => match e with EDeliver k' _ => tok_eqb k k' | _ => false end) l.
Definition sent (p : peer) (r : reply) (l : list event) : bool :=
  existsb (fun e => match e with
                    | ESend p' r' =>
                        (p =? p') &&
                        match r, r' with
                        | RReqTree a, RReqTree b => a =? b
                        | RRespTree a b c, RRespTree a' b' c' => (a =? a') && (b =? b') && (c =? c')
                        | RTreeMarshal a b c, RTreeMarshal a' b' c' => (a =? a') && (b =? b') && (c =? c')
                        | RReqRoster a, RReqRoster b => a =? b
                        | RRoster a, RRoster b => a =? b
                        | _, _ => false
                        end
                    | _ => false end) l.
