(* C06 -- "only solicited trees" over the transition system of Overlay/Done.v (C11:
   instance table, tree store and timer goroutines of one server, one action = one
   critical section).  There a tree response is the action [TreeArrive i]; this file
   shows, for every interleaving and every variant of the code, that a tree id is in the
   store (requested or present) only if a local registration (LocalTree / LocalSet) or a
   tree request (MissRegister) for it happened earlier, and that a response for an id
   that is absent is ignored. *)
From Coq Require Import List Arith Bool Lia.
Import ListNotations.
From Onet Require Import Overlay.Done.

(* the tree ids an action registers locally or asks a peer for *)
Definition dasks (a : act) : list nat :=
  match a with
  | LocalTree i => [i]
  | LocalSet k => [tree_of k]
  | MissRegister i => [i]
  | _ => []
  end.

Definition dasked (acts : list act) : list nat := flat_map dasks acts.

Lemma trees_remove_tree : forall s i, trees (remove_tree s i) = trees s.
Proof. intros s i. unfold remove_tree. destruct (cancel s i); reflexivity. Qed.

Lemma upd_neq_absent : forall (f : nat -> tstate) k v i,
  upd f k v i <> TAbsent -> f i <> TAbsent \/ i = k.
Proof.
  intros f k v i H. unfold upd in H. destruct (i =? k) eqn:E.
  - right. apply Nat.eqb_eq. exact E.
  - left. exact H.
Qed.

(* [Sol s D]: every id in the store, and every id a message thread found in the store and has
   not yet delivered for, is among the solicited ids D *)
Definition Sol (s : st) (D : list nat) : Prop :=
  (forall i, trees s i <> TAbsent -> In i D) /\ (forall k, In k (hits s) -> In (tree_of k) D).

Lemma in_remove_tok' : forall k x l, In x (remove_tok k l) -> In x l.
Proof.
  intros k x l. induction l as [|y r IH]; cbn; auto. destruct (tok_eqb y k); cbn; intros H; auto.
  destruct H; auto.
Qed.

Lemma mem_tok_In' : forall k l, mem_tok k l = true -> In k l.
Proof.
  intros k l H. unfold mem_tok in H. apply existsb_exists in H as (x & Hx & E).
  unfold tok_eqb in E. apply andb_true_iff in E as [E1 E2]. apply Nat.eqb_eq in E1, E2.
  destruct k, x; cbn in *; subst; auto.
Qed.

Lemma step_sol : forall fx s a s' D,
  Sol s D -> step fx s a = Some s' -> Sol s' (D ++ dasks a).
Proof.
  intros fx s a s' D [HT HH] H.
  assert (W : forall (P : nat -> Prop), (forall i, P i -> In i D) -> forall i, P i -> In i (D ++ dasks a)).
  { intros P HP i Hi. apply in_or_app. left. auto. }
  destruct a as [j|k|k|k|k|j|j|j|k|c|c|c|j]; cbn [step dasks] in H |- *.
  - (* LocalTree *) inversion H; subst. split; cbn [trees hits].
    + intros i Hne. apply upd_neq_absent in Hne as [Hn| -> ]; apply in_or_app; [left; auto|right; left; reflexivity].
    + intros k Hk. apply in_or_app. left. auto.
  - (* LocalCreate *)
    destruct (inst s k); inversion H; subst. split; cbn [trees hits]; intros; apply in_or_app; left; auto.
  - (* LocalSet *)
    destruct (inst s k); inversion H; subst. split; cbn [trees hits].
    + intros i Hne. apply upd_neq_absent in Hne as [Hn| -> ]; apply in_or_app; [left; auto|right; left; reflexivity].
    + intros k' Hk. apply in_or_app. left. auto.
  - (* MsgLookup *)
    destruct (trees s (tree_of k)) eqn:Et; inversion H; subst; split; cbn [trees hits]; intros; apply in_or_app; left; auto.
    destruct H0 as [<-|H0]; auto. apply HT. congruence.
  - (* MsgDeliver *)
    destruct (negb (mem_tok k (hits s))) eqn:Em; [discriminate|]. apply negb_false_iff in Em. apply mem_tok_In' in Em.
    destruct (inst s k); try discriminate.
    + inversion H; subst. split; cbn [trees hits].
      * intros i Hne. apply in_or_app. left. destruct (f27 fx); auto.
        apply upd_neq_absent in Hne as [Hn| -> ]; auto.
      * intros k' Hk. apply in_or_app. left. apply HH. eapply in_remove_tok'; eauto.
    + inversion H; subst. split; cbn [trees hits]; intros; apply in_or_app; left; auto.
      apply HH. eapply in_remove_tok'; eauto.
    + match type of H with (if ?c then _ else _) = _ => destruct c end; inversion H; subst; split;
        try rewrite trees_remove_tree; cbn [trees hits]; intros; apply in_or_app; left; auto.
      * unfold remove_tree in H0. destruct (cancel _ _); cbn in H0; apply HH; eapply in_remove_tok'; eauto.
      * apply HH; eapply in_remove_tok'; eauto.
  - (* MissCheck *)
    destruct (negb (mem_nat j (misses s))); [discriminate|].
    destruct (trees s j); inversion H; subst; split; cbn [trees hits]; intros; apply in_or_app; left; auto.
  - (* MissRegister *)
    destruct (negb (mem_nat j (regs s))); [discriminate|]. inversion H; subst. split; cbn [trees hits].
    + intros i Hne.
      match type of Hne with (if ?c then _ else _) _ <> _ => destruct c end; [apply in_or_app; left; auto|].
      apply upd_neq_absent in Hne as [Hn| -> ]; apply in_or_app; [left; auto|right; left; reflexivity].
    + intros k Hk. apply in_or_app. left. auto.
  - (* TreeArrive *)
    destruct (trees s j) eqn:Et; inversion H; subst; split; cbn [trees hits]; intros; apply in_or_app; left; auto.
    apply upd_neq_absent in H0 as [Hn| -> ]; auto. apply HT. congruence.
  - (* Done *)
    destruct (inst s k); try discriminate.
    match type of H with (if ?c then _ else _) = _ => destruct c end; inversion H; subst; split;
      try rewrite trees_remove_tree; cbn [trees hits]; intros; apply in_or_app; left; auto.
    unfold remove_tree in H0. destruct (cancel _ _); cbn in H0; auto.
  - (* TimerFire *)
    destruct (find_timer c (timers s)) as [[c' t' [|]]|]; inversion H; subst; split; cbn [trees hits]; intros; apply in_or_app; left; auto.
  - (* TimerCancel *)
    destruct (find_timer c (timers s)) as [[c' t' [|]]|]; try discriminate.
    destruct (mem_nat c (chclosed s)); inversion H; subst; split; cbn [trees hits]; intros; apply in_or_app; left; auto.
  - (* TimerDelete *)
    destruct (find_timer c (timers s)) as [[c' t' [|]]|]; try discriminate.
    match type of H with (if ?c then _ else _) = _ => destruct c end; inversion H; subst; split; cbn [trees hits]; intros;
      apply in_or_app; left; auto.
    unfold upd in H0. destruct (i =? t'); [congruence|auto].
  - (* ReqTree *) inversion H; subst; split; cbn [trees hits]; intros; apply in_or_app; left; auto.
Qed.

Lemma run_sol : forall fx acts s s' D,
  Sol s D -> run fx s acts = Some s' -> Sol s' (D ++ dasked acts).
Proof.
  intros fx acts. induction acts as [|a r IH]; intros s s' D HS H; cbn [run dasked flat_map] in *.
  - inversion H; subst. now rewrite app_nil_r.
  - destruct (step fx s a) as [s1|] eqn:Es; [|discriminate].
    rewrite app_assoc. eapply IH; eauto. eapply step_sol; eauto.
Qed.

(* every interleaving, every variant: stored or requested only if registered locally or
   asked for earlier (with repair F27 the registration of an instance created for a message
   stores the tree its thread had found in the store: found there, hence solicited) *)
Theorem done_only_solicited : forall fx acts s i,
  run fx init acts = Some s -> trees s i <> TAbsent -> In i (dasked acts).
Proof.
  intros fx acts s i H Hne.
  assert (S0 : Sol init []) by (split; cbn; intros; [congruence|tauto]).
  destruct (run_sol _ _ _ _ _ S0 H) as [HT _]. apply (HT i Hne).
Qed.

(* a response for an id that is absent changes nothing *)
Theorem done_unsolicited_arrival_ignored : forall fx s i,
  trees s i = TAbsent -> step fx s (TreeArrive i) = Some s.
Proof. intros fx s i H. cbn [step]. rewrite H. reflexivity. Qed.
