(* C06 -- "only solicited trees" over the transition system of Overlay/Done.v (C11:
   instance table, tree store and timer goroutines of one server, one action = one
   critical section).  There a tree response is the action [TreeArrive i]; this file
   shows, for every interleaving and every variant of the code, that a tree id is in the
   store (requested or present) only if a local registration (LocalTree / LocalSet) or a
   tree request (MissRegister) for it happened earlier, and that a response for an id
   that is absent is ignored. *)
From Coq Require Import List Arith Bool Lia.
Import ListNotations.
From Onet Require Import Overlay.Done.

(* the tree ids an action registers locally or asks a peer for *)
Definition dasks (a : act) : list nat :=
  match a with
  | LocalTree i => [i]
  | LocalSet k => [tree_of k]
  | MissRegister i => [i]
  | _ => []
  end.

Definition dasked (acts : list act) : list nat := flat_map dasks acts.

Lemma trees_remove_tree : forall s i, trees (remove_tree s i) = trees s.
Proof. intros s i. unfold remove_tree. destruct (cancel s i); reflexivity. Qed.

Lemma upd_neq_absent : forall (f : nat -> tstate) k v i,
  upd f k v i <> TAbsent -> f i <> TAbsent \/ i = k.
Proof.
  intros f k v i H. unfold upd in H. destruct (i =? k) eqn:E.
  - right. apply Nat.eqb_eq. exact E.
  - left. exact H.
Qed.

Lemma step_trees : forall fx s a s' i,
  step fx s a = Some s' -> trees s' i <> TAbsent -> trees s i <> TAbsent \/ In i (dasks a).
Proof.
  intros fx s a s' i H Hne.
  destruct a as [j|k|k|k|k|j|j|j|k|c|c|c|j]; cbn [step dasks] in H |- *.
  - (* LocalTree *) inversion H; subst. cbn [trees] in Hne. apply upd_neq_absent in Hne as [Hn| -> ]; auto. right; left; reflexivity.
  - (* LocalCreate *)
    destruct (window_busy fx s); [discriminate|]. destruct (inst s k); inversion H; subst; auto.
  - (* LocalSet *)
    destruct (inst s k); inversion H; subst. cbn [trees] in Hne.
    apply upd_neq_absent in Hne as [Hn| -> ]; auto. right; left; reflexivity.
  - (* MsgLookup *)
    destruct (window_busy fx s); [discriminate|]. destruct (trees s (tree_of k)); inversion H; subst; auto.
  - (* MsgDeliver *)
    destruct (negb (mem_tok k (hits s))); [discriminate|].
    destruct (inst s k); try discriminate.
    + inversion H; subst; auto.
    + inversion H; subst; auto.
    + match type of H with (if ?c then _ else _) = _ => destruct c end; inversion H; subst;
        [rewrite trees_remove_tree in Hne|]; auto.
  - (* MissCheck *)
    destruct (negb (mem_nat j (misses s))); [discriminate|]. destruct (trees s j); inversion H; subst; auto.
  - (* MissRegister *)
    destruct (negb (mem_nat j (regs s))); [discriminate|]. inversion H; subst. cbn [trees] in Hne.
    match type of Hne with (if ?c then _ else _) _ <> _ => destruct c end; auto.
    apply upd_neq_absent in Hne as [Hn| -> ]; auto. right; left; reflexivity.
  - (* TreeArrive *)
    destruct (trees s j) eqn:Et; inversion H; subst; auto; cbn [trees] in Hne;
      apply upd_neq_absent in Hne as [Hn| -> ]; auto; left; congruence.
  - (* Done *)
    destruct (window_busy fx s); [discriminate|]. destruct (inst s k); try discriminate.
    match type of H with (if ?c then _ else _) = _ => destruct c end; inversion H; subst;
      [|rewrite trees_remove_tree in Hne]; auto.
  - (* TimerFire *)
    destruct (find_timer c (timers s)) as [[c' t' [|]]|]; inversion H; subst; auto.
  - (* TimerCancel *)
    destruct (find_timer c (timers s)) as [[c' t' [|]]|]; try discriminate.
    destruct (mem_nat c (chclosed s)); inversion H; subst; auto.
  - (* TimerDelete *)
    destruct (find_timer c (timers s)) as [[c' t' [|]]|]; try discriminate.
    match type of H with (if ?c then _ else _) = _ => destruct c end; inversion H; subst; auto.
    cbn [trees] in Hne. unfold upd in Hne. destruct (i =? t'); [congruence|auto].
  - (* ReqTree *) inversion H; subst; auto.
Qed.

Lemma run_trees : forall fx acts s s' i,
  run fx s acts = Some s' -> trees s' i <> TAbsent -> trees s i <> TAbsent \/ In i (dasked acts).
Proof.
  intros fx acts. induction acts as [|a r IH]; intros s s' i H Hne; cbn [run dasked flat_map] in *.
  - inversion H; subst. auto.
  - destruct (step fx s a) as [s1|] eqn:Es; [|discriminate].
    destruct (IH _ _ _ H Hne) as [H1|H1].
    + destruct (step_trees _ _ _ _ _ Es H1) as [H0|H0]; auto. right. apply in_or_app. auto.
    + right. apply in_or_app. auto.
Qed.

(* every interleaving, every variant: stored or requested only if registered locally or
   asked for earlier *)
Theorem done_only_solicited : forall fx acts s i,
  run fx init acts = Some s -> trees s i <> TAbsent -> In i (dasked acts).
Proof.
  intros fx acts s i H Hne. destruct (run_trees _ _ _ _ _ H Hne) as [H0|H0]; [|exact H0].
  exfalso. apply H0. reflexivity.
Qed.

(* a response for an id that is absent changes nothing *)
Theorem done_unsolicited_arrival_ignored : forall fx s i,
  trees s i = TAbsent -> step fx s (TreeArrive i) = Some s.
Proof. intros fx s i H. cbn [step]. rewrite H. reflexivity. Qed.
