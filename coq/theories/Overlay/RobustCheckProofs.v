(* C07: the boolean checker of Corr/C07.v accepts an observed history exactly when
   the history satisfies the property as a proposition about the observations. *)
From Coq Require Import List Arith Bool.
Import ListNotations.
From Onet Require Import Base.Corr Overlay.Robust Corr.C07.

(* the property, on what was observed *)
Definition no_panic (os : list obs) : Prop := forall o, In o os -> ob_out o <> 1.
Definition nothing_held (os : list obs) : Prop := forall o, In o os -> ob_out o <> 2 /\ ob_locks o = [].

(* the observations of the canary phase: from the first expectation on *)
Definition phase (x : option expect) (o : obs) (seen : list obs) : list obs :=
  match x, seen with None, [] => [] | _, _ => o :: seen end.

Inductive canaries_served (runs : bool) : list (xop * option expect * bool) -> list obs -> list obs -> Prop :=
| cs_end : forall seen, canaries_served runs [] [] seen
| cs_plain : forall o full ops ob os seen,
    canaries_served runs ops os (phase None ob seen) ->
    canaries_served runs ((o, None, full) :: ops) (ob :: os) seen
| cs_other : forall o e full ops ob os seen,
    is_run_expect e <> runs ->
    canaries_served runs ops os (ob :: seen) ->
    canaries_served runs ((o, Some e, full) :: ops) (ob :: os) seen
| cs_served : forall o e full ops ob os seen,
    expect_ok e (ob :: seen) = true ->
    canaries_served runs ops os (ob :: seen) ->
    canaries_served runs ((o, Some e, full) :: ops) (ob :: os) seen.

Lemma canaries_ok_iff : forall runs ops os seen,
  canaries_ok runs ops os seen = true <-> canaries_served runs ops os seen.
Proof.
  intros runs ops. induction ops as [|[[o x] full] r IH]; intros os seen.
  - destruct os; cbn; split; intros H; try constructor; try discriminate; inversion H.
  - destruct os as [|ob os]; cbn [canaries_ok].
    + split; intros H; [discriminate|inversion H].
    + rewrite andb_true_iff, IH. split.
      * intros [Hx Hr]. destruct x as [e|]; [|constructor; exact Hr].
        assert (Es : match seen with [] => ob :: seen | _ => ob :: seen end = ob :: seen) by (destruct seen; reflexivity).
        cbn in Hx, Hr. rewrite ?Es in *.
        apply orb_true_iff in Hx as [Hx|Hx].
        -- apply cs_other; [|destruct seen; exact Hr]. apply negb_true_iff in Hx. intros E. rewrite E in Hx.
           destruct runs; discriminate.
        -- apply cs_served; destruct seen; assumption.
      * intros H. inversion H; subst.
        -- split; [reflexivity|assumption].
        -- split; [|destruct seen; assumption]. apply orb_true_iff. left. apply negb_true_iff.
           destruct (is_run_expect e), runs; try reflexivity; exfalso; auto.
        -- split; [|destruct seen; assumption]. apply orb_true_iff. right. destruct seen; assumption.
Qed.

Lemma app_nil_iff : forall A (l l' : list A), l ++ l' = [] <-> l = [] /\ l' = [].
Proof.
  intros A l l'. split; [apply app_eq_nil|]. intros [-> ->]. reflexivity.
Qed.

Lemma clause_nil : forall n b, clause n b = [] <-> b = true.
Proof. intros n b; destruct b; cbn; split; intros H; try reflexivity; discriminate. Qed.

Definition replies_arrived (os : list obs) : Prop := forall o, In o os -> ob_reply_ok o = true.

Theorem check_history_sound : forall ops os,
  check (mkCase ops os) = [] <->
  no_panic os /\ nothing_held os /\ (canaries_served true ops os [] /\ replies_arrived os) /\
  canaries_served false ops os [].
Proof.
  intros ops os. unfold check.
  rewrite !app_nil_iff. rewrite !clause_nil. rewrite andb_true_iff. rewrite <- !canaries_ok_iff.
  unfold no_panic, nothing_held, replies_arrived. rewrite !forallb_forall.
  split.
  - intros (H1 & H2 & (H3 & H5) & H4).
    split; [|split; [|split; [split; assumption|assumption]]].
    + intros o Ho E. specialize (H1 o Ho). rewrite E in H1. discriminate.
    + intros o Ho. specialize (H2 o Ho). apply andb_true_iff in H2 as [Ha Hb]. split.
      * intros E. rewrite E in Ha. discriminate.
      * destruct (ob_locks o); [reflexivity|discriminate].
  - intros (H1 & H2 & (H3 & H5) & H4).
    split; [|split; [|split; [split; assumption|assumption]]].
    + intros o Ho. apply negb_true_iff, Nat.eqb_neq, H1, Ho.
    + intros o Ho. destruct (H2 o Ho) as [Ha Hb]. rewrite Hb. apply andb_true_iff. split; [|reflexivity].
      apply negb_true_iff, Nat.eqb_neq, Ha.
Qed.

Theorem check_stress_sound : forall aborted free_scans,
  check (mkStress aborted free_scans) = [] <-> aborted = false /\ free_scans = false.
Proof.
  intros a b; destruct a, b; cbn; split; intros H; try discriminate; try (destruct H; discriminate); auto.
Qed.

Theorem check_race_sound : forall v crashed hung served,
  check (mkRace v crashed hung served) = [] <-> crashed = false /\ hung = false /\ served = true.
Proof.
  intros v a b c; destruct a, b, c; cbn; split; intros H; try discriminate;
    try (destruct H as (H1 & H2 & H3); discriminate); auto.
Qed.

Theorem check_abnormal_sound : forall crashed hung,
  check (mkAbnormal crashed hung) = [] <-> crashed = false /\ hung = false.
Proof.
  intros a b; destruct a, b; cbn; split; intros H; try discriminate; try (destruct H; discriminate); auto.
Qed.
