(* C01 -- conservation and completeness of message delivery (Overlay/Delivery.v) *)
From Coq Require Import List Arith Bool Lia Permutation.
Import ListNotations.
From Onet Require Import Overlay.Delivery.

(* ---- counting ---------------------------------------------------------------- *)

Lemma msg_eqb_eq a b : msg_eqb a b = true <-> a = b.
Proof.
  destruct a as [a1 [a2 a3]], b as [b1 [b2 b3]]. unfold msg_eqb, mid, mtok, mtree. cbn.
  rewrite !andb_true_iff, !Nat.eqb_eq. split.
  - intros [[-> ->] ->]. reflexivity.
  - intros H. inversion H. auto.
Qed.

Lemma msg_eqb_refl a : msg_eqb a a = true.
Proof. now apply msg_eqb_eq. Qed.

Fixpoint cnt (m : msg) (l : list msg) : nat :=
  match l with
  | [] => 0
  | x :: r => (if msg_eqb x m then 1 else 0) + cnt m r
  end.

Lemma cnt_app m a b : cnt m (a ++ b) = cnt m a + cnt m b.
Proof. induction a as [|x a IH]; cbn; [reflexivity|]. rewrite IH. lia. Qed.

Lemma cnt_in m l : 0 < cnt m l <-> In m l.
Proof.
  induction l as [|x r IH]; cbn; [split; [lia|tauto]|].
  destruct (msg_eqb x m) eqn:E.
  - apply msg_eqb_eq in E. subst. split; [auto|lia].
  - rewrite <- IH. split; [intros H; right; lia|].
    intros [->|H]; [rewrite msg_eqb_refl in E; discriminate|lia].
Qed.

Lemma cnt_zero m l : cnt m l = 0 <-> ~ In m l.
Proof. rewrite <- cnt_in. lia. Qed.

Lemma cnt_filter_split m (f : msg -> bool) l :
  cnt m l = cnt m (filter f l) + cnt m (filter (fun x => negb (f x)) l).
Proof.
  induction l as [|x r IH]; cbn; [reflexivity|]. destruct (f x); cbn; rewrite IH; lia.
Qed.

Lemma remove1_cnt m l l' x : remove1 m l = Some l' ->
  cnt x l = cnt x l' + (if msg_eqb m x then 1 else 0).
Proof.
  revert l'; induction l as [|y r IH]; intros l' H; cbn in H; [discriminate|].
  destruct (msg_eqb y m) eqn:E.
  - inversion H; subst. apply msg_eqb_eq in E. subst. cbn. lia.
  - destruct (remove1 m r) as [r'|]; [|discriminate]. inversion H; subst. cbn.
    rewrite (IH r' eq_refl). lia.
Qed.

Lemma pick_spec {A} k (l : list A) l1 t l2 : pick k l = Some (l1, t, l2) -> l = l1 ++ t :: l2.
Proof.
  revert k l1; induction l as [|x r IH]; intros [|k] l1 H; cbn in H; try discriminate.
  - inversion H; subst. reflexivity.
  - destruct (pick k r) as [[[a y] b]|] eqn:E; [|discriminate]. inversion H; subst.
    cbn. f_equal. eapply IH; eauto.
Qed.

(* ---- where a message can be ----------------------------------------------------- *)

Definition pc_holds (p : pc) : list msg :=
  match p with
  | PLookup m | PHit m | PMiss m => [m]
  | PParked _ | PNotReg _ | PRegd _ => []          (* the message is in the parked list *)
  end.

Definition holds (t : thread) : list msg :=
  match t with
  | TMsg p => pc_holds p
  | TFlush l c => l ++ match c with Some p => pc_holds p | None => [] end
  | _ => []
  end.

Definition places (s : st) : list msg :=
  net s ++ flat_map holds (threads s) ++ parked s ++ delivered s ++ dropped s.

Ltac cn := repeat (progress (rewrite ?cnt_app, ?flat_map_app, ?app_nil_r; cbn)).
Ltac cnh H := repeat (progress (rewrite ?cnt_app, ?flat_map_app, ?app_nil_r in H; cbn in H)).

Definition sh_places (h : shared) : list msg := sh_parked h ++ sh_delivered h ++ sh_dropped h.

Lemma pc_step_cnt rc fin h p h' c sp x :
  pc_step rc fin h p = (h', c, sp) ->
  cnt x (pc_holds p) + cnt x (sh_places h) =
  cnt x (match c with Some p' => pc_holds p' | None => [] end) + cnt x (flat_map holds sp) + cnt x (sh_places h').
Proof.
  unfold sh_places. destruct p as [m|m|m|m|m|m]; cbn [pc_step].
  - destruct (sh_trees h (mtree m)); intros H; inversion H; subst; cn; lia.
  - destruct (mem_nat (mtok m) fin); intros H; inversion H; subst; cn; lia.
  - intros H; inversion H; subst; cn; lia.
  - destruct (sh_trees h (mtree m)); intros H; inversion H; subst; cn; try lia.
    destruct rc; cn; lia.
  - intros H; inversion H; subst; cn. lia.
  - intros H; inversion H; subst; cn. lia.
Qed.

Definition Cons (s : st) : Prop := forall x, cnt x (places s) = cnt x (sent s).

Lemma Cons_init : Cons init.
Proof. intros x. reflexivity. Qed.

Lemma step_cons rc s a s' : Cons s -> step rc s a = Some s' -> Cons s'.
Proof.
  intros C H x. specialize (C x). unfold places in *. destruct a; cbn [step] in H.
  - destruct (existsb _ _); [discriminate|]. inversion H; subst; clear H. cnh C. cn. lia.
  - destruct (remove1 m (net s)) as [n'|] eqn:E; [|discriminate]. inversion H; subst; clear H.
    pose proof (remove1_cnt m _ _ x E) as Hr. cnh C. cn. lia.
  - destruct (pick k (threads s)) as [[[l1 t] l2]|] eqn:E; [|discriminate].
    apply pick_spec in E. rewrite E in C. cnh C.
    destruct t as [p|i|i|l [p|]]; cbn [holds] in C; cnh C.
    + destruct (pc_step rc (finished s) (shared_of s) p) as [[h c] sp] eqn:Ep.
      inversion H; subst; clear H. pose proof (pc_step_cnt _ _ _ _ _ _ _ x Ep) as Hp.
      unfold sh_places, shared_of in Hp. cnh Hp. cn. destruct c; cnh Hp; cn; lia.
    + destruct (trees s i); inversion H; subst; clear H; cn; lia.
    + inversion H; subst; clear H. cn.
      pose proof (cnt_filter_split x (fun m => mtree m =? i) (parked s)). lia.
    + destruct (pc_step rc (finished s) (shared_of s) p) as [[h c] sp] eqn:Ep.
      inversion H; subst; clear H. pose proof (pc_step_cnt _ _ _ _ _ _ _ x Ep) as Hp.
      unfold sh_places, shared_of in Hp. cnh Hp. cn. destruct c; cnh Hp; cn; lia.
    + destruct l as [|m r]; inversion H; subst; clear H; cnh C; cn; lia.
  - destruct (remove1n i (reqs s)); [|discriminate]. inversion H; subst; clear H. cnh C. cn. lia.
  - destruct (remove1n i (resps s)); [|discriminate]. inversion H; subst; clear H. cnh C. cn. lia.
  - inversion H; subst; clear H. cnh C. cn. lia.
  - inversion H; subst; clear H. cnh C. cn. lia.
Qed.

Lemma run_cons rc acts : forall s s', Cons s -> run rc s acts = Some s' -> Cons s'.
Proof.
  induction acts as [|a r IH]; intros s s' C H; cbn in H.
  - now inversion H; subst.
  - destruct (step rc s a) as [s1|] eqn:E; [|discriminate].
    apply (IH s1 s'); [eapply step_cons; eauto|exact H].
Qed.

(* message ids are unique, so every sent message counts once *)
Definition Uniq (s : st) : Prop := forall x, cnt x (sent s) <= 1.

Lemma step_uniq rc s a s' : Uniq s -> step rc s a = Some s' -> Uniq s'.
Proof.
  intros U H x. specialize (U x). destruct a; cbn [step] in H;
    repeat match type of H with
    | (if ?b then _ else _) = _ => destruct b eqn:?; try discriminate
    | match ?t with _ => _ end = _ => destruct t eqn:?; try discriminate
    end; inversion H; subst; clear H; cbn; auto.
  destruct (msg_eqb m x) eqn:E; [|lia]. apply msg_eqb_eq in E. subst.
  assert (cnt x (sent s) = 0); [|lia]. apply cnt_zero. intros Hin.
  match goal with Hx : existsb _ _ = false |- _ =>
    assert (existsb (fun y => mid y =? mid x) (sent s) = true) by (apply existsb_exists; exists x; split; [auto|apply Nat.eqb_refl]);
    congruence end.
Qed.

(* ---- completeness: what keeps a parked message alive ------------------------------ *)

Definition cur_pc (t : thread) : option pc :=
  match t with TMsg p => Some p | TFlush _ c => c | _ => None end.

Definition b2n (b : bool) : nat := if b then 1 else 0.

Definition W_parked (i : nat) (c : option pc) : nat :=
  match c with Some (PParked m) => b2n (mtree m =? i) | _ => 0 end.
Definition W_notreg (i : nat) (c : option pc) : nat :=
  match c with Some (PNotReg m) => b2n (mtree m =? i) | _ => 0 end.
Definition W_regd (i : nat) (c : option pc) : nat :=
  match c with Some (PRegd m) => b2n (mtree m =? i) | _ => 0 end.

Definition w_flush (i : nat) (t : thread) : nat := match t with TFlushStart j => b2n (j =? i) | _ => 0 end.
Definition w_resp (i : nat) (t : thread) : nat := match t with TResp j => b2n (j =? i) | _ => 0 end.
Definition w_parked i t := W_parked i (cur_pc t).
Definition w_notreg i t := W_notreg i (cur_pc t).
Definition w_regd i t := W_regd i (cur_pc t).

Definition tsum (w : thread -> nat) (l : list thread) : nat := list_sum (map w l).

Lemma tsum_app w a b : tsum w (a ++ b) = tsum w a + tsum w b.
Proof. unfold tsum. now rewrite map_app, list_sum_app. Qed.

Lemma tsum_cons w t l : tsum w (t :: l) = w t + tsum w l.
Proof. reflexivity. Qed.

Lemma tsum_nil w : tsum w [] = 0.
Proof. reflexivity. Qed.

Definition np (i : nat) (l : list msg) : nat := length (filter (fun m => mtree m =? i) l).

Fixpoint cn (i : nat) (l : list nat) : nat :=
  match l with [] => 0 | x :: r => b2n (x =? i) + cn i r end.

Lemma remove1n_cn k l l' i : remove1n k l = Some l' -> cn i l = cn i l' + b2n (k =? i).
Proof.
  revert l'; induction l as [|y r IH]; intros l' H; cbn in H; [discriminate|].
  destruct (Nat.eqb_spec y k).
  - inversion H; subst. cbn. lia.
  - destruct (remove1n k r) as [r'|]; [|discriminate]. inversion H; subst. cbn.
    rewrite (IH r' eq_refl). lia.
Qed.

Record LInv (s : st) : Prop := {
  l_present : forall i, 0 < np i (parked s) -> trees s i = TPresent ->
                        0 < tsum (w_flush i) (threads s) + tsum (w_parked i) (threads s);
  l_requested : forall i, trees s i = TRequested ->
                          0 < tsum (w_regd i) (threads s) + cn i (reqs s) + cn i (resps s) + tsum (w_resp i) (threads s);
  l_absent : forall i, 0 < np i (parked s) -> trees s i = TAbsent ->
                       0 < tsum (w_parked i) (threads s) + tsum (w_notreg i) (threads s);
  l_dropped : forall m, In m (dropped s) -> In (mtok m) (finished s) }.

Lemma LInv_init : LInv init.
Proof. constructor; cbn; intros; try lia; try discriminate; tauto. Qed.

Ltac ts := repeat (progress (rewrite ?tsum_app, ?tsum_cons, ?tsum_nil; cbn [app])).
Ltac tsh H := repeat (progress (rewrite ?tsum_app, ?tsum_cons, ?tsum_nil in H; cbn [app] in H)).

Lemma np_filter_in i l : np i (filter (fun m => negb (mtree m =? i)) l) = 0.
Proof.
  unfold np. induction l as [|x r IH]; cbn; auto.
  destruct (mtree x =? i) eqn:E; cbn; auto. rewrite E. auto.
Qed.

Lemma np_filter_other i j l : i <> j -> np j (filter (fun m => negb (mtree m =? i)) l) = np j l.
Proof.
  intros Hne. unfold np. induction l as [|x r IH]; cbn; auto.
  destruct (Nat.eqb_spec (mtree x) i); cbn.
  - destruct (Nat.eqb_spec (mtree x) j); [congruence|auto].
  - destruct (mtree x =? j); cbn; auto.
Qed.

Lemma np_cons i m l : np i (m :: l) = b2n (mtree m =? i) + np i l.
Proof. unfold np. cbn. destruct (mtree m =? i); reflexivity. Qed.

Lemma np_snoc i m l : np i (l ++ [m]) = np i l + b2n (mtree m =? i).
Proof. unfold np. rewrite filter_app, app_length. cbn. destruct (mtree m =? i); reflexivity. Qed.

Local Arguments tsum : simpl never.
Local Arguments np : simpl never.
Local Arguments cn : simpl never.

Lemma cn_cons i x l : cn i (x :: l) = b2n (x =? i) + cn i l.
Proof. reflexivity. Qed.

Ltac fwd :=
  repeat match goal with
  | H : ?P -> _, H' : ?P |- _ => specialize (H H')
  end.

(* one step of a TransmitMsg call, inside any thread shape whose weights depend on the pc only *)
Lemma pc_linv s l1 l2 told p (mk : option pc -> list thread) h c sp :
  threads s = l1 ++ told :: l2 -> cur_pc told = Some p ->
  (forall c i, tsum (w_parked i) (mk c) = W_parked i c /\ tsum (w_notreg i) (mk c) = W_notreg i c /\
               tsum (w_regd i) (mk c) = W_regd i c /\ tsum (w_flush i) (mk c) = 0 /\ tsum (w_resp i) (mk c) = 0) ->
  pc_step true (finished s) (shared_of s) p = (h, c, sp) ->
  LInv s -> LInv (with_shared s h (l1 ++ mk c ++ sp ++ l2)).
Proof.
  intros Hth Hcur Hmk Hstep [L2 L3 L5 LD].
  assert (Hold : forall i, w_parked i told = W_parked i (Some p) /\ w_notreg i told = W_notreg i (Some p) /\
                           w_regd i told = W_regd i (Some p) /\ w_flush i told = 0 /\ w_resp i told = 0).
  { intros i. unfold w_parked, w_notreg, w_regd. rewrite Hcur. repeat split; destruct told; cbn in *; try discriminate; auto. }
  rewrite Hth in *.
  assert (Hprep : forall i cc,
    (0 < np i (parked s) -> trees s i = TPresent ->
       0 < tsum (w_flush i) l1 + tsum (w_flush i) l2 + (tsum (w_parked i) l1 + W_parked i (Some p) + tsum (w_parked i) l2)) /\
    (trees s i = TRequested ->
       0 < tsum (w_regd i) l1 + W_regd i (Some p) + tsum (w_regd i) l2 + cn i (reqs s) + cn i (resps s) +
           (tsum (w_resp i) l1 + tsum (w_resp i) l2)) /\
    (0 < np i (parked s) -> trees s i = TAbsent ->
       0 < tsum (w_parked i) l1 + W_parked i (Some p) + tsum (w_parked i) l2 +
           (tsum (w_notreg i) l1 + W_notreg i (Some p) + tsum (w_notreg i) l2)) /\
    tsum (w_flush i) (l1 ++ mk cc ++ sp ++ l2) = tsum (w_flush i) l1 + tsum (w_flush i) sp + tsum (w_flush i) l2 /\
    tsum (w_resp i) (l1 ++ mk cc ++ sp ++ l2) = tsum (w_resp i) l1 + tsum (w_resp i) sp + tsum (w_resp i) l2 /\
    tsum (w_parked i) (l1 ++ mk cc ++ sp ++ l2) = tsum (w_parked i) l1 + W_parked i cc + tsum (w_parked i) sp + tsum (w_parked i) l2 /\
    tsum (w_notreg i) (l1 ++ mk cc ++ sp ++ l2) = tsum (w_notreg i) l1 + W_notreg i cc + tsum (w_notreg i) sp + tsum (w_notreg i) l2 /\
    tsum (w_regd i) (l1 ++ mk cc ++ sp ++ l2) = tsum (w_regd i) l1 + W_regd i cc + tsum (w_regd i) sp + tsum (w_regd i) l2).
  { intros i cc. specialize (L2 i); specialize (L3 i); specialize (L5 i).
    destruct (Hold i) as (O1 & O2 & O3 & O4 & O5). destruct (Hmk cc i) as (M1 & M2 & M3 & M4 & M5).
    tsh L2; tsh L3; tsh L5. rewrite O1, O4 in L2. rewrite O3, O5 in L3. rewrite O1, O2 in L5.
    ts. rewrite M1, M2, M3, M4, M5.
    repeat split; intros; fwd; lia. }
  clear L2 L3 L5 Hold.
  destruct p as [m|m|m|m|m|m]; cbn [pc_step] in Hstep.
  - (* PLookup *)
    assert (E : h = shared_of s /\ sp = [] /\ (c = Some (PHit m) \/ c = Some (PMiss m))).
    { destruct (sh_trees (shared_of s) (mtree m)); inversion Hstep; subst; auto. }
    destruct E as (-> & -> & Hc). cbn [app] in Hprep |- *.
    constructor; cbn [with_shared shared_of trees parked reqs resps threads dropped finished sh_trees sh_parked sh_reqs sh_dropped]; auto;
      intros i; destruct (Hprep i c) as (P2 & P3 & P5 & E1 & E2 & E3 & E4 & E5); rewrite ?E1, ?E2, ?E3, ?E4, ?E5;
      destruct Hc as [-> | ->]; cbn [W_parked W_notreg W_regd] in *; rewrite ?tsum_nil; intros; fwd; lia.
  - (* PHit *)
    assert (E : sp = [] /\ c = None /\ sh_trees h = trees s /\ sh_parked h = parked s /\ sh_reqs h = reqs s /\
                (forall x, In x (sh_dropped h) -> In x (dropped s) \/ (x = m /\ In (mtok m) (finished s)))).
    { cbn in Hstep. destruct (mem_nat (mtok m) (finished s)) eqn:Ef; inversion Hstep; subst; cbn; repeat split; auto.
      intros x [<-|Hx]; auto. right. split; auto. unfold mem_nat in Ef. apply existsb_exists in Ef as (y & Hy & Ey).
      apply Nat.eqb_eq in Ey. now subst. }
    destruct E as (-> & -> & Et & Ep & Er & Ed). cbn [app] in Hprep |- *.
    constructor; cbn [with_shared trees parked reqs resps threads dropped finished]; rewrite ?Et, ?Ep, ?Er.
    4: { intros x Hx. destruct (Ed x Hx) as [H|[-> H]]; auto. }
    all: intros i; destruct (Hprep i None) as (P2 & P3 & P5 & E1 & E2 & E3 & E4 & E5); rewrite ?E1, ?E2, ?E3, ?E4, ?E5;
      cbn [W_parked W_notreg W_regd] in *; rewrite ?tsum_nil; intros; fwd; lia.
  - (* PMiss: park *)
    inversion Hstep; subst; clear Hstep. cbn [app] in Hprep |- *.
    constructor; cbn [with_shared shared_of trees parked reqs resps threads dropped finished sh_trees sh_parked sh_reqs sh_dropped]; auto;
      intros i; destruct (Hprep i (Some (PParked m))) as (P2 & P3 & P5 & E1 & E2 & E3 & E4 & E5); rewrite ?E1, ?E2, ?E3, ?E4, ?E5;
      cbn [W_parked W_notreg W_regd] in *; rewrite ?tsum_nil, ?np_snoc;
      destruct (mtree m =? i) eqn:Ei; cbn [b2n] in *; intros; rewrite ?Nat.add_0_r in *; fwd; try lia.
  - (* PParked: the registered test, with the re-check *)
    cbn in Hstep.
    destruct (trees s (mtree m)) eqn:Et; inversion Hstep; subst; clear Hstep;
      constructor; cbn [with_shared shared_of trees parked reqs resps threads dropped finished sh_trees sh_parked sh_reqs sh_dropped]; auto;
      intros i;
      match goal with |- context[mk ?cc] => destruct (Hprep i cc) as (P2 & P3 & P5 & E1 & E2 & E3 & E4 & E5) end; rewrite ?E1, ?E2, ?E3, ?E4, ?E5;
      cbn [W_parked W_notreg W_regd] in *; rewrite ?tsum_nil, ?tsum_cons; cbn [w_flush w_resp w_parked w_notreg w_regd cur_pc W_parked W_notreg W_regd];
      destruct (Nat.eqb_spec (mtree m) i); subst; cbn [b2n] in *; intros; fwd; try lia; try congruence.
  - (* PNotReg: Register *)
    inversion Hstep; subst; clear Hstep. cbn [app] in Hprep |- *.
    constructor; cbn [with_shared shared_of trees parked reqs resps threads dropped finished sh_trees sh_parked sh_reqs sh_dropped]; auto;
      intros i; destruct (Hprep i (Some (PRegd m))) as (P2 & P3 & P5 & E1 & E2 & E3 & E4 & E5); rewrite ?E1, ?E2, ?E3, ?E4, ?E5;
      cbn [W_parked W_notreg W_regd] in *; rewrite ?tsum_nil;
      destruct (trees s (mtree m)) eqn:Et; unfold upd;
      destruct (Nat.eqb_spec i (mtree m)); subst; rewrite ?Nat.eqb_refl in *; cbn [b2n] in *;
      try (destruct (Nat.eqb_spec (mtree m) i); [congruence|]); cbn [b2n] in *; intros; fwd; try lia; try congruence.
  - (* PRegd: the request leaves *)
    inversion Hstep; subst; clear Hstep. cbn [app] in Hprep |- *.
    constructor; cbn [with_shared shared_of trees parked reqs resps threads dropped finished sh_trees sh_parked sh_reqs sh_dropped]; auto;
      intros i; destruct (Hprep i None) as (P2 & P3 & P5 & E1 & E2 & E3 & E4 & E5); rewrite ?E1, ?E2, ?E3, ?E4, ?E5;
      cbn [W_parked W_notreg W_regd] in *; rewrite ?tsum_nil, ?cn_cons;
      destruct (mtree m =? i) eqn:Ei; cbn [b2n] in *; intros; fwd; try lia.
Qed.

Lemma np_split i l :
  np i l = np i (filter (fun m => mtree m =? i) l).
Proof.
  unfold np. induction l as [|x r IH]; cbn; auto.
  destruct (mtree x =? i) eqn:E; cbn; rewrite ?E; cbn; auto.
Qed.

Lemma step_linv s a s' : LInv s -> step true s a = Some s' -> LInv s'.
Proof.
  intros L H. destruct a; cbn [step] in H.
  - (* Send *)
    destruct (existsb _ _); [discriminate|]. inversion H; subst; clear H.
    destruct L as [L2 L3 L5 LD]. constructor; cbn; auto.
  - (* Recv *)
    destruct (remove1 m (net s)); [|discriminate]. inversion H; subst; clear H.
    destruct L as [L2 L3 L5 LD]. constructor; cbn [trees parked reqs resps threads dropped finished]; auto;
      intros i; specialize (L2 i); specialize (L3 i); specialize (L5 i); rewrite !tsum_cons;
      cbn [w_flush w_resp w_parked w_notreg w_regd cur_pc W_parked W_notreg W_regd]; intros; fwd; lia.
  - (* Step *)
    destruct (pick k (threads s)) as [[[l1 t] l2]|] eqn:E; [|discriminate].
    apply pick_spec in E.
    destruct t as [p|i|i|l [p|]].
    + destruct (pc_step true (finished s) (shared_of s) p) as [[h c] sp] eqn:Ep.
      inversion H; subst; clear H.
      apply (pc_linv s l1 l2 (TMsg p) p (fun c => match c with Some p' => [TMsg p'] | None => [] end) h c sp E eq_refl); auto.
      intros [p'|] i; rewrite ?tsum_cons, ?tsum_nil; unfold w_parked, w_notreg, w_regd; cbn [cur_pc w_flush w_resp W_parked W_notreg W_regd]; repeat split; lia.
    + (* TResp *)
      destruct L as [L2 L3 L5 LD]. rewrite E in *.
      destruct (trees s i) eqn:Et; inversion H; subst; clear H;
        constructor; cbn [with_shared shared_of trees parked reqs resps threads dropped finished sh_trees sh_parked sh_reqs sh_dropped]; auto;
        intros j; specialize (L2 j); specialize (L3 j); specialize (L5 j);
        tsh L2; tsh L3; tsh L5; ts; unfold upd;
        cbn [w_flush w_resp w_parked w_notreg w_regd cur_pc W_parked W_notreg W_regd] in *;
        destruct (Nat.eqb_spec j i); subst; rewrite ?Nat.eqb_refl in *; cbn [b2n] in *;
        try (destruct (Nat.eqb_spec i j); [congruence|]); cbn [b2n] in *; intros; fwd; try lia; try congruence.
    + (* TFlushStart *)
      destruct L as [L2 L3 L5 LD]. rewrite E in *. inversion H; subst; clear H.
      constructor; cbn [trees parked reqs resps threads dropped finished]; auto;
        intros j; specialize (L2 j); specialize (L3 j); specialize (L5 j);
        tsh L2; tsh L3; tsh L5; ts;
        cbn [w_flush w_resp w_parked w_notreg w_regd cur_pc W_parked W_notreg W_regd] in *;
        (destruct (Nat.eq_dec i j) as [->|Hne];
         [rewrite ?np_filter_in; intros; try lia
         |rewrite ?(np_filter_other i j _ Hne); destruct (Nat.eqb_spec i j); [congruence|]; cbn [b2n] in *; intros; fwd; try lia]).
      all: try (rewrite Nat.eqb_refl in *; cbn [b2n] in *; fwd; lia).
    + (* TFlush l (Some p) *)
      destruct (pc_step true (finished s) (shared_of s) p) as [[h c] sp] eqn:Ep.
      inversion H; subst; clear H.
      apply (pc_linv s l1 l2 (TFlush l (Some p)) p (fun c => [TFlush l c]) h c sp E eq_refl); auto.
      intros c' i; rewrite !tsum_cons, !tsum_nil; unfold w_parked, w_notreg, w_regd; cbn [cur_pc w_flush w_resp]; repeat split; lia.
    + (* TFlush l None *)
      destruct L as [L2 L3 L5 LD]. rewrite E in *.
      destruct l as [|m r]; inversion H; subst; clear H;
        constructor; cbn [with_shared shared_of trees parked reqs resps threads dropped finished sh_trees sh_parked sh_reqs sh_dropped]; auto;
        intros j; specialize (L2 j); specialize (L3 j); specialize (L5 j);
        tsh L2; tsh L3; tsh L5; ts;
        cbn [w_flush w_resp w_parked w_notreg w_regd cur_pc W_parked W_notreg W_regd] in *; intros; fwd; lia.
  - (* PeerAnswer *)
    destruct (remove1n i (reqs s)) as [r'|] eqn:E; [|discriminate]. inversion H; subst; clear H.
    destruct L as [L2 L3 L5 LD]. constructor; cbn [trees parked reqs resps threads dropped finished]; auto.
    intros j Hj. specialize (L3 j Hj). rewrite (remove1n_cn _ _ _ j E) in L3. rewrite cn_cons. lia.
  - (* RecvResp *)
    destruct (remove1n i (resps s)) as [r'|] eqn:E; [|discriminate]. inversion H; subst; clear H.
    destruct L as [L2 L3 L5 LD]. constructor; cbn [trees parked reqs resps threads dropped finished]; auto;
      intros j; specialize (L2 j); specialize (L3 j); specialize (L5 j); rewrite !tsum_cons;
      cbn [w_flush w_resp w_parked w_notreg w_regd cur_pc W_parked W_notreg W_regd]; intros; fwd; try lia.
    rewrite (remove1n_cn _ _ _ j E) in L3. lia.
  - (* LocalTree *)
    inversion H; subst; clear H.
    destruct L as [L2 L3 L5 LD]. constructor; cbn [trees parked reqs resps threads dropped finished]; auto;
      intros j; specialize (L2 j); specialize (L3 j); specialize (L5 j); rewrite !tsum_cons; unfold upd;
      cbn [w_flush w_resp w_parked w_notreg w_regd cur_pc W_parked W_notreg W_regd];
      destruct (Nat.eqb_spec j i); subst; rewrite ?Nat.eqb_refl; cbn [b2n];
      try (destruct (Nat.eqb_spec i j); [congruence|]); cbn [b2n]; intros; fwd; try lia; try congruence.
  - (* Finish *)
    inversion H; subst; clear H.
    destruct L as [L2 L3 L5 LD]. constructor; cbn; auto.
Qed.

Lemma run_linv acts : forall s s', LInv s -> run true s acts = Some s' -> LInv s'.
Proof.
  induction acts as [|a r IH]; intros s s' L H; cbn in H.
  - now inversion H; subst.
  - destruct (step true s a) as [s1|] eqn:E; [|discriminate].
    apply (IH s1 s'); [eapply step_linv; eauto|exact H].
Qed.

Lemma run_uniq rc acts : forall s s', Uniq s -> run rc s acts = Some s' -> Uniq s'.
Proof.
  induction acts as [|a r IH]; intros s s' L H; cbn in H.
  - now inversion H; subst.
  - destruct (step rc s a) as [s1|] eqn:E; [|discriminate].
    apply (IH s1 s'); [eapply step_uniq; eauto|exact H].
Qed.

(* ---- statements used by Properties/C01.v --------------------------------------- *)

(* every sent message is in exactly one place *)
Lemma conservation rc acts s :
  run rc init acts = Some s ->
  forall m, cnt m (places s) = cnt m (sent s) /\ cnt m (sent s) <= 1.
Proof.
  intros H m. split.
  - apply (run_cons rc acts init s Cons_init H).
  - apply (run_uniq rc acts init s); [intros x; cbn; lia|exact H].
Qed.

(* at most once, only what was sent, to the instance named by the message's token *)
Lemma safety rc acts s m :
  run rc init acts = Some s ->
  cnt m (delivered s) + cnt m (dropped s) <= 1 /\
  (In m (delivered s) -> In m (sent s)).
Proof.
  intros H. destruct (conservation rc acts s H m) as [C U]. unfold places in C. cnh C. split; [lia|].
  intros Hin. apply cnt_in in Hin. apply cnt_in. lia.
Qed.

Lemma quiescent_spec s : quiescent s = true -> threads s = [] /\ net s = [] /\ reqs s = [] /\ resps s = [].
Proof.
  unfold quiescent. destruct (threads s), (net s), (reqs s), (resps s); try discriminate. auto.
Qed.

Lemma quiescent_nothing_parked acts s :
  run true init acts = Some s -> quiescent s = true -> parked s = [].
Proof.
  intros H Q. pose proof (run_linv acts init s LInv_init H) as [L2 L3 L5 _].
  apply quiescent_spec in Q as (Qt & Qn & Qr & Qs).
  destruct (parked s) as [|m r] eqn:Ep; [reflexivity|exfalso].
  assert (Hnp : 0 < np (mtree m) (m :: r)) by (rewrite np_cons, Nat.eqb_refl; cbn; lia).
  specialize (L2 (mtree m) Hnp). specialize (L3 (mtree m)). specialize (L5 (mtree m) Hnp).
  rewrite Qt, ?Qr, ?Qs in *. unfold tsum, cn in *. cbn in *.
  destruct (trees s (mtree m)); [specialize (L5 eq_refl)|specialize (L3 eq_refl)|specialize (L2 eq_refl)]; lia.
Qed.

(* completeness: when nothing is left to do, every sent message has been handed
   exactly once to its instance, or dropped because that instance had finished *)
Lemma complete acts s m :
  run true init acts = Some s -> quiescent s = true -> In m (sent s) ->
  parked s = [] /\
  ((cnt m (delivered s) = 1 /\ cnt m (dropped s) = 0) \/
   (cnt m (delivered s) = 0 /\ cnt m (dropped s) = 1 /\ In (mtok m) (finished s))).
Proof.
  intros H Q Hs. pose proof (quiescent_nothing_parked acts s H Q) as Hp. split; [exact Hp|].
  destruct (conservation true acts s H m) as [C U].
  pose proof (run_linv acts init s LInv_init H) as [_ _ _ LD].
  apply quiescent_spec in Q as (Qt & Qn & Qr & Qs).
  unfold places in C. rewrite Qt, Qn, Hp in C. cnh C.
  apply cnt_in in Hs.
  destruct (cnt m (dropped s)) as [|d] eqn:Ed.
  - left. lia.
  - right. assert (In m (dropped s)) by (apply cnt_in; lia). repeat split; try lia. now apply LD.
Qed.

Lemma complete_unfinished acts s m :
  run true init acts = Some s -> quiescent s = true -> In m (sent s) -> ~ In (mtok m) (finished s) ->
  cnt m (delivered s) = 1.
Proof.
  intros H Q Hs Hf. destruct (complete acts s m H Q Hs) as [_ [[H1 _]|(_ & _ & H3)]]; [exact H1|contradiction].
Qed.

(* F01: without the re-check a message is parked for ever although the tree arrived *)
Definition w1 : msg := (1, (7, 0)).
Definition w2 : msg := (2, (7, 0)).
Definition stranding_schedule : list action :=
  [Send w1; Send w2; Recv w1; Step 0;                      (* thread A: lookup misses, stalls before parking *)
   Recv w2; Step 0; Step 0; Step 0; Step 0; Step 0;        (* thread B: miss, park, register, request *)
   PeerAnswer 0; RecvResp 0; Step 0;                       (* the tree arrives and is stored *)
   Step 0; Step 0; Step 0; Step 0; Step 0;                 (* the flush delivers w2 *)
   Step 0; Step 0].                                        (* A parks w1, finds the id registered, returns *)

Lemma stranded_refuted :
  exists s, run false init stranding_schedule = Some s /\ quiescent s = true /\
            parked s = [w1] /\ trees s (mtree w1) = TPresent /\ delivered s = [w2] /\
            ~ In (mtok w1) (finished s).
Proof. eexists. split; [vm_compute; reflexivity|]. repeat split. cbn. tauto. Qed.

Lemma stranded_repaired :
  exists s, run true init (stranding_schedule ++ [Step 0; Step 0; Step 0; Step 0; Step 0]) = Some s /\
            quiescent s = true /\ parked s = [] /\ delivered s = [w2; w1].
Proof. eexists. split; [vm_compute; reflexivity|]. repeat split. Qed.

(* non-vacuity: a reachable quiescent state with two runs' messages delivered *)
Example complete_example :
  exists s, run true init (stranding_schedule ++ [Step 0; Step 0; Step 0; Step 0; Step 0]) = Some s /\
            quiescent s = true /\ In w1 (sent s) /\ ~ In (mtok w1) (finished s).
Proof. eexists. split; [vm_compute; reflexivity|]. repeat split; cbn; tauto. Qed.
