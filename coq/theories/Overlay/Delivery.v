(* C01 -- delivery of protocol messages on a receiving server that may not know
   the tree yet: overlay.go TransmitMsg / requestTree / savePendingMsg /
   handleSendTree / RegisterTree / checkPendingMessages as a transition system.
   One action = one critical section of the Go code (the verif schedule points
   overlay.treeMiss, overlay.parked, overlay.notRegistered, overlay.registered,
   overlay.treeSet, overlay.flushStart, overlay.flushTaken delimit them).

   A message is (id, destination token, tree id). The network towards the
   server is a bag (any message in transit may arrive next: a superset of the
   behaviours of FIFO links). Peers answer tree requests (the sender of a
   message runs an instance on that tree, so it has it).

   fix flag [recheck]: after parking, a thread that finds the tree id already
   registered starts a flush when the tree is in fact present (repair of F01). *)
From Coq Require Import List Arith Bool Lia.
Import ListNotations.

Definition msg := (nat * (nat * nat))%type.           (* id, token, tree *)
Definition mid (m : msg) : nat := fst m.
Definition mtok (m : msg) : nat := fst (snd m).
Definition mtree (m : msg) : nat := snd (snd m).

Definition msg_eqb (a b : msg) : bool :=
  (mid a =? mid b) && (mtok a =? mtok b) && (mtree a =? mtree b).

Inductive tstate := TAbsent | TRequested | TPresent.

(* program counter of one TransmitMsg call *)
Inductive pc :=
| PLookup (m : msg)       (* entered, before getAndRefresh *)
| PHit (m : msg)          (* tree found, before the transmit section *)
| PMiss (m : msg)         (* tree missing, before savePendingMsg *)
| PParked (m : msg)       (* parked, before the IsRegistered test *)
| PNotReg (m : msg)       (* test said "not registered", before Register *)
| PRegd (m : msg).        (* registered, before the request is sent *)

Inductive thread :=
| TMsg (p : pc)                               (* connection goroutine / local sender handling one message *)
| TResp (i : nat)                             (* handleSendTree for tree i, before the registered test *)
| TFlushStart (i : nat)                       (* flush goroutine started, before taking the parked messages *)
| TFlush (l : list msg) (cur : option pc).    (* flush goroutine: messages still to transmit, current call *)

Record st := mkSt {
  trees : nat -> tstate;
  parked : list msg;
  delivered : list msg;          (* handed to the instance named by the message's token *)
  dropped : list msg;            (* dropped because that instance has finished *)
  finished : list nat;           (* tokens whose instance is done *)
  threads : list thread;
  net : list msg;                (* protocol messages in transit to this server *)
  reqs : list nat;               (* tree requests sent, not yet answered *)
  resps : list nat;              (* tree responses in transit to this server *)
  sent : list msg }.             (* history: everything ever sent to this server *)

Definition upd {A} (f : nat -> A) (k : nat) (v : A) : nat -> A :=
  fun x => if x =? k then v else f x.

Definition init : st :=
  mkSt (fun _ => TAbsent) [] [] [] [] [] [] [] [] [].

Definition mem_nat (k : nat) (l : list nat) : bool := existsb (Nat.eqb k) l.

Fixpoint remove1 (m : msg) (l : list msg) : option (list msg) :=
  match l with
  | [] => None
  | x :: r => if msg_eqb x m then Some r
              else match remove1 m r with Some r' => Some (x :: r') | None => None end
  end.

Fixpoint remove1n (k : nat) (l : list nat) : option (list nat) :=
  match l with
  | [] => None
  | x :: r => if x =? k then Some r
              else match remove1n k r with Some r' => Some (x :: r') | None => None end
  end.

(* split a list at position k *)
Fixpoint pick {A} (k : nat) (l : list A) : option (list A * A * list A) :=
  match l, k with
  | [], _ => None
  | x :: r, 0 => Some ([], x, r)
  | x :: r, S j => match pick j r with
                   | Some (a, y, b) => Some (x :: a, y, b)
                   | None => None
                   end
  end.

(* the shared part of the state a TransmitMsg step may change *)
Record shared := mkSh {
  sh_trees : nat -> tstate; sh_parked : list msg; sh_delivered : list msg;
  sh_dropped : list msg; sh_reqs : list nat }.

(* one step of a TransmitMsg call: new shared state, continuation, spawned threads *)
Definition pc_step (recheck : bool) (fin : list nat) (h : shared) (p : pc)
  : shared * option pc * list thread :=
  match p with
  | PLookup m =>
      match sh_trees h (mtree m) with
      | TPresent => (h, Some (PHit m), [])
      | _ => (h, Some (PMiss m), [])
      end
  | PHit m =>
      if mem_nat (mtok m) fin
      then (mkSh (sh_trees h) (sh_parked h) (sh_delivered h) (m :: sh_dropped h) (sh_reqs h), None, [])
      else (mkSh (sh_trees h) (sh_parked h) (sh_delivered h ++ [m]) (sh_dropped h) (sh_reqs h), None, [])
  | PMiss m =>
      (mkSh (sh_trees h) (sh_parked h ++ [m]) (sh_delivered h) (sh_dropped h) (sh_reqs h), Some (PParked m), [])
  | PParked m =>
      match sh_trees h (mtree m) with
      | TAbsent => (h, Some (PNotReg m), [])
      | TRequested => (h, None, [])                       (* "request already sent" *)
      | TPresent => (h, None, if recheck then [TFlushStart (mtree m)] else [])
      end
  | PNotReg m =>
      (* Register (never overwrites a stored tree: repair F13 is in the code) *)
      let t := match sh_trees h (mtree m) with
               | TAbsent => upd (sh_trees h) (mtree m) TRequested
               | _ => sh_trees h
               end in
      (mkSh t (sh_parked h) (sh_delivered h) (sh_dropped h) (sh_reqs h), Some (PRegd m), [])
  | PRegd m =>
      (mkSh (sh_trees h) (sh_parked h) (sh_delivered h) (sh_dropped h) (mtree m :: sh_reqs h), None, [])
  end.

Inductive action :=
| Send (m : msg)            (* a peer instance sends m towards this server *)
| Recv (m : msg)            (* a connection goroutine picks m up: TransmitMsg starts *)
| Step (k : nat)            (* thread k performs its next atomic step *)
| PeerAnswer (i : nat)      (* the peer answers a tree request *)
| RecvResp (i : nat)        (* a connection goroutine picks up a tree response *)
| LocalTree (i : nat)       (* a local service registers tree i (RegisterTree) *)
| Finish (t : nat).         (* the instance with token t declares itself done *)

Definition shared_of (s : st) : shared :=
  mkSh (trees s) (parked s) (delivered s) (dropped s) (reqs s).

Definition with_shared (s : st) (h : shared) (ths : list thread) : st :=
  mkSt (sh_trees h) (sh_parked h) (sh_delivered h) (sh_dropped h) (finished s) ths
       (net s) (sh_reqs h) (resps s) (sent s).

Definition step (recheck : bool) (s : st) (a : action) : option st :=
  match a with
  | Send m =>
      if existsb (fun x => mid x =? mid m) (sent s) then None     (* message ids are unique *)
      else Some (mkSt (trees s) (parked s) (delivered s) (dropped s) (finished s) (threads s)
                      (m :: net s) (reqs s) (resps s) (m :: sent s))
  | Recv m =>
      match remove1 m (net s) with
      | None => None
      | Some n' => Some (mkSt (trees s) (parked s) (delivered s) (dropped s) (finished s)
                              (TMsg (PLookup m) :: threads s) n' (reqs s) (resps s) (sent s))
      end
  | PeerAnswer i =>
      match remove1n i (reqs s) with
      | None => None
      | Some r' => Some (mkSt (trees s) (parked s) (delivered s) (dropped s) (finished s) (threads s)
                              (net s) r' (i :: resps s) (sent s))
      end
  | RecvResp i =>
      match remove1n i (resps s) with
      | None => None
      | Some r' => Some (mkSt (trees s) (parked s) (delivered s) (dropped s) (finished s)
                              (TResp i :: threads s) (net s) (reqs s) r' (sent s))
      end
  | LocalTree i =>
      Some (mkSt (upd (trees s) i TPresent) (parked s) (delivered s) (dropped s) (finished s)
                 (TFlushStart i :: threads s) (net s) (reqs s) (resps s) (sent s))
  | Finish t =>
      Some (mkSt (trees s) (parked s) (delivered s) (dropped s) (t :: finished s) (threads s)
                 (net s) (reqs s) (resps s) (sent s))
  | Step k =>
      match pick k (threads s) with
      | None => None
      | Some (l1, t, l2) =>
          match t with
          | TMsg p =>
              let '(h, c, sp) := pc_step recheck (finished s) (shared_of s) p in
              Some (with_shared s h (l1 ++ match c with Some p' => [TMsg p'] | None => [] end ++ sp ++ l2))
          | TResp i =>
              match trees s i with
              | TRequested =>
                  Some (mkSt (upd (trees s) i TPresent) (parked s) (delivered s) (dropped s) (finished s)
                             (l1 ++ TFlushStart i :: l2) (net s) (reqs s) (resps s) (sent s))
              | _ => Some (with_shared s (shared_of s) (l1 ++ l2))      (* "ignoring tree that is not awaited" *)
              end
          | TFlushStart i =>
              let mine := filter (fun m => mtree m =? i) (parked s) in
              let rest := filter (fun m => negb (mtree m =? i)) (parked s) in
              Some (mkSt (trees s) rest (delivered s) (dropped s) (finished s)
                         (l1 ++ TFlush mine None :: l2) (net s) (reqs s) (resps s) (sent s))
          | TFlush l None =>
              match l with
              | [] => Some (with_shared s (shared_of s) (l1 ++ l2))
              | m :: r => Some (with_shared s (shared_of s) (l1 ++ TFlush r (Some (PLookup m)) :: l2))
              end
          | TFlush l (Some p) =>
              let '(h, c, sp) := pc_step recheck (finished s) (shared_of s) p in
              Some (with_shared s h (l1 ++ TFlush l c :: sp ++ l2))
          end
      end
  end.

Fixpoint run (recheck : bool) (s : st) (acts : list action) : option st :=
  match acts with
  | [] => Some s
  | a :: r => match step recheck s a with None => None | Some s' => run recheck s' r end
  end.

(* nothing left to do: no thread, nothing in transit *)
Definition quiescent (s : st) : bool :=
  match threads s, net s, reqs s, resps s with
  | [], [], [], [] => true
  | _, _, _, _ => false
  end.
