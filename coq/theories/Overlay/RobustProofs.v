(* C07 proofs about Overlay/Robust.v.

   Part 1  basic facts (association lists, mutex lists)
   Part 2  every procedure of every variant with F26 and F72 (the current code included)
           returns, with the same mutexes held as on entry, keeps every stored tree,
           finishes no run of the registered protocol it is not allowed to, keeps "every
           listed instance has its tree", and only emits disciplined accesses ([ext])
   Part 3  step / trace theorems: no crash, no leaked mutex, lock discipline, stored
           trees and unfinished legitimate tokens are preserved by peer histories
   Part 4  the next legitimate operation is served (after any history)
   Part 5  refutation witnesses for the unrepaired variants *)
From Coq Require Import List Arith Bool Lia.
Import ListNotations.
From Onet Require Import Overlay.Robust.

(* ---- Part 1 ---------------------------------------------------------------------- *)

Lemma lookup_update : forall l i j e,
  lookup j (update i e l) = if i =? j then Some e else lookup j l.
Proof.
  induction l as [|[k x] r IH]; intros i j e; cbn [update lookup].
  - rewrite Nat.eqb_sym. reflexivity.
  - destruct (k =? i) eqn:Eki; cbn [lookup].
    + apply Nat.eqb_eq in Eki; subst k.
      destruct (i =? j) eqn:Eij; reflexivity.
    + rewrite IH. destruct (k =? j) eqn:Ekj; [|reflexivity].
      apply Nat.eqb_eq in Ekj; subst k. rewrite Nat.eqb_sym in Eki. rewrite Eki. reflexivity.
Qed.

Lemma lookup_delete : forall l i j,
  lookup j (delete i l) = if i =? j then None else lookup j l.
Proof.
  induction l as [|[k x] r IH]; intros i j; cbn [delete filter lookup fst].
  - destruct (i =? j); reflexivity.
  - fold (delete i r). destruct (k =? i) eqn:Eki; cbn [negb lookup].
    + rewrite IH. apply Nat.eqb_eq in Eki; subst k. destruct (i =? j); reflexivity.
    + rewrite IH. destruct (k =? j) eqn:Ekj; [|reflexivity].
      apply Nat.eqb_eq in Ekj; subst k. rewrite Nat.eqb_sym in Eki. rewrite Eki. reflexivity.
Qed.

Lemma lk_eqb_refl : forall l, lk_eqb l l = true.
Proof. destruct l; reflexivity. Qed.

Lemma lk_eqb_eq : forall a b, lk_eqb a b = true <-> a = b.
Proof. destruct a, b; cbn; split; intros H; try reflexivity; try discriminate. Qed.

Lemma remove_lk_notin : forall l H, mem_lk l H = false -> remove_lk l H = H.
Proof.
  induction H as [|x r IH]; intros Hn; [reflexivity|].
  cbn [mem_lk existsb] in Hn. apply orb_false_iff in Hn as [Hx Hr].
  cbn [remove_lk filter]. rewrite Hx. cbn [negb]. f_equal. apply IH, Hr.
Qed.

Lemma remove_lk_head : forall l H, mem_lk l H = false -> remove_lk l (l :: H) = H.
Proof.
  intros l H Hn. cbn [remove_lk filter]. rewrite lk_eqb_refl. cbn [negb].
  apply remove_lk_notin, Hn.
Qed.

Lemma tok_eqb_refl : forall k, tok_eqb k k = true.
Proof. intros k. unfold tok_eqb. rewrite !Nat.eqb_refl. reflexivity. Qed.

Lemma tok_eqb_eq : forall a b, tok_eqb a b = true <-> a = b.
Proof.
  intros [a1 a2 a3 a4 a5 a6] [b1 b2 b3 b4 b5 b6]. unfold tok_eqb. cbn.
  rewrite !andb_true_iff, !Nat.eqb_eq. split.
  - intros [[[[[-> ->] ->] ->] ->] ->]. reflexivity.
  - intros E; inversion E; auto 10.
Qed.

Lemma mem_tok_In : forall k l, mem_tok k l = true <-> In k l.
Proof.
  intros k l. unfold mem_tok. rewrite existsb_exists. split.
  - intros (x & Hx & E). apply tok_eqb_eq in E. now subst.
  - intros H. exists k. split; [assumption|apply tok_eqb_refl].
Qed.

Lemma In_remove_tok : forall k x l, In x (remove_tok k l) -> In x l.
Proof. intros k x l H. unfold remove_tok in H. apply filter_In in H. tauto. Qed.

(* ---- Part 2: the repaired procedures ------------------------------------------------- *)

(* every listed instance has its tree in the store: TreeNodeInstance.Tree() cannot panic *)
(* every tree is stored under its own id (treeStorage.Set keys by tree.ID) *)
Definition keys_ok (s : ostate) : Prop :=
  forall id t, lookup id (store s) = Some (Have t) -> t_id t = id.

Definition insts_have (s : ostate) : Prop :=
  (forall k, In k (insts s) -> exists t, lookup (tk_tree k) (store s) = Some (Have t)) /\ keys_ok s.

(* what a procedure may change: the content of the trees with these ids, and which tokens
   of the registered protocol it may mark finished *)
Record perm := mkPerm { p_tree : nat -> Prop; p_fin : token -> Prop }.

(* [ext X m m']: what a procedure may do to the goroutine's state. Stored trees
   are kept; only ids in X may change their content. *)
Record ext (X : perm) (m m' : mst) : Prop := mkExt {
  ext_held : held m' = held m;
  ext_leaked : leaked (os m') = leaked (os m);
  ext_haves : forall id t, lookup id (store (os m)) = Some (Have t) ->
                           exists t', lookup id (store (os m')) = Some (Have t');
  ext_keeps : forall id t, ~ p_tree X id -> lookup id (store (os m)) = Some (Have t) ->
                           lookup id (store (os m')) = Some (Have t);
  ext_fin : forall k, proto_known (tk_proto k) = true -> In k (finished (os m')) ->
                      In k (finished (os m)) \/ p_fin X k;
  ext_insts : insts_have (os m) -> insts_have (os m');
  ext_disc : disciplined (evs m) = true -> disciplined (evs m') = true;
  ext_evs : forall e, In e (evs m) -> In e (evs m') }.

Definition noX : perm := mkPerm (fun _ => False) (fun _ => False).

Lemma ext_refl : forall X m, ext X m m.
Proof. intros X m. constructor; eauto. Qed.

Lemma ext_trans : forall X a b c, ext X a b -> ext X b c -> ext X a c.
Proof.
  intros X a b c [h1 l1 v1 k1 f1 i1 d1 e1] [h2 l2 v2 k2 f2 i2 d2 e2]. constructor.
  - congruence.
  - congruence.
  - intros id t H. destruct (v1 _ _ H) as (t' & H'). eauto.
  - intros id t Hx H. eauto.
  - intros k Hp H. destruct (f2 k Hp H) as [H'|H']; auto.
  - auto.
  - auto.
  - auto.
Qed.

Lemma ext_weaken : forall (X : perm) m m', ext noX m m' -> ext X m m'.
Proof.
  intros X m m' [h l v k f i d e]. constructor; auto.
  all: try (intros id t _ H; apply k; [intros C; exact C|exact H]).
  all: try (intros k0 Hp H; destruct (f k0 Hp H) as [H'|H']; [left; exact H'|destruct H']).
Qed.

(* a command that returns, as seen from a state with nothing leaked *)
Definition returns {A} (X : perm) (c : M A) (m : mst) (Q : A -> mst -> Prop) : Prop :=
  exists a m', c m = Ret a m' /\ ext X m m' /\ Q a m'.

Definition clean (m : mst) : Prop := leaked (os m) = [].

Lemma clean_ext : forall X m m', clean m -> ext X m m' -> clean m'.
Proof. intros X m m' C E. unfold clean. rewrite (ext_leaked _ _ _ E). exact C. Qed.

Lemma bind_returns : forall A B X (c : M A) (f : A -> M B) m Q R,
  returns X c m Q ->
  (forall a m', ext X m m' -> Q a m' -> returns X (f a) m' R) ->
  returns X (bind c f) m R.
Proof.
  intros A B X c f m Q R (a & m1 & E1 & X1 & Q1) Hf.
  destruct (Hf a m1 X1 Q1) as (b & m2 & E2 & X2 & R2).
  exists b, m2. split; [|split].
  - unfold bind. rewrite E1. exact E2.
  - eapply ext_trans; eassumption.
  - exact R2.
Qed.

(* the tree store's methods *)
Lemma with_store_eq : forall A (f : ostate -> (A * ostate) + crash) m a s',
  clean m -> mem_lk LStore (held m) = false -> f (os m) = inl (a, s') ->
  with_store f m = Ret a (mkM s' (held m) (EAccess TStore (LStore :: held m) :: evs m)).
Proof.
  intros A f [s H ev] a s' C Hn Ef. unfold clean in C. cbn [os held evs] in *.
  unfold with_store, bind, acquire, access, get, modify, release, ret. cbn [os held evs].
  rewrite C, Hn. cbn [mem_lk existsb orb os held evs]. rewrite Ef. cbn [os held evs].
  rewrite remove_lk_head by exact Hn. reflexivity.
Qed.

(* a store method whose function keeps stored trees, instances and [leaked] *)
Definition store_fun_ok (X : perm) (s s' : ostate) : Prop :=
  leaked s' = leaked s /\ insts s' = insts s /\ finished s' = finished s /\ (keys_ok s -> keys_ok s') /\
  (forall id t, lookup id (store s) = Some (Have t) -> exists t', lookup id (store s') = Some (Have t')) /\
  (forall id t, ~ p_tree X id -> lookup id (store s) = Some (Have t) -> lookup id (store s') = Some (Have t)).

Lemma with_store_returns : forall A X (f : ostate -> (A * ostate) + crash) m a s',
  clean m -> mem_lk LStore (held m) = false -> f (os m) = inl (a, s') -> store_fun_ok X (os m) s' ->
  returns X (with_store f) m (fun r m' => r = a /\ os m' = s').
Proof.
  intros A X f m a s' C Hn Ef (Hl & Hi & Hf & Hky & Hv & Hk).
  exists a, (mkM s' (held m) (EAccess TStore (LStore :: held m) :: evs m)).
  split; [apply with_store_eq; assumption|]. split; [|split; reflexivity].
  constructor; cbn [os held evs].
  - reflexivity.
  - exact Hl.
  - exact Hv.
  - exact Hk.
  - intros k _ H. left. rewrite Hf in H. exact H.
  - intros (IH & IK). split; [|apply Hky, IK]. intros k Hk'. rewrite Hi in Hk'. destruct (IH k Hk') as (t & Ht).
    destruct (Hv _ _ Ht) as (t' & Ht'). eauto.
  - intros D. cbn [disciplined forallb access_ok owner mem_lk existsb]. rewrite lk_eqb_refl. exact D.
  - intros e He. right. exact He.
Qed.

Lemma sfo_same : forall X s, store_fun_ok X s s.
Proof. intros X s. repeat split; eauto. Qed.

Lemma sfo_removal : forall X s v, store_fun_ok X s (set_removal s v).
Proof. intros X s v. repeat split; cbn; eauto. Qed.

Lemma sfo_update_nohave : forall X s id a,
  (forall t, lookup id (store s) <> Some (Have t)) ->
  store_fun_ok X s (set_store s (update id (Req a) (store s))).
Proof.
  intros X s id a Hno. repeat split; cbn [set_store leaked insts finished store].
  - intros K j t Hj. cbn [set_store store] in Hj. rewrite lookup_update in Hj. destruct (id =? j); [discriminate|]. apply K, Hj.
  - intros j t Hj. rewrite lookup_update. destruct (id =? j) eqn:E.
    + apply Nat.eqb_eq in E; subst j. exfalso. eapply Hno, Hj.
    + eauto.
  - intros j t _ Hj. rewrite lookup_update. destruct (id =? j) eqn:E.
    + apply Nat.eqb_eq in E; subst j. exfalso. eapply Hno, Hj.
    + exact Hj.
Qed.

Lemma sfo_delete_nohave : forall X s id,
  (forall t, lookup id (store s) <> Some (Have t)) ->
  store_fun_ok X s (set_store s (delete id (store s))).
Proof.
  intros X s id Hno. repeat split; cbn [set_store leaked insts finished store].
  - intros K j t Hj. cbn [set_store store] in Hj. rewrite lookup_delete in Hj. destruct (id =? j); [discriminate|]. apply K, Hj.
  - intros j t Hj. rewrite lookup_delete. destruct (id =? j) eqn:E.
    + apply Nat.eqb_eq in E; subst j. exfalso. eapply Hno, Hj.
    + eauto.
  - intros j t _ Hj. rewrite lookup_delete. destruct (id =? j) eqn:E.
    + apply Nat.eqb_eq in E; subst j. exfalso. eapply Hno, Hj.
    + exact Hj.
Qed.

(* Set: a tree nobody has, a tree a service may replace, or the very tree that is stored *)
Lemma sfo_put_tree : forall (X : perm) s t,
  (p_tree X (t_id t) \/ (forall t0, lookup (t_id t) (store s) <> Some (Have t0)) \/
   lookup (t_id t) (store s) = Some (Have t)) ->
  store_fun_ok X s (put_tree t s).
Proof.
  intros X s t Hx. unfold put_tree. repeat split; cbn [set_store set_removal leaked insts finished store].
  - intros K j t0 Hj. cbn [set_store set_removal store] in Hj. rewrite lookup_update in Hj. destruct (t_id t =? j) eqn:E.
    + inversion Hj; subst t0. apply Nat.eqb_eq, E.
    + apply K, Hj.
  - intros j t0 Hj. rewrite lookup_update. destruct (t_id t =? j) eqn:E; eauto.
  - intros j t0 Hnx Hj. rewrite lookup_update. destruct (t_id t =? j) eqn:E; [|exact Hj].
    apply Nat.eqb_eq in E; subst j. destruct Hx as [Hx|[Hx|Hx]]; [contradiction| |congruence].
    exfalso. eapply Hx, Hj.
Qed.

Section Repaired.
Variable X : perm.

Ltac store_op :=
  match goal with
  | |- returns _ (with_store ?f) ?m _ => idtac
  end.

Lemma st_lookup_returns : forall id m,
  clean m -> mem_lk LStore (held m) = false ->
  returns X (st_lookup id) m (fun r m' => r = lookup id (store (os m)) /\ os m' = os m).
Proof.
  intros id m C Hn. unfold st_lookup.
  eapply with_store_returns; [assumption|assumption|reflexivity|apply sfo_same].
Qed.

Lemma st_get_refresh_returns : forall id m,
  clean m -> mem_lk LStore (held m) = false ->
  returns X (st_get_refresh id) m
          (fun r m' => r = lookup id (store (os m)) /\ os m' = set_removal (os m) (remove_nat id (removal (os m)))).
Proof.
  intros id m C Hn. unfold st_get_refresh.
  eapply with_store_returns; [assumption|assumption|reflexivity|apply sfo_removal].
Qed.

Lemma st_register_returns : forall id m,
  clean m -> mem_lk LStore (held m) = false ->
  returns X (st_register id) m (fun _ m' => parked (os m') = parked (os m)).
Proof.
  intros id m C Hn. unfold st_register.
  destruct (lookup id (store (os m))) eqn:E.
  - destruct (with_store_returns _ X (sf_register id) m tt (os m) C Hn) as (a & m' & H1 & H2 & _ & H3).
    + unfold sf_register. rewrite E. reflexivity.
    + apply sfo_same.
    + exists a, m'. split; [exact H1|]. split; [exact H2|]. rewrite H3. reflexivity.
  - destruct (with_store_returns _ X (sf_register id) m tt (set_store (os m) (update id (Req []) (store (os m)))) C Hn)
      as (a & m' & H1 & H2 & _ & H3).
    + unfold sf_register. rewrite E. reflexivity.
    + apply sfo_update_nohave. intros t. rewrite E. discriminate.
    + exists a, m'. split; [exact H1|]. split; [exact H2|]. rewrite H3. reflexivity.
Qed.

Lemma st_unregister_returns : forall id m,
  clean m -> mem_lk LStore (held m) = false ->
  returns X (st_unregister id) m (fun _ m' => parked (os m') = parked (os m)).
Proof.
  intros id m C Hn. unfold st_unregister.
  destruct (lookup id (store (os m))) as [[asked|t]|] eqn:E.
  - destruct (with_store_returns _ X (sf_unregister id) m tt (set_store (os m) (delete id (store (os m)))) C Hn)
      as (a & m' & H1 & H2 & _ & H3).
    + unfold sf_unregister. rewrite E. reflexivity.
    + apply sfo_delete_nohave. intros t. rewrite E. discriminate.
    + exists a, m'. split; [exact H1|]. split; [exact H2|]. rewrite H3. reflexivity.
  - destruct (with_store_returns _ X (sf_unregister id) m tt (os m) C Hn) as (a & m' & H1 & H2 & _ & H3).
    + unfold sf_unregister. rewrite E. reflexivity.
    + apply sfo_same.
    + exists a, m'. split; [exact H1|]. split; [exact H2|]. rewrite H3. reflexivity.
  - destruct (with_store_returns _ X (sf_unregister id) m tt (os m) C Hn) as (a & m' & H1 & H2 & _ & H3).
    + unfold sf_unregister. rewrite E. reflexivity.
    + apply sfo_same.
    + exists a, m'. split; [exact H1|]. split; [exact H2|]. rewrite H3. reflexivity.
Qed.

Lemma st_note_asked_returns : forall id p add m,
  clean m -> mem_lk LStore (held m) = false ->
  returns X (st_note_asked id p add) m (fun _ _ => True).
Proof.
  intros id p add m C Hn. unfold st_note_asked.
  destruct (lookup id (store (os m))) as [[asked|t]|] eqn:E.
  - destruct (with_store_returns _ X (sf_note_asked id p add) m tt
               (set_store (os m) (update id (Req (if add then p :: asked else remove_nat p asked)) (store (os m)))) C Hn)
      as (a & m' & H1 & H2 & _).
    + unfold sf_note_asked. rewrite E. reflexivity.
    + apply sfo_update_nohave. intros t. rewrite E. discriminate.
    + exists a, m'. auto.
  - destruct (with_store_returns _ X (sf_note_asked id p add) m tt (os m) C Hn) as (a & m' & H1 & H2 & _).
    + unfold sf_note_asked. rewrite E. reflexivity.
    + apply sfo_same.
    + exists a, m'. auto.
  - destruct (with_store_returns _ X (sf_note_asked id p add) m tt (os m) C Hn) as (a & m' & H1 & H2 & _).
    + unfold sf_note_asked. rewrite E. reflexivity.
    + apply sfo_same.
    + exists a, m'. auto.
Qed.

Lemma st_remove_returns : forall id m,
  clean m -> mem_lk LStore (held m) = false ->
  returns X (st_remove id) m (fun _ m' => insts (os m') = insts (os m) /\ finished (os m') = finished (os m)).
Proof.
  intros id m C Hn. unfold st_remove.
  destruct (with_store_returns _ X (sf_remove id) m tt
             (if mem_nat id (removal (os m)) then os m else set_removal (os m) (id :: removal (os m))) C Hn)
    as (a & m' & H1 & H2 & _ & H3).
  - reflexivity.
  - destruct (mem_nat id (removal (os m))); [apply sfo_same|apply sfo_removal].
  - exists a, m'. split; [exact H1|]. split; [exact H2|]. rewrite H3.
    destruct (mem_nat id (removal (os m))); split; reflexivity.
Qed.

Lemma st_get_roster_returns : forall rid nf m,
  clean m -> mem_lk LStore (held m) = false ->
  returns X (st_get_roster all_fixed rid nf) m (fun _ m' => os m' = os m).
Proof.
  intros rid nf m C Hn. unfold st_get_roster.
  edestruct (with_store_returns _ X (sf_get_roster all_fixed rid nf) m) as (a & m' & H1 & H2 & _ & H3);
    [exact C|exact Hn|reflexivity|apply sfo_same|].
  exists a, m'. auto.
Qed.

End Repaired.

(* ---- primitives ------------------------------------------------------------------------ *)

Definition hfree {A} (Q : A -> mst -> Prop) : Prop :=
  forall a m H, Q a m -> Q a (mkM (os m) H (evs m)).

Lemma returns_weaken : forall A X (c : M A) m (Q R : A -> mst -> Prop),
  returns X c m Q -> (forall a m', ext X m m' -> Q a m' -> R a m') -> returns X c m R.
Proof. intros A X c m Q R (a & m' & E & Hx & Hq) H. exists a, m'. auto. Qed.

Lemma ret_returns : forall A X (a : A) m, returns X (ret a) m (fun r m' => r = a /\ m' = m).
Proof. intros. exists a, m. split; [reflexivity|]. split; [apply ext_refl|auto]. Qed.

Lemma get_returns : forall X m, returns X get m (fun r m' => r = os m /\ m' = m).
Proof. intros. exists (os m), m. split; [reflexivity|]. split; [apply ext_refl|auto]. Qed.

(* a change of the tables that leaves the store alone, only lists instances whose tree is
   stored, and only marks finished what the procedure may (or tokens of unknown protocols) *)
Definition frame_ok (X : perm) (s s' : ostate) : Prop :=
  leaked s' = leaked s /\ store s' = store s /\
  (forall k, In k (insts s') -> In k (insts s) \/ exists t, lookup (tk_tree k) (store s) = Some (Have t)) /\
  (forall k, proto_known (tk_proto k) = true -> In k (finished s') -> In k (finished s) \/ p_fin X k).

Lemma modify_returns : forall X f m,
  frame_ok X (os m) (f (os m)) ->
  returns X (modify f) m (fun _ m' => os m' = f (os m) /\ evs m' = evs m).
Proof.
  intros X f m (Hl & Hs & Hi & Hf). exists tt, (mkM (f (os m)) (held m) (evs m)).
  split; [reflexivity|]. split; [|split; reflexivity].
  constructor; cbn [os held evs]; auto.
  - rewrite Hs. eauto.
  - rewrite Hs. auto.
  - intros (IH & IK). split.
    + intros k Hk. rewrite Hs. destruct (Hi k Hk) as [H|H]; auto.
    + unfold keys_ok. rewrite Hs. exact IK.
Qed.

Lemma emit_returns : forall X e m,
  access_ok e = true ->
  returns X (emit e) m (fun _ m' => os m' = os m /\ evs m' = e :: evs m).
Proof.
  intros X e m He. exists tt, (mkM (os m) (held m) (e :: evs m)).
  split; [reflexivity|]. split; [|split; reflexivity].
  constructor; cbn [os held evs]; eauto.
  - intros D. cbn [disciplined forallb]. rewrite He. exact D.
  - intros e' H. right. exact H.
Qed.

(* an access is disciplined when the owning mutex is held *)
Lemma access_returns : forall X t m,
  mem_lk (owner t) (held m) = true ->
  returns X (access t) m (fun _ m' => os m' = os m).
Proof.
  intros X t m Ho. exists tt, (mkM (os m) (held m) (EAccess t (held m) :: evs m)).
  split; [reflexivity|]. split; [|reflexivity].
  constructor; cbn [os held evs]; eauto.
  - intros D. cbn [disciplined forallb access_ok]. rewrite Ho. exact D.
  - intros e' H. right. exact H.
Qed.

Lemma send_returns : forall X p r m,
  returns X (send p r) m (fun ok m' => ok = reachable p /\ os m' = os m /\
                                       (reachable p = true -> In (ESend p r) (evs m'))).
Proof.
  intros X p r m. unfold send. destruct (reachable p) eqn:E.
  - eapply bind_returns; [apply emit_returns; reflexivity|].
    intros [] m1 _ (Ho & He). eapply returns_weaken; [apply ret_returns|].
    intros a m' _ (-> & ->). split; [reflexivity|]. split; [exact Ho|]. intros _. rewrite He. left. reflexivity.
  - eapply returns_weaken; [apply ret_returns|]. intros a m' _ (-> & ->).
    split; [reflexivity|]. split; [reflexivity|discriminate].
Qed.

Lemma locked_returns : forall A X l (c : M A) m (Q : A -> mst -> Prop),
  clean m -> mem_lk l (held m) = false -> hfree Q ->
  returns X c (mkM (os m) (l :: held m) (evs m)) Q ->
  returns X (locked l c) m Q.
Proof.
  intros A X l c m Q C Hn HQ (a & m1 & E & [h lk v k fi i d e] & Hq).
  cbn [os held evs] in *.
  exists a, (mkM (os m1) (held m) (evs m1)). split; [|split].
  - unfold locked, bind, acquire, release, ret. unfold clean in C. rewrite C, Hn. cbn [mem_lk existsb orb].
    rewrite E. cbn [os held evs]. rewrite h. rewrite remove_lk_head by exact Hn. reflexivity.
  - constructor; cbn [os held evs]; auto.
  - apply HQ. exact Hq.
Qed.

Lemma spawn_returns : forall X (c : M unit) m (Q : unit -> mst -> Prop),
  hfree Q ->
  returns X c (mkM (os m) [] (evs m)) Q ->
  returns X (spawn c) m Q.
Proof.
  intros X c m Q HQ (a & m1 & E & [h lk v k fi i d e] & Hq). cbn [os held evs] in *.
  exists tt, (mkM (os m1) (held m) (evs m1)). split; [|split].
  - unfold spawn. rewrite E. reflexivity.
  - constructor; cbn [os held evs]; auto.
  - destruct a. apply HQ. exact Hq.
Qed.

(* loops: an invariant of the goroutine's state that [ext] steps preserve *)
Lemma miter_returns : forall A X (f : A -> M unit) (P : mst -> Prop) l m,
  P m ->
  (forall x m1, P m1 -> returns X (f x) m1 (fun _ m2 => P m2)) ->
  returns X (miter f l) m (fun _ m' => P m').
Proof.
  intros A X f P l. induction l as [|x r IH]; intros m Pm Hf; cbn [miter].
  - eapply returns_weaken; [apply ret_returns|]. intros a m' _ (_ & ->). exact Pm.
  - eapply bind_returns; [apply Hf, Pm|]. intros [] m1 _ P1. apply IH; assumption.
Qed.

(* the standing assumptions about the goroutine's state *)
Definition ready (H : list lk) (m : mst) : Prop :=
  clean m /\ held m = H /\ insts_have (os m).

Lemma ready_ext : forall X H m m', ready H m -> ext X m m' -> ready H m'.
Proof.
  intros X H m m' (C & Hh & Hi) E. split; [|split].
  - eapply clean_ext; eassumption.
  - rewrite (ext_held _ _ _ E). exact Hh.
  - apply (ext_insts _ _ _ E), Hi.
Qed.

(* ---- procedures (they do not depend on the fix flags) ---------------------------------- *)

Section Procs.
Variable X : perm.

Ltac hf := let a := fresh in let m := fresh in let H := fresh in
           intros a m H; cbn [os held evs]; tauto.

(* what it takes for the handler to be called *)
Definition deliverable (t : stree) (sender : peer) (from : option token) (b : body) (f : token) : Prop :=
  from = Some f /\ b = BPing /\ exists srv, search t (tk_node f) = Some srv /\ (srv =? sender) = true.

Lemma dispatch_returns : forall k sender from b m t,
  clean m -> mem_lk LStore (held m) = false ->
  lookup (tk_tree k) (store (os m)) = Some (Have t) ->
  returns X (dispatch k sender from b) m
          (fun _ m' => os m' = os m /\
                       forall f, deliverable t sender from b f -> In (EDeliver k (tk_node f)) (evs m')).
Proof.
  intros k sender from b m t C Hn Ht. unfold dispatch.
  destruct from as [f|].
  2:{ eapply returns_weaken; [apply ret_returns|]. intros a m' _ (_ & ->). split; [reflexivity|].
      intros f (E & _). discriminate. }
  destruct b.
  2,3: (eapply returns_weaken; [apply ret_returns|]; intros a m' _ (_ & ->); split; [reflexivity|];
        intros f' (_ & E & _); discriminate).
  eapply bind_returns; [apply st_lookup_returns; assumption|].
  intros e m1 X1 (-> & Ho). rewrite Ht.
  destruct (search t (tk_node f)) as [srv|] eqn:Es.
  - destruct (srv =? sender) eqn:Eq.
    + eapply returns_weaken; [apply emit_returns; reflexivity|].
      intros a m' _ (Ho' & He). split; [congruence|]. intros f' (E & _ & _). inversion E; subst f'.
      rewrite He. left. reflexivity.
    + eapply returns_weaken; [apply ret_returns|]. intros a m' _ (_ & ->). split; [exact Ho|].
      intros f' (E & _ & srv' & Es' & Eq'). inversion E; subst f'. congruence.
  - eapply returns_weaken; [apply ret_returns|]. intros a m' _ (_ & ->). split; [exact Ho|].
    intros f' (E & _ & srv' & Es' & _). inversion E; subst f'. congruence.
Qed.

Lemma clean_tree_storage_returns : forall k m,
  clean m -> mem_lk LStore (held m) = false -> mem_lk LInst (held m) = true ->
  returns X (clean_tree_storage k) m
          (fun _ m' => insts (os m') = insts (os m) /\ finished (os m') = finished (os m)).
Proof.
  intros k m C Hn Hi. unfold clean_tree_storage.
  eapply bind_returns; [apply access_returns; exact Hi|]. intros [] m1 X1 Ho1.
  eapply bind_returns; [apply get_returns|]. intros s m2 X2 (-> & ->).
  destruct (existsb (uses_tree (tk_tree k)) (insts (os m1))).
  - eapply returns_weaken; [apply ret_returns|]. intros a m' _ (_ & ->). rewrite Ho1. auto.
  - eapply returns_weaken; [apply st_remove_returns|].
    + eapply clean_ext; eassumption.
    + rewrite (ext_held _ _ _ X1). exact Hn.
    + intros a m' _ (H1 & H2). rewrite H1, H2, Ho1. auto.
Qed.

Lemma node_delete_returns : forall k m,
  clean m -> mem_lk LStore (held m) = false -> mem_lk LInst (held m) = true ->
  (p_fin X k \/ proto_known (tk_proto k) = false) ->
  returns X (node_delete k) m (fun _ m' => forall x, In x (insts (os m')) -> In x (insts (os m))).
Proof.
  intros k m C Hn Hi Hperm. unfold node_delete.
  eapply bind_returns; [apply access_returns; exact Hi|]. intros [] m1 X1 Ho1.
  eapply bind_returns; [apply get_returns|]. intros s m2 X2 (-> & ->).
  destruct (mem_tok k (insts (os m1))).
  2:{ eapply returns_weaken; [apply ret_returns|]. intros a m' _ (_ & ->). rewrite Ho1. auto. }
  eapply bind_returns.
  { apply modify_returns. repeat split; cbn [set_insts leaked store insts finished].
    - intros x Hx. left. eapply In_remove_tok, Hx.
    - intros x _ HF. left. exact HF. }
  intros [] m3 X3 (Ho3 & _).
  assert (C3 : clean m3) by (eapply clean_ext; [eapply clean_ext; eassumption|eassumption]).
  assert (H3 : held m3 = held m) by (rewrite (ext_held _ _ _ X3), (ext_held _ _ _ X1); reflexivity).
  eapply bind_returns.
  { apply clean_tree_storage_returns; [exact C3|rewrite H3; exact Hn|rewrite H3; exact Hi]. }
  intros [] m4 X4 (Hi4 & _).
  eapply bind_returns.
  { apply access_returns. rewrite (ext_held _ _ _ X4), H3. exact Hi. }
  intros [] m5 X5 Ho5.
  eapply returns_weaken.
  { apply modify_returns. repeat split; cbn [set_finished leaked store insts finished]; auto.
    intros x Hp [<-|HF]; [|left; exact HF]. destruct Hperm as [Hperm|Hperm]; [right; exact Hperm|congruence]. }
  intros a m' _ (Ho' & _) x Hx. rewrite Ho' in Hx. cbn [set_finished insts] in Hx.
  rewrite Ho5, Hi4, Ho3 in Hx. cbn [set_insts insts] in Hx. rewrite <- Ho1. eapply In_remove_tok, Hx.
Qed.

(* TransmitMsg with the tree in hand *)
Lemma deliver_hit_returns : forall pm t m,
  ready [] m -> lookup (tk_tree (p_to pm)) (store (os m)) = Some (Have t) ->
  returns X (deliver_hit pm t) m
          (fun _ m' =>
             forall f, mem_tok (p_to pm) (finished (os m)) = false ->
                       (mem_tok (p_to pm) (insts (os m)) = true \/
                        (search t (tk_node (p_to pm)) <> None /\ proto_known (tk_proto (p_to pm)) = true)) ->
                       deliverable t (p_peer pm) (p_from pm) (p_body pm) f ->
                       In (EDeliver (p_to pm) (tk_node f)) (evs m')).
Proof.
  intros pm t m (C & Hh & Hi) Ht. unfold deliver_hit. set (k := p_to pm) in *.
  apply locked_returns; [exact C|rewrite Hh; reflexivity|hf|].
  set (m0 := mkM (os m) (LTransmit :: held m) (evs m)).
  assert (C0 : clean m0) by exact C.
  assert (H0 : held m0 = [LTransmit]) by (unfold m0; cbn [held]; rewrite Hh; reflexivity).
  eapply bind_returns.
  { apply locked_returns with (Q := fun r m' => r = os m0 /\ os m' = os m0 /\ evs m' = evs m' );
      [exact C0|rewrite H0; reflexivity|hf|].
    eapply bind_returns; [apply access_returns; reflexivity|]. intros [] m1 X1 Ho1.
    eapply returns_weaken; [apply get_returns|]. intros a m' _ (-> & ->). auto. }
  intros s m1 X1 (-> & Ho1 & _). cbn [os m0].
  assert (C1 : clean m1) by (eapply clean_ext; eassumption).
  assert (H1 : held m1 = [LTransmit]) by (rewrite (ext_held _ _ _ X1); exact H0).
  assert (Ht1 : lookup (tk_tree k) (store (os m1)) = Some (Have t)) by (rewrite Ho1; exact Ht).
  destruct (mem_tok k (finished (os m))) eqn:Efin.
  { (* finished: re-arm the removal *)
    eapply returns_weaken.
    { apply locked_returns with (Q := fun _ _ => True); [exact C1|rewrite H1; reflexivity|hf|].
      eapply returns_weaken; [apply clean_tree_storage_returns|]; [exact C1|cbn [held]; rewrite H1; reflexivity
        |cbn [held]; reflexivity|auto]. }
    intros a m' _ _ f Hf. discriminate. }
  destruct (mem_tok k (insts (os m))) eqn:Elive.
  { (* a listed instance: queue the message *)
    eapply returns_weaken.
    { apply spawn_returns with (Q := fun _ m' => forall f, deliverable t (p_peer pm) (p_from pm) (p_body pm) f ->
                                                       In (EDeliver k (tk_node f)) (evs m')); [hf|].
      eapply returns_weaken; [eapply dispatch_returns with (t := t)|]; [exact C1|reflexivity|exact Ht1|].
      intros a m' _ (_ & H). exact H. }
    intros a m' _ H f _ _ Hd. apply H, Hd. }
  destruct (search t (tk_node k)) as [srvk|] eqn:Esk.
  2:{ eapply returns_weaken; [apply ret_returns|]. intros a m' _ _ f _ [E|[E _]] _; [discriminate|congruence]. }
  (* create the instance *)
  assert (Eid : t_id t = tk_tree k) by (apply (proj2 Hi), Ht).
  eapply bind_returns.
  { apply locked_returns with (Q := fun _ m' => os m' = put_tree t (set_insts (os m1) (k :: insts (os m1))));
      [exact C1|rewrite H1; reflexivity|hf|].
    eapply bind_returns; [apply access_returns; reflexivity|]. intros [] m2 X2 Ho2.
    eapply bind_returns.
    { apply modify_returns. repeat split; cbn [set_insts leaked store insts finished os].
      - intros x [<-|Hx]; [right|left; exact Hx]. rewrite Ho2. cbn [os]. eauto.
      - intros x _ HF. left. exact HF. }
    intros [] m2' X2' (Ho2' & _).
    eapply returns_weaken.
    { unfold st_set. eapply with_store_returns; [| |reflexivity|].
      - eapply clean_ext; [|exact X2']. eapply (clean_ext X (mkM (os m1) (LInst :: held m1) (evs m1))); [exact C1|exact X2].
      - rewrite (ext_held _ _ _ X2'), (ext_held _ _ _ X2). cbn [held]. rewrite H1. reflexivity.
      - apply sfo_put_tree. right. right. rewrite Ho2', Ho2. cbn [set_insts store os]. rewrite Eid. exact Ht1. }
    intros a m' _ (_ & Ho'). rewrite Ho', Ho2', Ho2. reflexivity. }
  intros [] m2 X2 Ho2.
  assert (C2 : clean m2) by (eapply clean_ext; eassumption).
  assert (H2 : held m2 = [LTransmit]) by (rewrite (ext_held _ _ _ X2); exact H1).
  eapply bind_returns.
  { apply locked_returns with (Q := fun _ m' => os m' = set_configs (os m2) (remove_tok k (configs (os m2))));
      [exact C2|rewrite H2; reflexivity|hf|].
    eapply bind_returns; [apply access_returns; reflexivity|]. intros [] m3 X3 Ho3.
    eapply returns_weaken.
    { apply modify_returns. repeat split; cbn [set_configs leaked store insts finished os]; auto. all: try (intros ? _ HF; left; exact HF). }
    intros a m' _ (Ho' & _). rewrite Ho', Ho3. reflexivity. }
  intros [] m3 X3 Ho3.
  assert (C3 : clean m3) by (eapply clean_ext; eassumption).
  assert (H3 : held m3 = [LTransmit]) by (rewrite (ext_held _ _ _ X3); exact H2).
  assert (Ht3 : lookup (tk_tree k) (store (os m3)) = Some (Have t)).
  { rewrite Ho3, Ho2. unfold put_tree. cbn [set_configs set_insts set_store set_removal store].
    rewrite lookup_update, Eid, Nat.eqb_refl. reflexivity. }
  destruct (proto_known (tk_proto k)) eqn:Epk.
  - eapply bind_returns.
    { apply locked_returns with (Q := fun _ m' => os m' = os m3); [exact C3|rewrite H3; reflexivity|hf|].
      eapply returns_weaken; [apply access_returns; reflexivity|]. intros a m' _ H. exact H. }
    intros [] m4 X4 Ho4.
    assert (C4 : clean m4) by (eapply clean_ext; eassumption).
    eapply returns_weaken.
    { apply spawn_returns with (Q := fun _ m' => forall f, deliverable t (p_peer pm) (p_from pm) (p_body pm) f ->
                                                       In (EDeliver k (tk_node f)) (evs m')); [hf|].
      eapply returns_weaken; [eapply dispatch_returns with (t := t)|].
      - exact C4.
      - reflexivity.
      - cbn [os]. rewrite Ho4. exact Ht3.
      - intros a m' _ (_ & H). exact H. }
    intros a m' _ H f _ _ Hd. apply H, Hd.
  - eapply returns_weaken.
    { apply locked_returns with (Q := fun _ _ => True); [exact C3|rewrite H3; reflexivity|hf|].
      eapply returns_weaken; [apply node_delete_returns|]; [exact C3|cbn [held]; rewrite H3; reflexivity
        |cbn [held]; reflexivity|right; exact Epk|auto]. }
    intros a m' _ _ f _ [E|[_ E]] _; discriminate.
Qed.

End Procs.

(* ---- procedures of the repaired variant --------------------------------------------------- *)

(* the input classes of the crash / leak defects, as conditions on the description and the roster *)
Definition all_keys (ro : roster) : bool := forallb m_key (ro_list ro).
Definition benign_mk (fx : fixes) (tm : tmarshal) (ro : roster) : Prop :=
  (f06 fx = true \/ tm_children tm <> []) /\ (f70 fx = true \/ all_keys ro = true).

Lemma ro_find_key : forall ro srv m, all_keys ro = true -> ro_find ro srv = Some m -> m_key m = true.
Proof.
  intros ro srv m Hk Hf. unfold ro_find in Hf. apply find_some in Hf as [Hin _].
  unfold all_keys in Hk. rewrite forallb_forall in Hk. apply Hk, Hin.
Qed.

Lemma miter_returns_in : forall A X (f : A -> M unit) (P : mst -> Prop) l m,
  P m ->
  (forall x m1, In x l -> P m1 -> returns X (f x) m1 (fun _ m2 => P m2)) ->
  returns X (miter f l) m (fun _ m' => P m').
Proof.
  intros A X f P l. induction l as [|x r IH]; intros m Pm Hf; cbn [miter].
  - eapply returns_weaken; [apply ret_returns|]. intros a m' _ (_ & ->). exact Pm.
  - eapply bind_returns; [apply Hf; [left; reflexivity|exact Pm]|]. intros [] m1 _ P1. apply IH; [exact P1|].
    intros y m2 Hy. apply Hf. right. exact Hy.
Qed.

Section Fixed71.
Variable X : perm.
Variable fx : fixes.
Hypothesis H71 : f71 fx = true.

Ltac hf := let a := fresh in let m := fresh in let H := fresh in
           intros a m H; cbn [os held evs]; tauto.

Lemma sfo_register : forall id s,
  store_fun_ok X s (match lookup id (store s) with
                    | None => set_store s (update id (Req []) (store s))
                    | Some _ => s end).
Proof.
  intros id s. destruct (lookup id (store s)) eqn:E; [apply sfo_same|].
  apply sfo_update_nohave. intros t. rewrite E. discriminate.
Qed.

Lemma sfo_note_asked : forall id p (add : bool) s,
  store_fun_ok X s (match lookup id (store s) with
                    | Some (Req asked) =>
                        set_store s (update id (Req (if add then p :: asked else remove_nat p asked)) (store s))
                    | _ => s end).
Proof.
  intros id p add s. destruct (lookup id (store s)) as [[asked|t]|] eqn:E; try apply sfo_same.
  apply sfo_update_nohave. intros t. rewrite E. discriminate.
Qed.

(* requestTree with F71: the message is parked; a peer that has not been asked for the tree is asked *)
Lemma request_tree_returns_71 : forall pm m,
  ready [] m ->
  returns X (request_tree fx pm) m
          (fun _ m' =>
             In pm (parked (os m')) /\
             (reachable (p_peer pm) = true ->
              (lookup (tk_tree (p_to pm)) (store (os m)) = None \/
               exists asked, lookup (tk_tree (p_to pm)) (store (os m)) = Some (Req asked) /\
                             mem_nat (p_peer pm) asked = false) ->
              In (ESend (p_peer pm) (RReqTree (tk_tree (p_to pm)))) (evs m') /\
              exists asked', lookup (tk_tree (p_to pm)) (store (os m')) = Some (Req asked'))).
Proof.
  intros pm m (C & Hh & Hi). unfold request_tree. set (id := tk_tree (p_to pm)). set (p := p_peer pm).
  eapply bind_returns.
  { apply locked_returns with (Q := fun _ m' => os m' = set_parked (os m) (parked (os m) ++ [pm]));
      [exact C|rewrite Hh; reflexivity|hf|].
    eapply bind_returns; [apply access_returns; reflexivity|]. intros [] m1 X1 Ho1.
    eapply returns_weaken.
    { apply modify_returns. repeat split; cbn [set_parked leaked store insts finished]; auto. all: try (intros ? _ HF; left; exact HF). }
    intros a m' _ (Ho' & _). rewrite Ho', Ho1. reflexivity. }
  intros [] m1 X1 Ho1.
  assert (C1 : clean m1) by (eapply clean_ext; eassumption).
  assert (H1 : held m1 = []) by (rewrite (ext_held _ _ _ X1); exact Hh).
  assert (Hp1 : In pm (parked (os m1))).
  { rewrite Ho1. cbn [set_parked parked]. apply in_or_app. right. left. reflexivity. }
  assert (Hs1 : store (os m1) = store (os m)) by (rewrite Ho1; reflexivity).
  eapply bind_returns; [apply st_lookup_returns; [exact C1|rewrite H1; reflexivity]|].
  intros e m2 X2 (-> & Ho2).
  assert (C2 : clean m2) by (eapply clean_ext; eassumption).
  assert (H2 : held m2 = []) by (rewrite (ext_held _ _ _ X2); exact H1).
  rewrite Hs1.
  destruct (lookup id (store (os m))) as [[asked|t]|] eqn:El.
  - (* requested before *)
    rewrite H71.
    destruct (mem_nat p asked) eqn:Ea.
    { eapply returns_weaken; [apply ret_returns|]. intros a m' _ (_ & ->). rewrite Ho2. split; [exact Hp1|].
      intros _ [E|(asked0 & E & E')]; [discriminate|]. inversion E; subst asked0. congruence. }
    eapply bind_returns.
    { unfold st_note_asked. eapply with_store_returns; [exact C2|rewrite H2; reflexivity|reflexivity|].
      apply sfo_note_asked. }
    intros [] m3 X3 (_ & Ho3).
    assert (Hl3 : lookup id (store (os m3)) = Some (Req (p :: asked))).
    { rewrite Ho3, Ho2, Hs1, El. cbn [set_store store]. rewrite lookup_update, Nat.eqb_refl. reflexivity. }
    assert (Hp3 : In pm (parked (os m3))).
    { rewrite Ho3, Ho2. destruct (lookup id (store (os m1))) as [[?|?]|]; cbn [set_store parked]; exact Hp1. }
    eapply bind_returns; [apply send_returns|]. intros ok m4 X4 (Eok & Ho4 & Hsend).
    destruct ok.
    + eapply returns_weaken; [apply ret_returns|]. intros a m' _ (_ & ->). rewrite Ho4. split; [exact Hp3|].
      intros Hr _. split; [apply Hsend, Hr|]. eauto.
    + eapply returns_weaken.
      { unfold st_note_asked. eapply with_store_returns;
          [eapply clean_ext; [eapply clean_ext; eassumption|eassumption]
          |rewrite (ext_held _ _ _ X4), (ext_held _ _ _ X3), H2; reflexivity|reflexivity|apply sfo_note_asked]. }
      intros a m' Hx (_ & Ho'). split.
      * rewrite Ho', Ho4. destruct (lookup id (store (os m3))) as [[?|?]|]; cbn [set_store parked]; exact Hp3.
      * intros Hr _. split; [apply (ext_evs _ _ _ Hx), Hsend, Hr|].
        rewrite Ho', Ho4, Hl3. cbn [set_store store]. rewrite lookup_update, Nat.eqb_refl. eauto.
  - eapply returns_weaken; [apply ret_returns|]. intros a m' _ (_ & ->). rewrite Ho2. split; [exact Hp1|].
    intros _ [E|(asked0 & E & _)]; discriminate.
  - (* unknown id: register it, ask the sender *)
    eapply bind_returns.
    { unfold st_register. eapply with_store_returns; [exact C2|rewrite H2; reflexivity|reflexivity|apply sfo_register]. }
    intros [] m3 X3 (_ & Ho3).
    assert (C3 : clean m3) by (eapply clean_ext; eassumption).
    assert (H3 : held m3 = []) by (rewrite (ext_held _ _ _ X3); exact H2).
    assert (Hl3 : lookup id (store (os m3)) = Some (Req [])).
    { rewrite Ho3, Ho2, Hs1, El. cbn [set_store store]. rewrite lookup_update, Nat.eqb_refl. reflexivity. }
    assert (Hp3 : In pm (parked (os m3))).
    { rewrite Ho3, Ho2. destruct (lookup id (store (os m1))); cbn [set_store parked]; exact Hp1. }
    rewrite H71.
    eapply bind_returns.
    { unfold st_note_asked. eapply with_store_returns; [exact C3|rewrite H3; reflexivity|reflexivity|apply sfo_note_asked]. }
    intros [] m4 X4 (_ & Ho4).
    assert (Hl4 : lookup id (store (os m4)) = Some (Req [p])).
    { rewrite Ho4, Hl3. cbn [set_store store]. rewrite lookup_update, Nat.eqb_refl. reflexivity. }
    assert (Hp4 : In pm (parked (os m4))).
    { rewrite Ho4, Hl3. cbn [set_store parked]. exact Hp3. }
    eapply bind_returns; [apply send_returns|]. intros ok m5 X5 (Eok & Ho5 & Hsend).
    destruct ok.
    + eapply returns_weaken; [apply ret_returns|]. intros a m' _ (_ & ->). rewrite Ho5. split; [exact Hp4|].
      intros Hr _. split; [apply Hsend, Hr|]. eauto.
    + eapply returns_weaken.
      { unfold st_unregister. eapply with_store_returns;
          [eapply clean_ext; [eapply clean_ext; eassumption|eassumption]
          |rewrite (ext_held _ _ _ X5), (ext_held _ _ _ X4), H3; reflexivity|reflexivity|].
        rewrite Ho5, Hl4. apply sfo_delete_nohave. intros t. rewrite Hl4. discriminate. }
      intros a m' _ (_ & Ho'). split.
      * rewrite Ho', Ho5, Hl4. cbn [set_store parked]. exact Hp4.
      * intros Hr. fold p in Hr. rewrite Hr in Eok. discriminate.
Qed.


End Fixed71.

Section Fixed.
Variable X : perm.
(* the procedures for any variant that has the repairs F26 and F72; F71 and the crash /
   leak repairs F05 F06 F07 F08 F70 may be missing: the input classes of the latter are
   hypotheses *)
Variable fx : fixes.
Hypothesis H26 : f26 fx = true.
Hypothesis H72 : f72 fx = true.

Ltac hf := let a := fresh in let m := fresh in let H := fresh in
           intros a m H; cbn [os held evs]; tauto.

(* requestTree: the message is parked; the sender is asked for a tree nobody was asked for,
   and with F71 also for a tree that others were asked for *)
Lemma request_tree_returns : forall pm m,
  ready [] m ->
  returns X (request_tree fx pm) m
          (fun _ m' =>
             In pm (parked (os m')) /\
             (reachable (p_peer pm) = true ->
              (lookup (tk_tree (p_to pm)) (store (os m)) = None \/
               (f71 fx = true /\
                exists asked, lookup (tk_tree (p_to pm)) (store (os m)) = Some (Req asked) /\
                              mem_nat (p_peer pm) asked = false)) ->
              In (ESend (p_peer pm) (RReqTree (tk_tree (p_to pm)))) (evs m') /\
              exists asked', lookup (tk_tree (p_to pm)) (store (os m')) = Some (Req asked'))).
Proof.
  intros pm m R. destruct (f71 fx) eqn:H71.
  { eapply returns_weaken; [apply request_tree_returns_71; assumption|].
    intros a m' _ (A & B). split; [exact A|]. intros Hr [Hn|(_ & Hq)]; apply B; auto. }
  destruct R as (C & Hh & Hi). unfold request_tree. rewrite H71.
  set (id := tk_tree (p_to pm)). set (p := p_peer pm).
  eapply bind_returns.
  { apply locked_returns with (Q := fun _ m' => os m' = set_parked (os m) (parked (os m) ++ [pm]));
      [exact C|rewrite Hh; reflexivity|hf|].
    eapply bind_returns; [apply access_returns; reflexivity|]. intros [] m1 X1 Ho1.
    eapply returns_weaken.
    { apply modify_returns. repeat split; cbn [set_parked leaked store insts finished]; auto. all: try (intros ? _ HF; left; exact HF). }
    intros a m' _ (Ho' & _). rewrite Ho', Ho1. reflexivity. }
  intros [] m1 X1 Ho1.
  assert (C1 : clean m1) by (eapply clean_ext; eassumption).
  assert (H1 : held m1 = []) by (rewrite (ext_held _ _ _ X1); exact Hh).
  assert (Hp1 : In pm (parked (os m1))).
  { rewrite Ho1. cbn [set_parked parked]. apply in_or_app. right. left. reflexivity. }
  assert (Hs1 : store (os m1) = store (os m)) by (rewrite Ho1; reflexivity).
  eapply bind_returns; [apply st_lookup_returns; [exact C1|rewrite H1; reflexivity]|].
  intros e m2 X2 (-> & Ho2).
  assert (C2 : clean m2) by (eapply clean_ext; eassumption).
  assert (H2 : held m2 = []) by (rewrite (ext_held _ _ _ X2); exact H1).
  rewrite Hs1.
  destruct (lookup id (store (os m))) as [[asked|t]|] eqn:El.
  1,2: (eapply returns_weaken; [apply ret_returns|]; intros a m' _ (_ & ->); rewrite Ho2;
        split; [exact Hp1|intros _ [E|(E & _)]; discriminate E]).
  (* unknown id: register it, ask the sender *)
  eapply bind_returns.
  { unfold st_register. eapply with_store_returns; [exact C2|rewrite H2; reflexivity|reflexivity|apply sfo_register]. }
  intros [] m3 X3 (_ & Ho3).
  assert (C3 : clean m3) by (eapply clean_ext; eassumption).
  assert (H3 : held m3 = []) by (rewrite (ext_held _ _ _ X3); exact H2).
  assert (Hl3 : lookup id (store (os m3)) = Some (Req [])).
  { rewrite Ho3, Ho2, Hs1, El. cbn [set_store store]. rewrite lookup_update, Nat.eqb_refl. reflexivity. }
  assert (Hp3 : In pm (parked (os m3))).
  { rewrite Ho3, Ho2. destruct (lookup id (store (os m1))); cbn [set_store parked]; exact Hp1. }
  eapply bind_returns; [eapply returns_weaken; [apply ret_returns|]; intros ? ? _ H; exact H|].
  intros [] m4 X4 (_ & ->).
  eapply bind_returns; [apply send_returns|]. intros ok m5 X5 (Eok & Ho5 & Hsend).
  assert (Hp5 : In pm (parked (os m5))) by (rewrite Ho5; exact Hp3).
  destruct ok.
  - eapply returns_weaken; [apply ret_returns|]. intros a m' _ (_ & ->). split; [exact Hp5|].
    intros Hr _. split; [apply Hsend, Hr|]. rewrite Ho5. eauto.
  - eapply returns_weaken.
    { apply st_unregister_returns; [eapply clean_ext; eassumption|rewrite (ext_held _ _ _ X5); rewrite H3; reflexivity]. }
    intros a m' _ Hp'. split; [rewrite Hp'; exact Hp5|].
    intros Hr. fold p in Hr. rewrite Hr in Eok. discriminate Eok.
Qed.

(* the conditions under which TransmitMsg hands a message to the protocol's handler *)
Definition will_deliver (s : ostate) (t : stree) (pm : pmsg) (f : token) : Prop :=
  mem_tok (p_to pm) (finished s) = false /\
  (mem_tok (p_to pm) (insts s) = true \/
   (search t (tk_node (p_to pm)) <> None /\ proto_known (tk_proto (p_to pm)) = true)) /\
  deliverable t (p_peer pm) (p_from pm) (p_body pm) f.

Lemma transmit_returns : forall sender from to b m,
  ready [] m -> (to = None -> f05 fx = true) ->
  returns X (transmit fx sender from to b) m
          (fun _ m' =>
             forall k, to = Some k ->
               (forall t f, lookup (tk_tree k) (store (os m)) = Some (Have t) ->
                            will_deliver (os m) t (mkP sender from k b) f ->
                            In (EDeliver k (tk_node f)) (evs m')) /\
               ((forall t, lookup (tk_tree k) (store (os m)) <> Some (Have t)) ->
                In (mkP sender from k b) (parked (os m')) /\
                (reachable sender = true ->
                 (lookup (tk_tree k) (store (os m)) = None \/
                  (f71 fx = true /\
                   exists asked, lookup (tk_tree k) (store (os m)) = Some (Req asked) /\ mem_nat sender asked = false)) ->
                 In (ESend sender (RReqTree (tk_tree k))) (evs m') /\
                 exists asked', lookup (tk_tree k) (store (os m')) = Some (Req asked')))).
Proof.
  intros sender from to b m R Hto. pose proof R as (C & Hh & Hi). unfold transmit.
  destruct to as [k|].
  2:{ rewrite (Hto eq_refl). eapply returns_weaken; [apply ret_returns|]. intros a m' _ _ k E. discriminate. }
  eapply bind_returns; [apply st_get_refresh_returns; [exact C|rewrite Hh; reflexivity]|].
  intros e m1 X1 (-> & Ho1).
  assert (R1 : ready [] m1) by (eapply ready_ext; eassumption).
  assert (Hs1 : store (os m1) = store (os m)) by (rewrite Ho1; reflexivity).
  assert (Hi1 : insts (os m1) = insts (os m)) by (rewrite Ho1; reflexivity).
  assert (Hf1 : finished (os m1) = finished (os m)) by (rewrite Ho1; reflexivity).
  destruct (lookup (tk_tree k) (store (os m))) as [[asked|t]|] eqn:El.
  - eapply returns_weaken; [apply request_tree_returns; exact R1|].
    intros a m' _ (Hp & Hq) k' E. inversion E; subst k'. split.
    + intros t f Ht. rewrite El in Ht. discriminate Ht.
    + intros _. split; [exact Hp|]. cbn [p_to p_peer] in Hq. rewrite Hs1 in Hq. exact Hq.
  - eapply returns_weaken.
    { apply deliver_hit_returns; [exact R1|]. cbn [p_to]. rewrite Hs1. exact El. }
    intros a m' _ Hd k' E. inversion E; subst k'. split.
    + intros t' f Ht (W1 & W2 & W3). rewrite El in Ht. inversion Ht; subst t'.
      apply Hd; cbn [p_to p_peer p_from p_body] in *; rewrite ?Hf1, ?Hi1; assumption.
    + intros Hno. exfalso. exact (Hno _ El).
  - eapply returns_weaken; [apply request_tree_returns; exact R1|].
    intros a m' _ (Hp & Hq) k' E. inversion E; subst k'. split.
    + intros t f Ht. rewrite El in Ht. discriminate Ht.
    + intros _. split; [exact Hp|]. cbn [p_to p_peer] in Hq. rewrite Hs1 in Hq. exact Hq.
Qed.

(* the flush goroutine *)
Lemma flush_returns : forall t m,
  ready [] m ->
  returns X (flush fx t) m
          (fun _ m' =>
             forall pm f,
               filter (fun pm => tk_tree (p_to pm) =? t_id t) (parked (os m)) = [pm] ->
               lookup (t_id t) (store (os m)) = Some (Have t) ->
               will_deliver (os m) t pm f ->
               In (EDeliver (p_to pm) (tk_node f)) (evs m')).
Proof.
  intros t m R. pose proof R as (C & Hh & Hi). unfold flush.
  eapply bind_returns.
  { apply locked_returns with
      (Q := fun r m' => r = filter (fun pm => tk_tree (p_to pm) =? t_id t) (parked (os m)) /\
                        os m' = set_parked (os m) (filter (fun pm => negb (tk_tree (p_to pm) =? t_id t)) (parked (os m))));
      [exact C|rewrite Hh; reflexivity|hf|].
    eapply bind_returns; [apply access_returns; reflexivity|]. intros [] m1 X1 Ho1.
    eapply bind_returns; [apply get_returns|]. intros s m2 X2 (-> & ->).
    eapply bind_returns.
    { apply modify_returns. repeat split; cbn [set_parked leaked store insts finished]; auto. all: try (intros ? _ HF; left; exact HF). }
    intros [] m3 X3 (Ho3 & _).
    eapply returns_weaken; [apply ret_returns|]. intros a m' _ (-> & ->).
    rewrite Ho3, Ho1. cbn [os]. auto. }
  intros mine m1 X1 (-> & Ho1).
  assert (R1 : ready [] m1) by (eapply ready_ext; eassumption).
  remember (filter (fun pm => tk_tree (p_to pm) =? t_id t) (parked (os m))) as mine eqn:Em.
  destruct mine as [|pm0 [|pm1 rest]].
  - eapply returns_weaken; [apply ret_returns|]. intros a m' _ _ pm f E. discriminate.
  - cbn [miter]. eapply bind_returns; [apply transmit_returns; [exact R1|discriminate]|].
    intros [] m2 X2 Hq. eapply returns_weaken; [apply ret_returns|]. intros a m' _ (_ & ->).
    intros pm f E Ht W. inversion E; subst pm0.
    assert (Et : tk_tree (p_to pm) = t_id t).
    { assert (Hin : In pm (filter (fun pm => tk_tree (p_to pm) =? t_id t) (parked (os m)))) by (rewrite <- Em; left; reflexivity).
      apply filter_In in Hin. apply Nat.eqb_eq, Hin. }
    destruct (Hq (p_to pm) eq_refl) as (Hd & _).
    destruct pm as [pp pf pt pb]. cbn [p_to p_peer p_from p_body] in *.
    apply (Hd t f).
    + rewrite Ho1. cbn [set_parked store]. rewrite Et. exact Ht.
    + rewrite Ho1. exact W.
  - eapply returns_weaken.
    { apply miter_returns with (P := ready []); [exact R1|].
      intros pm m2 R2. eapply returns_weaken; [apply transmit_returns; [exact R2|discriminate]|].
      intros a m' Hx _. eapply ready_ext; eassumption. }
    intros a m' _ _ pm f E. discriminate.
Qed.

(* RegisterTree, called by a service: the only way the content of a stored tree changes *)
Lemma register_tree_returns : forall t m,
  ready [] m -> p_tree X (t_id t) ->
  returns X (register_tree fx t) m (fun _ _ => True).
Proof.
  intros t m R Hx. pose proof R as (C & Hh & Hi). unfold register_tree.
  eapply bind_returns.
  { unfold st_set. eapply with_store_returns; [exact C|rewrite Hh; reflexivity|reflexivity|].
    apply sfo_put_tree. left. exact Hx. }
  intros [] m1 X1 (_ & Ho1).
  assert (R1 : ready [] m1) by (eapply ready_ext; eassumption).
  apply spawn_returns; [hf|].
  eapply returns_weaken; [apply flush_returns|auto]. destruct R1 as (C1 & H1 & I1). (split; [|split]; first [assumption|reflexivity]).
Qed.

(* RegisterTree for a tree that came from a peer: with F72 it is only reached where no
   tree is stored under that id *)
Lemma register_absent_returns : forall t m,
  clean m -> mem_lk LStore (held m) = false -> insts_have (os m) ->
  (forall t0, lookup (t_id t) (store (os m)) <> Some (Have t0)) ->
  returns X (register_tree fx t) m
          (fun _ m' =>
             forall pm f,
               filter (fun pm => tk_tree (p_to pm) =? t_id t) (parked (os m)) = [pm] ->
               will_deliver (os m) t pm f ->
               (~ p_tree X (t_id t) -> lookup (t_id t) (store (os m')) = Some (Have t)) /\
               In (EDeliver (p_to pm) (tk_node f)) (evs m')).
Proof.
  intros t m C Hn Hi Hno. unfold register_tree.
  eapply bind_returns.
  { unfold st_set. eapply with_store_returns; [exact C|exact Hn|reflexivity|apply sfo_put_tree; right; left; exact Hno]. }
  intros [] m1 X1 (_ & Ho1).
  assert (Hl1 : lookup (t_id t) (store (os m1)) = Some (Have t))
    by (rewrite Ho1; unfold put_tree; cbn [set_store store]; rewrite lookup_update, Nat.eqb_refl; reflexivity).
  assert (C1 : clean m1) by (eapply clean_ext; eassumption).
  assert (I1 : insts_have (os m1)) by (apply (ext_insts _ _ _ X1), Hi).
  eapply returns_weaken.
  { apply spawn_returns with
      (Q := fun _ m' => forall pm f,
               filter (fun pm => tk_tree (p_to pm) =? t_id t) (parked (os m1)) = [pm] ->
               lookup (t_id t) (store (os m1)) = Some (Have t) ->
               will_deliver (os m1) t pm f -> In (EDeliver (p_to pm) (tk_node f)) (evs m'));
      [hf|eapply returns_weaken; [apply flush_returns; (split; [|split]; first [assumption|reflexivity])|];
          intros ? ? _ H; cbn [os] in H; exact H]. }
  intros a m' Hx Hq pm f Hf W; split;
    [ intros Hnx; apply (ext_keeps _ _ _ Hx); assumption
    | apply Hq; [rewrite Ho1; exact Hf|exact Hl1|rewrite Ho1; exact W] ].
Qed.

Lemma make_tree_benign : forall tm ro,
  benign_mk fx tm ro ->
  make_tree fx tm ro = MTErr \/
  exists c, tm_children tm = c :: tl (tm_children tm) /\ ro_id ro = tm_roster tm /\
            make_tree fx tm ro = MTOk (mkTree (tm_tree tm) ro c).
Proof.
  intros tm ro (B6 & B70). unfold make_tree.
  destruct (ro_id ro =? tm_roster tm) eqn:E; cbn [negb]; [|left; reflexivity].
  destruct (tm_children tm) as [|c r].
  { destruct B6 as [B6|B6]; [rewrite B6; left; reflexivity|contradiction]. }
  destruct (forallb _ (nodes_of c)) eqn:Efound; [|left; reflexivity].
  destruct (forallb (fun n => match ro_find ro (snd n) with Some m => m_key m | None => false end) (nodes_of c)) eqn:Ekeys.
  - right. exists c. apply Nat.eqb_eq in E. auto.
  - destruct B70 as [B70|B70]; [rewrite B70; left; reflexivity|]. exfalso.
    assert (Hall : forallb (fun n => match ro_find ro (snd n) with Some m => m_key m | None => false end) (nodes_of c) = true).
    { apply forallb_forall. intros n Hn. rewrite forallb_forall in Efound. specialize (Efound n Hn).
      destruct (ro_find ro (snd n)) as [m|] eqn:Ef; [|discriminate]. eapply ro_find_key; eassumption. }
    rewrite Hall in Ekeys. discriminate.
Qed.

(* handleSendTree *)
Lemma handle_send_tree_returns : forall otm oro m,
  clean m -> mem_lk LStore (held m) = false -> insts_have (os m) ->
  (forall tm ro, otm = Some tm -> oro = Some ro -> benign_mk fx tm ro) ->
  returns X (handle_send_tree fx otm oro) m
          (fun _ m' =>
             forall tm ro t pm f,
               otm = Some tm -> oro = Some ro -> tm_tree tm <> 0 ->
               make_tree fx tm ro = MTOk t ->
               (exists asked, lookup (t_id t) (store (os m)) = Some (Req asked)) ->
               filter (fun pm => tk_tree (p_to pm) =? t_id t) (parked (os m)) = [pm] ->
               will_deliver (os m) t pm f ->
               (~ p_tree X (t_id t) -> lookup (t_id t) (store (os m')) = Some (Have t)) /\
               In (EDeliver (p_to pm) (tk_node f)) (evs m')).
Proof.
  intros otm oro m C Hn Hi Hb. unfold handle_send_tree.
  destruct otm as [tm|].
  2:{ eapply returns_weaken; [apply ret_returns|]. intros a m' _ _ tm ro t pm f E. discriminate. }
  destruct (tm_tree tm =? 0) eqn:E0.
  { eapply returns_weaken; [apply ret_returns|]. intros a m' _ _ tm' ro t pm f E _ Hz.
    inversion E; subst tm'. apply Nat.eqb_eq in E0. contradiction. }
  destruct oro as [ro|].
  2:{ eapply returns_weaken; [apply ret_returns|]. intros a m' _ _ tm' ro t pm f _ E. discriminate. }
  eapply bind_returns; [apply st_lookup_returns; assumption|].
  intros e m1 X1 (-> & Ho1).
  assert (C1 : clean m1) by (eapply clean_ext; eassumption).
  assert (H1 : mem_lk LStore (held m1) = false) by (rewrite (ext_held _ _ _ X1); exact Hn).
  assert (I1 : insts_have (os m1)) by (apply (ext_insts _ _ _ X1), Hi).
  destruct (lookup (tm_tree tm) (store (os m))) as [[asked0|t0]|] eqn:El; cbn [awaited]; rewrite ?H72; cbn [negb].
  2,3: (eapply returns_weaken; [apply ret_returns|]; intros a m' _ _ tm' ro' t pm f E1 E2 _ Hm (asked & Ha);
        inversion E1; subst tm'; inversion E2; subst ro';
        destruct (make_tree_benign tm ro (Hb _ _ eq_refl eq_refl)) as [Em|(c & _ & _ & Em)]; rewrite Em in Hm; [discriminate|];
        inversion Hm; subst t; cbn [t_id] in Ha; congruence).
  destruct (make_tree_benign tm ro (Hb _ _ eq_refl eq_refl)) as [Em|(c & _ & _ & Em)]; rewrite Em.
  { eapply returns_weaken; [apply ret_returns|]. intros a m' _ _ tm' ro' t pm f E1 E2 _ Hm.
    inversion E1; subst tm'. inversion E2; subst ro'. rewrite Em in Hm. discriminate. }
  eapply returns_weaken.
  { apply register_absent_returns; [exact C1|exact H1|exact I1|].
    intros t1. cbn [t_id]. rewrite Ho1, El. discriminate. }
  intros a m' _ Hq tm' ro' t pm f E1 E2 _ Hm (asked & Ha) Hf W.
  inversion E1; subst tm'. inversion E2; subst ro'. rewrite Em in Hm. inversion Hm; subst t.
  apply Hq.
  - rewrite Ho1. exact Hf.
  - rewrite Ho1. exact W.
Qed.

Lemma handle_request_tree_returns : forall p id ver m,
  clean m -> mem_lk LStore (held m) = false ->
  returns X (handle_request_tree p id ver) m
          (fun _ m' =>
             forall t, lookup id (store (os m)) = Some (Have t) -> reachable p = true ->
                       In (ESend p (if ver =? 0 then RTreeMarshal (t_id t) (ro_id (t_roster t)) (root_node t)
                                    else RRespTree (t_id t) (ro_id (t_roster t)) (root_node t))) (evs m')).
Proof.
  intros p id ver m C Hn. unfold handle_request_tree.
  eapply bind_returns; [apply st_lookup_returns; assumption|].
  intros e m1 X1 (-> & Ho1).
  destruct (lookup id (store (os m))) as [[asked|t]|] eqn:El.
  1,3: (eapply returns_weaken; [apply ret_returns|]; intros a m' _ _ t0 E; discriminate).
  destruct (ver =? 0).
  all: eapply bind_returns; [apply send_returns|]; intros ok m2 X2 (_ & _ & Hs).
  all: eapply returns_weaken; [apply ret_returns|]; intros a m' _ (_ & ->) t0 E Hr; inversion E; subst t0; apply Hs, Hr.
Qed.

Lemma handle_request_roster_returns : forall p rid nf m,
  clean m -> mem_lk LStore (held m) = false ->
  (f07 fx = true \/ existsb is_req (store (os m)) = false) ->
  returns X (handle_request_roster fx p rid nf) m
          (fun _ m' =>
             reachable p = true ->
             In (ESend p (RRoster (match find (has_roster rid) (store (os m)) with
                                   | Some (_, Have t) => ro_id (t_roster t) | _ => 0 end))) (evs m')).
Proof.
  intros p rid nf m C Hn H7. unfold handle_request_roster.
  eapply bind_returns.
  { unfold st_get_roster. eapply with_store_returns; [exact C|exact Hn| |apply sfo_same].
    unfold sf_get_roster. destruct H7 as [H7|H7]; rewrite H7; [reflexivity|].
    destruct (f07 fx); reflexivity. }
  intros oro m1 X1 (-> & Ho1).
  eapply bind_returns; [apply send_returns|]. intros ok m2 X2 (_ & _ & Hs).
  eapply returns_weaken; [apply ret_returns|]. intros a m' _ (_ & ->) Hr.
  specialize (Hs Hr). destruct (find (has_roster rid) (store (os m))) as [[i [asked|t]]|]; exact Hs.
Qed.

(* the scan of the instance table: every listed instance has its tree *)
Lemma scan_rosters_returns : forall rid l acc m,
  clean m -> mem_lk LStore (held m) = false ->
  (forall k, In k l -> exists t, lookup (tk_tree k) (store (os m)) = Some (Have t)) ->
  returns X (scan_rosters rid l acc) m
          (fun r m' => os m' = os m /\
                       forall ro, r = Some ro ->
                                  acc = Some ro \/ exists id t, lookup id (store (os m)) = Some (Have t) /\ t_roster t = ro).
Proof.
  intros rid l. induction l as [|k r IH]; intros acc m C Hn Hl; cbn [scan_rosters].
  - eapply returns_weaken; [apply ret_returns|]. intros a m' _ (-> & ->). split; [reflexivity|]. intros ro E. left. exact E.
  - eapply bind_returns; [apply st_lookup_returns; assumption|].
    intros e m1 X1 (-> & Ho1). destruct (Hl k (or_introl eq_refl)) as (t & Ht). rewrite Ht.
    eapply returns_weaken.
    { apply IH; [eapply clean_ext; eassumption|rewrite (ext_held _ _ _ X1); exact Hn|].
      intros k' Hk'. rewrite Ho1. apply Hl. right. exact Hk'. }
    intros a m' _ (H & Hr). split; [congruence|]. intros ro E. destruct (Hr ro E) as [Ha|(id & t' & Hl' & Ht')].
    + destruct (ro_id (t_roster t) =? rid); [|left; exact Ha]. inversion Ha; subst ro. right. eauto.
    + right. exists id, t'. rewrite Ho1 in Hl'. auto.
Qed.

Lemma handle_send_tree_marshal_returns : forall p tm m,
  ready [] m ->
  (forall id t, lookup id (store (os m)) = Some (Have t) -> benign_mk fx tm (t_roster t)) ->
  returns X (handle_send_tree_marshal fx p tm) m (fun _ _ => True).
Proof.
  intros p tm m R Hb. pose proof R as (C & Hh & Hi). unfold handle_send_tree_marshal.
  destruct (tm_tree tm =? 0).
  { eapply returns_weaken; [apply ret_returns|auto]. }
  eapply bind_returns; [apply st_lookup_returns; [exact C|rewrite Hh; reflexivity]|].
  intros e m1 X1 (-> & Ho1).
  assert (R1 : ready [] m1) by (eapply ready_ext; eassumption).
  destruct R1 as (C1 & H1 & I1).
  destruct (lookup (tm_tree tm) (store (os m))) as [[asked0|t0]|]; cbn [awaited]; rewrite ?H72; cbn [negb].
  2,3: (eapply returns_weaken; [apply ret_returns|auto]).
  rewrite H26.
  eapply bind_returns.
  { apply locked_returns with
      (Q := fun r m' => os m' = os m1 /\
                        forall ro, r = Some ro -> exists id t, lookup id (store (os m1)) = Some (Have t) /\ t_roster t = ro);
      [exact C1|rewrite H1; reflexivity|hf|].
    eapply bind_returns; [apply access_returns; reflexivity|]. intros [] m2 X2 Ho2.
    eapply bind_returns; [apply get_returns|]. intros s m3 X3 (-> & ->).
    eapply returns_weaken.
    { apply scan_rosters_returns.
      - eapply (clean_ext X (mkM (os m1) (LInst :: held m1) (evs m1)) m2); [exact C1|exact X2].
      - rewrite (ext_held _ _ _ X2). cbn [held]. rewrite H1. reflexivity.
      - intros k Hk. rewrite Ho2 in *. cbn [os] in *. apply I1, Hk. }
    intros a m' _ (H & Hr). split; [rewrite H, Ho2; reflexivity|].
    intros ro E. destruct (Hr ro E) as [Ha|(id & t & Hl & Ht)]; [discriminate|].
    rewrite Ho2 in Hl. cbn [os] in Hl. eauto. }
  intros oro m2 X2 (Ho2 & Hro).
  assert (R2 : ready [] m2) by (eapply ready_ext; [|eassumption]; (split; [|split]; first [assumption|reflexivity])).
  destruct R2 as (C2 & H2 & I2).
  destruct oro as [ro|].
  - eapply returns_weaken; [apply handle_send_tree_returns; [exact C2|rewrite H2; reflexivity|exact I2|]|auto].
    intros tm' ro' E1 E2. inversion E1; subst tm'. inversion E2; subst ro'.
    destruct (Hro ro eq_refl) as (id & t & Hl & <-). rewrite Ho1 in Hl. eapply Hb, Hl.
  - eapply bind_returns; [apply send_returns|]. intros ok m3 X3 _.
    assert (R3 : ready [] m3) by (eapply ready_ext; [|eassumption]; (split; [|split]; first [assumption|reflexivity])).
    destruct R3 as (C3 & H3 & I3).
    apply locked_returns; [exact C3|rewrite H3; reflexivity|hf|].
    eapply bind_returns; [apply access_returns; reflexivity|]. intros [] m4 X4 Ho4.
    eapply returns_weaken.
    { apply modify_returns. repeat split; cbn [set_ptm leaked store insts finished]; auto. all: try (intros ? _ HF; left; exact HF). }
    auto.
Qed.

(* one pending description: skipped when its tree is present, else rebuilt and stored *)
Lemma pending_one_returns : forall ro tm m,
  clean m -> mem_lk LStore (held m) = false -> insts_have (os m) -> benign_mk fx tm ro ->
  returns X (pending_one fx ro tm) m (fun _ _ => True).
Proof.
  intros ro tm m C Hn Hi Bm. unfold pending_one. rewrite H72.
  eapply bind_returns; [apply st_lookup_returns; assumption|].
  intros e m1 X1 (-> & Ho1).
  assert (C1 : clean m1) by (eapply clean_ext; eassumption).
  assert (H1 : mem_lk LStore (held m1) = false) by (rewrite (ext_held _ _ _ X1); exact Hn).
  assert (I1 : insts_have (os m1)) by (apply (ext_insts _ _ _ X1), Hi).
  destruct (lookup (tm_tree tm) (store (os m))) as [[asked|t0]|] eqn:El.
  2:{ eapply returns_weaken; [apply ret_returns|auto]. }
  all: destruct (make_tree_benign tm ro Bm) as [Em|(c & _ & _ & Em)]; rewrite Em;
    [eapply returns_weaken; [apply ret_returns|auto]|].
  all: eapply returns_weaken;
    [apply register_absent_returns; [exact C1|exact H1|exact I1|intros t1; cbn [t_id]; rewrite Ho1, El; discriminate]|auto].
Qed.

(* checkPendingTreeMarshal with its early return repaired is a plain critical section *)
Lemma check_pending_tm_returns : forall ro m,
  ready [] m ->
  (f08 fx = true \/ filter (fun tm => tm_roster tm =? ro_id ro) (ptm (os m)) <> []) ->
  (forall tm, In tm (ptm (os m)) -> tm_roster tm = ro_id ro -> benign_mk fx tm ro) ->
  returns X (check_pending_tm fx ro) m (fun _ _ => True).
Proof.
  intros ro m R H8 Hb. pose proof R as (C & Hh & Hi). unfold check_pending_tm. rewrite H72.
  set (consume := fun s : ostate => set_ptm s (filter (fun tm => negb (tm_roster tm =? ro_id ro)) (ptm s))).
  (* run the acquire by hand *)
  set (m0 := mkM (os m) [LPTree] (evs m)).
  assert (Ea : acquire LPTree m = Ret tt m0).
  { unfold acquire, m0. unfold clean in C. rewrite C, Hh. reflexivity. }
  assert (C0 : clean m0) by exact C.
  assert (P0 : clean m0 /\ held m0 = [LPTree] /\ insts_have (os m0)) by ((split; [|split]; first [assumption|reflexivity])).
  (* the body up to the release *)
  assert (Body : returns X (access TPTM ;; s <- get ;;
                            match filter (fun tm => tm_roster tm =? ro_id ro) (ptm s) with
                            | [] => ret tt
                            | sl => modify consume ;; miter (pending_one fx ro) sl
                            end) m0 (fun _ _ => True)).
  { eapply bind_returns; [apply access_returns; reflexivity|]. intros [] m1 X1 Ho1.
    eapply bind_returns; [apply get_returns|]. intros s m2 X2 (-> & ->).
    assert (P1 : clean m1 /\ held m1 = [LPTree] /\ insts_have (os m1)) by (eapply ready_ext; eassumption).
    destruct (filter (fun tm => tm_roster tm =? ro_id ro) (ptm (os m1))) as [|tm0 rest] eqn:Ef.
    { eapply returns_weaken; [apply ret_returns|auto]. }
    eapply bind_returns.
    { apply modify_returns. unfold consume. repeat split; cbn [set_ptm leaked store insts finished]; auto. all: try (intros ? _ HF; left; exact HF). }
    intros [] m3 X3 _.
    eapply returns_weaken.
    { apply miter_returns_in with (P := fun m => clean m /\ held m = [LPTree] /\ insts_have (os m)).
      - eapply ready_ext; eassumption.
      - intros tm m4 Hin (C4 & H4 & I4).
        assert (Bm : benign_mk fx tm ro).
        { rewrite <- Ef in Hin. apply filter_In in Hin as [Hin Heq]. apply Nat.eqb_eq in Heq. apply Hb; [|exact Heq].
          rewrite Ho1 in Hin. exact Hin. }
        eapply returns_weaken; [apply pending_one_returns; [exact C4|rewrite H4; reflexivity|exact I4|exact Bm]|].
        intros a m' Hx _. eapply (ready_ext X [LPTree]); [|exact Hx]. (split; [|split]; first [assumption|reflexivity]). }
    auto. }
  destruct Body as ([] & m1 & E1 & X1 & _).
  exists tt, (mkM (os m1) [] (evs m1)). split; [|split; [|exact I]].
  - unfold bind at 1. rewrite Ea.
    unfold bind in E1. unfold bind.
    destruct (access TPTM m0) as [[] ma|] eqn:Eacc; [|discriminate].
    unfold get in *.
    destruct (filter (fun tm => tm_roster tm =? ro_id ro) (ptm (os ma))) as [|tm0 rest] eqn:Ef.
    + unfold ret in E1. inversion E1; subst m1.
      destruct H8 as [H8|H8].
      2:{ exfalso. apply H8. unfold access in Eacc. inversion Eacc; subst ma. exact Ef. }
      rewrite H8. unfold release. rewrite (ext_held _ _ _ X1). reflexivity.
    + unfold modify in E1 |- *. fold consume. rewrite E1. unfold release. rewrite (ext_held _ _ _ X1). reflexivity.
  - destruct X1 as [h l v k fi i d e]. constructor; cbn [os held evs] in *; auto.
Qed.

Lemma handle_config_returns : forall dest m,
  ready [] m -> returns X (handle_config dest) m (fun _ _ => True).
Proof.
  intros dest m (C & Hh & Hi). unfold handle_config.
  apply locked_returns; [exact C|rewrite Hh; reflexivity|hf|].
  eapply bind_returns; [apply access_returns; reflexivity|]. intros [] m1 X1 Ho1.
  eapply returns_weaken.
  { apply modify_returns. destruct dest; repeat split; cbn [set_configs leaked store insts finished]; auto. all: try (intros ? _ HF; left; exact HF). }
  auto.
Qed.

(* the input classes of the crash / leak defects, per operation and state; [True] for every
   operation when the five repairs are in place *)
Definition benign (s : ostate) (o : op) : Prop :=
  match o with
  | Recv p cfg nf m =>
      if cfg then True else
      match m with
      | MProto from to b _ => b = BGarbage \/ (to = None -> f05 fx = true)
      | MRespTree (Some tm) (Some ro) => benign_mk fx tm ro
      | MTreeMarshal tm => forall id t, lookup id (store s) = Some (Have t) -> benign_mk fx tm (t_roster t)
      | MReqRoster _ => f07 fx = true \/ existsb is_req (store s) = false
      | MRoster ro =>
          ro_id ro = 0 \/
          ((f08 fx = true \/ filter (fun tm => tm_roster tm =? ro_id ro) (ptm s) <> []) /\
           forall tm, In tm (ptm s) -> tm_roster tm = ro_id ro -> benign_mk fx tm ro)
      | _ => True
      end
  | _ => True
  end.

(* Overlay.Process: every envelope *)
Lemma process_returns : forall p cfg nf msg m,
  ready [] m -> benign (os m) (Recv p cfg nf msg) ->
  returns X (process fx p cfg nf msg) m (fun _ _ => True).
Proof.
  intros p cfg nf msg m R B. pose proof R as (C & Hh & Hi). unfold process. cbn [benign] in B.
  destruct cfg.
  { destruct msg; try (eapply returns_weaken; [apply ret_returns|auto]). apply handle_config_returns, R. }
  destruct msg as [from to b|id ver|tm ro|tm|rid|ro|d].
  - destruct b.
    + eapply returns_weaken; [apply transmit_returns; [exact R|]|auto]. destruct B as [B|B]; [discriminate|exact B].
    + eapply returns_weaken; [apply transmit_returns; [exact R|]|auto]. destruct B as [B|B]; [discriminate|exact B].
    + eapply returns_weaken; [apply ret_returns|auto].
  - eapply returns_weaken; [apply handle_request_tree_returns; [exact C|rewrite Hh; reflexivity]|auto].
  - eapply returns_weaken; [apply handle_send_tree_returns; [exact C|rewrite Hh; reflexivity|exact Hi|]|auto].
    intros tm' ro' -> ->. exact B.
  - apply handle_send_tree_marshal_returns; [exact R|exact B].
  - eapply returns_weaken; [apply handle_request_roster_returns; [exact C|rewrite Hh; reflexivity|exact B]|auto].
  - unfold handle_send_roster. destruct (ro_id ro =? 0) eqn:E0.
    + eapply returns_weaken; [apply ret_returns|auto].
    + destruct B as [B|(B1 & B2)]; [rewrite B in E0; discriminate|].
      apply check_pending_tm_returns; assumption.
  - eapply returns_weaken; [apply ret_returns|auto].
Qed.

End Fixed.

(* which tree ids an operation may give a new content *)
Definition touches (o : op) : perm :=
  match o with
  | LocalTree t => mkPerm (fun id => id = t_id t) (fun _ => False)
  | LocalDone k => mkPerm (fun _ => False) (fun k' => k' = k)
  | _ => noX
  end.

(* variants of the code that have the repairs F26 and F72 *)
Definition base_fixed (fx : fixes) : Prop := f26 fx = true /\ f72 fx = true.

Lemma benign_all_fixed : forall s o, benign all_fixed s o.
Proof.
  intros s [p cfg nf m|t|k]; cbn [benign]; auto.
  destruct cfg; [exact I|]. destruct m as [from to b|id ver|[tm|] [ro|]|tm|rid|ro|d]; cbn; auto.
  - unfold benign_mk. cbn. auto.
  - intros id t _. unfold benign_mk. cbn. auto.
  - right. split; [auto|]. intros tm _ _. unfold benign_mk. cbn. auto.
Qed.

Lemma run_op_returns : forall fx o m,
  base_fixed fx -> ready [] m -> benign fx (os m) o ->
  returns (touches o) (run_op fx o) m (fun _ _ => True).
Proof.
  intros fx o m (H26 & H72) R B. pose proof R as (C & Hh & Hi).
  destruct o as [p cfg nf msg|t|k]; cbn [run_op touches].
  - apply process_returns; assumption.
  - apply register_tree_returns; [exact R|reflexivity].
  - apply locked_returns; [exact C|rewrite Hh; reflexivity|intros a m0 H _; exact I|].
    eapply returns_weaken; [apply node_delete_returns|auto]; [exact C|cbn [held]; rewrite Hh; reflexivity|reflexivity|left; reflexivity].
Qed.

(* ---- Part 3: steps and histories ------------------------------------------------------------- *)

Definition Inv (s : ostate) : Prop := leaked s = [] /\ insts_have s.

Lemma init_inv : Inv init.
Proof. split; [reflexivity|]. split; [intros k []|intros id t H; discriminate H]. Qed.

Lemma set_leaked_nil : forall s, leaked s = [] -> set_leaked s (leaked s ++ []) = s.
Proof. intros [a b c d e f g h] H. cbn in *. subst h. reflexivity. Qed.

Lemma forallb_rev : forall A (f : A -> bool) l, forallb f (rev l) = forallb f l.
Proof.
  intros A f l. induction l as [|x r IH]; [reflexivity|].
  cbn [rev forallb]. rewrite forallb_app, IH. cbn [forallb]. rewrite andb_true_r. apply andb_comm.
Qed.

(* from a returning run of the operation to the step *)
Lemma step_of_returns : forall fx s o (Q : unit -> mst -> Prop),
  Inv s ->
  returns (touches o) (run_op fx o) (mkM s [] []) Q ->
  exists m', step fx s o = mkR (os m') (rev (evs m')) Ok /\
             ext (touches o) (mkM s [] []) m' /\ Q tt m'.
Proof.
  intros fx s o Q (Hl & Hi) ([] & m' & E & Hx & Hq). exists m'. split; [|auto].
  unfold step. rewrite E.
  rewrite (ext_held _ _ _ Hx). cbn [held].
  assert (L : leaked (os m') = []) by (rewrite (ext_leaked _ _ _ Hx); exact Hl).
  rewrite set_leaked_nil by exact L. reflexivity.
Qed.

(* one step of any variant with the repairs F26 and F72, outside the input classes of the
   crash / leak defects it still has *)
Theorem step_safe_gen : forall fx s o,
  base_fixed fx -> Inv s -> benign fx s o ->
  r_out (step fx s o) = Ok /\
  Inv (r_state (step fx s o)) /\
  disciplined (r_events (step fx s o)) = true /\
  (forall id t, ~ p_tree (touches o) id -> lookup id (store s) = Some (Have t) ->
                lookup id (store (r_state (step fx s o))) = Some (Have t)) /\
  (forall k, proto_known (tk_proto k) = true -> ~ p_fin (touches o) k ->
             mem_tok k (finished s) = false -> mem_tok k (finished (r_state (step fx s o))) = false).
Proof.
  intros fx s o Hfx I B. pose proof I as (Hl & Hi).
  destruct (step_of_returns fx s o (fun _ _ => True) I) as (m' & E & Hx & _).
  { apply run_op_returns; [exact Hfx|(split; [|split]; first [assumption|reflexivity])|exact B]. }
  rewrite E. cbn [r_out r_state r_events]. split; [reflexivity|]. split; [|split].
  - split; [rewrite (ext_leaked _ _ _ Hx); exact Hl|apply (ext_insts _ _ _ Hx), Hi].
  - unfold disciplined. rewrite forallb_rev. apply (ext_disc _ _ _ Hx). reflexivity.
  - split.
    + intros id t Hn Ht. apply (ext_keeps _ _ _ Hx); assumption.
    + intros k Hp Hn Hf. destruct (mem_tok k (finished (os m'))) eqn:Ef; [|reflexivity].
      apply mem_tok_In in Ef. destruct (ext_fin _ _ _ Hx k Hp Ef) as [H|H].
      * cbn [os] in H. apply mem_tok_In in H. congruence.
      * contradiction.
Qed.

Lemma all_fixed_base : base_fixed all_fixed.
Proof. repeat split. Qed.

Theorem step_safe : forall s o,
  Inv s ->
  r_out (step all_fixed s o) = Ok /\
  Inv (r_state (step all_fixed s o)) /\
  disciplined (r_events (step all_fixed s o)) = true /\
  (forall id t, ~ p_tree (touches o) id -> lookup id (store s) = Some (Have t) ->
                lookup id (store (r_state (step all_fixed s o))) = Some (Have t)).
Proof.
  intros s o I. destruct (step_safe_gen all_fixed s o all_fixed_base I (benign_all_fixed s o)) as (A & B & C & D & _).
  auto.
Qed.

Lemma run_cons : forall fx s o ops, run fx s (o :: ops) = run fx (r_state (step fx s o)) ops.
Proof. reflexivity. Qed.

(* a history every operation of which is outside the defect classes, in the state it meets *)
Fixpoint benign_hist (fx : fixes) (s : ostate) (ops : list op) : Prop :=
  match ops with
  | [] => True
  | o :: r => benign fx s o /\ benign_hist fx (r_state (step fx s o)) r
  end.

Lemma benign_hist_all_fixed : forall ops s, benign_hist all_fixed s ops.
Proof. induction ops as [|o r IH]; intros s; cbn; auto using benign_all_fixed. Qed.

Theorem trace_safe_gen : forall fx ops s,
  base_fixed fx -> Inv s -> benign_hist fx s ops ->
  Forall (fun r => r_out r = Ok /\ leaked (r_state r) = [] /\ disciplined (r_events r) = true)
         (trace fx s ops) /\
  Inv (run fx s ops).
Proof.
  intros fx ops. induction ops as [|o r IH]; intros s Hfx I B; cbn [trace].
  - split; [constructor|exact I].
  - destruct B as (Bo & Br).
    destruct (step_safe_gen fx s o Hfx I Bo) as (Ho & I' & D & _ & _).
    destruct (IH _ Hfx I' Br) as (F & I'').
    split; [|rewrite run_cons; exact I''].
    constructor; [|exact F]. split; [exact Ho|]. split; [apply I'|exact D].
Qed.

(* for every finite history of envelopes and local calls, from every state with no
   leaked mutex in which every listed instance has its tree: no step crashes or
   blocks, no mutex stays locked, every table access is made under its mutex *)
Theorem trace_safe : forall ops s,
  Inv s ->
  Forall (fun r => r_out r = Ok /\ leaked (r_state r) = [] /\ disciplined (r_events r) = true)
         (trace all_fixed s ops) /\
  Inv (run all_fixed s ops).
Proof.
  intros ops s I. apply trace_safe_gen; [apply all_fixed_base|exact I|apply benign_hist_all_fixed].
Qed.

(* the variant with F26 F71 F72 and none of the crash / leak repairs: the five crash / leak defects are confined to their
   input classes *)
Definition crash_unfixed : fixes := mkFixes false false false false true false true true.

Theorem crash_defects_confined : forall ops s,
  Inv s -> benign_hist crash_unfixed s ops ->
  Forall (fun r => r_out r = Ok /\ leaked (r_state r) = [] /\ disciplined (r_events r) = true)
         (trace crash_unfixed s ops) /\
  Inv (run crash_unfixed s ops).
Proof. intros ops s. apply trace_safe_gen. repeat split. Qed.

Example benign_hist_satisfiable :
  benign_hist crash_unfixed init
    [LocalTree (mkTree 1 (mkRo 1 [mkMem 1 true; mkMem 4 true; mkMem 2 true]) (TM 1 1 [TM 4 4 []; TM 2 2 []]));
     Recv 1 false false (MProto (Some (mkTok 1 1 1 0 90 1)) (Some (mkTok 1 1 1 0 90 4)) BPing 0);
     Recv 3 false false (MReqRoster 1);
     Recv 3 false false (MRespTree (Some (mkTMar 2 1 [TM 1 1 []])) (Some (mkRo 1 [mkMem 1 true])))].
Proof.
  vm_compute. repeat split; auto.
  - right. intros E. discriminate E.
  - right. intros E. discriminate E.
Qed.

(* a tree the server has is never changed by what peers send *)
Theorem known_tree_stays : forall ops s id t,
  Inv s ->
  (forall o, In o ops -> ~ p_tree (touches o) id) ->
  lookup id (store s) = Some (Have t) ->
  lookup id (store (run all_fixed s ops)) = Some (Have t).
Proof.
  induction ops as [|o r IH]; intros s id t I Hn Ht; [exact Ht|].
  rewrite run_cons. destruct (step_safe s o I) as (_ & I' & _ & K).
  apply IH; [exact I'| |].
  - intros o' Ho'. apply Hn. right. exact Ho'.
  - apply K; [apply Hn; left; reflexivity|exact Ht].
Qed.

(* reachable states *)
Corollary reachable_inv : forall ops, Inv (run all_fixed init ops).
Proof. intros ops. apply trace_safe, init_inv. Qed.

Definition only (f : nat) : fixes :=   (* every repair but one *)
  mkFixes (negb (f =? 5)) (negb (f =? 6)) (negb (f =? 7)) (negb (f =? 8)) (negb (f =? 26))
          (negb (f =? 70)) (negb (f =? 71)) (negb (f =? 72)).

(* variants with the five crash / leak repairs: every operation is outside the defect classes *)
Definition crash_fixed (fx : fixes) : Prop :=
  f05 fx = true /\ f06 fx = true /\ f07 fx = true /\ f08 fx = true /\ f70 fx = true.

Lemma benign_crash_fixed : forall fx s o, crash_fixed fx -> benign fx s o.
Proof.
  intros fx s [p cfg nf m|t|k] (F5 & F6 & F7 & F8 & F70); cbn [benign]; auto.
  destruct cfg; [exact I|]. destruct m as [from to b|id ver|[tm|] [ro|]|tm|rid|ro|d]; cbn; auto.
  - split; left; assumption.
  - intros id t _. split; left; assumption.
  - right. split; [auto|]. intros tm _ _. split; left; assumption.
Qed.

Lemma benign_hist_crash_fixed : forall fx ops s, crash_fixed fx -> benign_hist fx s ops.
Proof. intros fx ops. induction ops as [|o r IH]; intros s H; cbn; auto using benign_crash_fixed. Qed.

(* the code as it is now: every repair but F71 *)
Lemma current_base : base_fixed (only 71).
Proof. repeat split. Qed.
Lemma current_crash : crash_fixed (only 71).
Proof. repeat split. Qed.

Theorem current_code_safe : forall ops s,
  Inv s ->
  Forall (fun r => r_out r = Ok /\ leaked (r_state r) = [] /\ disciplined (r_events r) = true)
         (trace (only 71) s ops) /\
  Inv (run (only 71) s ops).
Proof.
  intros ops s I. apply trace_safe_gen; [apply current_base|exact I|apply benign_hist_crash_fixed, current_crash].
Qed.

Theorem known_tree_stays_gen : forall fx ops s id t,
  base_fixed fx -> crash_fixed fx -> Inv s ->
  (forall o, In o ops -> ~ p_tree (touches o) id) ->
  lookup id (store s) = Some (Have t) ->
  lookup id (store (run fx s ops)) = Some (Have t).
Proof.
  intros fx ops. induction ops as [|o r IH]; intros s id t HB HC I Hn Ht; [exact Ht|].
  rewrite run_cons.
  destruct (step_safe_gen fx s o HB I (benign_crash_fixed fx s o HC)) as (_ & I' & _ & K & _).
  apply IH; [exact HB|exact HC|exact I'| |].
  - intros o' Ho'. apply Hn. right. exact Ho'.
  - apply K; [apply Hn; left; reflexivity|exact Ht].
Qed.

(* peers cannot finish a run of the registered protocol: only the instance's own Done does *)
Definition is_done_of (k : token) (o : op) : Prop := o = LocalDone k.

Theorem legit_token_stays_unfinished : forall fx ops s k,
  base_fixed fx -> crash_fixed fx -> Inv s ->
  proto_known (tk_proto k) = true ->
  (forall o, In o ops -> o <> LocalDone k) ->
  mem_tok k (finished s) = false ->
  mem_tok k (finished (run fx s ops)) = false.
Proof.
  intros fx ops. induction ops as [|o r IH]; intros s k HB HC I Hp Hn Hf; [exact Hf|].
  rewrite run_cons.
  destruct (step_safe_gen fx s o HB I (benign_crash_fixed fx s o HC)) as (_ & I' & _ & _ & F).
  apply IH; try assumption.
  - intros o' Ho'. apply Hn. right. exact Ho'.
  - apply F; [exact Hp| |exact Hf].
    intros Hfin. apply (Hn o (or_introl eq_refl)).
    destruct o as [p c nf m|t|k']; cbn [touches p_fin noX] in Hfin; try contradiction. subst k'. reflexivity.
Qed.

(* ---- Part 4: the next legitimate operation is served ------------------------------------------ *)

Lemma In_rev_iff : forall A (x : A) l, In x (rev l) <-> In x l.
Proof. intros. symmetry. apply in_rev. Qed.

Section Serves.
(* any variant with the repairs F26, F72 and the five crash / leak repairs: in particular
   the code as it is now ([only 71]) and the fully repaired model *)
Variable fx : fixes.
Hypothesis HB : base_fixed fx.
Hypothesis HC : crash_fixed fx.

Theorem serves_tree_request : forall s p nf id ver t,
  Inv s -> lookup id (store s) = Some (Have t) -> reachable p = true ->
  let r := step fx s (Recv p false nf (MReqTree id ver)) in
  r_out r = Ok /\
  In (ESend p (if ver =? 0 then RTreeMarshal (t_id t) (ro_id (t_roster t)) (root_node t)
               else RRespTree (t_id t) (ro_id (t_roster t)) (root_node t))) (r_events r).
Proof using HB HC.
  intros s p nf id ver t I Ht Hr. pose proof I as (Hl & Hi).
  edestruct (step_of_returns fx s (Recv p false nf (MReqTree id ver))) as (m' & E & Hx & Hq); [exact I| |].
  { cbn [run_op process touches]. apply handle_request_tree_returns; [exact Hl|reflexivity]. }
  cbn zeta. rewrite E. cbn [r_out r_events]. split; [reflexivity|].
  apply In_rev_iff. apply (Hq t); assumption.
Qed.

Theorem serves_roster_request : forall s p nf rid i t,
  Inv s -> In (i, Have t) (store s) -> ro_id (t_roster t) = rid -> reachable p = true ->
  let r := step fx s (Recv p false nf (MReqRoster rid)) in
  r_out r = Ok /\ In (ESend p (RRoster rid)) (r_events r).
Proof using HB HC.
  intros s p nf rid i t I Hin Hro Hr. pose proof I as (Hl & Hi).
  edestruct (step_of_returns fx s (Recv p false nf (MReqRoster rid))) as (m' & E & Hx & Hq); [exact I| |].
  { cbn [run_op process touches]. apply handle_request_roster_returns; [exact Hl|reflexivity|left; apply HC]. }
  cbn zeta. rewrite E. cbn [r_out r_events]. split; [reflexivity|].
  apply In_rev_iff. specialize (Hq Hr). cbn [os] in Hq.
  destruct (find (has_roster rid) (store s)) as [[j e]|] eqn:Ef.
  - apply find_some in Ef as (_ & Hh). unfold has_roster in Hh. cbn [snd] in Hh.
    destruct e as [asked|t']; [discriminate|]. apply Nat.eqb_eq in Hh. rewrite Hh in Hq. exact Hq.
  - exfalso. pose proof (find_none _ _ Ef _ Hin) as Hn. unfold has_roster in Hn. cbn [snd] in Hn.
    rewrite Hro, Nat.eqb_refl in Hn. discriminate.
Qed.

(* a protocol message of a legitimate run on a stored tree reaches the handler *)
Theorem serves_protocol_message : forall s p nf d from k t f,
  Inv s -> lookup (tk_tree k) (store s) = Some (Have t) ->
  will_deliver s t (mkP p from k BPing) f ->
  let r := step fx s (Recv p false nf (MProto from (Some k) BPing d)) in
  r_out r = Ok /\ In (EDeliver k (tk_node f)) (r_events r).
Proof using HB HC.
  intros s p nf d from k t f I Ht W. pose proof I as (Hl & Hi).
  edestruct (step_of_returns fx s (Recv p false nf (MProto from (Some k) BPing d))) as (m' & E & Hx & Hq); [exact I| |].
  { cbn [run_op process touches]. apply transmit_returns; [(split; [|split]; first [assumption|reflexivity])|discriminate]. }
  cbn zeta. rewrite E. cbn [r_out r_events]. split; [reflexivity|].
  apply In_rev_iff. destruct (Hq k eq_refl) as (Hd & _). apply (Hd t f); assumption.
Qed.

(* ... on a tree the server does not have: the message is parked and its sender is
   asked for the tree (also when the tree was requested before from other peers) *)
Theorem asks_sender_for_tree : forall s p nf d from k b,
  Inv s -> b <> BGarbage -> reachable p = true ->
  (lookup (tk_tree k) (store s) = None \/
   (f71 fx = true /\
    exists asked, lookup (tk_tree k) (store s) = Some (Req asked) /\ mem_nat p asked = false)) ->
  let r := step fx s (Recv p false nf (MProto from (Some k) b d)) in
  r_out r = Ok /\
  In (ESend p (RReqTree (tk_tree k))) (r_events r) /\
  In (mkP p from k b) (parked (r_state r)) /\
  exists asked', lookup (tk_tree k) (store (r_state r)) = Some (Req asked').
Proof using HB HC.
  intros s p nf d from k b I Hb Hr Hs. pose proof I as (Hl & Hi).
  edestruct (step_of_returns fx s (Recv p false nf (MProto from (Some k) b d))) as (m' & E & Hx & Hq); [exact I| |].
  { cbn [run_op process touches].
    destruct b; [| |contradiction]; (apply transmit_returns; [(split; [|split]; first [assumption|reflexivity])|discriminate]). }
  cbn zeta. rewrite E. cbn [r_out r_events r_state]. split; [reflexivity|].
  assert (Hq' : forall k0, Some k = Some k0 -> _) by (destruct b; [exact Hq|exact Hq|contradiction]).
  destruct (Hq' k eq_refl) as (_ & Hp).
  destruct Hp as (Hpark & Hask).
  { intros t Ht. cbn [os] in Ht. destruct Hs as [Hs|(_ & a & Hs & _)]; rewrite Hs in Ht; discriminate. }
  destruct (Hask Hr Hs) as (Hsend & Hreq).
  split; [apply In_rev_iff; exact Hsend|]. split; assumption.
Qed.

(* ... and when the requested tree arrives, the parked message reaches the handler and
   the tree is stored as it was sent *)
Theorem serves_after_tree_arrives : forall s p nf tm ro t pm f asked,
  Inv s -> tm_tree tm <> 0 -> make_tree fx tm ro = MTOk t ->
  lookup (t_id t) (store s) = Some (Req asked) ->
  filter (fun pm => tk_tree (p_to pm) =? t_id t) (parked s) = [pm] ->
  will_deliver s t pm f ->
  let r := step fx s (Recv p false nf (MRespTree (Some tm) (Some ro))) in
  r_out r = Ok /\
  lookup (t_id t) (store (r_state r)) = Some (Have t) /\
  In (EDeliver (p_to pm) (tk_node f)) (r_events r).
Proof using HB HC.
  intros s p nf tm ro t pm f asked I Hz Hm Hreq Hf W. pose proof I as (Hl & Hi).
  edestruct (step_of_returns fx s (Recv p false nf (MRespTree (Some tm) (Some ro)))) as (m' & E & Hx & Hq); [exact I| |].
  { cbn [run_op process touches].
    apply handle_send_tree_returns; try reflexivity; [apply HB|exact Hl|exact Hi|].
    intros tm' ro' _ _. destruct HC as (_ & F6 & _ & _ & F70). split; left; assumption. }
  cbn zeta. rewrite E. cbn [r_out r_events r_state]. split; [reflexivity|].
  destruct (Hq tm ro t pm f eq_refl eq_refl Hz Hm (ex_intro _ asked Hreq) Hf W) as (Hs & Hd).
  split; [apply Hs; intros []|apply In_rev_iff; exact Hd].
Qed.

(* after ANY history of peer messages and local calls that neither is the run's own Done nor a
   service re-registering its tree: a legitimate message of a run of the registered protocol
   (token not finished before, addressed to a node of the stored tree, sent by the server of a
   node of that tree) reaches the handler. Peers cannot finish, forge away or wedge it. *)
Theorem still_serves_after_any_history : forall ops s p nf d from k t f,
  Inv s -> lookup (tk_tree k) (store s) = Some (Have t) ->
  mem_tok k (finished s) = false -> search t (tk_node k) <> None -> proto_known (tk_proto k) = true ->
  deliverable t p from BPing f ->
  (forall o, In o ops -> ~ p_tree (touches o) (tk_tree k) /\ o <> LocalDone k) ->
  let r := step fx (run fx s ops) (Recv p false nf (MProto from (Some k) BPing d)) in
  r_out r = Ok /\ In (EDeliver k (tk_node f)) (r_events r).
Proof using HB HC.
  intros ops s p nf d from k t f I Ht Hf Hs Hp Hd Hops.
  apply serves_protocol_message with (t := t).
  - apply trace_safe_gen; [exact HB|exact I|apply benign_hist_crash_fixed, HC].
  - apply known_tree_stays_gen; try assumption. intros o Ho. apply Hops, Ho.
  - split; [|split; [right; split; assumption|exact Hd]].
    cbn [p_to]. apply legit_token_stays_unfinished; try assumption. intros o Ho. apply Hops, Ho.
Qed.

End Serves.

(* accepting a message is one critical section with the closing-check: once an instance
   is closed (Done -> nodeDelete marks the token finished) no message is queued for it and
   its reader is never woken again -- a wake-up never follows the close *)
Lemma no_wakeup_after_close : forall pm t s ev,
  leaked s = [] -> mem_tok (p_to pm) (finished s) = true ->
  exists m', deliver_hit pm t (mkM s [] ev) = Ret tt m' /\
             forall k f, In (EDeliver k f) (evs m') -> In (EDeliver k f) ev.
Proof.
  intros pm t [st rm ins fin pk pt cf lkd] ev Hl Hf. cbn in Hl, Hf. subst lkd.
  unfold deliver_hit, locked, clean_tree_storage, st_remove, with_store, sf_remove, bind, acquire, release, access, get, modify, ret.
  cbn. rewrite Hf. cbn.
  destruct (existsb (uses_tree (tk_tree (p_to pm))) ins); cbn.
  - eexists. split; [reflexivity|]. cbn. intros k f H. repeat (destruct H as [H|H]; [discriminate|]). exact H.
  - destruct (mem_nat (tk_tree (p_to pm)) rm); cbn; (eexists; split; [reflexivity|]); cbn; intros k f H;
      repeat (destruct H as [H|H]; [discriminate|]); exact H.
Qed.

Lemma done_marks_finished : forall fx s k,
  leaked s = [] -> mem_tok k (insts s) = true ->
  r_out (step fx s (LocalDone k)) = Ok /\
  mem_tok k (finished (r_state (step fx s (LocalDone k)))) = true.
Proof.
  intros fx [st rm ins fin pk pt cf lkd] k Hl Hi. cbn in Hl, Hi. subst lkd.
  unfold step, run_op, locked, node_delete, clean_tree_storage, st_remove, with_store, sf_remove,
    bind, acquire, release, access, get, modify, ret.
  cbn. rewrite Hi. cbn.
  destruct (existsb (uses_tree (tk_tree k)) (filter (fun x => negb (tok_eqb x k)) ins)); cbn;
    [|destruct (mem_nat (tk_tree k) rm); cbn];
    (split; [reflexivity|]; unfold tok_eqb; rewrite ?Nat.eqb_refl; reflexivity).
Qed.

(* the type a peer declares in the ProtocolMsg plays no role: the handler is chosen by the type
   of the decoded message *)
Lemma declared_type_ignored : forall fx s p c nf from to b d d',
  step fx s (Recv p c nf (MProto from to b d)) = step fx s (Recv p c nf (MProto from to b d')).
Proof. reflexivity. Qed.

(* ---- Part 5: the unrepaired variants -------------------------------------------------------- *)

(* the genuine roster (servers 1, 4 = this server, 2) and trees of the harness *)
Definition roG : roster := mkRo 1 [mkMem 1 true; mkMem 4 true; mkMem 2 true].
Definition T1 : stree := mkTree 1 roG (TM 1 1 [TM 4 4 []; TM 2 2 []]).
Definition tm2 : tmarshal := mkTMar 2 1 [TM 1 1 [TM 4 4 [TM 2 2 []]]].
Definition T2 : stree := mkTree 2 roG (TM 1 1 [TM 4 4 [TM 2 2 []]]).
Definition roH : roster := mkRo 5 [mkMem 3 true].
Definition kx (tree round : nat) : token := mkTok 1 tree 1 0 round 4.
Definition kfrom (tree round node : nat) : token := mkTok 1 tree 1 0 round node.
Definition ping (p tree round from : nat) : op :=
  Recv p false false (MProto (Some (kfrom tree round from)) (Some (kx tree round)) BPing 0).

Definition outs (fx : fixes) (ops : list op) : list outcome := map r_out (trace fx init ops).

(* F05: one message without destination token *)
Lemma f05_refuted :
  exists ops, In (Crashed CNilTo) (outs (only 5) ops) /\ ~ In (Crashed CNilTo) (outs all_fixed ops).
Proof.
  exists [Recv 3 false false (MProto (Some (kfrom 1 20 1)) None BPing 0)].
  vm_compute. split; [auto|]. intros [H|[]]. discriminate.
Qed.

(* F06: an empty description for a requested tree *)
Lemma f06_refuted :
  exists ops, In (Crashed CNoChildren) (outs (only 6) ops) /\ outs all_fixed ops = [Ok; Ok].
Proof.
  exists [ping 1 2 12 1; Recv 3 false false (MRespTree (Some (mkTMar 2 1 [])) (Some roG))].
  vm_compute. auto.
Qed.

(* ... also through the deprecated pair, where the panic leaves pendingTreeLock locked *)
Lemma f06_deprecated_refuted :
  exists ops, In (Crashed CNoChildren) (outs (only 6) ops) /\
              leaked (run (only 6) init ops) = [LPTree] /\ outs all_fixed ops = [Ok; Ok; Ok].
Proof.
  exists [ping 1 2 12 1; Recv 3 false false (MTreeMarshal (mkTMar 2 5 [])); Recv 3 false false (MRoster roH)].
  vm_compute. auto.
Qed.

(* F07: a roster request while a tree is requested *)
Lemma f07_refuted :
  exists ops, In (Crashed CNilTreeInStore) (outs (only 7) ops) /\ outs all_fixed ops = [Ok; Ok].
Proof.
  exists [ping 1 2 12 1; Recv 3 false false (MReqRoster 9)].
  vm_compute. auto.
Qed.

(* F08: a roster nobody waits for; the next one never returns *)
Lemma f08_refuted :
  exists ops, leaked (run (only 8) init ops) = [LPTree] /\
              outs (only 8) (ops ++ ops) = [Ok; Wedged LPTree] /\
              outs all_fixed (ops ++ ops) = [Ok; Ok].
Proof.
  exists [Recv 3 false false (MRoster roH)]. vm_compute. auto.
Qed.

(* F26: the instance table is read without its mutex *)
Lemma f26_refuted :
  exists ops, existsb (fun r => negb (disciplined (r_events r))) (trace (only 26) init ops) = true /\
              existsb (fun r => negb (disciplined (r_events r))) (trace all_fixed init ops) = false.
Proof.
  exists [ping 1 2 12 1; Recv 3 false false (MTreeMarshal (mkTMar 2 5 [TM 3 3 []]))].
  vm_compute. auto.
Qed.

(* F70: a roster member without public key *)
Lemma f70_refuted :
  exists ops, In (Crashed CNilPublic) (outs (only 70) ops) /\ outs all_fixed ops = [Ok; Ok].
Proof.
  exists [ping 1 2 12 1;
          Recv 3 false false (MRespTree (Some tm2) (Some (mkRo 1 [mkMem 1 true; mkMem 4 true; mkMem 2 false])))].
  vm_compute. auto.
Qed.

(* F71: a silent peer's message for a tree keeps the legitimate sender from being asked *)
Lemma f71_refuted :
  exists ops o, r_out (step (only 71) (run (only 71) init ops) o) = Ok /\
                sent 2 (RReqTree 3) (r_events (step (only 71) (run (only 71) init ops) o)) = false /\
                sent 2 (RReqTree 3) (r_events (step all_fixed (run all_fixed init ops) o)) = true.
Proof.
  exists [ping 3 3 20 2], (ping 2 3 92 2). vm_compute. auto.
Qed.

(* F72: a peer's description replaces a tree the server has; the legitimate run is dropped *)
Lemma f72_refuted :
  exists ops o, lookup 1 (store (run (only 72) init ops)) <> Some (Have T1) /\
                delivered (kx 1 90) (r_events (step (only 72) (run (only 72) init ops) o)) = false /\
                lookup 1 (store (run all_fixed init ops)) = Some (Have T1) /\
                delivered (kx 1 90) (r_events (step all_fixed (run all_fixed init ops) o)) = true.
Proof.
  exists [LocalTree T1; Recv 3 false false (MRespTree (Some (mkTMar 1 5 [TM 3 3 []])) (Some roH))], (ping 1 1 90 1).
  vm_compute. split; [discriminate|auto].
Qed.

(* F72, the deprecated pair with the roster arriving late: a forged description of an awaited
   tree is queued, the genuine tree arrives, then the roster of the forged one. The current code
   ([only 71]) skips the queued description (its tree is present); without F72 it replaces the
   genuine tree and the run that needs it is dropped. *)
Definition late_roster_ops : list op :=
  [ping 1 2 12 1;
   Recv 3 false false (MTreeMarshal (mkTMar 2 5 [TM 3 3 []]));
   Recv 1 false false (MRespTree (Some tm2) (Some roG));
   Recv 3 false false (MRoster roH)].

Lemma late_roster_keeps_tree :
  lookup 2 (store (run (only 71) init late_roster_ops)) = Some (Have T2) /\
  delivered (kx 2 91) (r_events (step (only 71) (run (only 71) init late_roster_ops) (ping 1 2 91 1))) = true /\
  ptm (run (only 71) init late_roster_ops) = [] /\
  lookup 2 (store (run (only 72) init late_roster_ops)) <> Some (Have T2) /\
  delivered (kx 2 91) (r_events (step (only 72) (run (only 72) init late_roster_ops) (ping 1 2 91 1))) = false.
Proof. vm_compute. repeat split; auto. discriminate. Qed.

(* Two runs on one tree, one finished and one still running; a late (replayed) message for
   the finished run; then the grace period of the tree store elapses ([elapse]). The branch
   "instance already finished" of TransmitMsg re-arms the removal through cleanTreeStorage,
   i.e. only when no live instance uses the tree: nothing is scheduled, the tree survives
   the timeout, a tree request is answered and the running instance gets its messages. *)
Definition late_done_ops : list op :=
  [LocalTree T1; ping 1 1 10 1; ping 1 1 11 1; LocalDone (kx 1 10); ping 1 1 10 1].

Lemma late_message_keeps_live_tree :
  let s := run (only 71) init late_done_ops in
  removal s = [] /\
  lookup 1 (store (elapse s)) = Some (Have T1) /\
  sent 3 (RRespTree 1 1 1) (r_events (step (only 71) (elapse s) (Recv 3 false false (MReqTree 1 1)))) = true /\
  delivered (kx 1 11) (r_events (step (only 71) (elapse s) (ping 1 1 11 1))) = true /\
  (* the late message alone (no other run on the tree) does schedule the removal: the tree
     of a finished run is forgotten after the grace period, as intended *)
  removal (run (only 71) init [LocalTree T1; ping 1 1 10 1; LocalDone (kx 1 10); ping 1 1 10 1]) = [1] /\
  lookup 1 (store (elapse (run (only 71) init [LocalTree T1; ping 1 1 10 1; LocalDone (kx 1 10); ping 1 1 10 1]))) = None.
Proof. vm_compute. repeat split; auto. Qed.

Lemma elapse_clears_removal : forall s, removal (elapse s) = [].
Proof. intros s. reflexivity. Qed.

Lemma elapse_nothing_scheduled : forall s, removal s = [] -> store (elapse s) = store s.
Proof. intros s Hr. unfold elapse. rewrite Hr. reflexivity. Qed.

(* F73 (recorded, not repaired): the first answer to a pending tree request wins, whatever it
   contains; the root's answer is then ignored and the run that parked its message is dropped *)
Lemma f73_forged_requested_tree :
  exists ops, lookup 2 (store (run all_fixed init ops)) <> Some (Have T2) /\
              existsb (fun r => delivered (kx 2 12) (r_events r)) (trace all_fixed init ops) = false /\
              outs all_fixed ops = [Ok; Ok; Ok].
Proof.
  exists [ping 1 2 12 1;
          Recv 3 false false (MRespTree (Some (mkTMar 2 5 [TM 3 3 []])) (Some roH));
          Recv 1 false false (MRespTree (Some tm2) (Some roG))].
  vm_compute. split; [discriminate|auto].
Qed.

(* the same history without the forged answer is served (hypotheses of the theorems of Part 4 are satisfiable) *)
Example served_when_unforged :
  existsb (fun r => delivered (kx 2 12) (r_events r))
          (trace all_fixed init [ping 1 2 12 1; Recv 1 false false (MRespTree (Some tm2) (Some roG))]) = true /\
  lookup 2 (store (run all_fixed init [ping 1 2 12 1; Recv 1 false false (MRespTree (Some tm2) (Some roG))])) = Some (Have T2).
Proof. vm_compute. auto. Qed.

Example will_deliver_example :
  will_deliver (run all_fixed init [LocalTree T1]) T1 (mkP 1 (Some (kfrom 1 90 1)) (kx 1 90) BPing) (kfrom 1 90 1).
Proof.
  repeat split; try reflexivity.
  - right. split; [discriminate|reflexivity].
  - exists 1. split; reflexivity.
Qed.

(* the pinned code (no repair at all): the whole corpus of witnesses at once *)
Lemma pinned_code_refuted :
  In (Crashed CNilTo) (outs none_fixed [Recv 3 false false (MProto (Some (kfrom 1 20 1)) None BPing 0)]) /\
  In (Crashed CNoChildren) (outs none_fixed [ping 1 2 12 1; Recv 3 false false (MRespTree (Some (mkTMar 2 1 [])) (Some roG))]) /\
  In (Crashed CNilTreeInStore) (outs none_fixed [ping 1 2 12 1; Recv 3 false false (MReqRoster 9)]) /\
  leaked (run none_fixed init [Recv 3 false false (MRoster roH)]) = [LPTree].
Proof. vm_compute. auto 10. Qed.
