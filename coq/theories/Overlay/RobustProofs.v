(* C07 proofs (placeholder during pipeline bring-up) *)
From Coq Require Import List Arith Bool Lia.
Import ListNotations.
From Onet Require Import Overlay.Robust.

Lemma init_clean : leaked init = [].
Proof. reflexivity. Qed.
