(* C06 -- proofs about Overlay/TreeCtl.v: which trees a server stores, over every
   history of local operations and peer messages. *)
From Coq Require Import List Arith Bool Lia.
Import ListNotations.
From Onet Require Import Tree.TreeMarshal Tree.TreeMarshalProofs Overlay.TreeCtl.

(* ---------- association lists ---------------------------------------------------------- *)

Lemma lookup_update : forall A (l : list (nat * A)) k v k',
  lookup (update l k v) k' = if k =? k' then Some v else lookup l k'.
Proof.
  induction l as [|[k0 v0] r IH]; intros k v k'; cbn.
  - destruct (k =? k'); reflexivity.
  - destruct (k0 =? k) eqn:E; cbn.
    + apply Nat.eqb_eq in E. subst k0. destruct (k =? k'); reflexivity.
    + rewrite IH. destruct (k0 =? k') eqn:E'; [|reflexivity].
      apply Nat.eqb_eq in E'. subst k0. rewrite Nat.eqb_sym, E. reflexivity.
Qed.

Lemma lookup_remove_key : forall A (l : list (nat * A)) k k',
  lookup (remove_key l k) k' = if k =? k' then None else lookup l k'.
Proof.
  induction l as [|[k0 v0] r IH]; intros k k'; cbn.
  - destruct (k =? k'); reflexivity.
  - destruct (k0 =? k) eqn:E; cbn.
    + apply Nat.eqb_eq in E. subst k0. rewrite IH. destruct (k =? k'); reflexivity.
    + rewrite IH. destruct (k0 =? k') eqn:E'; [|reflexivity].
      apply Nat.eqb_eq in E'. subst k0. rewrite Nat.eqb_sym, E. reflexivity.
Qed.

Section Proofs.
Variable G : Type.
Variable gadd : G -> G -> G.

Notation stree := (stree G).
Notation roster := (roster G).
Notation cst := (cst G).
Notation op := (op G).

(* ---------- register_tree ------------------------------------------------------------------ *)

Lemma register_store : forall (s : cst) (t : stree) k,
  lookup (c_store (register_tree s t)) k =
  if t_id t =? k then Some (Some t) else lookup (c_store s) k.
Proof. intros. unfold register_tree. cbn. apply lookup_update. Qed.

Lemma register_pend : forall (s : cst) (t : stree), c_pend (register_tree s t) = c_pend s.
Proof. reflexivity. Qed.

Lemma register_plock : forall (s : cst) (t : stree), c_plock (register_tree s t) = c_plock s.
Proof. reflexivity. Qed.

Lemma tree_state_absent : forall (s : cst) tid,
  tree_state s tid = Absent <-> lookup (c_store s) tid = None.
Proof.
  intros. unfold tree_state. destruct (lookup (c_store s) tid) as [[t|]|]; split; congruence.
Qed.

Lemma tree_state_requested : forall (s : cst) tid,
  tree_state s tid = Requested <-> lookup (c_store s) tid = Some None.
Proof.
  intros. unfold tree_state. destruct (lookup (c_store s) tid) as [[t|]|]; split; congruence.
Qed.

(* ---------- handle_send_tree, case analysis --------------------------------------------------- *)

Lemma handle_send_tree_cases : forall fx (s : cst) otm oro s' oc,
  handle_send_tree gadd fx s otm oro = (s', oc) ->
  s' = s \/
  exists tm ro t,
    otm = Some tm /\ oro = Some ro /\ oc = Fine /\
    make_tree gadd (fix_f06 fx) (fix_n2 fx) tm (Some ro) = Ok t /\
    s' = register_tree s t /\ t_id t = tm_tid tm /\
    tree_state s (tm_tid tm) <> Absent /\
    (fix_n1 fx = true -> tree_state s (tm_tid tm) = Requested).
Proof.
  intros fx s otm oro s' oc H. unfold handle_send_tree in H.
  destruct otm as [tm|]; [|inversion H; auto].
  destruct (tm_tid tm =? 0); [inversion H; auto|].
  destruct oro as [ro|]; [|inversion H; auto].
  destruct (tree_state s (tm_tid tm)) eqn:Ets; cbn [negb] in H.
  - inversion H; auto.
  - destruct (make_tree gadd (fix_f06 fx) (fix_n2 fx) tm (Some ro)) as [t| |] eqn:Em;
      inversion H; subst; auto.
    right. exists tm, ro, t. repeat split; auto.
    + apply make_tree_ok_inv in Em as (ro' & c & rest & n & _ & _ & _ & _ & ->). reflexivity.
    + congruence.
  - destruct (fix_n1 fx) eqn:En; cbn [negb] in H; [inversion H; auto|].
    destruct (make_tree gadd (fix_f06 fx) (fix_n2 fx) tm (Some ro)) as [t| |] eqn:Em;
      inversion H; subst; auto.
    right. exists tm, ro, t. repeat split; auto.
    + apply make_tree_ok_inv in Em as (ro' & c & rest & n & _ & _ & _ & _ & ->). reflexivity.
    + congruence.
    + discriminate.
Qed.

(* ---------- make_pending, induction principle ----------------------------------------------------- *)

Lemma make_pending_ind : forall (P : cst -> Prop) fx ro sl (s : cst),
  P s ->
  (forall s0 m t, P s0 -> In m sl ->
     make_tree gadd (fix_f06 fx) (fix_n2 fx) m (Some ro) = Ok t ->
     (fix_n1 fx = true -> tree_state s0 (tm_tid m) <> Present) ->
     P (register_tree s0 t)) ->
  P (fst (make_pending gadd fx s sl ro)).
Proof.
  intros P fx ro sl. induction sl as [|m r IH]; intros s Hs Hreg; cbn [make_pending]; [exact Hs|].
  destruct (fix_n1 fx && match tree_state s (tm_tid m) with Present => true | _ => false end) eqn:Eskip.
  - apply IH; [exact Hs|]. intros. eapply Hreg; eauto. right; auto.
  - destruct (make_tree gadd (fix_f06 fx) (fix_n2 fx) m (Some ro)) as [t| |] eqn:Em.
    + apply IH.
      * eapply Hreg; eauto; [left; reflexivity|].
        intros Hn. rewrite Hn in Eskip. cbn in Eskip.
        destruct (tree_state s (tm_tid m)); cbn in Eskip; congruence.
      * intros. eapply Hreg; eauto. right; auto.
    + apply IH; [exact Hs|]. intros. eapply Hreg; eauto. right; auto.
    + exact Hs.
Qed.

(* ---------- weak form: only ids this server ever asked for or registered --------------------------- *)

Definition Inv (A : list nat) (s : cst) : Prop :=
  (forall tid v, lookup (c_store s) tid = Some v -> In tid A) /\
  (forall rid l m, lookup (c_pend s) rid = Some l -> In m l -> In (tm_tid m) A).

Lemma Inv_mono : forall A A' s, Inv A s -> incl A A' -> Inv A' s.
Proof.
  intros A A' s [H1 H2] Hi. split.
  - intros tid v H. apply Hi. eauto.
  - intros rid l m H Hm. apply Hi. eauto.
Qed.

Lemma Inv_register : forall A (s : cst) (t : stree),
  Inv A s -> In (t_id t) A -> Inv A (register_tree s t).
Proof.
  intros A s t [H1 H2] Hin. split.
  - intros tid v H. rewrite register_store in H.
    destruct (t_id t =? tid) eqn:E; [apply Nat.eqb_eq in E; subst; exact Hin|eauto].
  - intros rid l m H Hm. rewrite register_pend in H. eauto.
Qed.

Lemma state_in : forall A (s : cst) tid, Inv A s -> tree_state s tid <> Absent -> In tid A.
Proof.
  intros A s tid [H1 _] Hne. destruct (lookup (c_store s) tid) eqn:E; [eauto|].
  exfalso. apply Hne. apply tree_state_absent. exact E.
Qed.

Lemma Inv_step : forall fx A (s : cst) (o : op) s' outs oc,
  Inv A s -> step gadd fx s o = (s', outs, oc) -> Inv (A ++ asks o) s'.
Proof.
  intros fx A s o s' outs oc HI Hst.
  assert (HI' : Inv (A ++ asks o) s) by (eapply Inv_mono; [exact HI|apply incl_appl, incl_refl]).
  destruct o as [t|t|tid|tid nid sendok|tid|tid ver|otm oro|tm pick|rid nf|ro]; cbn [step asks] in *.
  - (* LRegister *) inversion Hst; subst. apply Inv_register; [exact HI'|]. apply in_or_app. right. left. reflexivity.
  - (* LCreate *)
    destruct (t_ro t); inversion Hst; subst; [|exact HI'].
    apply Inv_register; [|apply in_or_app; right; left; reflexivity].
    destruct HI' as [H1 H2]. split; cbn; eauto.
  - (* LDone *) inversion Hst; subst. rewrite app_nil_r in *. destruct HI' as [H1 H2]. split; cbn; eauto.
  - (* LMsg *)
    destruct HI' as [H1 H2].
    destruct (lookup (c_store s) tid) as [[t|]|] eqn:El.
    + destruct (find_node (t_root t) nid); inversion Hst; subst; split; cbn; eauto.
    + inversion Hst; subst; split; cbn; eauto.
    + destruct sendok; inversion Hst; subst; split; cbn; eauto.
      intros tid' v H. rewrite lookup_update in H.
      destruct (tid =? tid') eqn:E; [apply Nat.eqb_eq in E; subst; apply in_or_app; right; left; reflexivity|eauto].
  - (* Expire *)
    rewrite app_nil_r in *. destruct HI' as [H1 H2].
    destruct (mem tid (c_insts s)); inversion Hst; subst; split; cbn; eauto.
    intros tid' v H. rewrite lookup_remove_key in H. destruct (tid =? tid'); [discriminate|eauto].
  - (* PRequestTree *)
    rewrite app_nil_r in *. destruct (get_tree s tid); [destruct (ver =? 0)|]; inversion Hst; subst; exact HI'.
  - (* PResponseTree *)
    rewrite app_nil_r in *.
    destruct (handle_send_tree gadd fx s otm oro) as [s1 oc1] eqn:Eh. inversion Hst; subst.
    apply handle_send_tree_cases in Eh as [->|(tm & ro & t & _ & _ & _ & _ & -> & Hid & Hne & _)]; [exact HI'|].
    apply Inv_register; [exact HI'|]. rewrite Hid. eapply state_in; eauto.
  - (* PTreeMarshal *)
    rewrite app_nil_r in *.
    destruct (tm_tid tm =? 0); [inversion Hst; subst; exact HI'|].
    destruct (negb match tree_state s (tm_tid tm) with
                   | Absent => false | Requested => true | Present => negb (fix_n1 fx) end) eqn:Eaw;
      [inversion Hst; subst; exact HI'|].
    assert (Hin : In (tm_tid tm) A).
    { eapply state_in; [exact HI|]. intros Habs. rewrite Habs in Eaw. discriminate. }
    destruct (inst_roster s (c_insts s) (tm_rid tm) pick) as [[ro|]| |]; try (inversion Hst; subst; exact HI').
    all: try (destruct (handle_send_tree gadd fx s (Some tm) (Some ro)) as [s1 oc1] eqn:Eh; inversion Hst; subst;
              apply handle_send_tree_cases in Eh as [->|(tm' & ro' & t & _ & _ & _ & _ & -> & Hid & Hne & _)]; [exact HI'|];
              apply Inv_register; [exact HI'|]; rewrite Hid; eapply state_in; eauto).
    all: destruct (c_plock s); inversion Hst; subst; try exact HI'.
    all: destruct HI' as [H1 H2]; split; cbn; eauto.
    all: intros rid l m H Hm; rewrite lookup_update in H.
    all: destruct (tm_rid tm =? rid); [|eauto].
    all: inversion H; subst l; apply in_app_or in Hm as [Hm|[<-|[]]]; [|exact Hin].
    all: destruct (lookup (c_pend s) (tm_rid tm)) eqn:El; [eauto|destruct Hm].
  - (* PRequestRoster *)
    rewrite app_nil_r in *.
    match type of Hst with (if ?c then _ else _) = _ => destruct c end; inversion Hst; subst; exact HI'.
  - (* PRoster *)
    rewrite app_nil_r in *.
    destruct (r_id ro =? 0); [inversion Hst; subst; exact HI'|].
    destruct (c_plock s); [inversion Hst; subst; exact HI'|].
    destruct (lookup (c_pend s) (r_id ro)) as [sl|] eqn:El.
    2:{ destruct (fix_f08 fx); inversion Hst; subst; [exact HI'|]. destruct HI' as [H1 H2]. split; cbn; eauto. }
    set (s0 := if fix_n1 fx then set_pend s (remove_key (c_pend s) (r_id ro)) else s) in *.
    assert (HI0 : Inv A s0).
    { subst s0. destruct (fix_n1 fx); [|exact HI']. destruct HI' as [H1 H2]. split; cbn; eauto.
      intros rid l m H Hm. rewrite lookup_remove_key in H. destruct (r_id ro =? rid); [discriminate|eauto]. }
    assert (HIp : Inv A (fst (make_pending gadd fx s0 sl ro))).
    { apply make_pending_ind; [exact HI0|].
      intros s1 m t HI1 Hm Hmk _. apply Inv_register; [exact HI1|].
      apply make_tree_ok_inv in Hmk as (ro' & c & rest & n & _ & _ & _ & _ & ->). cbn.
      destruct HI as [_ H2]. eapply H2; eauto. }
    destruct (make_pending gadd fx s0 sl ro) as [s1 oc1]. cbn in HIp.
    destruct oc1; inversion Hst; subst; [exact HIp| |]; destruct HIp as [H1 H2]; split; cbn; eauto.
Qed.

Lemma Inv_run : forall fx ops A (s : cst) s' oc,
  Inv A s -> run gadd fx s ops = (s', oc) -> Inv (A ++ asked ops) s'.
Proof.
  intros fx ops. induction ops as [|o r IH]; intros A s s' oc HI Hr; cbn [run asked flat_map] in *.
  - inversion Hr; subst. rewrite app_nil_r. exact HI.
  - destruct (step gadd fx s o) as [[s1 outs] oc1] eqn:Es.
    pose proof (Inv_step _ _ _ _ _ _ _ HI Es) as HI1.
    destruct oc1.
    + rewrite app_assoc. eapply IH; eauto.
    + inversion Hr; subst. eapply Inv_mono; [exact HI1|]. rewrite app_assoc. apply incl_appl, incl_refl.
    + inversion Hr; subst. eapply Inv_mono; [exact HI1|]. rewrite app_assoc. apply incl_appl, incl_refl.
Qed.

(* for EVERY history and EVERY variant of the code: a tree id is in the store (requested
   or present) only if this server registered the tree itself or asked for it earlier;
   the same holds for the descriptions kept for a roster that is still to come *)
Theorem only_solicited : forall fx ops (s : cst) oc,
  run gadd fx init ops = (s, oc) ->
  (forall tid, tree_state s tid <> Absent -> In tid (asked ops)) /\
  (forall rid l m, lookup (c_pend s) rid = Some l -> In m l -> In (tm_tid m) (asked ops)).
Proof.
  intros fx ops s oc Hr.
  assert (HI : Inv [] (@init G)) by (split; cbn; intros; discriminate).
  pose proof (Inv_run fx ops [] init s oc HI Hr) as HI'. cbn in HI'. split.
  - intros tid Hne. eapply state_in; eauto.
  - destruct HI' as [_ H2]. exact H2.
Qed.

(* a tree id nobody here ever asked for stays absent whatever the peers send *)
Corollary unsolicited_ignored : forall fx ops (s : cst) oc tid,
  run gadd fx init ops = (s, oc) -> ~ In tid (asked ops) -> tree_state s tid = Absent.
Proof.
  intros fx ops s oc tid Hr Hn. destruct (only_solicited fx ops s oc Hr) as [H _].
  destruct (tree_state s tid) eqn:E; [reflexivity| |]; exfalso; apply Hn, H; congruence.
Qed.

(* ---------- the store is keyed by the trees' own ids ------------------------------------------------------- *)

Definition keyed (s : cst) : Prop :=
  forall tid t, lookup (c_store s) tid = Some (Some t) -> t_id t = tid.

Lemma keyed_register : forall (s : cst) (t : stree), keyed s -> keyed (register_tree s t).
Proof.
  intros s t H tid t' Hl. rewrite register_store in Hl.
  destruct (t_id t =? tid) eqn:E; [apply Nat.eqb_eq in E; inversion Hl; subst; reflexivity|eauto].
Qed.

Lemma keyed_store_eq : forall (s s' : cst), c_store s' = c_store s -> keyed s -> keyed s'.
Proof. intros s s' E H tid t Hl. rewrite E in Hl. eauto. Qed.

Lemma keyed_step : forall fx (s : cst) (o : op) s' outs oc,
  keyed s -> step gadd fx s o = (s', outs, oc) -> keyed s'.
Proof.
  intros fx s o s' outs oc Hk Hst.
  destruct o as [t|t|tid|tid nid sendok|tid|tid ver|otm oro|tm pick|rid nf|ro]; cbn [step] in *.
  - inversion Hst; subst. apply keyed_register, Hk.
  - destruct (t_ro t); inversion Hst; subst; [|exact Hk]. apply keyed_register.
    eapply keyed_store_eq; [|exact Hk]. reflexivity.
  - inversion Hst; subst. eapply keyed_store_eq; [|exact Hk]. reflexivity.
  - destruct (lookup (c_store s) tid) as [[t|]|] eqn:El.
    + destruct (find_node (t_root t) nid); inversion Hst; subst; exact Hk.
    + inversion Hst; subst. eapply keyed_store_eq; [|exact Hk]. reflexivity.
    + destruct sendok; inversion Hst; subst.
      * intros tid' t Hl. cbn in Hl. rewrite lookup_update in Hl. destruct (tid =? tid'); [discriminate|eauto].
      * eapply keyed_store_eq; [|exact Hk]. reflexivity.
  - destruct (mem tid (c_insts s)); inversion Hst; subst; auto.
    intros tid' t Hl. cbn in Hl. rewrite lookup_remove_key in Hl. destruct (tid =? tid'); [discriminate|eauto].
  - destruct (get_tree s tid); [destruct (ver =? 0)|]; inversion Hst; subst; exact Hk.
  - destruct (handle_send_tree gadd fx s otm oro) as [s1 oc1] eqn:Eh. inversion Hst; subst.
    apply handle_send_tree_cases in Eh as [->|(tm & ro & t & _ & _ & _ & _ & -> & _)]; [exact Hk|apply keyed_register, Hk].
  - destruct (tm_tid tm =? 0); [inversion Hst; subst; exact Hk|].
    destruct (negb match tree_state s (tm_tid tm) with
                   | Absent => false | Requested => true | Present => negb (fix_n1 fx) end);
      [inversion Hst; subst; exact Hk|].
    destruct (inst_roster s (c_insts s) (tm_rid tm) pick) as [[ro|]| |]; try (inversion Hst; subst; exact Hk).
    all: try (destruct (handle_send_tree gadd fx s (Some tm) (Some ro)) as [s1 oc1] eqn:Eh; inversion Hst; subst;
              apply handle_send_tree_cases in Eh as [->|(tm' & ro' & t & _ & _ & _ & _ & -> & _)]; [exact Hk|apply keyed_register, Hk]).
    all: destruct (c_plock s); inversion Hst; subst; try exact Hk.
    all: eapply keyed_store_eq; [|exact Hk]; reflexivity.
  - match type of Hst with (if ?c then _ else _) = _ => destruct c end; inversion Hst; subst; exact Hk.
  - destruct (r_id ro =? 0); [inversion Hst; subst; exact Hk|].
    destruct (c_plock s); [inversion Hst; subst; exact Hk|].
    destruct (lookup (c_pend s) (r_id ro)) as [sl|] eqn:El.
    2:{ destruct (fix_f08 fx); inversion Hst; subst; [exact Hk|]. eapply keyed_store_eq; [|exact Hk]. reflexivity. }
    set (s0 := if fix_n1 fx then set_pend s (remove_key (c_pend s) (r_id ro)) else s) in *.
    assert (Hk0 : keyed s0) by (subst s0; destruct (fix_n1 fx); [eapply keyed_store_eq; [|exact Hk]; reflexivity|exact Hk]).
    assert (Hkp : keyed (fst (make_pending gadd fx s0 sl ro))).
    { apply make_pending_ind; [exact Hk0|]. intros. apply keyed_register. assumption. }
    destruct (make_pending gadd fx s0 sl ro) as [s1 oc1]. cbn in Hkp.
    destruct oc1; inversion Hst; subst; [exact Hkp| |]; eapply keyed_store_eq; [|exact Hkp| |exact Hkp]; reflexivity.
Qed.

Theorem keyed_run : forall fx ops (s s' : cst) oc,
  keyed s -> run gadd fx s ops = (s', oc) -> keyed s'.
Proof.
  intros fx ops. induction ops as [|o r IH]; intros s s' oc Hk Hr; cbn [run] in Hr.
  - inversion Hr; subst. exact Hk.
  - destruct (step gadd fx s o) as [[s1 outs] oc1] eqn:Es.
    pose proof (keyed_step _ _ _ _ _ _ Hk Es) as Hk1.
    destruct oc1; [eauto| |]; inversion Hr; subst; exact Hk1.
Qed.

Theorem keyed_from_init : forall fx ops (s : cst) oc,
  run gadd fx init ops = (s, oc) ->
  forall tid t, lookup (c_store s) tid = Some (Some t) -> t_id t = tid.
Proof.
  intros fx ops s oc H. eapply keyed_run; [|exact H]. intros tid t E. discriminate.
Qed.

(* ---------- strong form: a peer message stores only what is requested and missing --------------------------- *)

(* with repair N1: whatever a peer sends, a tree that is present is never replaced; and
   apart from the deprecated roster message the stored value of an id changes only if
   that id was requested and not yet received *)
Theorem peer_never_replaces : forall fx (s : cst) (o : op) s' outs oc tid,
  fix_n1 fx = true -> is_peer o = true ->
  step gadd fx s o = (s', outs, oc) ->
  lookup (c_store s') tid <> lookup (c_store s) tid ->
  tree_state s tid <> Present /\ ((forall ro, o <> PRoster ro) -> tree_state s tid = Requested).
Proof.
  intros fx s o s' outs oc tid Hn Hp Hst Hch.
  assert (Hreqp : forall k, tree_state s k = Requested -> tree_state s k <> Present) by (intros k E; rewrite E; discriminate).
  assert (Hhs : forall otm oro s1 oc1, handle_send_tree gadd fx s otm oro = (s1, oc1) ->
            lookup (c_store s1) tid <> lookup (c_store s) tid -> tree_state s tid = Requested).
  { intros otm oro s1 oc1 Eh Hne.
    apply handle_send_tree_cases in Eh as [->|(tm & ro & t & _ & _ & _ & _ & -> & Hid & _ & Hreq)]; [congruence|].
    rewrite register_store in Hne. destruct (t_id t =? tid) eqn:E; [|congruence].
    apply Nat.eqb_eq in E. subst tid. rewrite Hid. auto. }
  destruct o as [t|t|tid0|tid0 nid sendok|tid0|tid0 ver|otm oro|tm pick|rid nf|ro]; cbn in Hp; try discriminate; cbn [step] in Hst.
  - destruct (get_tree s tid0); [destruct (ver =? 0)|]; inversion Hst; subst; congruence.
  - destruct (handle_send_tree gadd fx s otm oro) as [s1 oc1] eqn:Eh. inversion Hst; subst.
    pose proof (Hhs _ _ _ _ Eh Hch). auto.
  - destruct (tm_tid tm =? 0); [inversion Hst; subst; congruence|].
    destruct (negb match tree_state s (tm_tid tm) with
                   | Absent => false | Requested => true | Present => negb (fix_n1 fx) end);
      [inversion Hst; subst; congruence|].
    destruct (inst_roster s (c_insts s) (tm_rid tm) pick) as [[ro|]| |]; try (inversion Hst; subst; congruence).
    + destruct (handle_send_tree gadd fx s (Some tm) (Some ro)) as [s1 oc1] eqn:Eh; inversion Hst; subst.
      pose proof (Hhs _ _ _ _ Eh Hch). auto.
    + destruct (c_plock s); inversion Hst; subst; cbn in Hch; congruence.
  - match type of Hst with (if ?c then _ else _) = _ => destruct c end; inversion Hst; subst; congruence.
  - split; [|intros Hno; exfalso; apply (Hno ro); reflexivity].
    destruct (r_id ro =? 0); [inversion Hst; subst; congruence|].
    destruct (c_plock s); [inversion Hst; subst; congruence|].
    destruct (lookup (c_pend s) (r_id ro)) as [sl|] eqn:El.
    2:{ destruct (fix_f08 fx); inversion Hst; subst; cbn in Hch; congruence. }
    rewrite Hn in Hst.
    set (s0 := set_pend s (remove_key (c_pend s) (r_id ro))) in *.
    assert (HP : (fun s1 : cst => forall k, lookup (c_store s1) k <> lookup (c_store s) k -> tree_state s k <> Present)
                   (fst (make_pending gadd fx s0 sl ro))).
    { apply make_pending_ind.
      - intros k Hk. exfalso. apply Hk. reflexivity.
      - intros s1 m t H1 _ Hmk Hnp k Hk. rewrite register_store in Hk.
        destruct (t_id t =? k) eqn:E; [|apply H1; exact Hk].
        apply Nat.eqb_eq in E. subst k.
        apply make_tree_ok_inv in Hmk as (ro' & c & rest & n & _ & _ & _ & _ & ->). cbn in *.
        specialize (Hnp Hn). intros Hpres.
        unfold tree_state in Hpres.
        destruct (lookup (c_store s) (tm_tid m)) as [[b|]|] eqn:Eb; try discriminate.
        destruct (lookup (c_store s1) (tm_tid m)) as [[a|]|] eqn:Ea.
        + apply Hnp. unfold tree_state. rewrite Ea. reflexivity.
        + apply (H1 (tm_tid m)); [rewrite Ea, Eb; discriminate|]. unfold tree_state. rewrite Eb. reflexivity.
        + apply (H1 (tm_tid m)); [rewrite Ea, Eb; discriminate|]. unfold tree_state. rewrite Eb. reflexivity. }
    destruct (make_pending gadd fx s0 sl ro) as [s1 oc1]. cbn in HP.
    destruct oc1; inversion Hst; subst; apply HP; exact Hch.
Qed.

(* a response touches nothing but the id its description names *)
Theorem response_touches_named_id_only : forall fx (s : cst) m oro s' outs oc tid,
  step gadd fx s (PResponseTree (Some m) oro) = (s', outs, oc) ->
  tid <> tm_tid m -> lookup (c_store s') tid = lookup (c_store s) tid.
Proof.
  intros fx s m oro s' outs oc tid Hst Hne. cbn [step] in Hst.
  destruct (handle_send_tree gadd fx s (Some m) oro) as [s1 oc1] eqn:Eh. inversion Hst; subst.
  apply handle_send_tree_cases in Eh as [->|(tm & ro & t & Etm & _ & _ & _ & -> & Hid & _)]; [reflexivity|].
  inversion Etm; subst tm. rewrite register_store. rewrite Hid.
  destruct (tm_tid m =? tid) eqn:E; [apply Nat.eqb_eq in E; congruence|reflexivity].
Qed.

(* ---------- malformed descriptions ------------------------------------------------------------------------------ *)

(* with the length check of F06: a description that does not fit the roster it comes with
   leaves the server exactly as it was; no handler of a tree description ever panics *)
Theorem malformed_response_ignored : forall fx (s : cst) m ro,
  fix_f06 fx = true -> malformed G m ro = true ->
  step gadd fx s (PResponseTree (Some m) (Some ro)) = (s, [], Fine).
Proof.
  intros fx s m ro Hf Hm. cbn [step]. unfold handle_send_tree.
  destruct (tm_tid m =? 0); [reflexivity|].
  destruct (negb _); [reflexivity|].
  rewrite Hf. destruct (make_tree_fixed_total G gadd (fix_n2 fx) m ro) as [H _]. rewrite (H Hm). reflexivity.
Qed.

(* a response without description, with a nil tree id, or without roster is dropped *)
Theorem incomplete_response_ignored : forall fx (s : cst) otm oro,
  (otm = None \/ oro = None \/ exists m, otm = Some m /\ tm_tid m = 0) ->
  step gadd fx s (PResponseTree otm oro) = (s, [], Fine).
Proof.
  intros fx s otm oro H. cbn [step]. unfold handle_send_tree.
  destruct otm as [m|]; [|reflexivity].
  destruct (tm_tid m =? 0) eqn:E0; [reflexivity|].
  destruct oro as [ro|]; [|reflexivity].
  exfalso. destruct H as [H|[H|(m' & H & Hz)]]; try discriminate.
  inversion H; subst m'. rewrite Hz in E0. discriminate.
Qed.

Theorem response_never_crashes : forall fx (s : cst) otm oro s' outs oc,
  fix_f06 fx = true -> step gadd fx s (PResponseTree otm oro) = (s', outs, oc) -> oc = Fine.
Proof.
  intros fx s otm oro s' outs oc Hf Hst. cbn [step] in Hst. unfold handle_send_tree in Hst.
  destruct otm as [m|]; [|inversion Hst; reflexivity].
  destruct (tm_tid m =? 0); [inversion Hst; reflexivity|].
  destruct oro as [ro|]; [|inversion Hst; reflexivity].
  destruct (negb _); [inversion Hst; reflexivity|].
  rewrite Hf in Hst.
  destruct (malformed G m ro) eqn:Em.
  - destruct (make_tree_fixed_total G gadd (fix_n2 fx) m ro) as [H _]. rewrite (H Em) in Hst. inversion Hst; reflexivity.
  - destruct (make_tree_fixed_total G gadd (fix_n2 fx) m ro) as [_ H]. destruct (H Em) as (t & Ht & _).
    rewrite Ht in Hst. inversion Hst; reflexivity.
Qed.

(* ---------- learning a tree from its holder ------------------------------------------------------------------------ *)

Definition wf_tree (t : stree) (ro : roster) : Prop :=
  t_ro t = Some ro /\ NoDup (map s_id (r_list ro)) /\
  (forall x, In x (flat (t_root t)) -> nth_error (r_list ro) (n_ridx x) = Some (n_srv x)) /\
  (forall x, In x (flat (t_root t)) -> s_nokey (n_srv x) = false) /\
  aggs_computed G gadd (t_root t).

(* current form: the holder answers a version-1 request with description + roster; the
   asking server, for which the id is requested-and-missing, ends up with an equal tree *)
Theorem learnt_equals_sender : forall fx (holder asker : cst) (t : stree) ro,
  wf_tree t ro -> t_id t <> 0 ->
  get_tree holder (t_id t) = Some t ->
  tree_state asker (t_id t) = Requested ->
  exists m asker',
    step gadd fx holder (PRequestTree (t_id t) 1) = (holder, [OResponseTree m (Some ro)], Fine) /\
    step gadd fx asker (PResponseTree (Some m) (Some ro)) = (asker', [], Fine) /\
    get_tree asker' (t_id t) = Some t /\
    (forall tid, tid <> t_id t -> lookup (c_store asker') tid = lookup (c_store asker) tid).
Proof.
  intros fx holder asker t ro (Hro & Hnd & Hall & Hkey & Hagg) Hnz Hget Hreq.
  exists (to_marshal t). eexists. split; [|split; [|split]].
  - cbn [step]. rewrite Hget. cbn. rewrite Hro. reflexivity.
  - cbn [step]. unfold handle_send_tree.
    assert (Etid : tm_tid (to_marshal t) = t_id t) by (unfold to_marshal; rewrite Hro; reflexivity).
    rewrite Etid. destruct (t_id t =? 0) eqn:E0; [apply Nat.eqb_eq in E0; congruence|].
    rewrite Hreq. cbn [negb].
    destruct (roundtrip G gadd (fix_f06 fx) (fix_n2 fx) t ro Hro Hnd Hall Hkey) as (_ & E & _).
    rewrite (E Hagg). reflexivity.
  - unfold get_tree. rewrite register_store, Nat.eqb_refl. reflexivity.
  - intros tid Hne. rewrite register_store. destruct (t_id t =? tid) eqn:E; [apply Nat.eqb_eq in E; congruence|reflexivity].
Qed.

(* deprecated form: description first (version-0 answer), the roster on request *)
Theorem learnt_equals_sender_deprecated : forall fx (asker : cst) (t : stree) ro pick,
  wf_tree t ro -> t_id t <> 0 -> r_id ro <> 0 ->
  tree_state asker (t_id t) = Requested ->
  c_plock asker = false ->
  inst_roster asker (c_insts asker) (r_id ro) pick = Ok None ->
  lookup (c_pend asker) (r_id ro) = None ->
  exists a1 a2,
    step gadd fx asker (PTreeMarshal (to_marshal t) pick) = (a1, [ORequestRoster (r_id ro)], Fine) /\
    step gadd fx a1 (PRoster ro) = (a2, [], Fine) /\
    get_tree a2 (t_id t) = Some t.
Proof.
  intros fx asker t ro pick (Hro & Hnd & Hall & Hkey & Hagg) Hnz Hrz Hreq Hpl Hir Hpe.
  assert (Etid : tm_tid (to_marshal t) = t_id t) by (unfold to_marshal; rewrite Hro; reflexivity).
  assert (Erid : tm_rid (to_marshal t) = r_id ro) by (unfold to_marshal; rewrite Hro; reflexivity).
  eexists. eexists. split; [|split].
  - cbn [step]. rewrite Etid, Erid. destruct (t_id t =? 0) eqn:E0; [apply Nat.eqb_eq in E0; congruence|].
    rewrite Hreq, Hir, Hpl, Hpe. reflexivity.
  - cbn [step]. destruct (r_id ro =? 0) eqn:E0; [apply Nat.eqb_eq in E0; congruence|].
    cbn [set_pend c_plock c_pend]. rewrite Hpl. rewrite lookup_update, Nat.eqb_refl.
    cbn [app make_pending].
    assert (Hst : forall s1 : cst, c_store s1 = c_store asker -> tree_state s1 (t_id t) = Requested).
    { intros s1 E. unfold tree_state. rewrite E. exact Hreq. }
    rewrite Etid.
    match goal with |- context [tree_state ?s1 (t_id t)] => rewrite (Hst s1) end.
    2:{ destruct (fix_n1 fx); reflexivity. }
    rewrite andb_false_r.
    destruct (roundtrip G gadd (fix_f06 fx) (fix_n2 fx) t ro Hro Hnd Hall Hkey) as (_ & E & _).
    rewrite (E Hagg). reflexivity.
  - unfold get_tree. rewrite register_store, Nat.eqb_refl. reflexivity.
Qed.

End Proofs.

(* ---------- the code as it is: refutation witnesses (keys = nat) ------------------------------------------------------ *)

Definition pinned : fixes := mkFx false false false false false.
Definition repaired : fixes := mkFx true true true true true.

Definition w_ro : roster nat := mkRo 7 [sA; sB].
(* two different trees carrying the same tree id 9 *)
Definition w_t : stree nat := mkTree 9 (Some w_ro) (Node 100 sA 0 (Some 30) [Node 101 sB 1 (Some 20) []]).
Definition w_b : stree nat := mkTree 9 (Some w_ro) (Node 101 sB 1 (Some 30) [Node 100 sA 0 (Some 10) []]).

(* N1, first history: a tree this server registered itself is replaced by what a peer
   sends, unasked, under its id *)
Theorem overwrite_refuted :
  exists ops s, run Nat.add pinned init ops = (s, Fine) /\
    ops = [LRegister w_t; PResponseTree (Some (to_marshal w_b)) (Some w_ro)] /\
    get_tree s 9 = Some w_b /\ w_b <> w_t.
Proof.
  eexists. eexists. split; [|split; [reflexivity|split]]; [vm_compute; reflexivity|reflexivity|discriminate].
Qed.

Theorem overwrite_repaired :
  fst (run Nat.add repaired init [LRegister w_t; PResponseTree (Some (to_marshal w_b)) (Some w_ro)]) =
  fst (run Nat.add repaired init [LRegister w_t]).
Proof. vm_compute. reflexivity. Qed.

(* N1, second history (deprecated form): the description stays pending for ever; a roster
   message arriving after the tree was released stores the tree again although nobody
   asked again *)
Definition stale_ops : list (op nat) :=
  [LMsg 9 555 true; PTreeMarshal (to_marshal w_t) 0; PRoster w_ro; Expire 9; PRoster w_ro].

Theorem stale_refuted :
  exists s1 s2, run Nat.add pinned init (firstn 4 stale_ops) = (s1, Fine) /\
                run Nat.add pinned init stale_ops = (s2, Fine) /\
                tree_state s1 9 = Absent /\ get_tree s2 9 = Some w_t.
Proof. eexists. eexists. repeat split; vm_compute; reflexivity. Qed.

Theorem stale_repaired :
  exists s2, run Nat.add repaired init stale_ops = (s2, Fine) /\ tree_state s2 9 = Absent.
Proof. eexists. split; vm_compute; reflexivity. Qed.

(* what N1 (kept compatible with the existing white-box test of the pending list) leaves
   open: a bare description that was accepted while the id was awaited stays pending if the
   tree then arrives by a full response; after that tree's release, the late roster message
   stores it again *)
Definition late_roster_ops : list (op nat) :=
  [LMsg 9 555 true; PTreeMarshal (to_marshal w_t) 0; PResponseTree (Some (to_marshal w_t)) (Some w_ro);
   Expire 9; PRoster w_ro].

Theorem late_roster_residual :
  exists s1 s2, run Nat.add repaired init (firstn 4 late_roster_ops) = (s1, Fine) /\
                run Nat.add repaired init late_roster_ops = (s2, Fine) /\
                tree_state s1 9 = Absent /\ get_tree s2 9 = Some w_t.
Proof. eexists. eexists. repeat split; vm_compute; reflexivity. Qed.

(* F06 at the handler: a requested id answered with a description without root element *)
Theorem empty_description_crashes_handler :
  snd (run Nat.add pinned init [LMsg 9 555 true; PResponseTree (Some (TM 0 9 0 7 [])) (Some w_ro)]) = Crashed /\
  run Nat.add repaired init [LMsg 9 555 true; PResponseTree (Some (TM 0 9 0 7 [])) (Some w_ro)] =
  run Nat.add repaired init [LMsg 9 555 true].
Proof. split; vm_compute; reflexivity. Qed.

(* the hypotheses of the learning theorems are satisfiable *)
Example learnt_example :
  wf_tree nat Nat.add w_t w_ro /\
  exists holder asker oc1 oc2,
    run Nat.add pinned init [LRegister w_t] = (holder, oc1) /\
    run Nat.add pinned init [LMsg 9 101 true] = (asker, oc2) /\
    get_tree holder 9 = Some w_t /\ tree_state asker 9 = Requested.
Proof.
  split.
  - split; [reflexivity|]. split; [repeat constructor; cbn; intuition discriminate|].
    split; [intros x [<-|[<-|[]]]; reflexivity|]. split; [intros x [<-|[<-|[]]]; reflexivity|reflexivity].
  - do 4 eexists. repeat split; vm_compute; reflexivity.
Qed.
