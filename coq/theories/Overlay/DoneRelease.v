(* C11 -- "... and is released afterwards": over the transition system of Overlay/Done.v.
   [Held s i]: something still holds tree i in the store -- an instance on it is listed, its
   removal is scheduled, or a message thread that found it has not delivered yet. For the
   repaired code (F12, F13, F27, F28) the statement "a stored tree is held" is preserved by every
   action except a bare registration of that tree by a service (LocalTree i) and the arrival of
   a requested tree (TreeArrive i; the parked messages it serves are not in this model). Hence a
   tree that only ever came into the store through runs is gone once its instances have finished,
   no message thread is in flight for it, and every timer goroutine has run to completion. *)
From Coq Require Import List Arith Bool Lia.
Import ListNotations.
From Onet Require Import Overlay.Done Overlay.DoneProofs.

Local Arguments in_use : simpl never.
Local Arguments remove_tree : simpl never.

Definition Used (s : st) (i : nat) : Prop :=
  exists k, tree_of k = i /\ (inst s k = IActive \/ inst s k = IStarting).

Definition Held (s : st) (i : nat) : Prop :=
  Used s i \/ cancel s i <> None \/ exists k, In k (hits s) /\ tree_of k = i.

Definition Rel (s : st) (i : nat) : Prop := trees s i = TPresent -> Held s i.

Lemma in_use_true_used s i : in_use s i = true -> Used s i.
Proof.
  unfold in_use. intros H. apply existsb_exists in H as (k & _ & Hk). unfold uses in Hk.
  apply andb_true_iff in Hk as [E Hi]. apply Nat.eqb_eq in E. exists k. split; [exact E|].
  destruct (inst s k); try discriminate; auto.
Qed.

Lemma remove_tree_cancel s i : cancel (remove_tree s i) i <> None.
Proof.
  unfold remove_tree. destruct (cancel s i) eqn:E; cbn; [congruence|].
  unfold upd. rewrite Nat.eqb_refl. discriminate.
Qed.

Lemma remove_tree_cancel_other s i j : j <> i -> cancel (remove_tree s i) j = cancel s j.
Proof.
  intros H. unfold remove_tree. destruct (cancel s i); cbn; [reflexivity|].
  unfold upd. apply Nat.eqb_neq in H. now rewrite H.
Qed.

Lemma remove_tree_same s i :
  trees (remove_tree s i) = trees s /\ inst (remove_tree s i) = inst s /\ hits (remove_tree s i) = hits s.
Proof. unfold remove_tree. destruct (cancel s i); cbn; auto. Qed.

Lemma remove_tree_rel s i j : Rel s j -> Rel (remove_tree s i) j.
Proof.
  intros R. destruct (remove_tree_same s i) as (E1 & E2 & E3). unfold Rel, Held, Used. rewrite E1, E2, E3.
  intros Hp. destruct (Nat.eq_dec j i) as [->|Hne].
  - right. left. apply remove_tree_cancel.
  - rewrite (remove_tree_cancel_other s i j Hne). apply R, Hp.
Qed.

Lemma used_updk_other s k v i :
  tree_of k <> i -> (exists k', tree_of k' = i /\ (inst s k' = IActive \/ inst s k' = IStarting)) ->
  exists k', tree_of k' = i /\ (updk (inst s) k v k' = IActive \/ updk (inst s) k v k' = IStarting).
Proof.
  intros Hne (k' & Ht & Hi). exists k'. split; [exact Ht|]. unfold updk.
  destruct (tok_eqb k' k) eqn:E; [apply tok_eqb_eq in E; subst; congruence|exact Hi].
Qed.

Definition bare (i : nat) (a : act) : Prop := a = LocalTree i \/ a = TreeArrive i.

(* the one-step statement: [Rel _ i] is preserved by every action that is not a bare store of i *)
Lemma step_rel fx s a s' i :
  good fx -> f28 fx = true -> Inv s -> step fx s a = Some s' -> ~ bare i a -> Rel s i -> Rel s' i.
Proof.
  intros (G12 & G13 & G27) G28 I H Hb R. pose proof I as [K1 K2 K3].
  destruct a; cbn [step] in H.
  - (* LocalTree *)
    inversion H; subst; clear H. assert (i0 <> i) by (intros ->; apply Hb; now left).
    unfold Rel, Held, Used in *. cbn. unfold upd, cancel_deletion, upd.
    replace (i =? i0) with false by (symmetry; apply Nat.eqb_neq; lia). exact R.
  - (* LocalCreate *)
    destruct (inst s k) eqn:Ek; try discriminate. inversion H; subst; clear H.
    unfold Rel, Held, Used in *. cbn. intros Hp. destruct (R Hp) as [(k' & Ht & Hi)|[Hc|Hh]]; auto.
    left. exists k'. split; [exact Ht|]. unfold updk. destruct (tok_eqb k' k) eqn:E; auto.
  - (* LocalSet *)
    destruct (inst s k) eqn:Ek; try discriminate. inversion H; subst; clear H.
    unfold Rel, Held, Used in *. cbn. destruct (Nat.eq_dec (tree_of k) i) as [Ei|Ei].
    + intros _. left. exists k. split; [exact Ei|]. unfold updk. rewrite tok_eqb_refl. auto.
    + unfold upd, cancel_deletion, upd. replace (i =? tree_of k) with false by (symmetry; apply Nat.eqb_neq; lia).
      intros Hp. destruct (R Hp) as [U|[Hc|Hh]]; auto. left. now apply used_updk_other.
  - (* MsgLookup *)
    destruct (trees s (tree_of k)) eqn:Et; inversion H; subst; clear H; unfold Rel, Held, Used in *; cbn;
      unfold cancel_deletion, upd; intros Hp.
    + destruct (Nat.eqb_spec i (tree_of k)); [subst; congruence|]. destruct (R Hp) as [U|[Hc|Hh]]; auto.
    + destruct (Nat.eqb_spec i (tree_of k)); [subst; congruence|]. destruct (R Hp) as [U|[Hc|Hh]]; auto.
    + destruct (Nat.eqb_spec i (tree_of k)) as [->|Hne].
      * right. right. exists k. cbn. auto.
      * destruct (R Hp) as [U|[Hc|(k' & Hk' & Ht)]]; auto. right. right. exists k'. cbn. auto.
  - (* MsgDeliver *)
    destruct (mem_tok k (hits s)) eqn:Em; [|discriminate]. cbn in H. apply mem_tok_In in Em.
    destruct (inst s k) eqn:Ek; try discriminate.
    + (* none: the instance is created and, with the repair, the tree stored again *)
      rewrite G27 in H. inversion H; subst; clear H. unfold Rel, Held, Used in *. cbn.
      destruct (Nat.eq_dec (tree_of k) i) as [Ei|Ei].
      * intros _. left. exists k. split; [exact Ei|]. unfold updk. rewrite tok_eqb_refl. auto.
      * unfold upd, cancel_deletion, upd. replace (i =? tree_of k) with false by (symmetry; apply Nat.eqb_neq; lia).
        intros Hp. destruct (R Hp) as [U|[Hc|(k' & Hk' & Ht)]]; auto.
        -- left. now apply used_updk_other.
        -- right. right. exists k'. split; [|exact Ht].
           assert (k' <> k) by (intros ->; congruence).
           clear - Hk' H. induction (hits s) as [|x r IH]; cbn in *; [tauto|].
           destruct (tok_eqb x k) eqn:E.
           ++ apply tok_eqb_eq in E. subst. destruct Hk'; [congruence|assumption].
           ++ destruct Hk' as [->|Hk']; [now left|right; auto].
    + (* active *)
      inversion H; subst; clear H. unfold Rel, Held, Used in *. cbn. intros Hp.
      destruct (R Hp) as [U|[Hc|(k' & Hk' & Ht)]]; auto.
      destruct (Nat.eq_dec (tree_of k) i) as [Ei|Ei]; [left; exists k; auto|].
      right. right. exists k'. split; [|exact Ht].
      assert (k' <> k) by (intros ->; congruence).
      clear - Hk' H. induction (hits s) as [|x r IH]; cbn in *; [tauto|].
      destruct (tok_eqb x k) eqn:E.
      * apply tok_eqb_eq in E. subst. destruct Hk'; [congruence|assumption].
      * destruct Hk' as [->|Hk']; [now left|right; auto].
    + (* done: dropped; the removal that the lookup cancelled is scheduled again *)
      rewrite G28 in H. cbn [andb] in H.
      set (s1 := mkSt (trees s) (cancel s) (chclosed s) (timers s) (inst s) (known s) (created s)
                      (remove_tok k (hits s)) (misses s) (regs s) (delivered s) (answers s) (next s)) in *.
      assert (R1 : tree_of k <> i -> Rel s1 i).
      { intros Ei. unfold Rel, Held, Used in *. cbn. intros Hp.
        destruct (R Hp) as [U|[Hc|(k' & Hk' & Ht)]]; auto.
        right. right. exists k'. split; [|exact Ht].
        assert (k' <> k) by (intros ->; congruence).
        clear - Hk' H0. induction (hits s) as [|x r IH]; cbn in *; [tauto|].
        destruct (tok_eqb x k) eqn:E.
        - apply tok_eqb_eq in E. subst. destruct Hk'; [congruence|assumption].
        - destruct Hk' as [->|Hk']; [now left|right; auto]. }
      destruct (in_use s1 (tree_of k)) eqn:Eu; cbn [negb] in H; inversion H; subst; clear H.
      * destruct (Nat.eq_dec (tree_of k) i) as [Ei|Ei]; [|auto].
        intros _. left. subst i. apply in_use_true_used in Eu. exact Eu.
      * destruct (Nat.eq_dec (tree_of k) i) as [Ei|Ei].
        -- subst i. intros _. right. left. apply remove_tree_cancel.
        -- apply remove_tree_rel. auto.
  - (* MissCheck *)
    destruct (mem_nat i0 (misses s)); [|discriminate]. cbn in H.
    destruct (trees s i0); inversion H; subst; clear H; exact R.
  - (* MissRegister *)
    destruct (mem_nat i0 (regs s)); [|discriminate]. cbn in H. rewrite G13 in H. cbn in H.
    inversion H; subst; clear H. unfold Rel, Held, Used in *. cbn.
    destruct (trees s i0) eqn:Et; cbn; unfold upd; try (destruct (Nat.eqb_spec i i0); [discriminate|exact R]).
    exact R.
  - (* TreeArrive *)
    assert (i0 <> i) by (intros ->; apply Hb; now right).
    destruct (trees s i0) eqn:Et; inversion H; subst; clear H; try exact R.
    unfold Rel, Held, Used in *. cbn. unfold upd, cancel_deletion, upd.
    replace (i =? i0) with false by (symmetry; apply Nat.eqb_neq; lia). exact R.
  - (* Done *)
    destruct (inst s k) eqn:Ek; try discriminate.
    set (s1 := mkSt (trees s) (cancel s) (chclosed s) (timers s) (updk (inst s) k IDone) (known s) (created s)
                    (hits s) (misses s) (regs s) (delivered s) (answers s) (next s)) in *.
    assert (R1 : tree_of k <> i -> Rel s1 i).
    { intros Ei. unfold Rel, Held, Used in *. cbn. intros Hp.
      destruct (R Hp) as [U|[Hc|Hh]]; auto. left. now apply used_updk_other. }
    destruct (in_use s1 (tree_of k)) eqn:Eu; inversion H; subst; clear H.
    + destruct (Nat.eq_dec (tree_of k) i) as [Ei|Ei]; [|auto].
      intros _. left. subst i. apply in_use_true_used in Eu. exact Eu.
    + destruct (Nat.eq_dec (tree_of k) i) as [Ei|Ei].
      * subst i. intros _. right. left. apply remove_tree_cancel.
      * apply remove_tree_rel. auto.
  - (* TimerFire *)
    destruct (find_timer c (timers s)) as [[c' i' [|]]|]; try discriminate.
    inversion H; subst; clear H. exact R.
  - (* TimerCancel *)
    destruct (find_timer c (timers s)) as [[c' i' [|]]|]; try discriminate.
    destruct (mem_nat c (chclosed s)); [|discriminate].
    inversion H; subst; clear H. exact R.
  - (* TimerDelete *)
    destruct (find_timer c (timers s)) as [[c' i' [|]]|]; try discriminate.
    rewrite G12 in H. cbn in H.
    destruct (cancel s i') as [c''|] eqn:Ec; cbn in H.
    + destruct (Nat.eqb_spec c'' c); cbn in H; inversion H; subst; clear H; [|exact R].
      unfold Rel, Held, Used in *. cbn. unfold upd.
      destruct (Nat.eqb_spec i i'); [discriminate|exact R].
    + inversion H; subst; clear H. exact R.
  - (* ReqTree *)
    inversion H; subst; clear H. exact R.
Qed.

Lemma run_rel fx acts i : forall s s',
  good fx -> f28 fx = true -> Inv s -> run fx s acts = Some s' ->
  Forall (fun a => ~ bare i a) acts -> Rel s i -> Rel s' i.
Proof.
  induction acts as [|a r IH]; intros s s' G G28 I H Hf R; cbn in H.
  - now inversion H; subst.
  - destruct (step fx s a) as [s1|] eqn:E; [|discriminate].
    inversion Hf as [|? ? Ha Hr]; subst.
    apply (IH s1 s' G G28); auto.
    + eapply step_inv; eauto.
    + eapply step_rel; eauto.
Qed.

(* ---- a scheduled removal has its timer goroutine ------------------------------------------ *)

Definition Linked (s : st) : Prop :=
  forall i c, cancel s i = Some c ->
    (exists p, In (mkTimer c i p) (timers s)) /\ ~ In c (chclosed s) /\
    (forall j, cancel s j = Some c -> j = i).

Definition Bounded (s : st) : Prop :=
  (forall i c, cancel s i = Some c -> c < next s) /\
  (forall c, In c (chclosed s) -> c < next s) /\
  (forall t, In t (timers s) -> t_chan t < next s).

Lemma Bounded_init : Bounded init.
Proof. repeat split; cbn; intros; try discriminate; tauto. Qed.

Lemma Linked_init : Linked init.
Proof. intros i c H. discriminate. Qed.

Lemma in_set_pc c p l t : In t (set_pc c p l) -> exists t0, In t0 l /\ t_chan t = t_chan t0 /\ t_tree t = t_tree t0.
Proof.
  unfold set_pc. intros H. apply in_map_iff in H as (t0 & E & H0). exists t0. split; [exact H0|].
  destruct (t_chan t0 =? c); subst; cbn; auto.
Qed.

Lemma set_pc_keeps c p l c0 i0 p0 :
  In (mkTimer c0 i0 p0) l -> exists p', In (mkTimer c0 i0 p') (set_pc c p l).
Proof.
  unfold set_pc. intros H. destruct (c0 =? c) eqn:E.
  - exists p. apply in_map_iff. exists (mkTimer c0 i0 p0). cbn. rewrite E. auto.
  - exists p0. apply in_map_iff. exists (mkTimer c0 i0 p0). cbn. rewrite E. auto.
Qed.

Lemma del_timer_keeps c l c0 i0 p0 : c0 <> c -> In (mkTimer c0 i0 p0) l -> In (mkTimer c0 i0 p0) (del_timer c l).
Proof.
  unfold del_timer. intros Hne H. apply filter_In. split; [exact H|]. cbn.
  apply negb_true_iff. now apply Nat.eqb_neq.
Qed.

Lemma in_del_timer c l t : In t (del_timer c l) -> In t l.
Proof. unfold del_timer. intros H. now apply filter_In in H. Qed.

Record LB (s : st) : Prop := {
  lb_cancel : forall i c, cancel s i = Some c -> c < next s;
  lb_closed : forall c, In c (chclosed s) -> c < next s;
  lb_timer : forall t, In t (timers s) -> t_chan t < next s;
  lb_nodup : NoDup (map t_chan (timers s));
  lb_link : forall i c, cancel s i = Some c -> exists p, In (mkTimer c i p) (timers s);
  lb_open : forall i c, cancel s i = Some c -> ~ In c (chclosed s);
  lb_uniq : forall i j c, cancel s i = Some c -> cancel s j = Some c -> i = j }.

Lemma LB_init : LB init.
Proof. constructor; cbn; intros; try discriminate; try tauto. constructor. Qed.

(* cancelDeletion of tree i: the channel is closed and forgotten *)
Lemma LB_cancel_deletion s i tr ins kn cr hi mi re de an :
  LB s ->
  LB (mkSt tr (cancel_deletion s i) (closed_after_cancel s i) (timers s) ins kn cr hi mi re de an (next s)).
Proof.
  intros [B1 B2 B3 B4 B5 B6 B7]. unfold cancel_deletion, closed_after_cancel, upd.
  constructor; cbn.
  - intros j c H. destruct (j =? i); [discriminate|eauto].
  - intros c H. destruct (cancel s i) as [c0|] eqn:E; [destruct H as [<-|H]|]; eauto.
  - exact B3.
  - exact B4.
  - intros j c H. destruct (j =? i); [discriminate|eauto].
  - intros j c H. destruct (Nat.eqb_spec j i) as [->|Hne]; [discriminate|].
    destruct (cancel s i) as [c0|] eqn:E.
    + intros [Heq|Hin].
      * subst c0. apply Hne. apply (B7 j i c H E).
      * apply (B6 j c H Hin).
    + apply (B6 j c H).
  - intros j1 j2 c H1 H2. destruct (j1 =? i); [discriminate|]. destruct (j2 =? i); [discriminate|].
    apply (B7 j1 j2 c H1 H2).
Qed.

Lemma LB_same_core s s' :
  cancel s' = cancel s -> chclosed s' = chclosed s -> timers s' = timers s -> next s' = next s -> LB s -> LB s'.
Proof.
  intros E1 E2 E3 E4 [B1 B2 B3 B4 B5 B6 B7]. constructor; rewrite ?E1, ?E2, ?E3, ?E4; auto.
Qed.

Lemma LB_remove_tree s i : LB s -> LB (remove_tree s i).
Proof.
  intros L. pose proof L as [B1 B2 B3 B4 B5 B6 B7]. unfold remove_tree.
  destruct (cancel s i) eqn:E; [exact L|]. unfold upd. constructor; cbn.
  - intros j c H. destruct (j =? i); [inversion H; lia|apply B1 in H; lia].
  - intros c H. apply B2 in H. lia.
  - intros t [<-|H]; cbn; [lia|apply B3 in H; lia].
  - constructor; [|exact B4]. intros H. apply in_map_iff in H as (t & Et & Ht). apply B3 in Ht. lia.
  - intros j c H. destruct (Nat.eqb_spec j i) as [->|Hne].
    + inversion H; subst. exists Armed. now left.
    + destruct (B5 j c H) as (p & Hp). exists p. now right.
  - intros j c H. destruct (j =? i).
    + inversion H; subst. intros Hin. apply B2 in Hin. lia.
    + eauto.
  - intros j1 j2 c H1 H2. destruct (Nat.eqb_spec j1 i) as [->|N1], (Nat.eqb_spec j2 i) as [->|N2]; auto.
    + inversion H1; subst. apply B1 in H2. lia.
    + inversion H2; subst. apply B1 in H1. lia.
    + eauto.
Qed.

Lemma find_timer_in c l t : find_timer c l = Some t -> In t l /\ t_chan t = c.
Proof.
  unfold find_timer. intros H. apply find_some in H as [H1 H2]. apply Nat.eqb_eq in H2. auto.
Qed.

Lemma nodup_chan_unique l t1 t2 :
  NoDup (map t_chan l) -> In t1 l -> In t2 l -> t_chan t1 = t_chan t2 -> t1 = t2.
Proof.
  induction l as [|x r IH]; cbn; intros ND H1 H2 E; [tauto|].
  inversion ND as [|? ? Hn NDr]; subst.
  destruct H1 as [->|H1], H2 as [->|H2]; auto.
  - exfalso. apply Hn. rewrite E. now apply in_map.
  - exfalso. apply Hn. rewrite <- E. now apply in_map.
Qed.

Lemma map_chan_set_pc c p l : map t_chan (set_pc c p l) = map t_chan l.
Proof.
  unfold set_pc. rewrite map_map. apply map_ext. intros t. destruct (t_chan t =? c); reflexivity.
Qed.

Lemma nodup_del_timer c l : NoDup (map t_chan l) -> NoDup (map t_chan (del_timer c l)).
Proof.
  unfold del_timer. induction l as [|x r IH]; cbn; intros ND; [constructor|].
  inversion ND as [|? ? Hn NDr]; subst.
  destruct (negb (t_chan x =? c)); cbn; auto. constructor; auto.
  intros H. apply Hn. apply in_map_iff in H as (t & Et & Ht). apply filter_In in Ht as [Ht _].
  rewrite <- Et. now apply in_map.
Qed.

Lemma step_LB fx s a s' : f12 fx = true -> LB s -> step fx s a = Some s' -> LB s'.
Proof.
  intros G12 L H. pose proof L as [B1 B2 B3 B4 B5 B6 B7].
  destruct a; cbn [step] in H.
  - inversion H; subst; clear H. now apply LB_cancel_deletion.
  - destruct (inst s k); try discriminate. inversion H; subst; clear H. now apply (LB_same_core s).
  - destruct (inst s k); try discriminate. inversion H; subst; clear H. now apply LB_cancel_deletion.
  - destruct (trees s (tree_of k)); inversion H; subst; clear H; now apply LB_cancel_deletion.
  - destruct (mem_tok k (hits s)); [|discriminate]. cbn in H.
    destruct (inst s k); try discriminate.
    + destruct (f27 fx); inversion H; subst; clear H; [now apply LB_cancel_deletion|now apply (LB_same_core s)].
    + inversion H; subst; clear H. now apply (LB_same_core s).
    + match type of H with (if ?b then _ else _) = _ => destruct b end; inversion H; subst; clear H.
      * apply LB_remove_tree. now apply (LB_same_core s).
      * now apply (LB_same_core s).
  - destruct (mem_nat i (misses s)); [|discriminate]. cbn in H.
    destruct (trees s i); inversion H; subst; clear H; now apply (LB_same_core s).
  - destruct (mem_nat i (regs s)); [|discriminate]. cbn in H.
    inversion H; subst; clear H. now apply (LB_same_core s).
  - destruct (trees s i); inversion H; subst; clear H; auto. now apply LB_cancel_deletion.
  - destruct (inst s k); try discriminate.
    match type of H with (if ?b then _ else _) = _ => destruct b end; inversion H; subst; clear H.
    + now apply (LB_same_core s).
    + apply LB_remove_tree. now apply (LB_same_core s).
  - (* TimerFire *)
    destruct (find_timer c (timers s)) as [[c' i' [|]]|] eqn:Ef; try discriminate.
    inversion H; subst; clear H. constructor; cbn; auto.
    + intros t Ht. apply in_set_pc in Ht as (t0 & H0 & E & _). rewrite E. auto.
    + now rewrite map_chan_set_pc.
    + intros j c0 Hc. destruct (B5 j c0 Hc) as (p & Hp). eapply set_pc_keeps; eauto.
  - (* TimerCancel *)
    destruct (find_timer c (timers s)) as [[c' i' [|]]|] eqn:Ef; try discriminate.
    destruct (mem_nat c (chclosed s)) eqn:Em; [|discriminate].
    inversion H; subst; clear H.
    assert (Hc : In c (chclosed s)).
    { unfold mem_nat in Em. apply existsb_exists in Em as (x & Hx & E). apply Nat.eqb_eq in E. now subst. }
    constructor; cbn; auto.
    + intros t Ht. apply in_del_timer in Ht. auto.
    + now apply nodup_del_timer.
    + intros j c0 Hj. destruct (B5 j c0 Hj) as (p & Hp). exists p. apply del_timer_keeps; auto.
      intros ->. apply (B6 j c Hj Hc).
  - (* TimerDelete *)
    destruct (find_timer c (timers s)) as [[c' i' [|]]|] eqn:Ef; try discriminate.
    apply find_timer_in in Ef as [Hin Ec]. cbn in Ec. subst c'.
    rewrite G12 in H. cbn in H.
    assert (Hkeep : forall j c0, j <> i' -> cancel s j = Some c0 ->
                                 exists p, In (mkTimer c0 j p) (del_timer c (timers s))).
    { intros j c0 Hne Hj. destruct (B5 j c0 Hj) as (p & Hp). exists p. apply del_timer_keeps; auto.
      intros ->. assert (E : mkTimer c j p = mkTimer c i' Fired) by (eapply nodup_chan_unique; eauto).
      inversion E. contradiction. }
    destruct (cancel s i') as [c''|] eqn:Ecc; cbn in H.
    + destruct (Nat.eqb_spec c'' c) as [->|Hne]; cbn in H; inversion H; subst; clear H.
      * (* its own removal: the tree goes, the entry is forgotten *)
        unfold upd. constructor; cbn; auto.
        -- intros j c0 Hj. destruct (j =? i'); [discriminate|eauto].
        -- intros t Ht. apply in_del_timer in Ht. auto.
        -- now apply nodup_del_timer.
        -- intros j c0 Hj. destruct (Nat.eqb_spec j i'); [discriminate|]. now apply Hkeep.
        -- intros j c0 Hj. destruct (j =? i'); [discriminate|eauto].
        -- intros j1 j2 c0 H1 H2. destruct (j1 =? i'); [discriminate|]. destruct (j2 =? i'); [discriminate|]. eauto.
      * (* a cancelled removal: nothing but the goroutine ends *)
        constructor; cbn; auto.
        -- intros t Ht. apply in_del_timer in Ht. auto.
        -- now apply nodup_del_timer.
        -- intros j c0 Hj. destruct (Nat.eq_dec j i') as [->|Hj']; [|now apply Hkeep].
           rewrite Ecc in Hj. inversion Hj; subst c0.
           destruct (B5 i' c'' Ecc) as (p & Hp). exists p. apply del_timer_keeps; auto.
    + inversion H; subst; clear H. constructor; cbn; auto.
      * intros t Ht. apply in_del_timer in Ht. auto.
      * now apply nodup_del_timer.
      * intros j c0 Hj. apply Hkeep; auto. intros ->. congruence.
  - inversion H; subst; clear H. now apply (LB_same_core s).
Qed.

Lemma run_LB fx acts : forall s s', f12 fx = true -> LB s -> run fx s acts = Some s' -> LB s'.
Proof.
  induction acts as [|a r IH]; intros s s' G L H; cbn in H.
  - now inversion H; subst.
  - destruct (step fx s a) as [s1|] eqn:E; [|discriminate].
    apply (IH s1 s' G); [eapply step_LB; eauto|exact H].
Qed.

(* ---- released afterwards ------------------------------------------------------------------- *)

(* In every run of the repaired code in which tree i came into the store only through runs
   (no bare RegisterTree of it by a service, no tree response for it): once every timer goroutine
   has run to completion, no message thread that found the tree is still in flight and no
   instance on it is listed, the tree is no longer stored. *)
Theorem released_afterwards fx acts s i :
  good fx -> f28 fx = true -> run fx init acts = Some s ->
  Forall (fun a => a <> LocalTree i /\ a <> TreeArrive i) acts ->
  timers s = [] -> (forall k, In k (hits s) -> tree_of k <> i) -> in_use s i = false ->
  trees s i <> TPresent.
Proof.
  intros G G28 H Hf Ht Hh Hu Hp.
  pose proof G as (G12 & _ & _).
  pose proof (run_inv fx acts init s G Inv_init H) as I.
  pose proof (run_LB fx acts init s G12 LB_init H) as L.
  assert (R : Rel s i).
  { apply (run_rel fx acts i init s G G28 Inv_init H).
    - eapply Forall_impl; [|exact Hf]. intros a [H1 H2] [Hb|Hb]; congruence.
    - intros Hp0. cbn in Hp0. discriminate. }
  destruct (R Hp) as [(k & Hk & Hi)|[Hc|(k & Hk & Hti)]].
  - destruct (in_use_false s i (k_known s I) Hu k Hk) as [H1 H2]. destruct Hi; contradiction.
  - destruct (cancel s i) as [c|] eqn:Ec; [|congruence].
    destruct (lb_link s L i c Ec) as (p & Hin). rewrite Ht in Hin. destruct Hin.
  - apply (Hh k Hk Hti).
Qed.

(* the hypotheses are satisfiable, and the statement is not vacuous: a run with two instances on
   one tree, both finished, a late message dropped, every timer run to completion *)
Example released_example :
  exists s, run all_fixed init [LocalCreate ka; LocalSet ka; MsgLookup kb; MsgDeliver kb; Done ka; Done kb;
                                MsgLookup ka; MsgDeliver ka; TimerCancel 0; TimerFire 1; TimerDelete 1] = Some s /\
            timers s = [] /\ hits s = [] /\ in_use s 0 = false /\ trees s 0 = TAbsent.
Proof. eexists. split; [vm_compute; reflexivity|]. repeat split. Qed.

(* why [released_afterwards] excludes tree responses, and known finding C11-N2: a message for an
   unknown tree is parked; a local run registers the tree, the parked message is flushed, both
   instances finish and the tree is released; only then the message's thread registers its request,
   and the response stores the tree again: nothing uses it, no removal is ever scheduled *)
Example late_response_stays :
  exists s, run all_fixed init [MsgLookup ka; MissCheck 0; LocalCreate kb; LocalSet kb; MsgLookup ka; MsgDeliver ka;
                                Done kb; Done ka; TimerFire 0; TimerDelete 0; MissRegister 0; TreeArrive 0] = Some s /\
            trees s 0 = TPresent /\ in_use s 0 = false /\ cancel s 0 = None /\ timers s = [] /\ hits s = [].
Proof. eexists. split; [vm_compute; reflexivity|]. repeat split. Qed.
