(* C06 -- the arrival of a tree response in TWO critical sections.

   Overlay/TreeCtl.v runs every handler to completion. handleSendTree, however, takes the
   tree store's lock twice: once for the test (treeStorage.IsRequested) and once, after
   MakeTree has run without any lock, for the store (RegisterTree -> treeStorage.Set).
   Handlers of different connections run on different goroutines, so between the two
   sections of one response another response, a local RegisterTree, or any other operation
   can run. This file adds exactly that interleaving on top of TreeCtl's state:

     RSeq o       any operation of TreeCtl, run to completion
     RTest tm ro  handleSendTree up to and including MakeTree: the thread that passed the
                  test holds the tree it made ("in flight")
     RSet k       the k-th thread in flight calls RegisterTree

   n4 = false: the code as it is (Set is unconditional);
   n4 = true : repair C06-N4, test and store in ONE critical section
               (treeStorage.SetIfRequested): a tree in flight is stored only if its id is
               still requested-and-missing, otherwise dropped.

   Model only, no proofs. *)
From Coq Require Import List Arith Bool.
Import ListNotations.
From Onet Require Export Overlay.TreeCtl.

Section Race.
Variable G : Type.
Variable gadd : G -> G -> G.

Record rst := mkR { r_base : cst G; r_fly : list (stree G) }.

Definition rinit : rst := mkR init [].

Inductive ract :=
| RSeq (o : op G)
| RTest (tm : option tmarshal) (ro : option (roster G))
| RSet (k : nat).

(* the first critical section of handleSendTree and the lock-free MakeTree:
   Ok (Some t) = passed, t made; Ok None = message dropped; Crash = MakeTree panicked *)
Definition arrival_test (fx : fixes) (s : cst G) (otm : option tmarshal) (oro : option (roster G))
  : res (option (stree G)) :=
  match otm with
  | None => Ok None
  | Some tm =>
      if tm_tid tm =? 0 then Ok None else
      match oro with
      | None => Ok None
      | Some ro =>
          let accept := match tree_state s (tm_tid tm) with
                        | Absent => false
                        | Requested => true
                        | Present => negb (fix_n1 fx)
                        end in
          if negb accept then Ok None else
          match make_tree gadd (fix_f06 fx) (fix_n2 fx) tm (Some ro) with
          | Ok t => Ok (Some t)
          | Err => Ok None
          | Crash => Crash
          end
      end
  end.

Fixpoint remove_nth {A} (k : nat) (l : list A) : list A :=
  match l, k with
  | [], _ => []
  | _ :: r, 0 => r
  | x :: r, S j => x :: remove_nth j r
  end.

(* the second critical section *)
Definition arrival_set (n4 : bool) (s : cst G) (t : stree G) : cst G :=
  if n4 && negb (match tree_state s (t_id t) with Requested => true | _ => false end)
  then s else register_tree s t.

Definition rstep (fx : fixes) (n4 : bool) (r : rst) (a : ract) : rst * list (out G) * outcome :=
  match a with
  | RSeq o => let '(s', outs, oc) := step gadd fx (r_base r) o in (mkR s' (r_fly r), outs, oc)
  | RTest otm oro =>
      match arrival_test fx (r_base r) otm oro with
      | Ok (Some t) => (mkR (r_base r) (r_fly r ++ [t]), [], Fine)
      | Ok None | Err => (r, [], Fine)
      | Crash => (r, [], Crashed)
      end
  | RSet k =>
      match nth_error (r_fly r) k with
      | Some t => (mkR (arrival_set n4 (r_base r) t) (remove_nth k (r_fly r)), [], Fine)
      | None => (r, [], Fine)                     (* no such thread *)
      end
  end.

Fixpoint rrun (fx : fixes) (n4 : bool) (r : rst) (acts : list ract) : rst * outcome :=
  match acts with
  | [] => (r, Fine)
  | a :: rest =>
      let '(r', _, oc) := rstep fx n4 r a in
      match oc with
      | Fine => rrun fx n4 r' rest
      | _ => (r', oc)
      end
  end.

Definition rasks (a : ract) : list nat := match a with RSeq o => asks o | _ => [] end.
Definition rasked (acts : list ract) : list nat := flat_map rasks acts.

(* actions a peer causes *)
Definition rpeer (a : ract) : bool :=
  match a with RSeq o => is_peer o | RTest _ _ | RSet _ => true end.

End Race.

Arguments mkR {G}.
Arguments r_base {G}.
Arguments r_fly {G}.
Arguments rinit {G}.
Arguments RSeq {G}.
Arguments RTest {G}.
Arguments RSet {G}.
Arguments arrival_test {G}.
Arguments arrival_set {G}.
Arguments rstep {G}.
Arguments rrun {G}.
Arguments rasks {G}.
Arguments rasked {G}.
Arguments rpeer {G}.
