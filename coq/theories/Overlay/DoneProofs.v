(* C11 -- invariants of the instance/tree-store transition system (Overlay/Done.v) *)
From Coq Require Import List Arith Bool Lia.
Import ListNotations.
From Onet Require Import Overlay.Done.

Lemma tok_eqb_eq a b : tok_eqb a b = true <-> a = b.
Proof.
  destruct a as [a1 a2], b as [b1 b2]. unfold tok_eqb. cbn.
  rewrite andb_true_iff, !Nat.eqb_eq. split; [intros [-> ->]; reflexivity|intros H; inversion H; auto].
Qed.

Lemma tok_eqb_refl a : tok_eqb a a = true.
Proof. now apply tok_eqb_eq. Qed.

Lemma tok_eqb_neq a b : tok_eqb a b = false <-> a <> b.
Proof.
  split.
  - intros H E. apply tok_eqb_eq in E. congruence.
  - intros H. destruct (tok_eqb a b) eqn:E; auto. apply tok_eqb_eq in E. contradiction.
Qed.

Lemma mem_tok_In k l : mem_tok k l = true <-> In k l.
Proof.
  unfold mem_tok. rewrite existsb_exists. split.
  - intros (x & Hx & E). apply tok_eqb_eq in E. now subst.
  - intros H. exists k. split; auto. apply tok_eqb_refl.
Qed.

Lemma add_known_In k k' l : In k' (add_known k l) <-> k' = k \/ In k' l.
Proof.
  unfold add_known. destruct (mem_tok k l) eqn:E.
  - apply mem_tok_In in E. split; [auto|intros [->|H]; auto].
  - cbn. split; intros [H|H]; auto.
Qed.

Lemma in_remove_tok k x l : In x (remove_tok k l) -> In x l.
Proof.
  induction l as [|y r IH]; cbn; auto. destruct (tok_eqb y k); cbn; intros H; auto.
  destruct H; auto.
Qed.

Lemma remove_tok_length k l : In k l -> S (length (remove_tok k l)) = length l.
Proof.
  induction l as [|y r IH]; cbn; [tauto|]. destruct (tok_eqb y k) eqn:E; cbn; auto.
  intros [->|H]; [rewrite tok_eqb_refl in E; discriminate|]. now rewrite IH.
Qed.

(* a token that is active or starting is found by cleanTreeStorage's loop *)
Lemma in_use_false s i :
  (forall k, inst s k <> INone -> In k (known s)) ->
  in_use s i = false ->
  forall k, tree_of k = i -> inst s k <> IActive /\ inst s k <> IStarting.
Proof.
  intros Hk Hu k Hi. unfold in_use in Hu.
  assert (H : forall x, In x (known s) -> uses s i x = false).
  { intros x Hx. destruct (uses s i x) eqn:E; auto.
    assert (existsb (uses s i) (known s) = true) by (apply existsb_exists; eauto). congruence. }
  split; intros E.
  - specialize (H k (Hk k ltac:(congruence))). unfold uses in H. rewrite E, Hi, Nat.eqb_refl in H. discriminate.
  - specialize (H k (Hk k ltac:(congruence))). unfold uses in H. rewrite E, Hi, Nat.eqb_refl in H. discriminate.
Qed.

(* ---- the invariant of the repaired system --------------------------------- *)

Record Inv (s : st) : Prop := {
  k_cancel_inst : forall i c k, cancel s i = Some c -> tree_of k = i -> inst s k <> IActive;
  k_active : forall k, inst s k = IActive -> trees s (tree_of k) = TPresent;
  k_known : forall k, inst s k <> INone -> In k (known s) }.

Lemma Inv_init : Inv init.
Proof. constructor; cbn; intros; try discriminate; try tauto; try congruence. Qed.

Definition good (fx : fixes) : Prop := f12 fx = true /\ f13 fx = true /\ f27 fx = true.

Ltac upd_cases :=
  unfold cancel_deletion, upd, updk in *; cbn in *;
  repeat match goal with
  | H : context[if ?a =? ?b then _ else _] |- _ => destruct (Nat.eqb_spec a b); subst
  | |- context[if ?a =? ?b then _ else _] => destruct (Nat.eqb_spec a b); subst
  | H : context[if tok_eqb ?a ?b then _ else _] |- _ =>
      let E := fresh "E" in destruct (tok_eqb a b) eqn:E;
      [apply tok_eqb_eq in E; subst|apply tok_eqb_neq in E]
  | |- context[if tok_eqb ?a ?b then _ else _] =>
      let E := fresh "E" in destruct (tok_eqb a b) eqn:E;
      [apply tok_eqb_eq in E; subst|apply tok_eqb_neq in E]
  end.

Lemma remove_tree_inv s i :
  Inv s -> (forall k, tree_of k = i -> inst s k <> IActive) -> Inv (remove_tree s i).
Proof.
  intros [H1 H3 H5] Hna. unfold remove_tree.
  destruct (cancel s i) eqn:Ec; [constructor; auto|].
  constructor; cbn; auto.
  intros j c k Hc Hk. upd_cases; eauto.
Qed.

Local Arguments in_use : simpl never.
Local Arguments remove_tree : simpl never.

Lemma step_inv fx s a s' : good fx -> Inv s -> step fx s a = Some s' -> Inv s'.
Proof.
  intros (G12 & G13 & G27) I H. pose proof I as [H1 H3 H5].
  destruct a; cbn [step] in H.
  - (* LocalTree *)
    inversion H; subst; clear H. constructor; cbn; auto; intros; upd_cases; eauto; try discriminate.
  - (* LocalCreate *)
    destruct (inst s k) eqn:Ek; try discriminate. inversion H; subst; clear H.
    constructor; cbn; auto; intros; upd_cases; eauto; try discriminate; try congruence.
    + apply add_known_In. auto.
    + apply add_known_In. right. apply H5. assumption.
  - (* LocalSet *)
    destruct (inst s k) eqn:Ek; try discriminate. inversion H; subst; clear H.
    constructor; cbn; auto; intros; upd_cases; eauto; try discriminate; try congruence.
    + apply H5. congruence.
  - (* MsgLookup *)
    destruct (trees s (tree_of k)) eqn:Et; inversion H; subst; clear H;
      constructor; cbn; auto; intros; upd_cases; eauto; try discriminate; try congruence.
  - (* MsgDeliver *)
    destruct (mem_tok k (hits s)) eqn:Em; [|discriminate]. cbn in H.
    destruct (inst s k) eqn:Ek; try discriminate.
    + (* none: create, and with the repair store the tree again *)
      rewrite G27 in H. inversion H; subst; clear H.
      constructor; cbn; auto; intros; upd_cases; eauto; try discriminate; try congruence; try tauto.
      * apply add_known_In; auto.
      * apply add_known_In; right; apply H5; assumption.
    + (* active *)
      inversion H; subst; clear H.
      constructor; cbn; auto.
    + (* done: drop, possibly re-arm *)
      set (s1 := mkSt (trees s) (cancel s) (chclosed s) (timers s) (inst s) (known s) (created s) (remove_tok k (hits s))
                      (misses s) (regs s) (delivered s) (answers s) (next s)) in *.
      assert (I1 : Inv s1) by (constructor; cbn; auto).
      destruct (f28 fx && negb (in_use s1 (tree_of k))) eqn:Eb; inversion H; subst; clear H; auto.
      apply andb_true_iff in Eb as [_ Eb]. apply negb_true_iff in Eb.
      apply remove_tree_inv; auto.
      intros k' Hk'. apply (in_use_false s1 (tree_of k)); auto.
  - (* MissCheck *)
    destruct (mem_nat i (misses s)); [|discriminate]. cbn in H.
    destruct (trees s i); inversion H; subst; clear H; constructor; cbn; auto.
  - (* MissRegister *)
    destruct (mem_nat i (regs s)); [|discriminate]. cbn in H. rewrite G13 in H. cbn in H.
    destruct (trees s i) eqn:Et; inversion H; subst; clear H;
      constructor; cbn; auto; intros; upd_cases; eauto; try congruence.
    all: try (match goal with Ha : inst _ ?k = IActive |- _ => pose proof (H3 _ Ha); congruence end).
  - (* TreeArrive *)
    destruct (trees s i) eqn:Et; inversion H; subst; clear H; auto;
      constructor; cbn; auto; intros; upd_cases; eauto; try discriminate; try congruence.
  - (* Done *)
    destruct (inst s k) eqn:Ek; try discriminate.
    set (s1 := mkSt (trees s) (cancel s) (chclosed s) (timers s) (updk (inst s) k IDone) (known s) (created s)
                    (hits s) (misses s) (regs s) (delivered s) (answers s) (next s)) in *.
    assert (I1 : Inv s1).
    { constructor; cbn; auto; intros; upd_cases; eauto; try discriminate; try congruence; try tauto.
      apply H5. congruence. }
    destruct (in_use s1 (tree_of k)) eqn:Eu; inversion H; subst; clear H; auto.
    apply remove_tree_inv; auto.
    intros k' Hk'. apply (in_use_false s1 (tree_of k)); auto. apply (k_known s1 I1).
  - (* TimerFire *)
    destruct (find_timer c (timers s)) as [[c' i' [|]]|]; try discriminate.
    inversion H; subst; clear H. constructor; cbn; auto.
  - (* TimerCancel *)
    destruct (find_timer c (timers s)) as [[c' i' [|]]|]; try discriminate.
    destruct (mem_nat c (chclosed s)); [|discriminate].
    inversion H; subst; clear H. constructor; cbn; auto.
  - (* TimerDelete *)
    destruct (find_timer c (timers s)) as [[c' i' [|]]|]; try discriminate.
    rewrite G12 in H. cbn in H.
    destruct (cancel s i') as [c''|] eqn:Ec; cbn in H.
    + destruct (Nat.eqb_spec c'' c); cbn in H; inversion H; subst; clear H.
      * constructor; cbn; auto; intros; upd_cases; eauto; try discriminate; try congruence.
        exfalso. eapply H1; eauto.
      * constructor; cbn; auto.
    + inversion H; subst; clear H. constructor; cbn; auto.
  - (* ReqTree *)
    inversion H; subst; clear H. constructor; cbn; auto.
Qed.

Lemma run_inv fx acts : forall s s', good fx -> Inv s -> run fx s acts = Some s' -> Inv s'.
Proof.
  induction acts as [|a r IH]; intros s s' G I H; cbn in H.
  - now inversion H; subst.
  - destruct (step fx s a) as [s1|] eqn:E; [|discriminate].
    apply (IH s1 s' G); [eapply step_inv; eauto|exact H].
Qed.

(* ---- statements used by Properties/C11.v ----------------------------------- *)

Lemma tree_while_used fx acts s k :
  good fx -> run fx init acts = Some s -> inst s k = IActive -> trees s (tree_of k) = TPresent.
Proof.
  intros G H Ha. pose proof (run_inv fx acts init s G Inv_init H) as I. now apply (k_active s I).
Qed.

(* the grace period: from the moment a removal (channel c) is scheduled on a stored tree until
   that very removal is cancelled or carried out, the tree stays stored *)
Definition Fresh (s : st) : Prop := forall i c, cancel s i = Some c -> c < next s.

Lemma Fresh_init : Fresh init.
Proof. intros i c H. discriminate. Qed.

Lemma remove_tree_fresh s i : Fresh s -> Fresh (remove_tree s i).
Proof.
  intros F. unfold remove_tree. destruct (cancel s i) eqn:Ec; [exact F|].
  intros j c Hc. cbn in *. unfold upd in Hc. destruct (Nat.eqb_spec j i).
  - inversion Hc; subst. lia.
  - apply F in Hc. lia.
Qed.

Lemma step_fresh fx s a s' : Fresh s -> step fx s a = Some s' -> Fresh s'.
Proof.
  intros F H.
  destruct a; cbn [step] in H;
    repeat match type of H with
    | (if ?b then _ else _) = _ => destruct b eqn:?; try discriminate
    | match ?x with _ => _ end = _ => destruct x eqn:?; try discriminate
    end;
    inversion H; subst; clear H;
    try (apply remove_tree_fresh);
    intros j c0 Hc; cbn in Hc |- *; try (destruct (f27 fx); cbn in Hc); unfold cancel_deletion, upd in Hc;
    repeat match type of Hc with
    | (if ?b then _ else _) = _ => destruct b eqn:?; try discriminate
    end; try (apply F in Hc; cbn; lia).
Qed.

Lemma run_fresh fx acts : forall s s', Fresh s -> run fx s acts = Some s' -> Fresh s'.
Proof.
  induction acts as [|a r IH]; intros s s' F H; cbn in H.
  - now inversion H; subst.
  - destruct (step fx s a) as [s1|] eqn:E; [|discriminate]. eapply IH; [eapply step_fresh; eauto|exact H].
Qed.

Definition Grace (i c : nat) (s : st) : Prop :=
  c < next s /\ (cancel s i = Some c -> trees s i = TPresent).

Lemma remove_tree_grace s i c j : Grace i c s -> Grace i c (remove_tree s j).
Proof.
  intros [Hn Hg]. unfold remove_tree. destruct (cancel s j) eqn:Ec; [split; auto|].
  split; cbn; [lia|]. unfold upd. destruct (Nat.eqb_spec i j); [|exact Hg].
  intros E. inversion E. lia.
Qed.

Lemma step_grace fx s a s' i c :
  f12 fx = true -> f13 fx = true -> Grace i c s -> step fx s a = Some s' -> Grace i c s'.
Proof.
  intros G12 G13 [Hn Hg] H.
  destruct a; cbn [step] in H.
  - inversion H; subst; clear H. split; cbn; auto. unfold cancel_deletion, upd.
    destruct (Nat.eqb_spec i i0); [discriminate|auto].
  - destruct (inst s k); try discriminate. inversion H; subst; clear H. split; cbn; auto.
  - destruct (inst s k); try discriminate. inversion H; subst; clear H. split; cbn; auto.
    unfold cancel_deletion, upd. destruct (Nat.eqb_spec i (tree_of k)); [discriminate|auto].
  - destruct (trees s (tree_of k)) eqn:Et; inversion H; subst; clear H; split; cbn; auto;
      unfold cancel_deletion, upd; destruct (Nat.eqb_spec i (tree_of k)); try discriminate; auto.
  - destruct (mem_tok k (hits s)); [|discriminate]. cbn in H.
    destruct (inst s k); try discriminate.
    + inversion H; subst; clear H. split; cbn; auto.
      destruct (f27 fx); cbn; auto. unfold cancel_deletion, upd.
      destruct (Nat.eqb_spec i (tree_of k)); [discriminate|auto].
    + inversion H; subst; clear H. split; cbn; auto.
    + match type of H with (if ?b then _ else _) = _ => destruct b end; inversion H; subst; clear H.
      * apply remove_tree_grace. split; cbn; auto.
      * split; cbn; auto.
  - destruct (mem_nat i0 (misses s)); [|discriminate]. cbn in H.
    destruct (trees s i0); inversion H; subst; clear H; split; cbn; auto.
  - destruct (mem_nat i0 (regs s)); [|discriminate]. cbn in H. rewrite G13 in H. cbn in H.
    inversion H; subst; clear H. split; cbn; auto. intros Hc. specialize (Hg Hc).
    destruct (trees s i0) eqn:Et; cbn; auto; unfold upd; destruct (Nat.eqb_spec i i0); subst; auto; congruence.
  - destruct (trees s i0) eqn:Et; inversion H; subst; clear H; try (split; cbn; auto; fail).
    split; cbn; auto. unfold cancel_deletion, upd. destruct (Nat.eqb_spec i i0); [discriminate|auto].
  - destruct (inst s k); try discriminate.
    match type of H with (if ?b then _ else _) = _ => destruct b end; inversion H; subst; clear H.
    + split; cbn; auto.
    + apply remove_tree_grace. split; cbn; auto.
  - destruct (find_timer c0 (timers s)) as [[c' i' [|]]|]; try discriminate.
    inversion H; subst; clear H. split; cbn; auto.
  - destruct (find_timer c0 (timers s)) as [[c' i' [|]]|]; try discriminate.
    destruct (mem_nat c0 (chclosed s)); [|discriminate].
    inversion H; subst; clear H. split; cbn; auto.
  - destruct (find_timer c0 (timers s)) as [[c' i' [|]]|]; try discriminate.
    rewrite G12 in H. cbn in H.
    destruct (cancel s i') as [c''|] eqn:Ec; cbn in H.
    + destruct (Nat.eqb_spec c'' c0); cbn in H; inversion H; subst; clear H.
      * split; cbn; auto. unfold upd. destruct (Nat.eqb_spec i i'); [discriminate|auto].
      * split; cbn; auto.
    + inversion H; subst; clear H. split; cbn; auto.
  - inversion H; subst; clear H. split; cbn; auto.
Qed.

Lemma run_grace fx acts i c : forall s s',
  f12 fx = true -> f13 fx = true -> Grace i c s -> run fx s acts = Some s' -> Grace i c s'.
Proof.
  induction acts as [|a r IH]; intros s s' G12 G13 Gr H; cbn in H.
  - now inversion H; subst.
  - destruct (step fx s a) as [s1|] eqn:E; [|discriminate].
    apply (IH s1 s' G12 G13); [eapply step_grace; eauto|exact H].
Qed.

(* the last instance on a tree declares itself done in a reachable state: a removal is scheduled,
   and for as long as that removal stays scheduled -- whatever else happens on the server --
   the tree is stored and peers asking for it get it *)
Lemma tree_during_grace fx acts s k s1 :
  good fx -> run fx init acts = Some s -> step fx s (Done k) = Some s1 -> in_use s1 (tree_of k) = false ->
  exists c, cancel s1 (tree_of k) = Some c /\
    forall acts2 s2, run fx s1 acts2 = Some s2 -> cancel s2 (tree_of k) = Some c ->
      trees s2 (tree_of k) = TPresent /\
      forall s3, step fx s2 (ReqTree (tree_of k)) = Some s3 -> hd_error (answers s3) = Some (tree_of k, true).
Proof.
  intros G H Hd Hu. pose proof G as (G12 & G13 & G27).
  pose proof (run_inv fx acts init s G Inv_init H) as I.
  pose proof (run_fresh fx acts init s Fresh_init H) as F.
  assert (I1 : Inv s1) by (eapply step_inv; eauto).
  assert (F1 : Fresh s1) by (eapply step_fresh; eauto).
  assert (Hp : trees s1 (tree_of k) = TPresent).
  { cbn [step] in Hd. destruct (inst s k) eqn:Ek; try discriminate.
    pose proof (k_active s I k Ek) as Hp.
    match type of Hd with (if ?b then _ else _) = _ => destruct b end; inversion Hd; subst; clear Hd; cbn; auto.
    unfold remove_tree. destruct (cancel _ _); cbn; auto. }
  assert (Hc : exists c, cancel s1 (tree_of k) = Some c).
  { cbn [step] in Hd. destruct (inst s k) eqn:Ek; try discriminate.
    match type of Hd with (if ?b then _ else _) = _ => destruct b eqn:Eb end; inversion Hd; subst; clear Hd.
    - unfold in_use in *. cbn in *. congruence.
    - unfold remove_tree. cbn. destruct (cancel s (tree_of k)) eqn:Ec; cbn.
      + exists n. now rewrite Ec.
      + exists (next s). unfold upd. now rewrite Nat.eqb_refl. }
  destruct Hc as [c Hc]. exists c. split; [exact Hc|].
  intros acts2 s2 H2 Hc2.
  assert (Gr : Grace (tree_of k) c s2).
  { eapply run_grace; eauto. split; [now apply (F1 _ _ Hc)|auto]. }
  destruct Gr as [_ Gr]. specialize (Gr Hc2). split; [exact Gr|].
  intros s3 Hs. cbn in Hs. inversion Hs; subst; clear Hs. cbn. now rewrite Gr.
Qed.

Definition ndelivered (s : st) (k : tok) : nat := length (filter (tok_eqb k) (delivered s)).

(* Done is final, whatever the fix flags: no action revives a finished token,
   calls its constructor again or hands it a message *)
Lemma step_done_final fx s a s' k :
  step fx s a = Some s' -> inst s k = IDone ->
  inst s' k = IDone /\ created s' k = created s k /\ ndelivered s' k = ndelivered s k.
Proof.
  intros H Hd. unfold ndelivered.
  destruct a; cbn [step] in H;
    repeat match type of H with
    | (if ?b then _ else _) = _ => destruct b eqn:?; try discriminate
    | match ?x with _ => _ end = _ => destruct x eqn:?; try discriminate
    end;
    inversion H; subst; clear H; unfold remove_tree; cbn;
    repeat match goal with |- context[match cancel ?s ?i with _ => _ end] => destruct (cancel s i) eqn:? end; cbn;
    unfold updk;
    repeat match goal with
    | |- context[if tok_eqb ?a ?b then _ else _] =>
        let E := fresh "E" in destruct (tok_eqb a b) eqn:E;
        [apply tok_eqb_eq in E; subst; try congruence|apply tok_eqb_neq in E]
    end; auto; try congruence.
Qed.

Lemma run_done_final fx acts : forall s s' k,
  run fx s acts = Some s' -> inst s k = IDone ->
  inst s' k = IDone /\ created s' k = created s k /\ ndelivered s' k = ndelivered s k.
Proof.
  induction acts as [|a r IH]; intros s s' k H Hd; cbn in H.
  - inversion H; subst. auto.
  - destruct (step fx s a) as [s1|] eqn:E; [|discriminate].
    destruct (step_done_final fx s a s1 k E Hd) as (H1 & H2 & H3).
    destruct (IH s1 s' k H H1) as (H4 & H5 & H6). repeat split; congruence.
Qed.

(* finishing one instance leaves every other token's state alone *)
Lemma done_local fx s k s' k' :
  step fx s (Done k) = Some s' -> k' <> k ->
  inst s' k' = inst s k' /\ created s' k' = created s k' /\ ndelivered s' k' = ndelivered s k'.
Proof.
  intros H Hne. unfold ndelivered. cbn [step] in H.
  destruct (inst s k) eqn:Ek; try discriminate.
  match type of H with (if ?b then _ else _) = _ => destruct b end;
    inversion H; subst; clear H; unfold remove_tree; cbn;
    repeat match goal with |- context[match cancel ?s ?i with _ => _ end] => destruct (cancel s i) eqn:? end; cbn;
    unfold updk; apply tok_eqb_neq in Hne; rewrite Hne; auto.
Qed.

(* the last Done on a tree schedules its removal, and the timer can run to completion *)
Lemma done_schedules_removal fx s k s' :
  step fx s (Done k) = Some s' -> in_use s' (tree_of k) = false ->
  exists c, cancel s' (tree_of k) = Some c /\
            (cancel s (tree_of k) = Some c \/ find_timer c (timers s') = Some (mkTimer c (tree_of k) Armed)).
Proof.
  intros H Hu. cbn [step] in H.
  destruct (inst s k) eqn:Ek; try discriminate.
  match type of H with (if ?b then _ else _) = _ => destruct b eqn:Eb end; inversion H; subst; clear H.
  - unfold in_use in *. cbn in *. congruence.
  - unfold remove_tree. cbn. destruct (cancel s (tree_of k)) eqn:Ec; cbn.
    + exists n. rewrite Ec. auto.
    + exists (next s). unfold upd, find_timer. cbn. rewrite !Nat.eqb_refl. auto.
Qed.

Lemma timer_releases fx s c i :
  f12 fx = true -> find_timer c (timers s) = Some (mkTimer c i Armed) -> cancel s i = Some c ->
  exists s1 s2, step fx s (TimerFire c) = Some s1 /\ step fx s1 (TimerDelete c) = Some s2 /\
                trees s2 i = TAbsent /\ cancel s2 i = None.
Proof.
  intros G Hf Hc. cbn [step]. rewrite Hf. eexists. eexists. split; [reflexivity|].
  cbn [timers cancel trees]. 
  assert (Hf2 : find_timer c (set_pc c Fired (timers s)) = Some (mkTimer c i Fired)).
  { unfold find_timer, set_pc in *. induction (timers s) as [|t r IH]; cbn in *; [discriminate|].
    destruct (t_chan t =? c) eqn:E; cbn.
    - rewrite E. inversion Hf; subst. cbn. reflexivity.
    - rewrite E. auto. }
  rewrite Hf2, G, Hc, Nat.eqb_refl. cbn. split; [reflexivity|]. cbn. unfold upd. rewrite Nat.eqb_refl. auto.
Qed.

(* ---- the pinned code: refutations (each flag alone switched off) ------------ *)

Definition ka : tok := (0, 1).
Definition kb : tok := (0, 2).

(* F12: the timer fired, a new run refreshed the tree, then the timer deleted it *)
Lemma timer_race_refuted :
  exists acts s, run (mkFixes false true true true) init acts = Some s /\
                 inst s kb = IActive /\ trees s (tree_of kb) = TAbsent.
Proof.
  exists [LocalCreate ka; LocalSet ka; Done ka; TimerFire 0; LocalCreate kb; LocalSet kb; TimerDelete 0].
  eexists. split; [vm_compute; reflexivity|]. split; reflexivity.
Qed.

(* F13: Register overwrites a tree that a local run stored in the window *)
Lemma register_overwrite_refuted :
  exists acts s, run (mkFixes true false true true) init acts = Some s /\
                 inst s kb = IActive /\ trees s (tree_of kb) = TRequested.
Proof.
  exists [MsgLookup ka; MissCheck 0; LocalCreate kb; LocalSet kb; MissRegister 0].
  eexists. split; [vm_compute; reflexivity|]. split; reflexivity.
Qed.

(* F27: the last old instance finishes between the lookup and the creation of the new one *)
Lemma remove_after_lookup_refuted :
  exists acts s, run (mkFixes true true false true) init acts = Some s /\
                 inst s kb = IActive /\ trees s (tree_of kb) = TAbsent.
Proof.
  exists [LocalCreate ka; LocalSet ka; MsgLookup kb; Done ka; MsgDeliver kb; TimerFire 0; TimerDelete 0].
  eexists. split; [vm_compute; reflexivity|]. split; reflexivity.
Qed.

(* ... and with the repair the same schedule keeps the tree: the registration of the new
   instance stored it again and cancelled the removal, whose timer then changes nothing *)
Lemma remove_after_lookup_repaired :
  exists s, run all_fixed init [LocalCreate ka; LocalSet ka; MsgLookup kb; Done ka; MsgDeliver kb; TimerFire 0; TimerDelete 0] = Some s /\
            inst s kb = IActive /\ trees s (tree_of kb) = TPresent /\ cancel s (tree_of kb) = None /\ timers s = [].
Proof. eexists. split; [vm_compute; reflexivity|]. repeat split. Qed.

(* why the grace-period theorem speaks about the removal that a Done scheduled: a late message
   for a finished run whose lookup still found the tree re-arms a removal when it is dropped
   (F28), and by then the tree may already have been released through another run *)
Example rearm_on_released_tree :
  exists s c, run all_fixed init [LocalCreate ka; LocalSet ka; Done ka; MsgLookup ka; LocalCreate kb; LocalSet kb;
                                  Done kb; TimerFire 1; TimerDelete 1; MsgDeliver ka] = Some s /\
              cancel s 0 = Some c /\ trees s 0 = TAbsent /\ in_use s 0 = false.
Proof. eexists. eexists. split; [vm_compute; reflexivity|]. repeat split. Qed.

(* F28: a late message for the finished run cancels the removal for good *)
Lemma late_message_leak_refuted :
  exists acts s, run (mkFixes true true true false) init acts = Some s /\
                 inst s ka = IDone /\ in_use s 0 = false /\ hits s = [] /\
                 trees s 0 = TPresent /\ cancel s 0 = None /\
                 (forall c, step (mkFixes true true true false) s (TimerFire c) = None).
Proof.
  exists [LocalCreate ka; LocalSet ka; Done ka; MsgLookup ka; MsgDeliver ka; TimerCancel 0].
  eexists. split; [vm_compute; reflexivity|]. repeat split.
Qed.

Lemma late_message_rearms :
  exists s c, run all_fixed init [LocalCreate ka; LocalSet ka; Done ka; MsgLookup ka; MsgDeliver ka] = Some s /\
              cancel s 0 = Some c /\ find_timer c (timers s) = Some (mkTimer c 0 Armed).
Proof. eexists. eexists. split; [vm_compute; reflexivity|]. split; reflexivity. Qed.

(* non-vacuity: a reachable state of the repaired system with a live instance,
   a finished one and a removal pending on another tree *)
Example fixed_example :
  exists s, run all_fixed init [LocalCreate ka; LocalSet ka; LocalCreate (1, 1); LocalSet (1, 1);
                                MsgLookup kb; MsgDeliver kb; Done (1, 1); Done ka] = Some s /\
            inst s kb = IActive /\ inst s ka = IDone /\ cancel s 1 = Some 0 /\ cancel s 0 = None.
Proof. eexists. split; [vm_compute; reflexivity|]. repeat split. Qed.
