#!/usr/bin/env python3
"""Regenerate MANIFEST.json from checkconf.PROPS (run after adding a property)."""
import json, os, subprocess
from checkconf import PROPS
ROOT = os.path.dirname(os.path.abspath(__file__))
ids = [json.loads(l)["id"] for l in open(os.path.join(ROOT, "properties.jsonl"))]
hooks_commits = []
hf = os.path.join(ROOT, "MANIFEST.hooks")
if os.path.exists(hf):
    hooks_commits = [l.split()[0] for l in open(hf) if l.strip() and not l.startswith("#")]
checks, na = [], []
for i in ids:
    if i in PROPS and all(k in PROPS[i] for k in ('harness', 'coq_files', 'level_text', 'level_note')):
        c = PROPS[i]
        checks.append({
            "property_id": i,
            "quick_cmd": "./check %s --tier quick" % i,
            "thorough_cmd": "./check %s --tier thorough" % i,
            "evidence_file": "/verif/evidence/%s.json" % i,
            "replay_cmd_template": "./check %s --replay {path}" % i,
            "engine": "coq-proof+correspondence",
            "level_claimed": {"category": "proof", "text": c["level_text"], "design_ref": "DESIGN.md section 4, " + i},
            "level_note": c["level_note"],
            "technique": c.get("technique", "Coq 8.16 theorems over a hand-written Gallina model; model tied to /repo by a differential correspondence check evaluated with vm_compute"),
        })
    else:
        na.append({"property_id": i, "reason": "no check registered yet in this round of the build (planned: see DESIGN.md section 4, %s)" % i})
m = {
    "version": 1,
    "setup_cmd": "./setup.sh",
    "hooks": {
        "guard": "verif",
        "enable": "go build -tags verif (the harness module in /verif/harness replaces go.dedis.ch/onet/v3 by /repo)",
        "baseline_off_cmd": "cd /repo && GOFLAGS=-mod=mod GOPROXY=off GOSUMDB=off GOTOOLCHAIN=local go test -json -vet=off -count=1 -timeout 25m ./...",
        "source_commits": hooks_commits,
        "add_only": True,
    },
    "engines": [{
        "name": "coq-proof+correspondence", "path": "/verif/check",
        "serves_properties": [c["property_id"] for c in checks],
        "kind_free_text": "Coq 8.16.1 development (coq/theories: models, proofs, Properties/Cxx.v closed by exact + Print Assumptions) "
                          "plus a Go differential harness whose observations are evaluated against the model inside Coq (vm_compute)",
    }],
    "checks": checks,
    "not_applicable": na,
    "notes": "See DESIGN.md. known_findings.jsonl lists genuine defects of the pinned tree that are recorded rather than repaired.",
}
json.dump(m, open(os.path.join(ROOT, "MANIFEST.json"), "w"), indent=1)
print("checks:", len(checks), "not_applicable:", len(na))
