#!/bin/sh
# tools/evalall.sh LANE...: re-evaluate the recorded seeded changes of the given properties from seeded/<id>/
# (patch.diff + demonstration), one after the other; results in work/muteval/<id>.json
cd /verif
for P in "$@"; do
  for d in seeded/$P-[A-Z]; do
    [ -f $d/patch.diff ] || continue
    id=$(basename $d)
    python3 tools/muteval.py $P /verif/$d > work/muteval/$id.json 2>&1
  done
done
