#!/usr/bin/env python3
import json,sys,os,glob
for k in sys.argv[1:]:
    f='/verif/work/muteval/%s.json'%k
    if not os.path.exists(f): print(k,'-'); continue
    try:
        d=json.load(open(f))
        vs=[l for l in d.get('check_out',[]) if l.startswith('VIOLATION')]
        print(k,'wo',d.get('demo_without'),'w',d.get('demo_with'),'build',str(d.get('build'))[:20],'rc',d.get('check_rc'),d.get('check_s'),'nviol',len(vs),(vs[0].split('replays/')[-1] if vs else ''), d.get('apply','')[:100])
    except Exception as e: print(k,'ERR',e, open(f).read()[:200])
