#!/bin/sh
# tools/eval3.sh C15 ...: evaluate the round-3 seeded changes (A -> C, B -> D) of the given properties, one after the other
cd /verif
for P in "$@"; do
  p=$(echo $P | tr A-Z a-z)
  for x in A B; do
    y=$( [ $x = A ] && echo C || echo D )
    if [ -f /tmp/m3-$p/_out/$x/patch.diff ]; then
      python3 tools/muteval.py $P /tmp/m3-$p/_out/$x > work/muteval/$P-$y.json 2>&1
    fi
  done
done
