#!/usr/bin/env python3
"""Evaluate one candidate mutation against our checks.

    tools/muteval.py C11 /tmp/mut-c11/_out/A [--tier quick] [--seed N] [--demo-pkg .]

1. makes a scratch worktree of /repo's HEAD under /tmp, runs the demonstration there
   WITHOUT the patch (must pass) and WITH the patch (must fail);
2. runs ./check <prop> --dev with VERIF_REPO pointing at the patched worktree;
3. prints a JSON summary and removes the worktree.
"""
import argparse, glob, json, os, shutil, subprocess, sys, time

ENV = dict(os.environ, GOFLAGS="-mod=mod", GOPROXY="off", GOSUMDB="off", GOTOOLCHAIN="local")


def sh(cmd, cwd=None, timeout=3000, env=None):
    p = subprocess.run(cmd, cwd=cwd, shell=isinstance(cmd, str), stdout=subprocess.PIPE,
                       stderr=subprocess.STDOUT, timeout=timeout, env=env or ENV)
    return p.returncode, p.stdout.decode("utf-8", "replace")


def main():
    ap = argparse.ArgumentParser()
    ap.add_argument("prop")
    ap.add_argument("dir")
    ap.add_argument("--tier", default="quick")
    ap.add_argument("--seed", default="1")
    ap.add_argument("--demo-pkg", default=None, help="package dir (relative) where the demo test goes")
    ap.add_argument("--skip-demo", action="store_true")
    ap.add_argument("--keep", action="store_true")
    a = ap.parse_args()
    tag = "%s-%s-%d" % (a.prop.lower(), os.path.basename(a.dir.rstrip("/")), os.getpid())
    wt = "/tmp/ev-" + tag
    sh(["git", "-C", "/repo", "worktree", "remove", "--force", wt])
    shutil.rmtree(wt, ignore_errors=True)
    rc, out = sh(["git", "-C", "/repo", "worktree", "add", "--detach", wt, "HEAD"])
    if rc:
        print(out)
        sys.exit(2)
    res = {"prop": a.prop, "dir": a.dir}
    try:
        patch = os.path.join(a.dir, "patch.diff")
        demos = glob.glob(os.path.join(a.dir, "zz_demo*_test.go")) + glob.glob(os.path.join(a.dir, "*_test.go"))
        demos = sorted(set(demos))
        if not a.skip_demo and demos:
            pkg = a.demo_pkg
            if pkg is None:
                # package clause of the demo decides: onet -> ., network -> network, monitor -> simul/monitor, app -> app
                txt = open(demos[0]).read()
                name = [l.split()[1] for l in txt.split("\n") if l.startswith("package ")][0]
                pkg = {"onet": ".", "network": "network", "monitor": "simul/monitor", "app": "app",
                       "onet_test": ".", "network_test": "network", "simul": "simul", "platform": "simul/platform"}.get(name, ".")
            for d in demos:
                shutil.copy(d, os.path.join(wt, pkg, os.path.basename(d)))
            runpat = "ZZ|zz|Demo"
            cmd = "unshare -n sh -c \"ip link set lo up; go test -vet=off -count=1 -run '%s' ./%s\" 2>&1 | tail -15" % (runpat, pkg)
            rc0, out0 = sh(cmd, cwd=wt, timeout=1200)
            res["demo_without"] = "PASS" if ("ok " in out0 and "FAIL" not in out0) else "FAIL"
            res["demo_without_tail"] = out0[-400:]
        rc, out = sh(["git", "apply", patch], cwd=wt)
        if rc:
            res["apply"] = out
            print(json.dumps(res, indent=1))
            return
        rcb, outb = sh("go build ./... && go build -tags verif ./...", cwd=wt, timeout=1200)
        res["build"] = "ok" if rcb == 0 else outb[-500:]
        if not a.skip_demo and demos:
            rc1, out1 = sh(cmd, cwd=wt, timeout=1200)
            res["demo_with"] = "PASS" if ("ok " in out1 and "FAIL" not in out1) else "FAIL"
            res["demo_with_tail"] = out1[-400:]
            for d in demos:
                os.remove(os.path.join(wt, pkg, os.path.basename(d)))
        t0 = time.time()
        env = dict(ENV, VERIF_REPO=wt, VERIF_SEED=a.seed, VERIF_SCRATCH_TAG="_mu%d" % os.getpid())
        rc2, out2 = sh(["./check", a.prop, "--dev", "--tier", a.tier], cwd="/verif", timeout=6000, env=env)
        res["check_rc"] = rc2
        res["check_s"] = round(time.time() - t0, 1)
        res["check_out"] = [l[:260] for l in out2.split("\n") if l.startswith("VIOLATION") or l.startswith("KNOWN")][:12]
        print(json.dumps(res, indent=1))
    finally:
        if not a.keep:
            sh(["git", "-C", "/repo", "worktree", "remove", "--force", wt])
            shutil.rmtree(wt, ignore_errors=True)
            shutil.rmtree("/verif/work/%s_scratch_mu%d" % (a.prop, os.getpid()), ignore_errors=True)


if __name__ == "__main__":
    main()
