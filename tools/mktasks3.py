#!/usr/bin/env python3
"""Round-3 seeded-change campaign: create one scratch worktree /tmp/m3-cXX per property with a
_TASK.md that contains ONLY the property's text (nothing from /verif) plus the list of ideas
already used in rounds 1-2 (so that the new changes differ)."""
import json, os, subprocess, sys
ROOT = os.path.dirname(os.path.dirname(os.path.abspath(__file__)))
desc = json.load(open(os.path.join(ROOT, "tools", "seeds_desc.json")))
props = {}
for l in open(os.path.join(ROOT, "properties.jsonl")):
    d = json.loads(l); props[d["id"]] = d
for pid in sys.argv[1:]:
    p = props[pid]; w = "/tmp/" + os.environ.get("SEED_PREFIX", "m3") + "-" + pid.lower()
    if not os.path.isdir(w):
        subprocess.check_call(["git", "-C", "/repo", "worktree", "add", "-q", "--detach", w, "HEAD"])
    os.makedirs(w + "/_out", exist_ok=True)
    used = [v[0] for k, v in sorted(desc.items()) if k.startswith(pid)]
    anchors = p.get("anchors") or p.get("anchored_in") or p.get("anchor") or []
    if isinstance(anchors, dict):
        anchors = ", ".join(anchors.get("files", []))
    quant = p.get("quantifier") or ""
    if isinstance(quant, dict):
        quant = quant.get("text", "")
    t = """You are given a Go repository (dedis/onet, module go.dedis.ch/onet/v3) in your OWN git worktree at {w}. Work only inside {w}; do not read or touch /repo, /verif or any other worktree; never commit. There is no network. In every shell call first run: export GOFLAGS=-mod=mod GOPROXY=off GOSUMDB=off GOTOOLCHAIN=local

A semantic property that the code is supposed to satisfy:

TITLE: {title}
STATEMENT: {stmt}
QUANTIFIED OVER: {quant}
ANCHORED IN: {anch}

Your task: produce TWO independent candidate changes (A and B) to the non-test source of the repository, each of which BREAKS this property while
 (1) still compiling (`go build ./...`),
 (2) still passing the existing test suite - run at least `go test -vet=off -count=1 ./<package>` for every package you touch, and the root package if you touch it. Other processes on this machine use fixed ports in 2000-2100, which makes port-binding tests fail spuriously; avoid that by running every go test inside a private network namespace: `unshare -n sh -c 'ip link set lo up; go test -vet=off -count=1 ./...'` (you are root; this works here). A few tests are flaky on their own: compare with the unchanged tree (save your change with `git diff > {w}/_out/wip.diff`, undo it with `git apply -R`, re-apply with `git apply`; do NOT use `git stash`: the stash is shared between worktrees) before blaming your change, and
 (3) needing something SPECIFIC to manifest: a particular interleaving of goroutines, a crash or fault at a particular point, a multi-step sequence of operations, an unusual input, or two cooperating sites that each look fine alone. Changes that ordinary use or the existing tests would expose at once are worthless. Realistic is better than exotic: think of a plausible refactoring slip, an off-by-one, a dropped check, a lock released too early, a condition inverted on a rare path, a wrong variable in a loop, a stale cached value, a boundary moved by one, an error swallowed.
Files named verif_*.go and calls `verifAt(...)` are test instrumentation (empty functions in a normal build): leave them alone and do not rely on them.

These ideas have ALREADY been used; yours must be different in kind and preferably touch a different function or a different clause of the property:
{used}

For each change provide a DEMONSTRATION: a Go test (placed in the right package directory, name it zz_demo_<A|B>_test.go) or a small program that FAILS with the change applied and PASSES without it, deterministically enough to be believed (if it needs an interleaving, force it, e.g. with channels, or repeat until it shows, and say how often it shows).

Deliver, for each change X in {{A,B}}, in {w}/_out/X/: `patch.diff` (output of `git diff` restricted to non-test source; it must apply to the unchanged worktree with `git apply`), the demonstration file, and `README.md` saying: what the change is, which part of the property it breaks, what it needs in order to manifest, the exact commands you ran (build, tests, demonstration with and without the change) and their outcomes. Leave the worktree itself UNCHANGED at the end (git status clean apart from _out/). Your final message: a 10-line summary of A and B.
""".format(w=w, title=p["title"], stmt=p.get("statement", ""), quant=quant, anch=anchors,
           used="\n".join(" - " + u for u in used) or " (none)")
    open(w + "/_TASK.md", "w").write(t)
    print(pid, w, len(used), "used ideas; quant:", bool(quant), "anchors:", bool(anchors))
