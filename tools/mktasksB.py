#!/usr/bin/env python3
"""Benign-change campaign: one scratch worktree /tmp/bn-cXX per property with a _TASK.md asking for
behaviour-preserving rewrites of the anchored code (to test that the checks raise no alarm)."""
import json, os, subprocess, sys
ROOT = os.path.dirname(os.path.dirname(os.path.abspath(__file__)))
props = {}
for l in open(os.path.join(ROOT, "properties.jsonl")):
    d = json.loads(l); props[d["id"]] = d
for pid in sys.argv[1:]:
    p = props[pid]; w = "/tmp/bn-" + pid.lower()
    if not os.path.isdir(w):
        subprocess.check_call(["git", "-C", "/repo", "worktree", "add", "-q", "--detach", w, "HEAD"])
    os.makedirs(w + "/_out", exist_ok=True)
    anchors = ", ".join(p["anchors"].get("files", []))
    t = """You are given a Go repository (dedis/onet, module go.dedis.ch/onet/v3) in your OWN git worktree at {w}. Work only inside {w}; do not read or touch /repo, /verif or any other worktree; never commit. There is no network. In every shell call first run: export GOFLAGS=-mod=mod GOPROXY=off GOSUMDB=off GOTOOLCHAIN=local

A semantic property that the code satisfies and must KEEP satisfying:

TITLE: {title}
STATEMENT: {stmt}
ANCHORED IN: {anch}

Your task: produce THREE independent BEHAVIOUR-PRESERVING changes (A, B, C) to the non-test source that implements this property - the kind of harmless rewrite a maintainer makes: restructure a loop or a condition, split or inline a helper function, rename local variables, reorder independent statements, replace a data-structure idiom by an equivalent one (e.g. swap-remove written differently, map lookup with ok-idiom vs. zero value where equivalent), early return vs. nested if, defer vs. explicit unlock ON ALL PATHS, add a fast path that gives the same result, change log messages, add comments. Each change must touch code that matters for the property (not dead code, not only comments), be at least ~10 changed lines, and must NOT change any behaviour observable through the package APIs, the wire format, error/no-error outcomes, locking discipline (which operations are atomic with respect to each other), goroutine structure or channel capacities. A is small, B medium, C as bold as you can while still being certain that nothing observable changes.
Rules: files named verif_*.go and calls `verifAt(...)` are test instrumentation compiled only under a build tag: keep every `verifAt(...)` call exactly at the same point of the logic (same arguments, same position relative to locks and to the operations around it) and do not rename or change the signature of anything those verif_*.go files use (check with `go build -tags verif ./...`, which must still succeed). Do not rename exported identifiers or struct fields.
Check: `go build ./... && go build -tags verif ./...`, and the tests of the packages you touch inside a private network namespace: `unshare -n sh -c 'ip link set lo up; go test -vet=off -count=1 ./<pkg>'` (root package: `.`). A few tests are flaky or fail for environmental reasons (TestTCPHugeConnections, TestTCPDialTimeout, simul/monitor tests, tracing TestStack): compare with the unchanged tree before blaming your change (save with `git diff > {w}/_out/wip.diff`, undo with `git apply -R`; do NOT use git stash).
Deliver for each X in {{A,B,C}} in {w}/_out/X/: `patch.diff` (git diff of non-test source, applies to the unchanged worktree with `git apply`) and `README.md` (what was rewritten and the argument why behaviour is unchanged). Leave the worktree UNCHANGED at the end. Final message: 6-line summary.
""".format(w=w, title=p["title"], stmt=p["statement"], anch=anchors)
    open(w + "/_TASK.md", "w").write(t)
    print(pid, w)
