#!/usr/bin/env python3
"""Record an evaluated seeded change under /verif/seeded/<prop>-<X>/ (patch.diff, demonstration,
README of its author, meta.json) from /tmp/mut-<prop>/_out/<X> and work/muteval/<PROP>-<X>.json."""
import glob, json, os, re, shutil, sys
ROOT = os.path.dirname(os.path.dirname(os.path.abspath(__file__)))
prop, x = sys.argv[1], sys.argv[2]
src = {"A": "/tmp/mut-%s/_out/A", "B": "/tmp/mut-%s/_out/B", "C": "/tmp/m3-%s/_out/A", "D": "/tmp/m3-%s/_out/B", "E": "/tmp/m4-%s/_out/A", "F": "/tmp/m4-%s/_out/B", "G": "/tmp/m5-%s/_out/A", "H": "/tmp/m5-%s/_out/B", "I": "/tmp/m6-%s/_out/A", "J": "/tmp/m6-%s/_out/B", "K": "/tmp/m7-%s/_out/A", "L": "/tmp/m7-%s/_out/B"}[x] % prop.lower()
ev = json.load(open(os.path.join(ROOT, "work", "muteval", "%s-%s.json" % (prop, x))))
dst = os.path.join(ROOT, "seeded", "%s-%s" % (prop, x))
os.makedirs(dst, exist_ok=True)
if not os.path.isdir(src):
    src = dst   # the author's scratch worktree is gone: the recorded copy is the source
for f in ["patch.diff", "README.md"] + [os.path.basename(p) for p in glob.glob(os.path.join(src, "*_test.go"))]:
    if src != dst and os.path.exists(os.path.join(src, f)):
        shutil.copy(os.path.join(src, f), os.path.join(dst, f))
readme = open(os.path.join(src, "README.md")).read() if os.path.exists(os.path.join(src, "README.md")) else ""
viol = [l for l in ev.get("check_out", []) if l.startswith("VIOLATION")]
concrete = [l for l in viol if "no-failing-input-found" not in l]
meta = {
    "property": prop,
    "what": sys.argv[3] if len(sys.argv) > 3 else "",
    "needs": sys.argv[4] if len(sys.argv) > 4 else "",
    "author": "fresh sub-agent given only the property text and its own worktree of /repo",
    "confirmed": {"builds": ev.get("build") == "ok", "demo_passes_without_change": ev.get("demo_without") == "PASS",
                  "demo_fails_with_change": ev.get("demo_with") == "FAIL"},
    "ran": "tools/muteval.py %s %s  (scratch worktree of /repo HEAD + git apply patch.diff; go test -run 'ZZ|zz|Demo' on the "
           "unchanged and the changed worktree; VERIF_REPO=<worktree> ./check %s --dev --tier quick)" % (prop, src, prop),
    "check_exit": ev.get("check_rc"),
    "check_seconds": ev.get("check_s"),
    "check_lines": [re.sub(r"/verif/work/[A-Za-z0-9_]+/", "", l) for l in viol][:8],
    "caught": bool(viol),
    "caught_with_failing_input": bool(concrete),
    "how": sys.argv[5] if len(sys.argv) > 5 else "",
}
json.dump(meta, open(os.path.join(dst, "meta.json"), "w"), indent=1)
print(dst, "caught" if meta["caught"] else "MISSED", "(concrete)" if concrete else "")
