#!/usr/bin/env python3
"""Regenerate DESIGN.md section 3.1 (disposition of every reproduced defect) from the findings files."""
import json, glob
fs = []
for f in ['/verif/known_findings.jsonl'] + sorted(glob.glob('/verif/findings/*.jsonl')):
    for l in open(f):
        l = l.strip()
        if l:
            fs.append(json.loads(l))
seen, rows = set(), []
for d in fs:
    k = (d['property'], d.get('id'))
    if k in seen or d['status'] not in ('known', 'fixed'):
        continue
    seen.add(k)
    w = d['what']
    if w.startswith('fixed: property='):
        parts = w.split(' ', 3)
        w = parts[3] if len(parts) > 3 else w
    w = w.replace('|', '/')
    if len(w) > 150:
        w = w[:150] + ' ...'
    rows.append("| %s | %s | %s | %s |" % (d.get('id'), d['property'],
                ('fixed in `%s`' % d.get('commit')) if d['status'] == 'fixed' else 'known finding', w))
rows.sort()
txt = ("\n### 3.1 Disposition as built\n\nEvery defect that a check reproduced from `/verif` machinery against the real code, "
       "with its disposition (the authoritative\nlist is `known_findings.jsonl` + `findings/*.jsonl`; `fixed` entries suppress "
       "nothing):\n\n| id | prop | disposition | what |\n|---|---|---|---|\n" + "\n".join(rows) + "\n\n")
p = '/verif/DESIGN.md'
s = open(p).read()
if '### 3.1 Disposition as built' in s:
    a = s.index('### 3.1 Disposition as built') - 1
    b = s.index('-' * 88, a)
    s = s[:a] + txt + s[b:]
else:
    marker = '-' * 88 + "\n\n## 4. Per property"
    s = s.replace(marker, txt + marker)
open(p, 'w').write(s)
print(len(rows), "rows")
