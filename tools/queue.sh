#!/bin/sh
# sequential job queue: tools/queue.sh runs the lines appended to work/queue.txt one after the other
cd /verif; touch work/queue.txt; n=0
while true; do
  total=$(wc -l < work/queue.txt)
  if [ $n -lt $total ]; then
    n=$((n+1)); cmd=$(sed -n "${n}p" work/queue.txt)
    echo "$(date -u +%H:%M:%S) START $cmd" >> work/queue.log
    sh -c "$cmd" >> work/queue.out 2>&1
    echo "$(date -u +%H:%M:%S) END   $cmd" >> work/queue.log
  else
    sleep 10
  fi
done
