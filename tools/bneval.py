#!/usr/bin/env python3
"""Evaluate a behaviour-preserving patch: apply it to a scratch worktree of /repo HEAD and run every
check whose property is anchored in a touched file (VERIF_REPO mode, --dev, quick). Expect: no alarm.
   tools/bneval.py /tmp/bn-c06/_out/A [--all]
Prints JSON {patch, touched, results: {Cxx: {rc, s, lines}}}."""
import json, os, re, subprocess, sys, time, shutil
from concurrent.futures import ThreadPoolExecutor
ROOT = "/verif"
ENV = dict(os.environ, GOFLAGS="-mod=mod", GOPROXY="off", GOSUMDB="off", GOTOOLCHAIN="local")
d = sys.argv[1].rstrip("/")
patch = os.path.join(d, "patch.diff")
touched = sorted(set(re.findall(r"^\+\+\+ b/(\S+)", open(patch).read(), flags=re.M)))
props = []
for l in open(os.path.join(ROOT, "properties.jsonl")):
    p = json.loads(l)
    files = p["anchors"].get("files", [])
    if "--all" in sys.argv or any(t == f or t.endswith("/" + f) or f.endswith("/" + t) for t in touched for f in files):
        props.append(p["id"])
for a in sys.argv:
    if a.startswith("--only="):
        props = a[len("--only="):].split(",")
for a in sys.argv:
    if a.startswith("--among="):
        props = [x for x in props if x in a[len("--among="):].split(",")]
wt = "/tmp/bnev-%d" % os.getpid()
subprocess.check_call(["git", "-C", "/repo", "worktree", "add", "-q", "--detach", wt, "HEAD"])
res = {"patch": patch, "touched": touched, "props": props, "results": {}}
try:
    r = subprocess.run(["git", "apply", patch], cwd=wt, stdout=subprocess.PIPE, stderr=subprocess.STDOUT)
    if r.returncode:
        res["apply"] = r.stdout.decode()[-500:]
    else:
        b = subprocess.run("go build ./... && go build -tags verif ./...", shell=True, cwd=wt, env=ENV,
                           stdout=subprocess.PIPE, stderr=subprocess.STDOUT)
        res["build"] = "ok" if b.returncode == 0 else b.stdout.decode()[-800:]
        def one(p):
            t0 = time.time()
            q = subprocess.run(["./check", p, "--dev", "--tier", "quick"], cwd=ROOT, env=dict(ENV, VERIF_REPO=wt, VERIF_SCRATCH_TAG="_bn%d" % os.getpid()),
                               stdout=subprocess.PIPE, stderr=subprocess.STDOUT)
            out = q.stdout.decode("utf-8", "replace")
            return p, {"rc": q.returncode, "s": round(time.time() - t0, 1),
                       "lines": [l[:240] for l in out.split("\n") if l.startswith("VIOLATION")][:6]}
        if res["build"] == "ok":
            with ThreadPoolExecutor(4) as ex:
                for p, r in ex.map(one, props):
                    res["results"][p] = r
finally:
    subprocess.call(["git", "-C", "/repo", "worktree", "remove", "--force", wt])
    shutil.rmtree(wt, ignore_errors=True)
    for p in props:
        shutil.rmtree("/verif/work/%s_scratch_bn%d/harness_copy" % (p, os.getpid()), ignore_errors=True)
print(json.dumps(res, indent=1))
