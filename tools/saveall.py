#!/usr/bin/env python3
"""(Re)record every evaluated seeded change listed in tools/seeds_desc.json from work/muteval/*.json."""
import json, os, subprocess
ROOT = os.path.dirname(os.path.dirname(os.path.abspath(__file__)))
desc = json.load(open(os.path.join(ROOT, "tools", "seeds_desc.json")))
for key, (what, needs, how) in sorted(desc.items()):
    prop, x = key.split("-")
    ev = os.path.join(ROOT, "work", "muteval", key + ".json")
    src = {"A": "/tmp/mut-%s/_out/A", "B": "/tmp/mut-%s/_out/B", "C": "/tmp/m3-%s/_out/A", "D": "/tmp/m3-%s/_out/B", "E": "/tmp/m4-%s/_out/A", "F": "/tmp/m4-%s/_out/B", "G": "/tmp/m5-%s/_out/A", "H": "/tmp/m5-%s/_out/B", "I": "/tmp/m6-%s/_out/A", "J": "/tmp/m6-%s/_out/B", "K": "/tmp/m7-%s/_out/A", "L": "/tmp/m7-%s/_out/B"}[x] % prop.lower()
    if not os.path.exists(ev) or not (os.path.isdir(src) or os.path.isdir(os.path.join(ROOT, 'seeded', key))) or not what:
        continue
    try:
        json.load(open(ev))
    except Exception:
        print(key, "evaluation unreadable"); continue
    subprocess.call(["python3", os.path.join(ROOT, "tools", "saveseed.py"), prop, x, what, needs, how])
