#!/bin/sh
# tools/bnagain.sh C01,C05,...: re-run the recorded behaviour-preserving rewrites against the named checks
cd /verif
mkdir -p work/bneval2
for d in seeded/benign/*/; do
  id=$(basename $d)
  python3 tools/bneval.py /verif/seeded/benign/$id --among=$1 > work/bneval2/$id.json 2>&1
done
