#!/bin/sh
# tools/bnagain.sh C01,C05,... [OUTDIR]: re-run the recorded behaviour-preserving rewrites against the named checks
cd /verif
OUT=${2:-work/bneval2}
mkdir -p $OUT
for d in seeded/benign/*/; do
  id=$(basename $d)
  python3 tools/bneval.py /verif/seeded/benign/$id --among=$1 > $OUT/$id.json 2>&1
done
