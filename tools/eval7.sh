#!/bin/sh
# tools/eval7.sh C15 ...: evaluate the round-7 seeded changes (A -> K, B -> L)
cd /verif
for P in "$@"; do
  p=$(echo $P | tr A-Z a-z)
  for x in A B; do
    y=$( [ $x = A ] && echo K || echo L )
    if [ -f /tmp/m7-$p/_out/$x/patch.diff ]; then
      python3 tools/muteval.py $P /tmp/m7-$p/_out/$x > work/muteval/$P-$y.json 2>&1
    fi
  done
done
