#!/bin/sh
# tools/sweep.sh TIER [PAR] [PROPS...]: run the registered command of every (or the named) property at the given tier, PAR at a time
cd /verif
TIER=${1:-quick}; PAR=${2:-4}
[ $# -ge 2 ] && shift 2 || shift $#
PROPS="$@"
[ -z "$PROPS" ] && PROPS=$(ls conf | sed 's/.json//')
mkdir -p work/sweep_$TIER
echo $PROPS | tr ' ' '\n' | xargs -P $PAR -I{} sh -c "/usr/bin/time -f '{} %es rc=%x' ./check {} --tier $TIER > work/sweep_$TIER/{}.out 2> work/sweep_$TIER/{}.time; tail -1 work/sweep_$TIER/{}.time"
