#!/bin/sh
# tools/sweep.sh TIER [PAR]: run the registered command of every property at the given tier, PAR at a time
cd /verif
TIER=${1:-quick}; PAR=${2:-4}
mkdir -p work/sweep_$TIER
ls conf | sed 's/.json//' | xargs -P $PAR -I{} sh -c "/usr/bin/time -f '{} %es rc=%x' ./check {} --tier $TIER > work/sweep_$TIER/{}.out 2> work/sweep_$TIER/{}.time; tail -1 work/sweep_$TIER/{}.time"
