#!/bin/sh
# second evaluation lane: reads property ids from work/lane2.txt and runs tools/eval5.sh on each
cd /verif; n=0
while true; do
  total=$(wc -l < work/lane2.txt)
  if [ $n -lt $total ]; then
    n=$((n+1)); p=$(sed -n "${n}p" work/lane2.txt)
    [ "$p" = "STOP" ] && exit 0
    echo "$(date -u +%H:%M:%S) START eval5 $p" >> work/lane2.log
    tools/eval5.sh $p >> work/lane2.out 2>&1
    echo "$(date -u +%H:%M:%S) END   eval5 $p" >> work/lane2.log
  else
    sleep 10
  fi
done
