#!/bin/sh
# second evaluation lane: reads property ids from work/lane3.txt and runs tools/eval6.sh on each
cd /verif; n=0
while true; do
  total=$(wc -l < work/lane3.txt)
  if [ $n -lt $total ]; then
    n=$((n+1)); p=$(sed -n "${n}p" work/lane3.txt)
    [ "$p" = "STOP" ] && exit 0
    echo "$(date -u +%H:%M:%S) START eval6 $p" >> work/lane3.log
    tools/eval6.sh $p >> work/lane3.out 2>&1
    echo "$(date -u +%H:%M:%S) END   eval6 $p" >> work/lane3.log
  else
    sleep 10
  fi
done
