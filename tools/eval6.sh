#!/bin/sh
# tools/eval4.sh C15 ...: evaluate the round-6 seeded changes (A -> I, B -> J)
cd /verif
for P in "$@"; do
  p=$(echo $P | tr A-Z a-z)
  for x in A B; do
    y=$( [ $x = A ] && echo I || echo J )
    if [ -f /tmp/m6-$p/_out/$x/patch.diff ]; then
      python3 tools/muteval.py $P /tmp/m6-$p/_out/$x > work/muteval/$P-$y.json 2>&1
    fi
  done
done
