#!/usr/bin/env python3
"""Record the evaluated behaviour-preserving rewrites under seeded/benign/<Cxx-X>/ (patch.diff, README.md of
the author, result.json = what tools/bneval.py measured)."""
import glob, json, os, re, shutil
ROOT = os.path.dirname(os.path.dirname(os.path.abspath(__file__)))
for f in sorted(glob.glob(os.path.join(ROOT, "work", "bneval", "C*-*.json"))):
    key = os.path.basename(f)[:-5]
    try:
        d = json.load(open(f))
    except Exception:
        print(key, "unreadable"); continue
    src = os.path.dirname(d["patch"])
    dst = os.path.join(ROOT, "seeded", "benign", key)
    os.makedirs(dst, exist_ok=True)
    for n in ("patch.diff", "README.md"):
        if os.path.exists(os.path.join(src, n)):
            shutil.copy(os.path.join(src, n), os.path.join(dst, n))
    for p, r in d.get("results", {}).items():
        r["lines"] = [re.sub(r"/verif/work/[A-Za-z0-9_]+/", "", l) for l in r["lines"]]
    d["patch"] = "patch.diff"
    d["ran"] = "tools/bneval.py: scratch worktree of /repo HEAD + git apply; go build with and without the tag; VERIF_REPO=<worktree> ./check <P> --dev --tier quick for every property anchored in a touched file"
    json.dump(d, open(os.path.join(dst, "result.json"), "w"), indent=1)
    alarms = {p: r["lines"] for p, r in d.get("results", {}).items() if r["rc"] != 0}
    print(key, "touched", d.get("touched"), "checks", len(d.get("results", {})), "alarms", alarms or "none")
