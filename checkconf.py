"""Per-property configuration of ./check (trusted base, clause meanings, harness names)."""

ALLOWED_AXIOMS = [
    # standard-library axioms only; each is named in the evidence if it ever appears
    "functional_extensionality_dep", "Eqdep.Eq_rect_eq.eq_rect_eq", "eq_rect_eq",
    "classic", "proof_irrelevance", "JMeq_eq", "propositional_extensionality",
]

COMMON_TRUSTED = [
    "Coq 8.16.1 kernel incl. the vm_compute virtual machine (no native_compute)",
    "the hand-written Gallina model of the anchored Go code; tied to /repo only by the correspondence check of this run",
    "the Go harness (verif/harness) and this driver (verif/check): case generation, observation, Coq literal printing",
    "go1.23.5 toolchain and runtime",
]

PROPS = {
    "C12": {
        "harness": "c12",
        "level_text": "Theorems for every roster size, branching factor >= 1, root and node count: closed-form shape of the n-ary "
                      "generator (hence one node per member, <= N children, breadth-first filling, requested root), node count of the "
                      "big generator, no tree for a foreign root; node-id distinctness relative to an injective id function, with the "
                      "pinned code's repetition recorded as known finding F14. The Gallina loops are run against the Go generators on "
                      "every check (exhaustive for small sizes, sampled above).",
        "level_note": "Trusted: Coq kernel + vm_compute; hand-written model tied by correspondence only; harness; kyber/uuid for node ids.",
        "model": "Tree/Gen.v: gen_nary, gen_big",
        "clauses": {
            "1": "not a well-formed tree (parent links, breadth-first order, roster positions, <= N children)",
            "2": "wrong number of nodes / not one node per roster member",
            "3": "levels not filled breadth-first",
            "4": "node count = roster size but some member unused",
            "5": "two nodes on different servers share a node identifier",
            "6": "node identifiers repeat because a server occupies several nodes",
            "7": "root is not the requested root",
            "8": "a root outside the roster yields a tree",
            "9": "crash / nil on a legal input",
        },
        "trusted": ["kyber Ed25519 key generation and uuid.NewSHA1 (node ids are observed, not modelled: "
                    "the model states distinctness relative to an injective id function)"],
        "assumptions": ["N >= 1, roster non-empty, nodes >= 1 (outside: N = 0 crashes the n-ary generator, recorded in DESIGN.md)",
                        "host equality is Address.Host() string equality, abstracted to a host index"],
        "explanation": "theorems over all roster sizes / branching factors / roots / node counts; "
                       "correspondence = the Go generators and the Gallina loops on the same inputs",
    },
}
