"""Configuration of ./check: allowed axioms, common trusted base, and the
per-property settings loaded from conf/Cxx.json."""
import glob, json, os

ROOT = os.path.dirname(os.path.abspath(__file__))

ALLOWED_AXIOMS = [
    # standard-library axioms only; each is named in the evidence if it ever appears
    "functional_extensionality_dep", "Eqdep.Eq_rect_eq.eq_rect_eq", "eq_rect_eq",
    "classic", "proof_irrelevance", "JMeq_eq", "propositional_extensionality",
]

COMMON_TRUSTED = [
    "Coq 8.16.1 kernel incl. the vm_compute virtual machine (no native_compute)",
    "the hand-written Gallina model of the anchored Go code; tied to /repo only by the correspondence check of this run",
    "the Go harness (verif/harness) and this driver (verif/check): case generation, observation, Coq literal printing",
    "go1.23.5 toolchain and runtime",
]

PROPS = {}
for f in sorted(glob.glob(os.path.join(ROOT, "conf", "C*.json"))):
    PROPS[os.path.basename(f)[:-5]] = json.load(open(f))
