#!/bin/sh
# Build the framework from files on disk only (offline): full .vo build of the Coq
# development and a warm-up build of every harness binary.
set -e
cd "$(dirname "$0")"
export GOFLAGS=-mod=mod GOPROXY=off GOSUMDB=off GOTOOLCHAIN=local
cd coq
find theories -name '*.vo' -o -name '*.glob' -o -name '*.vok' -o -name '*.vos' -o -name '.*.aux' | xargs -r rm -f
coq_makefile -f _CoqProject -o Makefile $(find theories -name '*.v' | sort)
find theories -name '*.v' | sort | python3 -c "import sys,hashlib;print(hashlib.sha1('\n'.join(l.strip() for l in sys.stdin).encode()).hexdigest(),end='')" > .filelist
timeout 3000 make -j16
cd ../harness
cp /repo/go.sum go.sum
mkdir -p ../work/bin
for d in cmd/*/; do
  n=$(basename "$d")
  go build -tags verif -o ../work/bin/$n ./cmd/$n
done
echo setup ok
