module verifharness

go 1.13

require (
	go.dedis.ch/kyber/v3 v3.0.13
	go.dedis.ch/onet/v3 v3.2.10
)

replace go.dedis.ch/onet/v3 => /repo
