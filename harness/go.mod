module verifharness

go 1.13

require (
	github.com/google/uuid v1.1.2
	go.dedis.ch/kyber/v3 v3.0.13
	go.dedis.ch/onet/v3 v3.2.10
	go.dedis.ch/protobuf v1.0.11
)

replace go.dedis.ch/onet/v3 => /repo
