module verifharness

go 1.13

require (
	github.com/google/uuid v1.1.2
	github.com/gorilla/websocket v1.4.1
	go.dedis.ch/kyber/v3 v3.0.13
	go.dedis.ch/onet/v3 v3.2.10
	go.dedis.ch/protobuf v1.0.11
	go.etcd.io/bbolt v1.3.4
	golang.org/x/xerrors v0.0.0-20191011141410-1b5146add898
)

replace go.dedis.ch/onet/v3 => /repo
