package lib

import (
	"encoding/hex"
	"fmt"
	"strconv"
	"strings"
)

// Coq literal helpers.

func Nat(n int) string { return strconv.Itoa(n) }

func Bool(b bool) string {
	if b {
		return "true"
	}
	return "false"
}

func Z(n int64) string { return fmt.Sprintf("(%d)%%Z", n) }
func N(n uint64) string { return fmt.Sprintf("%d%%N", n) }

func List(items []string) string { return "[" + strings.Join(items, "; ") + "]" }

func NatList(xs []int) string {
	s := make([]string, len(xs))
	for i, x := range xs {
		s[i] = strconv.Itoa(x)
	}
	return List(s)
}

func Pair(a, b string) string { return "(" + a + ", " + b + ")" }

func PairList(xs [][2]int) string {
	s := make([]string, len(xs))
	for i, x := range xs {
		s[i] = fmt.Sprintf("(%d, %d)", x[0], x[1])
	}
	return List(s)
}

func OptNat(ok bool, n int) string {
	if !ok {
		return "None"
	}
	return fmt.Sprintf("(Some %d)", n)
}

// Hex renders bytes as a Coq string literal holding lower-case hex; the Coq
// side decodes it with Base.Hex.unhex.
func Hex(b []byte) string { return "\"" + hex.EncodeToString(b) + "\"" }

// Str renders a printable ASCII string as a Coq string literal; anything else
// must go through Hex.
func Str(s string) string { return "\"" + strings.ReplaceAll(s, "\"", "\"\"") + "\"" }

func App(f string, args ...string) string {
	return "(" + f + " " + strings.Join(args, " ") + ")"
}
