package lib

import (
	"sync"
	"sync/atomic"
	"time"
)

// Sched is the harness side of the verif schedule points: it is installed with
// onet.SetVerifHook / network.SetVerifHook, records every point reached and can
// hold a goroutine at a point until the harness releases it.
type Sched struct {
	mu    sync.Mutex
	seq   int64
	trace []SchedEvent
	gates []*Gate
	// Record, when set, is called (outside the lock) for every point reached.
	Record func(seq int64, point string, args []interface{})
}

// SchedEvent is one schedule point reached.
type SchedEvent struct {
	Seq   int64
	Point string
	Args  []interface{}
}

// Gate holds goroutines that reach a matching schedule point.
type Gate struct {
	point   string
	match   func(args []interface{}) bool
	max     int // number of arrivals to hold (0 = all)
	held    int
	hit     chan struct{}
	release chan struct{}
	once    sync.Once
	removed bool
	s       *Sched
}

// NewSched returns an empty scheduler.
func NewSched() *Sched { return &Sched{} }

// Hook is the function to install as the verif hook.
func (s *Sched) Hook(point string, args ...interface{}) {
	seq := atomic.AddInt64(&s.seq, 1)
	s.mu.Lock()
	s.trace = append(s.trace, SchedEvent{seq, point, args})
	var g *Gate
	for _, c := range s.gates {
		if c.removed || c.point != point {
			continue
		}
		if c.max > 0 && c.held >= c.max {
			continue
		}
		if c.match == nil || c.match(args) {
			c.held++
			g = c
			break
		}
	}
	rec := s.Record
	s.mu.Unlock()
	if rec != nil {
		rec(seq, point, args)
	}
	if g != nil {
		select {
		case g.hit <- struct{}{}:
		default:
		}
		<-g.release
	}
}

// Block makes the next max (0 = all) goroutines reaching point with matching
// args wait until the gate is released.
func (s *Sched) Block(point string, max int, match func(args []interface{}) bool) *Gate {
	g := &Gate{point: point, match: match, max: max, hit: make(chan struct{}, 64), release: make(chan struct{}), s: s}
	s.mu.Lock()
	s.gates = append(s.gates, g)
	s.mu.Unlock()
	return g
}

// WaitHit waits until a goroutine is held at the gate.
func (g *Gate) WaitHit(d time.Duration) bool {
	select {
	case <-g.hit:
		return true
	case <-time.After(d):
		return false
	}
}

// Release lets every held goroutine continue and disables the gate.
func (g *Gate) Release() {
	g.once.Do(func() {
		g.s.mu.Lock()
		g.removed = true
		g.s.mu.Unlock()
		close(g.release)
	})
}

// ReleaseAll releases every gate (used in clean-up paths).
func (s *Sched) ReleaseAll() {
	s.mu.Lock()
	gs := append([]*Gate(nil), s.gates...)
	s.mu.Unlock()
	for _, g := range gs {
		g.Release()
	}
}

// Trace returns a copy of the recorded points.
func (s *Sched) Trace() []SchedEvent {
	s.mu.Lock()
	defer s.mu.Unlock()
	return append([]SchedEvent(nil), s.trace...)
}

// Count returns how many times point was reached.
func (s *Sched) Count(point string) int {
	s.mu.Lock()
	defer s.mu.Unlock()
	n := 0
	for _, e := range s.trace {
		if e.Point == point {
			n++
		}
	}
	return n
}
