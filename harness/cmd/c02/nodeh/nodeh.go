// Package nodeh runs "scenarios" against real onet TreeNodeInstances: a tree
// over a small in-process cluster (onet.NewLocalTest), one or more protocol
// instances on chosen nodes, and a list of injected protocol messages whose
// claimed sender token, envelope peer identity, wire ServerIdentity field,
// message type and injection route are all chosen by the scenario.
//
// It is shared by the C02 (sender authentication) and C04 (aggregation)
// harnesses.  Because a nil dereference in an instance's dispatch goroutine
// kills the whole process, scenarios are executed in worker sub-processes
// (the harness binary re-executed with "-nodeh-child"); the parent reads the
// deliveries the worker streams on fd 3 and learns a crash from the worker's
// death.
package nodeh

import (
	"bufio"
	"encoding/json"
	"fmt"
	"io/ioutil"
	"os"
	"os/exec"
	"regexp"
	"strings"
	"sync"
	"sync/atomic"
	"time"

	"github.com/google/uuid"
	"go.dedis.ch/kyber/v3/suites"
	"go.dedis.ch/onet/v3"
	"go.dedis.ch/onet/v3/log"
	"go.dedis.ch/onet/v3/network"
)

// ---------------------------------------------------------------- scenario --

// Message types of the harness protocol.  The registration kind is a
// property of the type.
const (
	TFence = 0 // handler, single   (used by the harness to know "everything before has been dispatched")
	TH1    = 1 // handler, single
	THA    = 2 // handler, aggregated (slice)
	TC1    = 3 // channel, single
	TCA    = 4 // channel, aggregated (slice)
	THA2   = 5 // second aggregated handler type
	TCA2   = 6 // second aggregated channel type
	TNone  = 7 // registered on the network but neither handler nor channel in the protocol
	TCB1   = 8 // channel, aggregated, RegisterChannelLength(.., 1)
	TCB2   = 9 // channel, aggregated, RegisterChannelLength(.., 2)
	NTypes = 10
)

// Claimed sender codes (Msg.From); values >= 0 are DFS positions in the tree.
const (
	FromAbsent    = -1 // From token nil
	FromRandom    = -2 // random TreeNodeID
	FromOtherTree = -3 // id of a node of another tree (hosted by the outsider server)
	FromNonMember = -4 // id of the node a cluster server that is not in this tree would have
)

// Peer codes (Msg.Peer); values >= 0 are cluster server indices.
const (
	PeerNone  = -1 // nil identity: in-process injection
	PeerNoKey = -2 // identity without a public key
)

// PeerForger is a peer with a fresh key of its own that hosts no node (an
// attacker's router); it only makes sense together with a forged Decl.
const PeerForger = 7

// Declared-ID codes (Msg.Decl): the deprecated, self-declared ID field of the
// identity on the envelope / in the connection handshake.
const (
	DeclConsistent = 0  // the id derived from the key (what NewServerIdentity writes)
	DeclZero       = -1 // all-zero ID
	DeclRandom     = -2 // random ID
	// k+1 (1..NServers): the ID value of server k's identity
)

// NServers is the size of the cluster; the last server never is in a tree ("outsider").
const NServers = 7

// Outsider is the index of the server that is never a tree member.
const Outsider = NServers - 1

// TreeSpec is a rose tree over cluster server indices.
type TreeSpec struct {
	Srv int        `json:"s"`
	Ch  []TreeSpec `json:"c,omitempty"`
}

// Msg is one injected protocol message.
type Msg struct {
	Inst      int    `json:"inst"`
	From      int    `json:"from"`
	OtherTree bool   `json:"other_tree,omitempty"` // From token carries a different TreeID
	Peer      int    `json:"peer"`
	Decl      int    `json:"decl,omitempty"` // declared ID field of the envelope identity (see DeclConsistent ...)
	Wire      int    `json:"wire"` // ServerIdentity field inside the wire message: -1 nil, else server index
	Type      int    `json:"type"`
	Payload   int64  `json:"payload"`
	Route     string `json:"route"` // process | transmit | conn
}

// Scenario is one execution: fresh instances (fresh round id) on the nodes Insts.
type Scenario struct {
	Tree  TreeSpec `json:"tree"`
	Insts []int    `json:"insts"`
	Msgs  []Msg    `json:"msgs"`
	// Net selects the cluster: "" / "local" = in-memory router connections,
	// "tcp" = servers listening on real TCP sockets (plain TCP, free ports).
	Net string `json:"net,omitempty"`
	// LateTree: the servers hosting the instances do not know the tree when the
	// first message arrives; they park it, request the tree from the envelope's
	// peer and dispatch the parked messages when the tree has arrived.
	LateTree bool `json:"late_tree,omitempty"`
	// Backlog: the protocol does not read its channels while the messages are
	// handed to the instance; only the LAST message is a fence.  The worker waits
	// until the dispatch of BlockAt messages has started (the point where the
	// unchanged code blocks in the channel send when BlockAt < number of
	// messages), then sends the fence and reads the channels until the fence
	// has come through.
	// Race: the first Race messages (route process or transmit) are handed to the overlay
	// CONCURRENTLY, each from its own goroutine as if they had arrived on different
	// connections, while the protocol constructor is slow: they race for the creation of
	// the instance.  The order in which they were accepted is read off the batch.
	Race    int  `json:"race,omitempty"`
	// ParkRace (with LateTree): messages 0 and 1 are two children's answers to a node that does not
	// know the tree.  The interleaving is forced with the overlay's schedule points: message 0 is
	// parked and the tree requested; message 1's tree lookup misses; only then the tree arrives and
	// the parked messages are flushed; only then message 1 is parked.
	ParkRace bool `json:"park_race,omitempty"`
	Backlog bool `json:"backlog,omitempty"`
	BlockAt int  `json:"block_at,omitempty"`
	// WaitMs overrides the deadline after which a fence is declared missing.
	WaitMs int `json:"wait_ms,omitempty"`
	// RosterRot: the RosterIndex values of the tree's nodes disagree with the order of the tree's
	// roster (public API: NewTreeNode(idx, si) does not check idx; NewTree(reorderedRoster, root)).
	// r > 0: the nodes are made for the roster in DFS order and the tree is stored with that roster
	// rotated by r (as after NewRosterWithRoot); r < 0: the roster keeps its order and every
	// hand-built node carries the index of the server -r places further.  The server hosting a
	// node is TreeNode.ServerIdentity in both cases; the model's tree has no roster order at all.
	RosterRot int `json:"roster_rot,omitempty"`
}

// Elem is one (node, message) pair seen by a handler or read from a channel.
type Elem struct {
	Node    int   `json:"node"` // DFS position of the *TreeNode in the instance's tree; -1 nil; -2 a node that is not in the tree
	Payload int64 `json:"payload"`
}

// Delivery is one handler call or one value read from a channel.
type Delivery struct {
	Inst  int    `json:"inst"`
	Type  int    `json:"type"`
	Agg   bool   `json:"agg"`
	Elems []Elem `json:"elems"`
}

// Node describes one tree node as built by the worker.
type Node struct {
	ID     int `json:"id"` // class of the real TreeNodeID (first appearance in DFS order)
	Srv    int `json:"srv"`
	Parent int `json:"parent"` // DFS position, -1 root
	NCh    int `json:"nch"`
}

// Result is what the parent learns about one scenario.
type Result struct {
	Nodes      []Node     `json:"nodes"`
	FromIDs    []int      `json:"from_ids"` // per message: id class of the claimed sender (-1 absent)
	Deliveries []Delivery `json:"deliveries"`
	Status     string     `json:"status"` // alive | crashed | hung | error
	Detail     string     `json:"detail,omitempty"`
}

// ------------------------------------------------------------------ worker --

type MsgFence struct{ P int64 }
type MsgH1 struct{ P int64 }
type MsgHA struct{ P int64 }
type MsgC1 struct{ P int64 }
type MsgCA struct{ P int64 }
type MsgHA2 struct{ P int64 }
type MsgCA2 struct{ P int64 }
type MsgNone struct{ P int64 }
type MsgCB1 struct{ P int64 }
type MsgCB2 struct{ P int64 }

// ConnFence travels on the same connection as a forged message (route conn);
// the router dispatches synchronously per connection, so when it arrives the
// forged message has been handed to the overlay.
type ConnFence struct{ Seq int64 }

const protoName = "VerifNodeH"

var suite = suites.MustFind("Ed25519")

type proto struct {
	*onet.TreeNodeInstance
	c1 chan struct {
		*onet.TreeNode
		MsgC1
	}
	ca chan []struct {
		*onet.TreeNode
		MsgCA
	}
	ca2 chan []struct {
		*onet.TreeNode
		MsgCA2
	}
	cb1 chan []struct {
		*onet.TreeNode
		MsgCB1
	}
	cb2 chan []struct {
		*onet.TreeNode
		MsgCB2
	}
	kept []keptBatch
}

// keptBatch is a batch a handler has kept: how to read it again, what it said when it was delivered
type keptBatch struct {
	again func() []Elem
	was   []Elem
}

type cluster struct {
	local     *onet.LocalTest
	servers   []*onet.Server
	tcp       bool
	forger    *network.ServerIdentity
	attackers []*network.Router
}

// envelopeIdentity builds the identity for peer code / declared-ID code.
func (c *cluster) envelopeIdentity(peer, decl int) *network.ServerIdentity {
	var base *network.ServerIdentity
	switch {
	case peer >= 0 && peer < NServers:
		base = c.servers[peer].ServerIdentity
	case peer == PeerForger:
		if c.forger == nil {
			_, c.forger = onet.NewPrivIdentity(suite, 2999)
		}
		base = c.forger
	case peer == PeerNoKey:
		base = &network.ServerIdentity{Address: "local://127.0.0.1:1"}
	default:
		return nil
	}
	if decl == DeclConsistent {
		return base
	}
	cp := *base
	switch {
	case decl >= 1 && decl <= NServers:
		cp.ID = c.servers[decl-1].ServerIdentity.ID
	case decl == DeclZero:
		cp.ID = network.ServerIdentityID{}
	default:
		cp.ID = network.ServerIdentityID(uuid.New())
	}
	return &cp
}

// attacker starts a router of its own whose handshake identity is id (TCP only).
func (c *cluster) attacker(id *network.ServerIdentity) (*network.Router, error) {
	if !c.tcp {
		return nil, fmt.Errorf("a forged handshake identity needs the tcp cluster")
	}
	cp := *id
	declared := cp.ID
	cp.Address = network.NewAddress(network.PlainTCP, "127.0.0.1:0")
	r, err := network.NewTCPRouter(&cp, suite)
	if err != nil {
		return nil, err
	}
	r.UnauthOk = true
	cp.ID = declared
	c.attackers = append(c.attackers, r)
	return r, nil
}

func (c *cluster) stopAttackers() {
	for _, r := range c.attackers {
		r.Stop()
	}
	c.attackers = nil
}

type worker struct {
	local    *onet.LocalTest
	servers  []*onet.Server
	clusters map[string]*cluster
	out     *os.File

	mu      sync.Mutex
	protos  map[onet.RoundID]*proto
	instOf  map[onet.RoundID]int
	nodePos map[*onet.TreeNode]int
	fence   chan fenceEv
	cfence  chan int64
	trees   map[string]*builtTree
}

type fenceEv struct {
	p *proto
	e Elem
}

type builtTree struct {
	nodes     []*onet.TreeNode
	info      []Node
	roster    *onet.Roster
	tree      *onet.Tree
	otherTree *onet.Tree
	idclass   map[onet.TreeNodeID]int
	inTree    map[int]bool
}

var w *worker

func (w *worker) emit(v interface{}) {
	b, _ := json.Marshal(v)
	b = append(b, '\n')
	w.out.Write(b)
}

type line struct {
	D     *Delivery `json:"d,omitempty"`
	Setup *Result   `json:"setup,omitempty"`
	End   string    `json:"end,omitempty"`
	Det   string    `json:"detail,omitempty"`
}

// pos is the depth-first position of tn in the tree of the instance that
// received it (-1 nil, -2 not a node of that tree).
func (w *worker) pos(p *proto, tn *onet.TreeNode) int {
	if tn == nil {
		return -1
	}
	for i, n := range p.List() {
		if n == tn {
			return i
		}
	}
	return -2
}

func (w *worker) inst(p *proto) int {
	w.mu.Lock()
	defer w.mu.Unlock()
	if i, ok := w.instOf[p.Token().RoundID]; ok {
		return i
	}
	return -1
}

func (w *worker) deliver(p *proto, typ int, agg bool, elems []Elem) {
	w.emit(line{D: &Delivery{Inst: w.inst(p), Type: typ, Agg: agg, Elems: elems}})
}

func newProto(tni *onet.TreeNodeInstance) (onet.ProtocolInstance, error) {
	if d := time.Duration(atomic.LoadInt64(&slowCtor)); d > 0 {
		time.Sleep(d) // NewProtocol of a real service takes its time, too
	}
	p := &proto{TreeNodeInstance: tni}
	if err := p.RegisterChannelsLength(100, &p.c1, &p.ca, &p.ca2); err != nil {
		return nil, err
	}
	if err := p.RegisterChannelLength(&p.cb1, 1); err != nil {
		return nil, err
	}
	if err := p.RegisterChannelLength(&p.cb2, 2); err != nil {
		return nil, err
	}
	err := p.RegisterHandlers(
		func(m struct {
			*onet.TreeNode
			MsgFence
		}) error {
			// reported by the main loop after the channels have been drained
			w.fence <- fenceEv{p, Elem{w.pos(p, m.TreeNode), m.P}}
			return nil
		},
		func(m struct {
			*onet.TreeNode
			MsgH1
		}) error {
			w.deliver(p, TH1, false, []Elem{{w.pos(p, m.TreeNode), m.P}})
			return nil
		},
		func(ms []struct {
			*onet.TreeNode
			MsgHA
		}) error {
			var es []Elem
			for _, m := range ms {
				es = append(es, Elem{w.pos(p, m.TreeNode), m.P})
			}
			w.deliver(p, THA, true, es)
			// the handler KEEPS the batch it was given (protocols combine the answers of several
			// rounds later); at every fence it is read again and must still say the same
			w.mu.Lock()
			p.kept = append(p.kept, keptBatch{again: func() []Elem {
				var es2 []Elem
				for _, m := range ms {
					es2 = append(es2, Elem{w.pos(p, m.TreeNode), m.P})
				}
				return es2
			}, was: es})
			w.mu.Unlock()
			return nil
		},
		func(ms []struct {
			*onet.TreeNode
			MsgHA2
		}) error {
			var es []Elem
			for _, m := range ms {
				es = append(es, Elem{w.pos(p, m.TreeNode), m.P})
			}
			w.deliver(p, THA2, true, es)
			return nil
		})
	if err != nil {
		return nil, err
	}
	w.mu.Lock()
	w.protos[tni.Token().RoundID] = p
	w.mu.Unlock()
	return p, nil
}

// Start is never used: instances are created by incoming messages.
func (p *proto) Start() error { return nil }

// drain reads whatever sits in the instance's channels (in a fixed order).
func (w *worker) drain(p *proto) {
	// batches the aggregated handler kept: a batch whose content has changed since it was delivered
	// is reported as what it is now -- a delivery nobody is due
	w.mu.Lock()
	kept := p.kept
	w.mu.Unlock()
	for i := range kept {
		now := kept[i].again()
		same := len(now) == len(kept[i].was)
		for j := 0; same && j < len(now); j++ {
			same = now[j] == kept[i].was[j]
		}
		if !same {
			w.deliver(p, THA, true, now)
			w.mu.Lock()
			p.kept[i].was = now
			w.mu.Unlock()
		}
	}
	for {
		select {
		case m := <-p.c1:
			w.deliver(p, TC1, false, []Elem{{w.pos(p, m.TreeNode), m.P}})
			continue
		case ms := <-p.ca:
			var es []Elem
			for _, m := range ms {
				es = append(es, Elem{w.pos(p, m.TreeNode), m.P})
			}
			w.deliver(p, TCA, true, es)
			continue
		case ms := <-p.ca2:
			var es []Elem
			for _, m := range ms {
				es = append(es, Elem{w.pos(p, m.TreeNode), m.P})
			}
			w.deliver(p, TCA2, true, es)
			continue
		case ms := <-p.cb1:
			var es []Elem
			for _, m := range ms {
				es = append(es, Elem{w.pos(p, m.TreeNode), m.P})
			}
			w.deliver(p, TCB1, true, es)
			continue
		case ms := <-p.cb2:
			var es []Elem
			for _, m := range ms {
				es = append(es, Elem{w.pos(p, m.TreeNode), m.P})
			}
			w.deliver(p, TCB2, true, es)
			continue
		default:
		}
		return
	}
}

type cfProc struct{}

func (cfProc) Process(env *network.Envelope) {
	if m, ok := env.Msg.(*ConnFence); ok {
		w.cfence <- m.Seq
	}
}

func mkMsg(typ int, p int64) interface{} {
	switch typ {
	case TFence:
		return &MsgFence{p}
	case TH1:
		return &MsgH1{p}
	case THA:
		return &MsgHA{p}
	case TC1:
		return &MsgC1{p}
	case TCA:
		return &MsgCA{p}
	case THA2:
		return &MsgHA2{p}
	case TCA2:
		return &MsgCA2{p}
	case TCB1:
		return &MsgCB1{p}
	case TCB2:
		return &MsgCB2{p}
	default:
		return &MsgNone{p}
	}
}

var waitFor = 20 * time.Second

// slowCtor (nanoseconds): how long the protocol constructor takes (Race scenarios)
var slowCtor int64

func (w *worker) run(sc *Scenario) {
	res := Result{}
	waitFor = 20 * time.Second
	if sc.WaitMs > 0 {
		waitFor = time.Duration(sc.WaitMs) * time.Millisecond
	}
	// ---- cluster
	net := sc.Net
	if net == "" {
		net = "local"
	}
	cl := w.clusters[net]
	if cl == nil {
		if net != "tcp" {
			w.emit(line{End: "error", Det: "unknown net"})
			return
		}
		cl = newCluster(onet.NewTCPTest(suite))
		cl.tcp = true
		w.clusters[net] = cl
	}
	w.local, w.servers = cl.local, cl.servers
	defer cl.stopAttackers()
	// ---- tree (built once per shape; registered again for every scenario)
	key, _ := json.Marshal(sc.Tree)
	key = append(key, net...)
	key = append(key, fmt.Sprintf("/rot%d", sc.RosterRot)...)
	bt := w.trees[string(key)]
	if sc.LateTree {
		bt = nil // a tree nobody has seen yet
	}
	if bt == nil {
		bt = &builtTree{idclass: map[onet.TreeNodeID]int{}, inTree: map[int]bool{}}
		var sis []*network.ServerIdentity
		ridx := map[int]int{}
		var collect func(t *TreeSpec)
		collect = func(t *TreeSpec) {
			if _, ok := ridx[t.Srv]; !ok {
				ridx[t.Srv] = len(sis)
				sis = append(sis, w.servers[t.Srv].ServerIdentity)
				bt.inTree[t.Srv] = true
			}
			for i := range t.Ch {
				collect(&t.Ch[i])
			}
		}
		collect(&sc.Tree)
		if n := len(sis); sc.RosterRot > 0 && n > 0 {
			rot := make([]*network.ServerIdentity, n)
			for i := range sis {
				rot[i] = sis[(i+sc.RosterRot)%n]
			}
			sis = rot
		} else if sc.RosterRot < 0 && n > 0 {
			for s, i := range ridx {
				ridx[s] = (i + (-sc.RosterRot)) % n
			}
		}
		if sc.LateTree {
			// an extra roster member that hosts no node makes roster id and tree id fresh
			_, extra := onet.NewPrivIdentity(suite, 9999)
			sis = append(sis, extra)
		}
		bt.roster = onet.NewRoster(sis)
		var build func(t *TreeSpec, parent int) *onet.TreeNode
		build = func(t *TreeSpec, parent int) *onet.TreeNode {
			tn := onet.NewTreeNode(ridx[t.Srv], w.servers[t.Srv].ServerIdentity)
			if _, ok := bt.idclass[tn.ID]; !ok {
				bt.idclass[tn.ID] = len(bt.idclass)
			}
			me := len(bt.nodes)
			bt.nodes = append(bt.nodes, tn)
			bt.info = append(bt.info, Node{ID: bt.idclass[tn.ID], Srv: t.Srv, Parent: parent, NCh: len(t.Ch)})
			for i := range t.Ch {
				tn.AddChild(build(&t.Ch[i], me))
			}
			return tn
		}
		root := build(&sc.Tree, -1)
		bt.tree = onet.NewTree(bt.roster, root)
		// a second tree, rooted at the outsider, for "node of another tree"
		otherRoster := onet.NewRoster([]*network.ServerIdentity{w.servers[Outsider].ServerIdentity, w.servers[sc.Tree.Srv].ServerIdentity})
		bt.otherTree = otherRoster.GenerateBinaryTree()
		if !sc.LateTree {
			w.trees[string(key)] = bt
		}
	}
	nodes, roster, tree, otherTree := bt.nodes, bt.roster, bt.tree, bt.otherTree
	res.Nodes = bt.info
	idclass := map[onet.TreeNodeID]int{}
	for k, v := range bt.idclass {
		idclass[k] = v
	}
	w.mu.Lock()
	w.nodePos = map[*onet.TreeNode]int{}
	for i, n := range nodes {
		w.nodePos[n] = i
	}
	w.instOf = map[onet.RoundID]int{}
	w.protos = map[onet.RoundID]*proto{}
	w.mu.Unlock()
	if sc.LateTree {
		hosts := map[network.ServerIdentityID]bool{}
		for _, me := range sc.Insts {
			if me >= 0 && me < len(nodes) {
				hosts[nodes[me].ServerIdentity.ID] = true
			}
		}
		for _, s := range w.servers {
			if !hosts[s.ServerIdentity.ID] {
				w.local.Overlays[s.ServerIdentity.ID].RegisterTree(tree)
			}
		}
	} else {
		for _, me := range sc.Insts {
			if me >= 0 && me < len(nodes) {
				w.local.Overlays[nodes[me].ServerIdentity.ID].RegisterTree(tree)
			}
		}
	}
	// the receivers also KNOW the second tree (another run, another service): a sender token may
	// name it (Msg.OtherTree); the outsider and the root's server host its two nodes
	for _, me := range sc.Insts {
		if me >= 0 && me < len(nodes) {
			w.local.Overlays[nodes[me].ServerIdentity.ID].RegisterTree(otherTree)
		}
	}

	// ---- instances
	protoID := onet.ProtocolNameToID(protoName)
	toks := make([]*onet.Token, len(sc.Insts))
	for k, me := range sc.Insts {
		if me < 0 || me >= len(nodes) {
			w.emit(line{End: "error", Det: "instance position outside the tree"})
			return
		}
		toks[k] = &onet.Token{RosterID: roster.ID, TreeID: tree.ID, ProtoID: protoID,
			RoundID: onet.RoundID(uuid.New()), TreeNodeID: nodes[me].ID}
		w.mu.Lock()
		w.instOf[toks[k].RoundID] = k
		w.mu.Unlock()
	}
	// ---- claimed sender ids
	fresh := len(idclass)
	claimed := make([]*onet.TreeNodeID, len(sc.Msgs))
	for i, m := range sc.Msgs {
		var id onet.TreeNodeID
		switch {
		case m.From >= 0 && m.From < len(nodes):
			id = nodes[m.From].ID
		case m.From == FromAbsent:
			res.FromIDs = append(res.FromIDs, -1)
			continue
		case m.From == FromRandom:
			id = onet.TreeNodeID(uuid.New())
		case m.From == FromOtherTree:
			id = otherTree.Root.ID
		case m.From == FromNonMember:
			id = onet.NewTreeNode(0, w.servers[Outsider-1].ServerIdentity).ID
			for s := 0; s < Outsider; s++ {
				if !bt.inTree[s] {
					id = onet.NewTreeNode(0, w.servers[s].ServerIdentity).ID
					break
				}
			}
		default:
			w.emit(line{End: "error", Det: "bad claimed sender"})
			return
		}
		if _, ok := idclass[id]; !ok {
			idclass[id] = fresh
			fresh++
		}
		res.FromIDs = append(res.FromIDs, idclass[id])
		idc := id
		claimed[i] = &idc
	}
	w.emit(line{Setup: &res})

	status := "alive"
	detail := ""
	seq := int64(0)
	atomic.StoreInt64(&slowCtor, 0)
	skip := sc.Race
	if sc.ParkRace && sc.LateTree && len(sc.Msgs) >= 2 && len(sc.Insts) > 0 {
		skip = 2
		target := w.servers[res.Nodes[sc.Insts[0]].Srv]
		ov := w.local.Overlays[target.ServerIdentity.ID]
		bMissed, flushed := make(chan struct{}), make(chan struct{})
		var misses, flushes int32
		onet.SetVerifHook(func(point string, args ...interface{}) {
			if len(args) == 0 {
				return
			}
			if o, ok := args[0].(*onet.Overlay); !ok || o != ov {
				return
			}
			if len(args) > 1 {
				// events about a tree: only the scenario's tree counts (the receiver also learns the second tree)
				if t, ok := args[1].(*onet.Tree); ok && (t == nil || !t.ID.Equal(tree.ID)) {
					return
				}
			}
			switch point {
			case "overlay.treeMiss":
				if atomic.AddInt32(&misses, 1) == 2 {
					close(bMissed) // the second answer has looked the tree up in vain ...
					select {
					case <-flushed: // ... and goes on only when the tree has arrived and the flush is over
					case <-time.After(waitFor):
					}
				}
			case "overlay.treeArriveTested":
				select {
				case <-bMissed:
				case <-time.After(waitFor):
				}
			case "overlay.flushDone":
				if atomic.AddInt32(&flushes, 1) == 1 {
					close(flushed)
				}
			}
		})
		inject := func(i int) bool {
			m := sc.Msgs[i]
			if claimed[i] == nil || m.Inst != 0 {
				return false
			}
			to := toks[0]
			body := mkMsg(m.Type, m.Payload)
			buf, err := network.Marshal(body)
			if err != nil {
				return false
			}
			pm := &onet.ProtocolMsg{From: to.ChangeTreeNodeID(*claimed[i]), To: to, MsgSlice: buf, MsgType: network.MessageType(body)}
			ov.Process(&network.Envelope{ServerIdentity: cl.envelopeIdentity(m.Peer, m.Decl), MsgType: onet.ProtocolMsgID, Msg: pm, Size: 1})
			return true
		}
		okA := inject(0)
		done := make(chan bool, 1)
		go func() { done <- inject(1) }()
		st, det := "", ""
		select {
		case okB := <-done:
			if !okA || !okB {
				st, det = "error", "bad park-race scenario"
			}
		case <-time.After(2 * waitFor):
			st, det = "hung", "the second answer did not come back from the overlay"
		}
		onet.SetVerifHook(func(string, ...interface{}) {})
		if st != "" {
			w.emit(line{End: st, Det: det})
			return
		}
		// both answers are with the overlay and the tree is known: give the instance the time it needs
		// (it is created by the flush); if nothing comes, the fence below says so
		for k := 0; k < 5000; k++ {
			if p := w.anyProto(); p != nil && p.Rx() >= 2 {
				break
			}
			time.Sleep(time.Millisecond)
		}
	}
	if sc.Race > 0 && sc.Race <= len(sc.Msgs) {
		atomic.StoreInt64(&slowCtor, int64(30*time.Millisecond))
		var wg sync.WaitGroup
		bad := false
		for i := 0; i < sc.Race; i++ {
			m := sc.Msgs[i]
			if m.Inst < 0 || m.Inst >= len(toks) || claimed[i] == nil || (m.Route != "process" && m.Route != "transmit") {
				bad = true
				break
			}
			to := toks[m.Inst]
			ov := w.local.Overlays[w.servers[res.Nodes[sc.Insts[m.Inst]].Srv].ServerIdentity.ID]
			from := to.ChangeTreeNodeID(*claimed[i])
			peer := cl.envelopeIdentity(m.Peer, m.Decl)
			body := mkMsg(m.Type, m.Payload)
			buf, err := network.Marshal(body)
			if err != nil {
				bad = true
				break
			}
			pm := &onet.ProtocolMsg{From: from, To: to, MsgSlice: buf, MsgType: network.MessageType(body)}
			wg.Add(1)
			go func() {
				defer wg.Done()
				ov.Process(&network.Envelope{ServerIdentity: peer, MsgType: onet.ProtocolMsgID, Msg: pm, Size: 1})
			}()
		}
		if bad {
			wg.Wait()
			w.emit(line{End: "error", Det: "bad race scenario"})
			return
		}
		wg.Wait()
		atomic.StoreInt64(&slowCtor, 0)
	}
loop:
	for i, m := range sc.Msgs {
		if i < skip {
			continue // handed over above
		}
		if m.Inst < 0 || m.Inst >= len(toks) {
			status, detail = "error", "bad instance index"
			break
		}
		if sc.Backlog && m.Type == TFence {
			// everything before the fence has been handed over; wait until the instance has
			// started dispatching BlockAt of them (Rx counts one per message)
			if st, det := w.backlogWait(sc, i); st != "" {
				status, detail = st, det
				break loop
			}
		}
		to := toks[m.Inst]
		target := w.servers[res.Nodes[sc.Insts[m.Inst]].Srv]
		ov := w.local.Overlays[target.ServerIdentity.ID]
		var from *onet.Token
		if claimed[i] != nil {
			from = to.ChangeTreeNodeID(*claimed[i])
			if m.OtherTree {
				from.TreeID = otherTree.ID
			}
		}
		peer := cl.envelopeIdentity(m.Peer, m.Decl)
		var wire *network.ServerIdentity
		if m.Wire >= 0 && m.Wire < NServers {
			wire = w.servers[m.Wire].ServerIdentity
		}
		body := mkMsg(m.Type, m.Payload)
		switch m.Route {
		case "transmit":
			pm := &onet.ProtocolMsg{From: from, To: to, ServerIdentity: peer, Msg: body, MsgType: network.MessageType(body), Size: 1}
			_ = ov.TransmitMsg(pm, nil)
		case "process", "conn":
			buf, err := network.Marshal(body)
			if err != nil {
				status, detail = "hung", "marshal failed: "+err.Error()
				break loop
			}
			pm := &onet.ProtocolMsg{From: from, To: to, ServerIdentity: wire, MsgSlice: buf, MsgType: network.MessageType(body)}
			if m.Route == "process" {
				ov.Process(&network.Envelope{ServerIdentity: peer, MsgType: onet.ProtocolMsgID, Msg: pm, Size: 1})
			} else {
				type sender interface {
					Send(e *network.ServerIdentity, msgs ...network.Message) (uint64, error)
				}
				var src sender
				if m.Peer == PeerForger || m.Decl != DeclConsistent {
					if peer == nil || peer.Public == nil {
						status, detail = "error", "route conn with a forged identity needs a key"
						break loop
					}
					r, err := cl.attacker(peer)
					if err != nil {
						status, detail = "error", "attacker router: "+err.Error()
						break loop
					}
					src = r
				} else {
					if m.Peer < 0 || m.Peer >= NServers || w.servers[m.Peer] == target {
						status, detail = "error", "route conn needs a peer server different from the target"
						break loop
					}
					src = w.servers[m.Peer]
				}
				if _, err := src.Send(target.ServerIdentity, pm); err != nil {
					status, detail = "hung", "send failed: "+err.Error()
					break loop
				}
				seq++
				if _, err := src.Send(target.ServerIdentity, &ConnFence{seq}); err != nil {
					status, detail = "hung", "send of the connection fence failed: "+err.Error()
					break loop
				}
				select {
				case s := <-w.cfence:
					if s != seq {
						status, detail = "hung", "connection fence out of order"
						break loop
					}
				case <-time.After(waitFor):
					status, detail = "hung", "connection fence not received"
					break loop
				}
			}
		default:
			status, detail = "error", "bad route"
			break loop
		}
		if m.Type == TFence && sc.Backlog {
			if st, det := w.backlogRead(m.Payload); st != "" {
				status, detail = st, det
				break loop
			}
		} else if m.Type == TFence {
			var fe fenceEv
			timeout := time.After(waitFor)
		waitFence:
			for {
				select {
				case fe = <-w.fence:
					if fe.e.Payload == m.Payload {
						break waitFence
					}
					// a fence nobody is waiting for (delivered twice, or late): it is an observation
					w.deliver(fe.p, TFence, false, []Elem{fe.e})
				case <-timeout:
					status, detail = "hung", fmt.Sprintf("fence after message %d not delivered", i-1)
					break loop
				}
			}
			w.mu.Lock()
			var ps []*proto
			for _, p := range w.protos {
				ps = append(ps, p)
			}
			w.mu.Unlock()
			for k := range toks {
				for _, p := range ps {
					if p.Token().RoundID == toks[k].RoundID {
						w.drain(p)
					}
				}
			}
			w.deliver(fe.p, TFence, false, []Elem{fe.e})
		}
	}
	w.mu.Lock()
	var ps []*proto
	for _, p := range w.protos {
		ps = append(ps, p)
	}
	w.mu.Unlock()
	if status != "hung" {
		for _, p := range ps {
			p.Done()
		}
	}
	w.emit(line{End: status, Det: detail})
}

func (w *worker) anyProto() *proto {
	w.mu.Lock()
	defer w.mu.Unlock()
	for _, p := range w.protos {
		return p
	}
	return nil
}

// backlogWait: n messages have been handed to the (single) instance, none read.
func (w *worker) backlogWait(sc *Scenario, n int) (string, string) {
	p := w.anyProto()
	if p == nil || n == 0 {
		return "", ""
	}
	want := sc.BlockAt
	if want <= 0 || want > n {
		want = n
	}
	deadline := time.Now().Add(waitFor)
	for int(p.Rx()) < want {
		if time.Now().After(deadline) {
			return "hung", fmt.Sprintf("only %d of %d messages reached dispatchMsgToProtocol", p.Rx(), want)
		}
		time.Sleep(time.Millisecond)
	}
	// grace: an implementation that does not wait for the reader runs on from here
	for k := 0; k < 30 && int(p.Rx()) < n; k++ {
		time.Sleep(time.Millisecond)
	}
	return "", ""
}

// backlogRead: the protocol starts reading; it reads whatever comes until the fence has come through.
func (w *worker) backlogRead(payload int64) (string, string) {
	p := w.anyProto()
	if p == nil {
		return "hung", "no instance was created for the messages handed over"
	}
	batch := func(typ int, n int, at func(i int) (*onet.TreeNode, int64)) {
		var es []Elem
		for i := 0; i < n; i++ {
			tn, pl := at(i)
			es = append(es, Elem{w.pos(p, tn), pl})
		}
		w.deliver(p, typ, true, es)
	}
	for {
		select {
		case fe := <-w.fence:
			if fe.e.Payload != payload {
				w.deliver(fe.p, TFence, false, []Elem{fe.e})
				continue
			}
			w.drain(fe.p)
			w.deliver(fe.p, TFence, false, []Elem{fe.e})
			return "", ""
		case ms := <-p.cb1:
			batch(TCB1, len(ms), func(i int) (*onet.TreeNode, int64) { return ms[i].TreeNode, ms[i].P })
		case ms := <-p.cb2:
			batch(TCB2, len(ms), func(i int) (*onet.TreeNode, int64) { return ms[i].TreeNode, ms[i].P })
		case ms := <-p.ca:
			batch(TCA, len(ms), func(i int) (*onet.TreeNode, int64) { return ms[i].TreeNode, ms[i].P })
		case ms := <-p.ca2:
			batch(TCA2, len(ms), func(i int) (*onet.TreeNode, int64) { return ms[i].TreeNode, ms[i].P })
		case m := <-p.c1:
			w.deliver(p, TC1, false, []Elem{{w.pos(p, m.TreeNode), m.P}})
		case <-time.After(waitFor):
			return "hung", "the fence behind the backlog did not come through"
		}
	}
}

// ChildMain is the entry point of a worker process.
func ChildMain() {
	out := os.NewFile(3, "results")
	log.SetDebugVisible(0)
	if _, err := onet.GlobalProtocolRegister(protoName, newProto); err != nil {
		panic(err)
	}
	network.RegisterMessages(&MsgFence{}, &MsgH1{}, &MsgHA{}, &MsgC1{}, &MsgCA{}, &MsgHA2{}, &MsgCA2{}, &MsgNone{}, &MsgCB1{}, &MsgCB2{}, &ConnFence{})
	w = &worker{out: out, trees: map[string]*builtTree{}, fence: make(chan fenceEv, 1000), cfence: make(chan int64, 1000),
		protos: map[onet.RoundID]*proto{}, instOf: map[onet.RoundID]int{}, nodePos: map[*onet.TreeNode]int{}, clusters: map[string]*cluster{}}
	w.clusters["local"] = newCluster(onet.NewLocalTest(suite))
	w.emit(line{End: "ready"})
	in := bufio.NewReaderSize(os.Stdin, 1<<20)
	for {
		l, err := in.ReadBytes('\n')
		if len(l) > 1 {
			var sc Scenario
			if e := json.Unmarshal(l, &sc); e != nil {
				w.emit(line{End: "error", Det: "bad scenario: " + e.Error()})
			} else {
				w.run(&sc)
			}
		}
		if err != nil {
			break
		}
	}
	for _, c := range w.clusters {
		c.local.CloseAll()
	}
	os.Exit(0)
}

func newCluster(local *onet.LocalTest) *cluster {
	local.Check = onet.CheckNone
	c := &cluster{local: local, servers: local.GenServers(NServers)}
	cfID := network.MessageType(&ConnFence{})
	for _, s := range c.servers {
		s.RegisterProcessor(cfProc{}, cfID)
	}
	return c
}

// ------------------------------------------------------------------ parent --

type child struct {
	cmd    *exec.Cmd
	in     *os.File
	out    *bufio.Reader
	outf   *os.File
	errf   *os.File
	ready  chan bool
	isDead bool
}

// Pool keeps warm worker processes.
type Pool struct {
	// Hung counts scenarios that ran into a deadline; after a few of them the
	// deadline is shortened so that a wedged implementation does not eat the time budget.
	Hung      int
	LateDeath int // workers found dead between two scenarios
	spares    chan *child
	cur    *child
	all    []*child
	mu     sync.Mutex
	closed bool
}

func spawn() *child {
	inR, inW, _ := os.Pipe()
	outR, outW, _ := os.Pipe()
	errf, _ := ioutil.TempFile("", "nodeh-stderr")
	cmd := exec.Command(os.Args[0], "-nodeh-child")
	cmd.Stdin = inR
	cmd.Stdout = errf
	cmd.Stderr = errf
	cmd.ExtraFiles = []*os.File{outW}
	c := &child{cmd: cmd, in: inW, out: bufio.NewReaderSize(outR, 1<<20), outf: outR, errf: errf, ready: make(chan bool, 1)}
	if err := cmd.Start(); err != nil {
		panic(err)
	}
	inR.Close()
	outW.Close()
	go func() {
		l, err := c.out.ReadBytes('\n')
		c.ready <- err == nil && strings.Contains(string(l), "ready")
	}()
	return c
}

// NewPool starts n warm workers.
func NewPool(n int) *Pool {
	p := &Pool{spares: make(chan *child, n)}
	for i := 0; i < n; i++ {
		p.add()
	}
	return p
}

func (p *Pool) add() {
	p.mu.Lock()
	if p.closed {
		p.mu.Unlock()
		return
	}
	c := spawn()
	p.all = append(p.all, c)
	p.mu.Unlock()
	p.spares <- c
}

func (c *child) kill() {
	c.in.Close()
	if !c.isDead {
		c.cmd.Process.Kill()
	}
	c.cmd.Wait()
	c.outf.Close()
	c.errf.Close()
	os.Remove(c.errf.Name())
	c.isDead = true
}

// Close ends all workers.
func (p *Pool) Close() {
	p.mu.Lock()
	all := p.all
	p.all = nil
	p.closed = true
	p.mu.Unlock()
	for _, c := range all {
		if !c.isDead {
			c.in.Close()
			done := make(chan bool, 1)
			go func(c *child) { c.cmd.Wait(); done <- true }(c)
			select {
			case <-done:
			case <-time.After(3 * time.Second):
				c.cmd.Process.Kill()
				<-done
			}
			c.outf.Close()
			c.errf.Close()
			os.Remove(c.errf.Name())
			c.isDead = true
		}
	}
}

var framePat = regexp.MustCompile(`onet/v3\.\(\*?[A-Za-z]+\)\.[A-Za-z]+|onet/v3\.[A-Za-z]+`)

func (c *child) crashDetail() string {
	b, _ := ioutil.ReadFile(c.errf.Name())
	s := string(b)
	i := strings.Index(s, "panic:")
	if i < 0 {
		if len(s) > 300 {
			s = s[len(s)-300:]
		}
		return "worker died: " + strings.TrimSpace(s)
	}
	s = s[i:]
	first := s
	if j := strings.Index(first, "\n"); j >= 0 {
		first = first[:j]
	}
	frames := framePat.FindAllString(s, 4)
	return first + " @ " + strings.Join(frames, " < ")
}

// Run executes one scenario in a worker; a worker that dies is replaced.
func (p *Pool) Run(sc *Scenario) Result {
	for p.cur == nil {
		c := <-p.spares
		if <-c.ready {
			p.cur = c
		} else {
			c.kill()
			go p.add()
		}
	}
	c := p.cur
	if p.Hung >= 5 && sc.WaitMs == 0 {
		cp := *sc
		cp.WaitMs = 2000
		sc = &cp
	}
	b, _ := json.Marshal(sc)
	b = append(b, '\n')
	res := Result{Status: "crashed"}
	if _, err := c.in.Write(b); err != nil {
		// the worker died after it had reported the end of the previous scenario: that is a
		// crash of the implementation which nobody has been told about yet
		p.LateDeath++
		det := "the worker died after the PREVIOUS scenario had been reported complete: " + c.crashDetail()
		c.kill()
		p.cur = nil
		go p.add()
		res = Result{Status: "crashed", Detail: det}
		fallbackSetup(sc, &res)
		return res
	}
	for {
		l, err := c.out.ReadBytes('\n')
		if err != nil {
			break
		}
		var ln line
		if e := json.Unmarshal(l, &ln); e != nil {
			res.Status, res.Detail = "error", "bad worker line"
			break
		}
		if ln.Setup != nil {
			res.Nodes, res.FromIDs = ln.Setup.Nodes, ln.Setup.FromIDs
		}
		if ln.D != nil {
			res.Deliveries = append(res.Deliveries, *ln.D)
		}
		if ln.End != "" {
			res.Status, res.Detail = ln.End, ln.Det
			if res.Status == "hung" {
				break // the worker is wedged: replace it
			}
			return res
		}
	}
	// worker died (or hung)
	if res.Status == "crashed" {
		c.cmd.Wait()
		c.isDead = true
		res.Detail = c.crashDetail()
	}
	if res.Status == "hung" {
		p.Hung++
	}
	c.kill()
	p.cur = nil
	go p.add()
	fallbackSetup(sc, &res)
	return res
}

// fallbackSetup fills in what the worker reports before it injects anything, for a worker
// that died (or wedged) even earlier: node ids derive from the server key, so the id classes
// are the servers in order of first appearance; unknown senders get fresh numbers.
func fallbackSetup(sc *Scenario, res *Result) {
	if len(res.Nodes) > 0 && len(res.FromIDs) == len(sc.Msgs) {
		return
	}
	res.Nodes, res.FromIDs = nil, nil
	class := map[int]int{}
	var walk func(t *TreeSpec, parent int)
	walk = func(t *TreeSpec, parent int) {
		if _, ok := class[t.Srv]; !ok {
			class[t.Srv] = len(class)
		}
		me := len(res.Nodes)
		res.Nodes = append(res.Nodes, Node{ID: class[t.Srv], Srv: t.Srv, Parent: parent, NCh: len(t.Ch)})
		for i := range t.Ch {
			walk(&t.Ch[i], me)
		}
	}
	walk(&sc.Tree, -1)
	fresh := len(class)
	for _, m := range sc.Msgs {
		switch {
		case m.From >= 0 && m.From < len(res.Nodes):
			res.FromIDs = append(res.FromIDs, res.Nodes[m.From].ID)
		case m.From == FromAbsent:
			res.FromIDs = append(res.FromIDs, -1)
		default:
			res.FromIDs = append(res.FromIDs, fresh)
			fresh++
		}
	}
}
