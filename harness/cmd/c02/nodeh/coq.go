package nodeh

import (
	"fmt"
	"strings"

	"verifharness/lib"
)

func coqTree(ns []Node, p int) string {
	var ch []string
	for i, n := range ns {
		if n.Parent == p {
			ch = append(ch, coqTree(ns, i))
		}
	}
	return fmt.Sprintf("T %d %d [%s]", ns[p].ID, ns[p].Srv, strings.Join(ch, "; "))
}

func coqPeer(p int) string {
	switch {
	case p == PeerNone:
		return "PNone"
	case p == PeerNoKey:
		return "PNoKey"
	}
	return fmt.Sprintf("(PKey %d)", p)
}

func coqDecl(d int) string {
	switch {
	case d == DeclConsistent:
		return "None"
	case d >= 1 && d <= NServers:
		return fmt.Sprintf("(Some %d)", d-1)
	case d == DeclZero:
		return "(Some 100)"
	}
	return "(Some 101)"
}

func coqOpt(v int) string {
	if v < 0 {
		return "None"
	}
	return fmt.Sprintf("(Some %d)", v)
}

// CoqCase renders scenario + result as a Corr.C02.case / Corr.C04.case literal
// (both files define the constructor functions C, I, D, E).
func CoqCase(sc *Scenario, r *Result) string {
	var msgs, obs []string
	for i, m := range sc.Msgs {
		msgs = append(msgs, fmt.Sprintf("I %d %s %s %s %s %s %d %d", m.Inst, coqPeer(m.Peer), coqDecl(m.Decl), coqOpt(r.FromIDs[i]),
			lib.Bool(m.OtherTree), coqOpt(m.Wire), m.Type, m.Payload))
	}
	for _, d := range r.Deliveries {
		var es []string
		for _, e := range d.Elems {
			node := "ONil"
			if e.Node == -2 {
				node = "OForeign"
			} else if e.Node >= 0 {
				node = fmt.Sprintf("(OPos %d)", e.Node)
			}
			es = append(es, fmt.Sprintf("E %s %d", node, e.Payload))
		}
		inst := d.Inst
		if inst < 0 {
			inst = 99 // a delivery to an instance the scenario does not know (left over, duplicated)
		}
		obs = append(obs, fmt.Sprintf("D %d %d %s [%s]", inst, d.Type, lib.Bool(d.Agg), strings.Join(es, "; ")))
	}
	fin := map[string]string{"alive": "FAlive", "crashed": "FCrashed", "hung": "FHung"}[r.Status]
	// an instance is named by the TreeNodeID of its To token
	toIDs := make([]int, len(sc.Insts))
	for k, me := range sc.Insts {
		toIDs[k] = r.Nodes[me].ID
	}
	return fmt.Sprintf("C (%s) %s [%s] [%s] %s", coqTree(r.Nodes, 0), lib.NatList(toIDs),
		strings.Join(msgs, "; "), strings.Join(obs, "; "), fin)
}
